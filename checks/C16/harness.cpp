// C16: flow::StateMachine (hierarchical FSM) against a reference interpreter.
//
// PROGRAMS  machine definitions, enumerated canonically by weight (all small machines first):
//           <=3 states (+ optionally user-defined terminal state 0), events {1,2} + any-event wildcard(0),
//           <=3 routes per state (event|any, target incl. terminal, guard in {none,true,false,flip-flop}),
//           optional per-state handlers (one for a specific event, one for "any"; return -1 or an existing
//           target), optional sub-machine per state (tree, nesting depth <= Dmax), optional explicit
//           setInitState(1) (states then registered in descending order), and the one-state machines whose
//           initial state does not exist (setInitState(7); setInitState(0) without a state 0): start() must
//           fail, as top machine and as sub-machine.  weight = #states + #routes + #guards + #handlers +
//           [explicit init] + [terminal defined] + weight of every sub-machine.  Canonical form: all states
//           reachable from the initial state and numbered in discovery order; first specific event is event 1.
//           Before its first newState() every machine is started once: must fail and leave nothing behind.
//           run(1) carries a payload pointer (Event::extra), run(2) uses the one-argument Event(id); every token
//           records the payload it saw and, for callbacks of sub-machines, the observers of every ancestor.
// LANES     (environment, one per process group; see check.py)
//           C16_TERM_LATE    terminal state 0 and setInitState issued AFTER states/routes/handlers
//           C16_BAD_HANDLER  declining handlers return 9 (names no state) instead of -1
//           C16_NULLS=1|2|3  enter/exit/route actions and the state-changed callback are nullptr / not set
//                            (1,2: complementary halves by parity; 3: all of them)
//           C16_TWO_PHASE    states only; start();stop() on every machine; then terminal state, routes,
//                            handlers, sub-machines, setInitState, callback (definition continues after a run)
//           C16_ENUM         every definition call, run() and observer goes through the templated enum overloads
//           C16_TWO_HANDLERS a state with a handler for event e also has a declining handler for the other event
//           C16_IDMAP        ids handed to the library are translated (states 1000, 7, INT_MAX; events 65537, -5):
//                            sparse, negative, first-registered/initial state is not the lowest key; model unchanged
//           C16_SHARE_SUB    states of one machine with equal sub-machine definitions share ONE instance
//                            (argv filter "share" selects the machines that have such a pair)
// HISTORIES per machine, breadth-first over call sequences {start, run(1), run(2), stop, restart} x
//           {plain, every action of the machine issues <inner call> on its own machine; inner calls are the five
//           life-cycle calls and "newState/addRoute/addEvent/setSubStateMachine with valid arguments"} + the op
//           "definition calls the reference rejects in any phase" (duplicate newState, unknown from/to state,
//           routes/handlers/sub-machine on a state 0 that was never created) on every machine (35 ops) + where the
//           hierarchy has a machine that cannot start: "setInitState(1) on those that are stopped" (a failed
//           start() followed by a successful one), depth L,
//           deduplicated on the observers of every machine of the hierarchy + guard flip-flop parity + ledger.
//           The same must-fail definition calls are issued once after every build.
//           EPILOGUE: every evaluated history (also the deduplicated and the depth-limit ones) is followed by
//           restart; stop on the outermost machine, then start(); stop() called directly on every other machine,
//           on the real hierarchy and the reference, judged by all oracles (hidden state that the key cannot see,
//           in any machine, must not change the future; the ledger is judged for every history).
// ORACLE    (1) reference interpreter (struct Ref) step by step: identical trace of guard evaluations,
//           handler calls, exit/route/enter actions, state-changed notifications (each token carries the
//           event id and currentState/lastState/nextState/isRunning/isTerminated as seen INSIDE the action),
//           identical return value, identical currentState/lastState/nextState/isRunning/isTerminated of
//           every machine of the hierarchy after every call;
//           (2) enter/exit ledger computed from the REAL trace alone: whenever the outermost machine is
//           stopped (also in the middle of restart()) every entered state has been exited exactly once;
//           never an exit without enter;
//           (3) re-entrant calls return false, emit nothing and leave all five observers unchanged;
//           (4) definition calls the reference rejects return false (and, by (1), change nothing).
//
// Readings (DESIGN.md 1.7 + pinned tests state_machine_test.cpp), each mirrored in struct Ref:
//   R1 handler result -1 = "no transition decided": routes are still scanned (InnerEvent);
//      a handler for the specific event hides the any-event handler (InnerAnyEvent).
//   R2 entering a state with a sub-machine starts it and forwards the triggering event to it (SubSM);
//      start() does not forward anything (InitStateHasSubMachine).
//   R3 run() returns the sub-machine's value while that stays active, else whether THIS machine moved (SubSM).
//   R4 sub-machine that terminated is stopped before the parent's own exit action (SubSMActionOrder);
//      by the same inner-first rule stop() stops an active sub-machine before the own exit action.
//   R5 lastState() survives stop()/start() (header silent; not demanded otherwise): Ref mirrors the code.
//   R6 self transitions are external (exit + enter).
//
// argv: <part> <nparts> <machine cap> <seq depth> <max nesting depth> [<file for trace hashes>|-] [flat|deep|share]   (deep: only machines of nesting depth 3; share: only machines with two states of equal sub-machine definition)
//       merge <hash files...>   (prints the number of distinct trace hashes over all processes)
#include "hist/hist.h"
#include <tbox/flow/state_machine.h>
#include <cstdint>
#include <map>
#include <memory>
#include <set>
#include <string>
#include <unordered_set>
#include <vector>
using tbox::flow::Event;
using tbox::flow::StateMachine;

// ------------------------------------------------------------------------------------------------
// machine definitions
struct RouteD { int8_t ev, to, guard; };            // ev 0=any,1,2; to 0..n; guard 0 none,1 true,2 false,3 flip-flop (false first)
struct StateD { uint8_t nr; RouteD r[3]; int8_t h_any; /* -2 none, else result -1..n */ int8_t h_ev; /* 0 none, 1, 2 */ int8_t h_ret; int32_t sub; };
struct MachD { uint8_t n, init_explicit /* 0 none, 1 setInitState(1), 2 setInitState(7): no such state, 3 setInitState(0) without a state 0 */, term_def, weight, depth; StateD st[3]; };
static std::vector<MachD> TAB;            // every canonical machine, grouped by weight
static std::vector<size_t> LEVEL_BEGIN;   // TAB index where weight w starts (index w)
static int DMAX = 2;

static bool canonical(const MachD &m) {
  bool seen[4] = {false, true, false, false}; int order[4], no = 0, next = 2; order[no++] = 1;
  for (int i = 0; i < no; i++) {
    const StateD &s = m.st[order[i] - 1]; int tg[5], nt = 0;
    for (int k = 0; k < s.nr; k++) tg[nt++] = s.r[k].to;
    if (s.h_ev) tg[nt++] = s.h_ret;
    if (s.h_any != -2) tg[nt++] = s.h_any;
    for (int k = 0; k < nt; k++) { int t = tg[k]; if (t >= 1 && !seen[t]) { if (t != next) return false; seen[t] = true; next++; order[no++] = t; } }
  }
  return next == m.n + 1;
}
static void first_event(const MachD &m, int &fe) {    // first specific event mentioned (pre-order), 0 if none
  for (int s = 0; s < m.n && !fe; s++) {
    const StateD &S = m.st[s];
    for (int k = 0; k < S.nr && !fe; k++) if (S.r[k].ev) fe = S.r[k].ev;
    if (!fe && S.h_ev) fe = S.h_ev;
    if (!fe && S.sub >= 0) first_event(TAB[S.sub], fe);
  }
}
static std::vector<MachD> g_out;   // machines of the level being generated
static void gen_state(MachD &m, int s, int budget);
static void gen_sub(MachD &m, int s, int budget) {
  StateD &S = m.st[s];
  S.sub = -1; gen_state(m, s + 1, budget);
  if (DMAX >= 2) for (size_t i = 0; i < TAB.size(); i++) { if (TAB[i].weight > budget) break; if (TAB[i].depth + 1 > DMAX) continue; S.sub = (int32_t)i; gen_state(m, s + 1, budget - TAB[i].weight); }
  S.sub = -1;
}
static void gen_handlers(MachD &m, int s, int budget) {
  StateD &S = m.st[s];
  for (int hev = 0; hev <= 2; hev++) for (int hret = -1; hret <= (hev ? m.n : -1); hret++) {
    S.h_ev = hev; S.h_ret = hret; int b1 = budget - (hev ? 1 : 0); if (b1 < 0) continue;
    for (int ha = -2; ha <= m.n; ha++) { S.h_any = ha; int b2 = b1 - (ha != -2 ? 1 : 0); if (b2 < 0) continue; gen_sub(m, s, b2); }
  }
  S.h_ev = 0; S.h_ret = -1; S.h_any = -2;
}
static void gen_routes(MachD &m, int s, int k, int budget) {
  StateD &S = m.st[s];
  S.nr = k; gen_handlers(m, s, budget);
  if (k == 3) return;
  for (int ev = 0; ev <= 2; ev++) for (int to = 0; to <= m.n; to++) for (int g = 0; g <= 3; g++) {
    int b = budget - 1 - (g ? 1 : 0); if (b < 0) continue;
    S.r[k] = RouteD{(int8_t)ev, (int8_t)to, (int8_t)g}; gen_routes(m, s, k + 1, b);
  }
  S.nr = k;
}
static void gen_state(MachD &m, int s, int budget) {
  if (s == m.n) {
    if (budget != 0 || !canonical(m)) return;
    int d = 1; for (int i = 0; i < m.n; i++) if (m.st[i].sub >= 0) d = std::max(d, 1 + (int)TAB[m.st[i].sub].depth);
    if (d > DMAX) return;
    m.depth = d; g_out.push_back(m); return;
  }
  gen_routes(m, s, 0, budget);
}
static std::string shape(const MachD &m) {     // structure without labels (used to interleave a partially covered level)
  std::string k; k += char('0' + m.depth); k += char('0' + m.n); k += char('0' + m.init_explicit); k += m.term_def ? 't' : '-';
  for (int s = 0; s < m.n; s++) { const StateD &S = m.st[s]; int ng = 0; for (int i = 0; i < S.nr; i++) ng += S.r[i].guard != 0;
    k += '['; k += char('0' + S.nr); k += char('0' + ng); k += S.h_ev ? 'h' : '-'; k += S.h_any != -2 ? 'H' : '-'; if (S.sub >= 0) k += shape(TAB[S.sub]); k += ']'; }
  return k;
}
static void gen_level(int w) {
  g_out.clear();
  for (int n = 1; n <= 3; n++) for (int ie = 0; ie <= 3; ie++) for (int td = 0; td <= 1; td++) {
    if (ie == 1 && n < 2) continue;                       // setInitState(1) only says something when another state is registered first
    if (ie >= 2 && n != 1) continue; if (ie == 3 && td) continue;   // machines that cannot start: one (unreachable) state, nothing else
    int budget = w - n - (ie ? 1 : 0) - td; if (budget < 0) continue; if (ie >= 2 && budget != 0) continue;
    MachD m; memset(&m, 0, sizeof m); m.n = n; m.init_explicit = ie; m.term_def = td; m.weight = w;
    for (int s = 0; s < 3; s++) { m.st[s].h_any = -2; m.st[s].h_ret = -1; m.st[s].sub = -1; }
    gen_state(m, 0, budget);
  }
  // round-robin over shape classes: a partially covered level still contains every shape
  std::map<std::string, std::vector<size_t>> groups;
  for (size_t i = 0; i < g_out.size(); i++) groups[shape(g_out[i])].push_back(i);
  LEVEL_BEGIN.resize(w + 1, TAB.size()); LEVEL_BEGIN[w] = TAB.size();
  for (size_t round = 0, left = g_out.size(); left > 0; round++)
    for (auto &g : groups) if (round < g.second.size()) { TAB.push_back(g_out[g.second[round]]); left--; }
}
static std::string show_mach(const MachD &m) {
  std::string s = "M{"; if (m.init_explicit == 1) s += "setInit(1),regorder=desc;"; if (m.init_explicit == 2) s += "setInit(7):no-such-state;"; if (m.init_explicit == 3) s += "setInit(0):state0-never-created;";
  if (m.term_def) s += "term0-defined;";
  for (int i = 0; i < m.n; i++) { const StateD &S = m.st[i]; s += " S" + std::to_string(i + 1) + ":";
    for (int k = 0; k < S.nr; k++) { s += " "; s += S.r[k].ev ? "e" + std::to_string(S.r[k].ev) : "*"; s += ">" + std::to_string(S.r[k].to);
      if (S.r[k].guard) s += S.r[k].guard == 1 ? "[T]" : S.r[k].guard == 2 ? "[F]" : "[flip]"; }
    if (S.h_ev) s += " h(e" + std::to_string(S.h_ev) + ")=" + std::to_string(S.h_ret);
    if (S.h_any != -2) s += " h(*)=" + std::to_string(S.h_any);
    if (S.sub >= 0) s += " sub=" + show_mach(TAB[S.sub]);
    s += ";"; }
  return s + "}";
}

// ------------------------------------------------------------------------------------------------
// lanes (see the head of this file)
static int L_NULLS = 0; static bool L_TERM_LATE = false, L_BAD_HANDLER = false, L_TWO_PHASE = false, L_ENUM = false, L_TWO_H = false, L_IDMAP = false, L_SHARE = false;
static void read_lanes() {
  if (getenv("C16_NULLS")) L_NULLS = atoi(getenv("C16_NULLS"));
  L_TERM_LATE = getenv("C16_TERM_LATE") != nullptr; L_BAD_HANDLER = getenv("C16_BAD_HANDLER") != nullptr; L_TWO_PHASE = getenv("C16_TWO_PHASE") != nullptr;
  L_ENUM = getenv("C16_ENUM") != nullptr; L_TWO_H = getenv("C16_TWO_HANDLERS") != nullptr; L_IDMAP = getenv("C16_IDMAP") != nullptr; L_SHARE = getenv("C16_SHARE_SUB") != nullptr;
  if (L_BAD_HANDLER && L_TWO_H) { printf("@VIOL sig=harness-lanes-not-combinable :: C16_BAD_HANDLER with C16_TWO_HANDLERS\n"); exit(0); }
}
static std::string lanes_text() { std::string s; if (L_TERM_LATE) s += " term+init-late"; if (L_BAD_HANDLER) s += " bad-handler"; if (L_NULLS) s += " nulls=" + std::to_string(L_NULLS); if (L_TWO_PHASE) s += " two-phase";
  if (L_ENUM) s += " enum-overloads"; if (L_TWO_H) s += " two-handlers"; if (L_IDMAP) s += " idmap"; if (L_SHARE) s += " shared-sub-machine"; return s.empty() ? " main" : s; }
// which callbacks of the definition are nullptr / not set in this lane (decided by the harness, used by the builder and the reference)
static bool null_hook(int k, char kind, int st, int rt) {
  if (L_NULLS == 0 || kind == 'g' || kind == 'h') return false;
  if (L_NULLS >= 3) return true;
  int odd = L_NULLS == 1 ? 1 : 0;
  if (kind == 'n') return ((st + k) & 1) == odd;          // lane 1: the initial state of the outermost machine has no enter action
  if (kind == 'x') return ((st + k) & 1) != odd;
  if (kind == 'a') return ((rt + st) & 1) == odd;
  return (k & 1) != odd;                                  // 'c': lane 1: the outermost machine has no state-changed callback
}

// the templated enum overloads of state_machine.h (lane C16_ENUM) - same calls, same meaning
enum class St : int {}; enum class Ev : int {};
static int g_cookie;                                       // payload of run(1): Event::extra == &g_cookie; run(2) uses the one-argument Event(id)
// lane C16_IDMAP: the ids the library sees are sparse, unordered, negative or INT_MAX; the model keeps 1,2,3 / 1,2.
// state 1 -> 1000, 2 -> 7, 3 -> INT_MAX (first registered / initial state is NOT the lowest key); ids that name no state (5,7,9) -> id*100001;
// event 1 -> 65537, 2 -> -5; 0 (terminal state / any event) and -1 (no state) are fixed by the header and stay.
static int SID(int s) { if (!L_IDMAP || s <= 0) return s; return s == 1 ? 1000 : s == 2 ? 7 : s == 3 ? 2147483647 : s * 100001; }
static int EID(int e) { if (!L_IDMAP || e == 0) return e; return e == 1 ? 65537 : e == 2 ? -5 : e * 100001; }
static int SID_BACK(int s) { if (!L_IDMAP || s == 0 || s == -1) return s; return s == 1000 ? 1 : s == 7 ? 2 : s == 2147483647 ? 3 : 77; }   // 77: an id the harness never handed out
static int EID_BACK(int e) { if (!L_IDMAP || e == 0) return e; return e == 65537 ? 1 : e == -5 ? 2 : 77; }
static bool NS(StateMachine *m, int s, const StateMachine::ActionFunc &en, const StateMachine::ActionFunc &ex) { s = SID(s); return L_ENUM ? m->newState(static_cast<St>(s), en, ex) : m->newState(s, en, ex); }
static bool AR(StateMachine *m, int f, int e, int t, const StateMachine::GuardFunc &g, const StateMachine::ActionFunc &a) { f = SID(f); e = EID(e); t = SID(t); return L_ENUM ? m->addRoute(static_cast<St>(f), static_cast<Ev>(e), static_cast<St>(t), g, a) : m->addRoute(f, e, t, g, a); }
static bool AE(StateMachine *m, int s, int e, const StateMachine::EventFunc &f) { s = SID(s); e = EID(e); return L_ENUM ? m->addEvent(static_cast<St>(s), static_cast<Ev>(e), f) : m->addEvent(s, e, f); }
static void SI(StateMachine *m, int s) { s = SID(s); if (L_ENUM) m->setInitState(static_cast<St>(s)); else m->setInitState(s); }
static bool SS(StateMachine *m, int s, StateMachine *sub) { s = SID(s); return L_ENUM ? m->setSubStateMachine(static_cast<St>(s), sub) : m->setSubStateMachine(s, sub); }
static bool RUN(StateMachine *m, int e) { bool payload = e == 1; e = EID(e);     // run(1): Event(id, payload*); run(2): Event(id), the constructor ordinary callers use
  if (payload) return L_ENUM ? m->run(Event(static_cast<Ev>(e), &g_cookie)) : m->run(Event(e, &g_cookie));
  return L_ENUM ? m->run(Event(static_cast<Ev>(e))) : m->run(e); }
static int CUR(const StateMachine *m) { return SID_BACK(L_ENUM ? static_cast<int>(m->currentState<St>()) : m->currentState()); }
static int LAST(const StateMachine *m) { return SID_BACK(L_ENUM ? static_cast<int>(m->lastState<St>()) : m->lastState()); }
static int NEXT(const StateMachine *m) { return SID_BACK(L_ENUM ? static_cast<int>(m->nextState<St>()) : m->nextState()); }

// ------------------------------------------------------------------------------------------------
// one instantiated hierarchy: nodes in pre-order, node 0 = outermost machine
struct Node { int def, parent, depth; int sub[4]; };
struct Hook { int node; char kind; int state, route; };   // kind n enter, x exit, a route action, g guard, h handler, c changed
struct HookIdx { int en[4], ex[4], g[4][3], a[4][3], hs[4], ha[4], h2[4]; };   // indices into G.hooks per machine (state 0..3)
enum { START, RUN1, RUN2, STOP, RESTART, DEFBAD, SETINIT };   // DEFBAD: definition calls the reference rejects in every phase, on every machine
                                                               // SETINIT: setInitState(1) on every stopped machine of the hierarchy whose initial state does not exist (it can start from then on)
enum { RDEF = 5 };                                          // inner call kind 5: newState/addRoute/addEvent/setSubStateMachine with valid arguments
static const char *CALLN[] = {"start", "run(1)", "run(2)", "stop", "restart", "rejected-definition-calls", "setInitState(1)-on-the-stopped-machines-that-could-not-start"};
static const char *REENTN[] = {"start", "run(1)", "run(2)", "stop", "restart", "newState/addRoute/addEvent/setSubStateMachine"};
static const char *KINDN(char k) { return k == 'n' ? "enter" : k == 'x' ? "exit" : k == 'a' ? "route" : k == 'g' ? "guard" : k == 'h' ? "handler" : k == 'G' ? "action-of-a-rejected-definition" : "changed"; }
struct Op { int call, reent; };   // reent: -1 none, else inner call issued from every action on its own machine

struct Ctx {
  std::vector<Node> nodes; std::vector<Hook> hooks; std::vector<HookIdx> hidx;
  std::vector<StateMachine *> sm; StateMachine *spare = nullptr;
  std::string tr; int reent = -1, reent_depth = 0; std::string reent_viol, balance_viol; bool in_restart = false, prelude = false;
  int cnt[16][4]; uint8_t flip_real[16][4][3], flip_ref[16][4][3];
} G;

static void add_nodes(int def, int parent, int depth) {
  int k = (int)G.nodes.size(); G.nodes.push_back(Node{def, parent, depth, {-1, -1, -1, -1}});
  for (int s = 1; s <= TAB[def].n; s++) if (TAB[def].st[s - 1].sub >= 0) {
    // lane C16_SHARE_SUB: states of one machine whose sub-machine definitions are equal are given ONE StateMachine instance (setSubStateMachine with the same pointer)
    int shared = -1; if (L_SHARE) for (int s0 = 1; s0 < s; s0++) if (TAB[def].st[s0 - 1].sub == TAB[def].st[s - 1].sub) shared = G.nodes[k].sub[s0];
    if (shared >= 0) { G.nodes[k].sub[s] = shared; continue; }
    int c = (int)G.nodes.size(); add_nodes(TAB[def].st[s - 1].sub, k, depth + 1); G.nodes[k].sub[s] = c; }
}
static bool has_shared_sub(int def) { const MachD &d = TAB[def];
  for (int s = 1; s <= d.n; s++) if (d.st[s - 1].sub >= 0) { for (int s0 = 1; s0 < s; s0++) if (d.st[s0 - 1].sub == d.st[s - 1].sub) return true; if (has_shared_sub(d.st[s - 1].sub)) return true; }
  return false; }
static void put_int(std::string &s, int v) { if (v < 0) { s += '-'; v = -v; } if (v > 9) s += std::to_string(v); else s += char('0' + v); }
// payload mark: '+' = the payload pointer of run() arrived, nothing = no payload (start/stop pass Event()), '?' = some other pointer
static void token(int node, char kind, int st, int rt, int ev, char payload, int cur, int last, int next, bool run, bool term) {
  std::string &s = G.tr; s += char('a' + node); s += kind; put_int(s, st); if (rt >= 0 || kind == 'c') { s += kind == 'c' ? '>' : '.'; put_int(s, rt); }
  s += '/'; put_int(s, ev); if (payload) s += payload; s += '('; put_int(s, cur); s += ','; put_int(s, last); s += ','; put_int(s, next); s += run ? 'R' : 'S'; if (term) s += 'T'; s += ')';
}
static std::string obs_real(int k) { StateMachine *m = G.sm[k]; std::string s; put_int(s, CUR(m)); s += ','; put_int(s, LAST(m)); s += ','; put_int(s, NEXT(m)); s += m->isRunning() ? 'R' : 'S'; if (m->isTerminated()) s += 'T'; return s; }
static bool ledger_zero(std::string *what) { bool z = true; for (size_t k = 0; k < G.nodes.size(); k++) for (int s = 0; s < 4; s++) if (G.cnt[k][s] != 0) { z = false; if (what) { *what += " m"; *what += char('a' + k); *what += ".S" + std::to_string(s) + ":" + std::to_string(G.cnt[k][s]); } } return z; }
// the ledger counts the states that have both an enter and an exit action (all of them outside the C16_NULLS lanes)
static bool ledgered(int k, int st) { return !null_hook(k, 'n', st, -1) && !null_hook(k, 'x', st, -1); }

// callbacks handed to definition calls that must be rejected: if one ever runs, the trace shows it
static StateMachine::ActionFunc ghost_action(int node) { return [node](Event) { G.tr += char('a' + node); G.tr += "G-action-of-a-rejected-definition-call-ran "; }; }
static StateMachine::EventFunc ghost_handler(int node) { return [node](Event) { G.tr += char('a' + node); G.tr += "G-handler-of-a-rejected-definition-call-ran "; return SID(1); }; }
// Definition calls the reference rejects whatever the phase (before start, running, stopped): returns the first one that was accepted.
// A state exists when newState() created it; state 0 that was never created is only a route target / handler result, not a state
// that can carry routes, handlers or a sub-machine (state_machine.h: "from_state_id, to_state_id: fails when the state does not exist").
static std::string bad_defs(size_t k) {
  const MachD &d = TAB[G.nodes[k].def]; StateMachine *m = G.sm[k]; int node = (int)k;
  StateMachine::ActionFunc ga = ghost_action(node); StateMachine::EventFunc gh = ghost_handler(node);
  for (int s = 1; s <= d.n; s++) if (NS(m, s, ga, ga)) return "newState-of-an-existing-state";
  if (d.term_def && NS(m, 0, ga, ga)) return "newState-of-the-existing-state-0";
  if (AR(m, 9, 0, 1, nullptr, ga)) return "addRoute-from-a-state-that-does-not-exist";
  if (AR(m, 1, 0, 9, nullptr, ga)) return "addRoute-to-a-state-that-does-not-exist";
  if (AE(m, 9, 0, gh)) return "addEvent-on-a-state-that-does-not-exist";
  if (SS(m, 9, G.spare)) return "setSubStateMachine-on-a-state-that-does-not-exist";
  if (!d.term_def) {
    if (AR(m, 0, 0, 1, nullptr, ga)) return "addRoute-from-state-0-that-was-never-created";
    if (AE(m, 0, 0, gh)) return "addEvent-on-state-0-that-was-never-created";
    if (SS(m, 0, G.spare)) return "setSubStateMachine-on-state-0-that-was-never-created";
  }
  return "";
}
// Valid-looking definition calls issued from inside an action of the machine itself: the statement demands that they are rejected.
// (setInitState / setStateChangedCallback return nothing and are not guarded by the code: not issued.)
static std::string inner_defs(int node) {
  const MachD &d = TAB[G.nodes[node].def]; StateMachine *m = G.sm[node];
  StateMachine::ActionFunc ga = ghost_action(node); StateMachine::EventFunc gh = ghost_handler(node);
  if (NS(m, 5, ga, ga)) return "newState";
  for (int s = 1; s <= d.n; s++) { if (AR(m, s, 0, 1, nullptr, ga)) return "addRoute"; if (AE(m, s, 0, gh)) return "addEvent"; if (SS(m, s, G.spare)) return "setSubStateMachine"; }
  return "";
}

// ---- real side: every callback of every generated machine ends here
static void real_hook(const Hook *h, Event e) {
  StateMachine *m = G.sm[h->node];
  token(h->node, h->kind, h->state, h->route, EID_BACK(e.id), e.extra == &g_cookie ? '+' : e.extra == nullptr ? 0 : '?', CUR(m), LAST(m), NEXT(m), m->isRunning(), m->isTerminated());
  for (int a = G.nodes[h->node].parent; a >= 0; a = G.nodes[a].parent) { G.tr += '^'; G.tr += obs_real(a); }    // what every ancestor reports while this callback runs
  if (h->kind == 'n') {
    if (h->node == 0 && G.in_restart && G.reent_depth == 0) { std::string w; if (!ledger_zero(&w) && G.balance_viol.empty()) G.balance_viol = "outermost machine was stopped inside restart() with entered-but-not-exited states:" + w; }
    if (ledgered(h->node, h->state)) G.cnt[h->node][h->state]++;
  } else if (h->kind == 'x') {
    if (ledgered(h->node, h->state) && --G.cnt[h->node][h->state] < 0 && G.balance_viol.empty()) G.balance_viol = std::string("exit without enter: m") + char('a' + h->node) + ".S" + std::to_string(h->state);
  }
  if (G.reent >= 0 && G.reent_depth == 0) {
    G.reent_depth++;
    std::string snap = obs_real(h->node), what; size_t len = G.tr.size(); int r = -1;
    switch (G.reent) { case START: r = m->start(); break; case RUN1: r = m->run(EID(1)); break; case RUN2: r = m->run(EID(2)); break; case STOP: m->stop(); break; case RESTART: r = m->restart(); break;
                       case RDEF: what = inner_defs(h->node); r = what.empty() ? 0 : 1; break; }
    bool changed = obs_real(h->node) != snap || G.tr.size() != len;
    if ((r == 1 || changed) && G.reent_viol.empty())
      G.reent_viol = std::string("reentrant-") + (G.reent == RUN1 || G.reent == RUN2 ? "run" : G.reent == RDEF ? (what.empty() ? "definition-call" : what.c_str()) : CALLN[G.reent]) + "-accepted-in-" + KINDN(h->kind) + " machine m" + char('a' + h->node) + " before=" + snap + " after=" + obs_real(h->node) + " ret=" + std::to_string(r);
    G.tr += '!'; G.tr += G.reent == STOP ? '-' : r ? '1' : '0';
    G.reent_depth--;
  }
}
static bool guard_value(int kind, uint8_t &ctr) { if (kind == 1) return true; if (kind == 2) return false; return (ctr++ & 1) == 1; }

static void make_hooks() {
  G.hooks.clear(); G.hidx.assign(G.nodes.size(), HookIdx());
  auto add = [](int n, char kind, int st, int rt) -> int { if (null_hook(n, kind, st, rt)) return -1; G.hooks.push_back(Hook{n, kind, st, rt}); return (int)G.hooks.size() - 1; };
  for (size_t k = 0; k < G.nodes.size(); k++) { const MachD &d = TAB[G.nodes[k].def]; int n = (int)k; HookIdx &x = G.hidx[k]; memset(&x, -1, sizeof x);
    for (int s = d.term_def ? 0 : 1; s <= d.n; s++) { x.en[s] = add(n, 'n', s, -1); x.ex[s] = add(n, 'x', s, -1); }
    for (int s = 1; s <= d.n; s++) { const StateD &S = d.st[s - 1];
      for (int r = 0; r < S.nr; r++) { if (S.r[r].guard) x.g[s][r] = add(n, 'g', s, r); x.a[s][r] = add(n, 'a', s, r); }
      if (S.h_ev) x.hs[s] = add(n, 'h', s, S.h_ev);
      if (S.h_ev && L_TWO_H) x.h2[s] = add(n, 'h', s, 3 - S.h_ev);
      if (S.h_any != -2) x.ha[s] = add(n, 'h', s, 0); } }
}
static StateMachine::ActionFunc mk_action(int hi) { if (hi < 0) return nullptr; const Hook *h = &G.hooks[hi]; return [h](Event e) { real_hook(h, e); G.tr += ' '; }; }
static StateMachine::EventFunc mk_handler(int hi, int ret) { const Hook *h = &G.hooks[hi]; ret = SID(ret); return [h, ret](Event e) { real_hook(h, e); G.tr += ' '; return ret; }; }

struct Ref; extern Ref REF;
static std::string prelude_two_phase();
// Build the real hierarchy. Order of the definition calls of one machine:
//   default        [setInitState] states [state 0] routes handlers sub-machines callback
//   C16_TERM_LATE  states routes handlers sub-machines [state 0] [setInitState] callback
//   C16_TWO_PHASE  states | start();stop() on every machine | [state 0] routes handlers sub-machines [setInitState] callback
static std::string build_real() {
  for (auto *p : G.sm) delete p; G.sm.clear(); delete G.spare;
  G.spare = new StateMachine; G.spare->newState(1, ghost_action(15), ghost_action(15));
  for (size_t k = 0; k < G.nodes.size(); k++) G.sm.push_back(new StateMachine);
  // a machine without any state has no initial state: start() fails, nothing runs, it is not running - and the failure leaves nothing behind
  // (every one of these machines is started successfully later, unless its definition names an initial state that does not exist)
  for (size_t k = 0; k < G.nodes.size(); k++) { size_t len = G.tr.size(); bool r = G.sm[k]->start();
    if (r || G.tr.size() != len || obs_real((int)k) != "-1,-1,-1S") return std::string("diverge-start-on-a-machine-without-states ret=") + (r ? "1" : "0") + " observers=" + obs_real((int)k) + " (expected ret=0 -1,-1,-1S)"; }
  bool ok = true;
  for (int phase = L_TWO_PHASE ? 1 : 0; phase <= (L_TWO_PHASE ? 2 : 0); phase++) {
    for (size_t k = 0; k < G.nodes.size(); k++) {
      const MachD &d = TAB[G.nodes[k].def]; StateMachine *m = G.sm[k]; const HookIdx &x = G.hidx[k]; int node = (int)k;
      auto init = [&] { if (d.init_explicit == 1) SI(m, 1); else if (d.init_explicit == 2) SI(m, 7); else if (d.init_explicit == 3) SI(m, 0); };
      auto states = [&] { for (int i = 0; i < d.n; i++) { int s = d.init_explicit == 1 ? d.n - i : i + 1; ok &= NS(m, s, mk_action(x.en[s]), mk_action(x.ex[s])); } };
      auto term = [&] { if (d.term_def) ok &= NS(m, 0, mk_action(x.en[0]), mk_action(x.ex[0])); };
      auto rest = [&] {
        for (int s = 1; s <= d.n; s++) { const StateD &S = d.st[s - 1];
          for (int r = 0; r < S.nr; r++) { int gk = S.r[r].guard; uint8_t *ctr = &G.flip_real[k][s][r];
            StateMachine::GuardFunc gf; if (gk) { const Hook *hg = &G.hooks[x.g[s][r]]; gf = [hg, gk, ctr](Event e) { real_hook(hg, e); bool v = guard_value(gk, *ctr); G.tr += v ? "=1 " : "=0 "; return v; }; }
            ok &= AR(m, s, (int)S.r[r].ev, (int)S.r[r].to, gf, mk_action(x.a[s][r])); }
          // lane C16_BAD_HANDLER: a handler that would decline (-1) returns 9 instead, an id that names no state of the machine
          if (S.h_ev && L_TWO_H) ok &= AE(m, s, 3 - S.h_ev, mk_handler(x.h2[s], -1));      // second key in the handler table; declines
          if (S.h_ev) ok &= AE(m, s, (int)S.h_ev, mk_handler(x.hs[s], (L_BAD_HANDLER && S.h_ret == -1) ? 9 : S.h_ret));
          if (S.h_any != -2) ok &= AE(m, s, 0, mk_handler(x.ha[s], (L_BAD_HANDLER && S.h_any == -1) ? 9 : S.h_any));
          if (G.nodes[k].sub[s] >= 0) ok &= SS(m, s, G.sm[G.nodes[k].sub[s]]); } };
      auto cb = [&] { if (!null_hook(node, 'c', 0, 0)) m->setStateChangedCallback([node](int f, int t, Event e) { Hook hc{node, 'c', SID_BACK(f), SID_BACK(t)}; real_hook(&hc, e); G.tr += ' '; }); };
      if (phase == 0) { if (!L_TERM_LATE) { init(); states(); term(); rest(); } else { states(); rest(); term(); init(); } cb(); }
      else if (phase == 1) states();
      else { term(); rest(); init(); cb(); }
    }
    if (phase == 1) { std::string e = prelude_two_phase(); if (!e.empty()) return e; }
  }
  if (!ok) return "harness-build-failed a definition call of the generated machine returned false";
  for (size_t k = 0; k < G.nodes.size(); k++) { size_t len = G.tr.size(); std::string w = bad_defs(k);
    if (!w.empty()) return "rejected-definition-call-accepted-" + w + " on machine m" + char('a' + k) + " right after its definition (never started)";
    if (G.tr.size() != len) return "rejected-definition-call-ran-a-callback " + G.tr; }
  return "";
}

// ------------------------------------------------------------------------------------------------
// REFERENCE INTERPRETER: written from state_machine.h + the C16 statement + readings R1..R6 above.
struct Ref {
  int cur[16], last[16], next[16]; bool running[16], init_fixed[16];
  void reset() { for (int i = 0; i < 16; i++) { cur[i] = last[i] = next[i] = -1; running[i] = init_fixed[i] = false; } }
  bool unstartable(int k) const { return def(k).init_explicit >= 2 && !init_fixed[k]; }
  const MachD &def(int k) const { return TAB[G.nodes[k].def]; }
  // during the prelude of lane C16_TWO_PHASE only the states exist: no sub-machines, initial state = first registered state
  int sub_of(int k, int st) const { return G.prelude ? -1 : G.nodes[k].sub[st]; }
  int init_state(int k) const { const MachD &d = def(k); if (G.prelude) return d.init_explicit == 1 ? d.n : 1; return unstartable(k) ? -1 : 1; }   // -1: the initial state does not exist
  void act(int k, char kind, int st, int rt, int ev) {      // an observable action of machine k
    if (null_hook(k, kind, st, rt)) return;                  // no such callback in this lane: nothing observable (and nobody to make an inner call)
    token(k, kind, st, rt, ev, ev == 1 ? '+' : 0, cur[k], last[k], next[k], running[k], cur[k] == 0);   // run(1, payload) hands the payload to every callback of the hierarchy; run(2) has none; start/stop pass Event()
    for (int a = G.nodes[k].parent; a >= 0; a = G.nodes[a].parent) { G.tr += '^'; G.tr += obs(a); }      // the ancestors as the model has them at this moment
    if (G.reent >= 0) { G.tr += '!'; G.tr += G.reent == STOP ? '-' : '0'; }    // calls from inside an action are rejected, nothing happens
    if (kind != 'g') G.tr += ' ';
  }
  bool has_actions(int k, int st) const { return st >= 1 || (st == 0 && def(k).term_def); }
  bool start(int k) {
    if (running[k]) return false;
    int is = init_state(k); if (is < 0) return false;       // no initial state: start fails, the machine is not running
    running[k] = true; cur[k] = is;
    act(k, 'n', is, -1, 0);
    int sb = sub_of(k, is); if (sb >= 0) start(sb);          // R2: no event forwarded on start
    return true;
  }
  void stop(int k) {
    if (!running[k]) return;
    int c = cur[k];
    if (c >= 1) { int sb = sub_of(k, c); if (sb >= 0 && running[sb]) stop(sb); }   // statement: balanced at every level; R4: inner first
    if (has_actions(k, c)) act(k, 'x', c, -1, 0);
    cur[k] = -1; running[k] = false;
  }
  bool run(int k, int e) {
    if (!running[k]) return false;
    int c = cur[k]; if (c == 0) return false;               // terminal state has no routes
    int sb = sub_of(k, c);
    if (sb >= 0 && running[sb]) {                           // events go to the active sub-machine until it has terminated
      bool r = run(sb, e);
      if (cur[sb] != 0) return r;                           // R3
      stop(sb);                                             // R4
    }
    const StateD &S = def(k).st[c - 1]; int target = -1, ri = -1; bool handled = false;
    if (S.h_ev == e) { act(k, 'h', c, e, e); target = S.h_ret; handled = true; }                      // a handler may pick the target (R1)
    else if (L_TWO_H && S.h_ev) { act(k, 'h', c, e, e); handled = false; }                            // lane: the handler for the other specific event declines (and hides the any-handler, R1)
    else if (S.h_any != -2) { act(k, 'h', c, 0, e); target = S.h_any; handled = true; }
    if (L_BAD_HANDLER && target == -1 && handled) return false;   // the handler named a state that does not exist: the event is dropped, nothing changes, the machine stays usable
    if (target == -1) {                                     // first route in registration order whose event matches and whose guard holds
      for (int i = 0; i < S.nr && ri < 0; i++) {
        if (S.r[i].ev != 0 && S.r[i].ev != e) continue;
        if (S.r[i].guard) { act(k, 'g', c, i, e); bool v = guard_value(S.r[i].guard, G.flip_ref[k][c][i]); G.tr += v ? "=1 " : "=0 "; if (!v) continue; }
        ri = i;
      }
      if (ri < 0) return false;
      target = S.r[ri].to;
    }
    next[k] = target;
    act(k, 'x', c, -1, e);                                  // exit: current still the old state, next = target
    last[k] = c; cur[k] = -1;
    if (ri >= 0) act(k, 'a', c, ri, e);                     // route action: "in transition", current = -1
    cur[k] = target; next[k] = -1;
    if (has_actions(k, target)) act(k, 'n', target, -1, e);
    act(k, 'c', c, target, e);                              // state-changed notification
    if (target >= 1) { int ns = sub_of(k, target); if (ns >= 0) { start(ns); run(ns, e); } }   // R2 (a sub-machine that cannot start stays stopped: the state then behaves as one without sub-machine)
    return true;
  }
  std::string obs(int k) const { std::string s; put_int(s, cur[k]); s += ','; put_int(s, last[k]); s += ','; put_int(s, next[k]); s += running[k] ? 'R' : 'S'; if (cur[k] == 0) s += 'T'; return s; }
} REF;

// lane C16_TWO_PHASE: only the states are defined so far; every machine of the hierarchy is started and stopped once on its own
static std::string prelude_two_phase() {
  G.prelude = true; std::string err;
  for (size_t k = 0; k < G.nodes.size() && err.empty(); k++) {
    G.tr.clear(); int r1 = G.sm[k]->start(); G.sm[k]->stop(); std::string t1; t1.swap(G.tr);
    int r2 = REF.start((int)k); REF.stop((int)k); std::string t2; t2.swap(G.tr);
    if (t1 != t2 || r1 != r2 || obs_real((int)k) != REF.obs((int)k))
      err = std::string("diverge-two-phase-prelude machine m") + char('a' + k) + " (states only, no routes yet) start();stop() REAL: " + t1 + "=> ret=" + std::to_string(r1) + " " + obs_real((int)k) + " REF: " + t2 + "=> ret=" + std::to_string(r2) + " " + REF.obs((int)k);
  }
  G.prelude = false; G.tr.clear(); return err;
}

// ------------------------------------------------------------------------------------------------
static std::string show_op(const Op &o) { std::string s = CALLN[o.call]; if (o.reent >= 0) s += std::string("+every-action-calls:") + REENTN[o.reent]; return s; }
static std::string show_hist(const std::vector<Op> &h) { std::string s; for (auto &o : h) { if (!s.empty()) s += ' '; s += show_op(o); } return s.empty() ? "<empty>" : s; }
static int tok_depth(const std::string &t) { int n = t[0] - 'a'; return n >= 0 && n < (int)G.nodes.size() ? G.nodes[n].depth : 0; }
// number of exit / enter actions of sub-machines (nodes b,c,..) in a trace segment
static int count_sub(const std::string &tr, char kind) { int c = 0; size_t p = 0; while (p < tr.size()) { size_t q = tr.find(' ', p); if (q == std::string::npos) q = tr.size(); if (q > p + 1 && tr[p] != 'a' && tr[p + 1] == kind) c++; p = q + 1; } return c; }

static std::string anc_part(const std::string &t) { size_t p = t.find('^'); if (p == std::string::npos) return ""; size_t q = t.find_first_of("!=", p); return t.substr(p, q == std::string::npos ? q : q - p); }
struct EvalOut { std::string canon, viol; uint64_t trace_hash; std::string trace; };
static bool g_keep_trace = false;
static std::map<std::string, size_t> g_sigcount;   // violations per signature in this process

// every history is followed by this fixed epilogue (not part of the state key, the trace hash or the history that is expanded)
// restart; stop on the outermost machine, then start(); stop() directly on every other machine of the hierarchy (its own hidden state must be clean too)
static bool g_epilogue = true;     // C16_NO_EPILOGUE=1 switches it off (measurements only)
// Replay a call sequence on a fresh real hierarchy and a fresh reference, compare after every call.
static EvalOut evaluate(int top, const std::vector<Op> &hist) {
  EvalOut out; out.trace_hash = 1469598103934665603ull;
  memset(G.cnt, 0, sizeof G.cnt); memset(G.flip_real, 0, sizeof G.flip_real); memset(G.flip_ref, 0, sizeof G.flip_ref);
  G.reent = -1; G.reent_depth = 0; G.reent_viol.clear(); G.balance_viol.clear(); G.in_restart = false;
  G.tr.clear(); REF.reset(); std::string berr = build_real();
  if (!berr.empty()) {
    std::string s0 = berr.substr(0, berr.find(' ')); if (g_sigcount[s0] >= 3) { out.viol = s0; return out; }
    out.viol = berr + " machine=" + show_mach(TAB[top]) + " lane=" + lanes_text(); return out; }
  StateMachine *m = G.sm[0]; size_t nn = G.nodes.size();
  auto canon = [&] {   // canonical state: all observers of every machine + flip-flop parities + ledger
    for (size_t k = 0; k < nn; k++) { out.canon += obs_real(k); out.canon += '|'; }
    for (size_t k = 0; k < nn; k++) for (int s = 1; s < 4; s++) for (int r = 0; r < 3; r++) out.canon += char('0' + (G.flip_real[k][s][r] & 1));
    for (size_t k = 0; k < nn; k++) for (int s = 0; s < 4; s++) out.canon += char('0' + G.cnt[k][s]);
    for (size_t k = 0; k < nn; k++) out.canon += REF.init_fixed[k] ? 'F' : '-'; };
  size_t nepi = g_epilogue ? 2 + 2 * (nn - 1) : 0; StateMachine *const top_m = m;
  for (size_t i = 0; i < hist.size() + nepi; i++) {
    bool epi = i >= hist.size(); if (i == hist.size()) canon();
    size_t e = i - hist.size(); int tn = epi && e >= 2 ? 1 + (int)(e - 2) / 2 : 0;      // machine the call is made on
    Op eop{!epi ? 0 : e == 0 ? RESTART : e == 1 ? STOP : (e & 1) ? STOP : START, -1};
    const Op &op = epi ? eop : hist[i]; int r1 = -1, r2 = -1; std::string defwhat; m = G.sm[tn];
    bool was_running[16]; for (size_t k = 0; k < nn; k++) was_running[k] = REF.running[k];
    G.tr.clear(); G.reent = op.reent; G.in_restart = op.call == RESTART;
    if (op.call == SETINIT) { r1 = r2 = 0; for (size_t k = 0; k < nn; k++) if (TAB[G.nodes[k].def].init_explicit >= 2 && !REF.running[k]) { SI(G.sm[k], 1); REF.init_fixed[k] = true; } }
    switch (op.call) { case START: r1 = m->start(); break; case RUN1: r1 = RUN(m, 1); break; case RUN2: r1 = RUN(m, 2); break; case STOP: m->stop(); break; case RESTART: r1 = m->restart(); break;
                       case DEFBAD: r1 = 0; for (size_t k = 0; k < nn && defwhat.empty(); k++) { defwhat = bad_defs(k); if (!defwhat.empty()) { r1 = 1; defwhat += std::string("-on-a-") + (REF.running[k] ? "running" : "stopped") + "-machine"; } } break; }
    G.in_restart = false; std::string t1; t1.swap(G.tr);
    switch (op.call) { case START: r2 = REF.start(tn); break; case RUN1: r2 = REF.run(tn, 1); break; case RUN2: r2 = REF.run(tn, 2); break; case STOP: REF.stop(tn); break; case RESTART: REF.stop(tn); r2 = REF.start(tn); break;
                       case DEFBAD: r2 = 0; break; }     // every one of them is rejected: nothing happens
    G.reent = -1; std::string t2; t2.swap(G.tr);
    std::string o1, o2; for (size_t k = 0; k < nn; k++) { o1 += obs_real(k); o1 += ' '; o2 += REF.obs(k); o2 += ' '; }
    std::string step = std::string(CALLN[op.call]) + (op.reent >= 0 ? std::string("+") + REENTN[op.reent] : "") + ": " + t1 + "=> " + std::to_string(r1) + " | " + o1 + "; ";
    if (!epi) { for (char c : step) { out.trace_hash ^= (uint8_t)c; out.trace_hash *= 1099511628211ull; }
      if (g_keep_trace) out.trace += step; }
    // ---- oracles
    std::string sig, bal;
    bool top_stopped = !top_m->isRunning() && !(tn > 0 && op.call == START);    // (a sub-machine started on its own in the epilogue is of course not yet exited)
    if (G.balance_viol.empty() && top_stopped && !ledger_zero(&bal)) G.balance_viol = "outermost machine is stopped with entered-but-not-exited states:" + bal;
    bool same = t1 == t2 && r1 == r2 && o1 == o2;
    if (!G.reent_viol.empty()) sig = G.reent_viol;
    else if (!defwhat.empty()) sig = "rejected-definition-call-accepted-" + defwhat;
    else if (!same || !G.balance_viol.empty()) {
      bool sub_left = false;     // a sub-machine the reference has stopped is still running / was not exited
      for (size_t k = 1; k < nn; k++) if (G.sm[k]->isRunning() && !REF.running[k] && was_running[k]) sub_left = true;
      if (count_sub(t2, 'x') > count_sub(t1, 'x')) sub_left = true;                               // its exit action is missing
      if (op.call == RESTART && count_sub(t2, 'n') > count_sub(t1, 'n')) sub_left = true;          // or it was not started again because it never stopped
      if ((op.call == STOP || op.call == RESTART) && sub_left) sig = std::string(CALLN[op.call]) + "-leaves-active-submachine-running";
      else if (!G.balance_viol.empty()) {
        int lvl = 0; for (size_t k = 0; k < nn; k++) for (int s = 0; s < 4; s++) if (G.cnt[k][s] != 0) lvl = std::max(lvl, G.nodes[k].depth);
        sig = std::string("enter-exit-unbalanced-after-") + (op.call == RUN1 || op.call == RUN2 ? "run" : CALLN[op.call]) + "-level" + std::to_string(lvl);
      } else {
        // does the active chain of the real hierarchy end at a state whose sub-machine is stopped?
        int k = 0; bool stopped_sub = false;
        while (true) { int c = CUR(G.sm[k]); if (!G.sm[k]->isRunning() || c < 1 || c > 3) break; int sb = G.nodes[k].sub[c]; if (sb < 0) break; if (!G.sm[sb]->isRunning()) { stopped_sub = true; break; } k = sb; }
        if ((op.call == RUN1 || op.call == RUN2) && t1.empty() && r1 == 0 && stopped_sub) sig = "run-ignored-after-submachine-terminated";
        else {
          // suffix "-reentrant" only when the divergence lies in the inner calls themselves (traces agree once the !<result> marks are removed)
          auto strip = [](const std::string &t) { std::string o; for (size_t i = 0; i < t.size(); i++) { if (t[i] == '!') { i++; continue; } o += t[i]; } return o; };
          bool reent_specific = op.reent >= 0 && strip(t1) == strip(t2) && r1 == r2 && o1 == o2;
          // first differing token
          std::string a = "end", b = "end"; size_t p = 0, q = 0; bool found = false;
          while (p < t1.size() || q < t2.size()) {
            size_t pe = t1.find(' ', p), qe = t2.find(' ', q); if (pe == std::string::npos) pe = t1.size(); if (qe == std::string::npos) qe = t2.size();
            std::string x = p < t1.size() ? t1.substr(p, pe - p) : "", y = q < t2.size() ? t2.substr(q, qe - q) : "";
            if (x != y) { found = true;
              if (!x.empty()) a = std::string(KINDN(x[1])) + "L" + std::to_string(tok_depth(x));
              if (!y.empty()) b = std::string(KINDN(y[1])) + "L" + std::to_string(tok_depth(y));
              if (!x.empty() && !y.empty() && x[0] == y[0] && x[1] == y[1]) {   // same action, different detail
                size_t xo = x.find('('), yo = y.find('(');
                if (x.substr(0, xo) != y.substr(0, yo)) { a += "-id"; b += "-id"; }
                else if (x.substr(0, x.find(')')) != y.substr(0, y.find(')'))) { a += "-observers"; b += "-observers"; }
                else if (anc_part(x) != anc_part(y)) { a += "-ancestor-observers"; b += "-ancestor-observers"; }
                else { a += "-result"; b += "-result"; } }
              break; }
            p = pe + 1; q = qe + 1;
          }
          if (!found) { if (r1 != r2) a = b = "return-value"; else a = b = "observers-after-call"; }
          sig = std::string("diverge-") + (op.call == RUN1 || op.call == RUN2 ? "run" : CALLN[op.call]) + (reent_specific ? "-reentrant" : "") + "-real:" + a + "-ref:" + b;
        }
      }
    }
    if (!sig.empty()) {
      std::string s0 = sig.substr(0, sig.find(' '));
      if (g_sigcount[s0] >= 3) { out.viol = s0; return out; }     // already printed three replays of this signature: count only
      out.viol = sig + " machine=" + show_mach(TAB[top]) + " lane=" + lanes_text() + " calls=[" + show_hist(hist) + (g_epilogue ? " | epilogue: restart stop, then start stop on each of the machines b,c,.. directly" : "") + "] diverges at call #" + std::to_string(i + 1) + " " + show_op(op) + (epi ? std::string(" (epilogue, on machine m") + char('a' + tn) + ")" : "") +
                 " REAL: " + t1 + "=> ret=" + std::to_string(r1) + " state(cur,last,next,Running/Stopped,Terminated per machine a,b,..)= " + o1 +
                 "REF: " + t2 + "=> ret=" + std::to_string(r2) + " state= " + o2 + (G.balance_viol.empty() ? "" : "BALANCE: " + G.balance_viol);
      return out;
    }
  }
  if (!g_epilogue) canon();
  return out;
}

int main(int argc, char **argv) {
  if (argc > 1 && !strcmp(argv[1], "merge")) {     // union of the per-process trace-hash files -> number of distinct traces
    std::vector<uint64_t> all; for (int i = 2; i < argc; i++) { FILE *f = fopen(argv[i], "rb"); if (!f) continue; uint64_t b[4096]; size_t n; while ((n = fread(b, 8, 4096, f)) > 0) all.insert(all.end(), b, b + n); fclose(f); }
    std::sort(all.begin(), all.end()); size_t d = std::unique(all.begin(), all.end()) - all.begin();
    printf("@STAT distinct_traces=%zu\n", d); return 0;
  }
  size_t part = argc > 1 ? atoi(argv[1]) : 0, nparts = argc > 2 ? atoi(argv[2]) : 1, cap = argc > 3 ? atol(argv[3]) : 2000;
  size_t depth = argc > 4 ? atoi(argv[4]) : 5; DMAX = argc > 5 ? atoi(argv[5]) : 2;
  const char *hashfile = argc > 6 && argv[6][0] != '-' ? argv[6] : nullptr; bool flat_only = argc > 7 && !strcmp(argv[7], "flat"), deep_only = argc > 7 && !strcmp(argv[7], "deep"), share_only = argc > 7 && !strcmp(argv[7], "share");
  if (flat_only) DMAX = 1;
  read_lanes(); if (getenv("C16_NO_EPILOGUE")) g_epilogue = false;
  hx::install_crash_reporter("C16-crash");
  double deadline = hx::deadline_from_env(600);

  // ---- enumerate machines by weight until the cap is reached
  std::vector<size_t> sel; size_t complete_w = 0, sel_before_last = 0, last_level_total = 0; int w = 1;
  int wmax = share_only ? 7 : 12;     // (two states with one terminating sub-machine definition need weight 7; weight 8 is too large a table to filter)
  for (; sel.size() < cap && w <= wmax; w++) {
    sel_before_last = sel.size(); size_t b = TAB.size(); gen_level(w); last_level_total = 0;
    for (size_t i = b; i < TAB.size(); i++) { int fe = 0; first_event(TAB[i], fe); if (fe == 2) continue; if (deep_only && TAB[i].depth < 3) continue; if (share_only && !has_shared_sub((int)i)) continue; last_level_total++; if (sel.size() < cap) sel.push_back(i); }
    if (sel.size() - sel_before_last == last_level_total) complete_w = w;
  }
  int last_w = w - 1; double t_gen = hx::now_s();
  if (part == 0) {
    printf("@INFO enumeration took %.1fs, table of %zu machine definitions\n", t_gen - (deadline - (getenv("VERIF_DEADLINE_S") ? atof(getenv("VERIF_DEADLINE_S")) : 600)), TAB.size());
    const char *what = deep_only ? "canonical machines of nesting depth 3" : share_only ? "canonical machines in which two states have the same sub-machine definition" : "canonical machines";
    printf("@INFO lane%s: machines: %zu selected; weights 1..%zu complete; weight %d: %zu of %zu %s (nesting depth <= %d)\n", lanes_text().c_str(), sel.size(), complete_w, last_w, sel.size() - sel_before_last, last_level_total, what, DMAX);
    printf("@CAP lane%s: machine cap %zu: every one of the %s of weight <= %zu is selected; of weight %d only %zu of %zu (interleaved over all structural shapes); heavier machines (<=3 states, <=3 routes/state, depth <= %d) are not enumerated\n",
           lanes_text().c_str(), cap, what, complete_w, last_w, sel.size() - sel_before_last, last_level_total, DMAX);
  }

  std::vector<Op> menu; for (int c = 0; c < 5; c++) menu.push_back(Op{c, -1}); menu.push_back(Op{DEFBAD, -1});
  for (int c = 0; c < 5; c++) for (int r = 0; r < 5; r++) menu.push_back(Op{c, r});
  for (int c = 0; c < 4; c++) menu.push_back(Op{c, RDEF});   // restart = stop + start adds no new action context for the inner definition calls
  size_t machines = 0, flat = 0, nested = 0, states = 0, transitions = 0, violations = 0, viol_flat = 0, viol_nested = 0, redet = 0, reent_evals = 0, maxdepth = 0, fixpoints = 0, samples = 0;
  std::map<std::string, size_t> &sigcount = g_sigcount; std::unordered_set<uint64_t> hashes; size_t next_outcome = 1; bool capped = false;
  for (size_t j = part; j < sel.size() && !capped; j += nparts) {
    if (hx::now_s() > deadline) { capped = true; printf("@CAP part %zu/%zu: deadline reached before machine #%zu of %zu (weight %d)\n", part, nparts, j, sel.size(), (int)TAB[sel[j]].weight); break; }
    int top = (int)sel[j]; G.nodes.clear(); add_nodes(top, -1, 0); make_hooks();
    std::vector<Op> mmenu = menu; for (auto &nd : G.nodes) if (TAB[nd.def].init_explicit >= 2) { mmenu.insert(mmenu.begin() + 6, Op{SETINIT, -1}); break; }   // only where a machine of the hierarchy cannot start
    bool is_flat = G.nodes.size() == 1; machines++; (is_flat ? flat : nested)++;
    std::string mtxt = show_mach(TAB[top]);
    std::unordered_set<std::string> seen; std::vector<std::vector<Op>> layer(1), next;
    { EvalOut e0 = evaluate(top, layer[0]); seen.insert(e0.canon); states++; if (!e0.viol.empty()) { violations++; (is_flat ? viol_flat : viol_nested)++; std::string s0 = e0.viol.substr(0, e0.viol.find(' ')); if (++sigcount[s0] <= 3) printf("@VIOL sig=%s :: %s\n", s0.c_str(), e0.viol.c_str()); continue; } }
    std::vector<Op> lastnew; size_t d = 0;
    for (; d < depth && !layer.empty(); d++) {
      next.clear();
      for (auto &h : layer) for (auto &op : mmenu) {
        std::vector<Op> c = h; c.push_back(op);
        hx::set_current(mtxt + " calls=[" + show_hist(c) + "]");
        bool want = hashes.size() + 1 == next_outcome || (samples < 3 && d + 1 == depth);
        g_keep_trace = want; EvalOut e = evaluate(top, c); transitions++; if (op.reent >= 0) reent_evals++;
        if (hashes.insert(e.trace_hash).second && e.viol.empty() && g_keep_trace && hashes.size() == next_outcome) { next_outcome *= 4; if (part == 0) printf("@OUTCOME %s\n", e.trace.c_str()); }   // ~10 sample outcomes in total; the count is distinct_traces
        if (!e.viol.empty()) {
          violations++; (is_flat ? viol_flat : viol_nested)++;
          std::string s = e.viol.substr(0, e.viol.find(' ')); size_t &n = sigcount[s];
          if (++n <= 3) printf("@VIOL sig=%s :: %s\n", s.c_str(), e.viol.size() > s.size() ? e.viol.substr(s.size() + 1).c_str() : "");
          continue;   // not expanded
        }
        if (seen.insert(e.canon).second) { states++; maxdepth = std::max(maxdepth, c.size()); next.push_back(c); lastnew = c;
          if (samples < 3 && d + 1 == depth && g_keep_trace) { samples++; printf("@SAMPLE %s calls=[%s] trace: %s\n", mtxt.c_str(), show_hist(c).c_str(), e.trace.c_str()); } }
      }
      layer.swap(next);
    }
    if (layer.empty()) fixpoints++;
    if (!lastnew.empty()) { g_keep_trace = false; EvalOut e = evaluate(top, lastnew); redet++; if (!seen.count(e.canon)) { violations++; printf("@VIOL sig=harness-nondeterministic-replay :: %s calls=[%s]\n", mtxt.c_str(), show_hist(lastnew).c_str()); } }
  }
  for (auto *p : G.sm) delete p; G.sm.clear();
  if (hashfile) { FILE *f = fopen(hashfile, "wb"); if (f) { for (uint64_t h : hashes) fwrite(&h, 8, 1, f); fclose(f); } }
  printf("@STAT machines=%zu machines_flat=%zu machines_nested=%zu states=%zu transitions=%zu executions=%zu violations=%zu violations_flat=%zu violations_nested=%zu reentrant_evaluations=%zu replay_checks=%zu machines_at_fixpoint=%zu distinct_traces_per_part=%zu\n",
         machines, flat, nested, states, transitions, transitions + redet + machines, violations, viol_flat, viol_nested, reent_evals, redet, fixpoints, hashes.size());
  for (auto &s : sigcount) printf("@STAT viol[%s]=%zu\n", s.first.c_str(), s.second);
  printf("@INFO part %zu/%zu: machines=%zu (flat %zu, nested %zu) seq_depth=%zu maxdepth_with_new_state=%zu states=%zu evaluated_histories=%zu capped=%d\n", part, nparts, machines, flat, nested, depth, maxdepth, states, transitions, (int)capped);
  fflush(stdout);
  return 0;
}
