// C16: flow::StateMachine (hierarchical FSM) against a reference interpreter.
//
// PROGRAMS  machine definitions, enumerated canonically by weight (all small machines first):
//           <=3 states (+ optionally user-defined terminal state 0), events {1,2} + any-event wildcard(0),
//           <=3 routes per state (event|any, target incl. terminal, guard in {none,true,false,flip-flop}),
//           optional per-state handlers (one for a specific event, one for "any"; return -1 or an existing
//           target), optional sub-machine per state (tree, nesting depth <= Dmax), optional explicit
//           setInitState.  weight = #states + #routes + #guards + #handlers + [explicit init] + [terminal
//           defined] + weight of every sub-machine.  Canonical form: all states reachable from the initial
//           state and numbered in discovery order; first specific event mentioned is event 1.
// HISTORIES per machine, breadth-first over call sequences {start, run(1), run(2), stop, restart} x
//           {plain, every action of the machine issues <inner call> on its own machine} (30 ops), depth L,
//           deduplicated on the implementation's complete state (read through the public observers of every
//           machine of the hierarchy + guard flip-flop parity + enter/exit ledger).
// ORACLE    (1) reference interpreter (struct Ref) step by step: identical trace of guard evaluations,
//           handler calls, exit/route/enter actions, state-changed notifications (each token carries the
//           event id and currentState/lastState/nextState/isRunning/isTerminated as seen INSIDE the action),
//           identical return value, identical currentState/lastState/nextState/isRunning/isTerminated of
//           every machine of the hierarchy after every call;
//           (2) enter/exit ledger computed from the REAL trace alone: whenever the outermost machine is
//           stopped (also in the middle of restart()) every entered state has been exited exactly once;
//           never an exit without enter;
//           (3) re-entrant calls return false, emit nothing and leave all five observers unchanged.
//
// Readings (DESIGN.md 1.7 + pinned tests state_machine_test.cpp), each mirrored in struct Ref:
//   R1 handler result -1 = "no transition decided": routes are still scanned (InnerEvent);
//      a handler for the specific event hides the any-event handler (InnerAnyEvent).
//   R2 entering a state with a sub-machine starts it and forwards the triggering event to it (SubSM);
//      start() does not forward anything (InitStateHasSubMachine).
//   R3 run() returns the sub-machine's value while that stays active, else whether THIS machine moved (SubSM).
//   R4 sub-machine that terminated is stopped before the parent's own exit action (SubSMActionOrder);
//      by the same inner-first rule stop() stops an active sub-machine before the own exit action.
//   R5 lastState() survives stop()/start() (header silent; not demanded otherwise): Ref mirrors the code.
//   R6 self transitions are external (exit + enter).
//
// argv: <part> <nparts> <machine cap> <seq depth> <max nesting depth> [<file for trace hashes>|-] [flat]
//       merge <hash files...>   (prints the number of distinct trace hashes over all processes)
#include "hist/hist.h"
#include <tbox/flow/state_machine.h>
#include <cstdint>
#include <map>
#include <memory>
#include <set>
#include <string>
#include <unordered_set>
#include <vector>
using tbox::flow::Event;
using tbox::flow::StateMachine;

// ------------------------------------------------------------------------------------------------
// machine definitions
struct RouteD { int8_t ev, to, guard; };            // ev 0=any,1,2; to 0..n; guard 0 none,1 true,2 false,3 flip-flop (false first)
struct StateD { uint8_t nr; RouteD r[3]; int8_t h_any; /* -2 none, else result -1..n */ int8_t h_ev; /* 0 none, 1, 2 */ int8_t h_ret; int32_t sub; };
struct MachD { uint8_t n, init_explicit, term_def, weight, depth; StateD st[3]; };
static std::vector<MachD> TAB;            // every canonical machine, grouped by weight
static std::vector<size_t> LEVEL_BEGIN;   // TAB index where weight w starts (index w)
static int DMAX = 2;

static bool canonical(const MachD &m) {
  bool seen[4] = {false, true, false, false}; int order[4], no = 0, next = 2; order[no++] = 1;
  for (int i = 0; i < no; i++) {
    const StateD &s = m.st[order[i] - 1]; int tg[5], nt = 0;
    for (int k = 0; k < s.nr; k++) tg[nt++] = s.r[k].to;
    if (s.h_ev) tg[nt++] = s.h_ret;
    if (s.h_any != -2) tg[nt++] = s.h_any;
    for (int k = 0; k < nt; k++) { int t = tg[k]; if (t >= 1 && !seen[t]) { if (t != next) return false; seen[t] = true; next++; order[no++] = t; } }
  }
  return next == m.n + 1;
}
static void first_event(const MachD &m, int &fe) {    // first specific event mentioned (pre-order), 0 if none
  for (int s = 0; s < m.n && !fe; s++) {
    const StateD &S = m.st[s];
    for (int k = 0; k < S.nr && !fe; k++) if (S.r[k].ev) fe = S.r[k].ev;
    if (!fe && S.h_ev) fe = S.h_ev;
    if (!fe && S.sub >= 0) first_event(TAB[S.sub], fe);
  }
}
static std::vector<MachD> g_out;   // machines of the level being generated
static void gen_state(MachD &m, int s, int budget);
static void gen_sub(MachD &m, int s, int budget) {
  StateD &S = m.st[s];
  S.sub = -1; gen_state(m, s + 1, budget);
  if (DMAX >= 2) for (size_t i = 0; i < TAB.size(); i++) { if (TAB[i].weight > budget) break; if (TAB[i].depth + 1 > DMAX) continue; S.sub = (int32_t)i; gen_state(m, s + 1, budget - TAB[i].weight); }
  S.sub = -1;
}
static void gen_handlers(MachD &m, int s, int budget) {
  StateD &S = m.st[s];
  for (int hev = 0; hev <= 2; hev++) for (int hret = -1; hret <= (hev ? m.n : -1); hret++) {
    S.h_ev = hev; S.h_ret = hret; int b1 = budget - (hev ? 1 : 0); if (b1 < 0) continue;
    for (int ha = -2; ha <= m.n; ha++) { S.h_any = ha; int b2 = b1 - (ha != -2 ? 1 : 0); if (b2 < 0) continue; gen_sub(m, s, b2); }
  }
  S.h_ev = 0; S.h_ret = -1; S.h_any = -2;
}
static void gen_routes(MachD &m, int s, int k, int budget) {
  StateD &S = m.st[s];
  S.nr = k; gen_handlers(m, s, budget);
  if (k == 3) return;
  for (int ev = 0; ev <= 2; ev++) for (int to = 0; to <= m.n; to++) for (int g = 0; g <= 3; g++) {
    int b = budget - 1 - (g ? 1 : 0); if (b < 0) continue;
    S.r[k] = RouteD{(int8_t)ev, (int8_t)to, (int8_t)g}; gen_routes(m, s, k + 1, b);
  }
  S.nr = k;
}
static void gen_state(MachD &m, int s, int budget) {
  if (s == m.n) {
    if (budget != 0 || !canonical(m)) return;
    int d = 1; for (int i = 0; i < m.n; i++) if (m.st[i].sub >= 0) d = std::max(d, 1 + (int)TAB[m.st[i].sub].depth);
    if (d > DMAX) return;
    m.depth = d; g_out.push_back(m); return;
  }
  gen_routes(m, s, 0, budget);
}
static std::string shape(const MachD &m) {     // structure without labels (used to interleave a partially covered level)
  std::string k; k += char('0' + m.depth); k += char('0' + m.n); k += m.init_explicit ? 'i' : '-'; k += m.term_def ? 't' : '-';
  for (int s = 0; s < m.n; s++) { const StateD &S = m.st[s]; int ng = 0; for (int i = 0; i < S.nr; i++) ng += S.r[i].guard != 0;
    k += '['; k += char('0' + S.nr); k += char('0' + ng); k += S.h_ev ? 'h' : '-'; k += S.h_any != -2 ? 'H' : '-'; if (S.sub >= 0) k += shape(TAB[S.sub]); k += ']'; }
  return k;
}
static void gen_level(int w) {
  g_out.clear();
  for (int n = 1; n <= 3; n++) for (int ie = 0; ie <= (n >= 2 ? 1 : 0); ie++) for (int td = 0; td <= 1; td++) {
    int budget = w - n - ie - td; if (budget < 0) continue;
    MachD m; memset(&m, 0, sizeof m); m.n = n; m.init_explicit = ie; m.term_def = td; m.weight = w;
    for (int s = 0; s < 3; s++) { m.st[s].h_any = -2; m.st[s].h_ret = -1; m.st[s].sub = -1; }
    gen_state(m, 0, budget);
  }
  // round-robin over shape classes: a partially covered level still contains every shape
  std::map<std::string, std::vector<size_t>> groups;
  for (size_t i = 0; i < g_out.size(); i++) groups[shape(g_out[i])].push_back(i);
  LEVEL_BEGIN.resize(w + 1, TAB.size()); LEVEL_BEGIN[w] = TAB.size();
  for (size_t round = 0, left = g_out.size(); left > 0; round++)
    for (auto &g : groups) if (round < g.second.size()) { TAB.push_back(g_out[g.second[round]]); left--; }
}
static std::string show_mach(const MachD &m) {
  std::string s = "M{"; if (m.init_explicit) s += "setInit(1),regorder=desc;"; if (m.term_def) s += "term0-defined;";
  for (int i = 0; i < m.n; i++) { const StateD &S = m.st[i]; s += " S" + std::to_string(i + 1) + ":";
    for (int k = 0; k < S.nr; k++) { s += " "; s += S.r[k].ev ? "e" + std::to_string(S.r[k].ev) : "*"; s += ">" + std::to_string(S.r[k].to);
      if (S.r[k].guard) s += S.r[k].guard == 1 ? "[T]" : S.r[k].guard == 2 ? "[F]" : "[flip]"; }
    if (S.h_ev) s += " h(e" + std::to_string(S.h_ev) + ")=" + std::to_string(S.h_ret);
    if (S.h_any != -2) s += " h(*)=" + std::to_string(S.h_any);
    if (S.sub >= 0) s += " sub=" + show_mach(TAB[S.sub]);
    s += ";"; }
  return s + "}";
}

// ------------------------------------------------------------------------------------------------
// one instantiated hierarchy: nodes in pre-order, node 0 = outermost machine
struct Node { int def, parent, depth; int sub[4]; };
struct Hook { int node; char kind; int state, route; };   // kind n enter, x exit, a route action, g guard, h handler, c changed
enum { START, RUN1, RUN2, STOP, RESTART };
static const char *CALLN[] = {"start", "run(1)", "run(2)", "stop", "restart"};
static const char *KINDN(char k) { return k == 'n' ? "enter" : k == 'x' ? "exit" : k == 'a' ? "route" : k == 'g' ? "guard" : k == 'h' ? "handler" : "changed"; }
struct Op { int call, reent; };   // reent: -1 none, else inner call issued from every action on its own machine

struct Ctx {
  std::vector<Node> nodes; std::vector<Hook> hooks;
  std::vector<StateMachine *> sm;
  std::string tr; int reent = -1, reent_depth = 0; std::string reent_viol, balance_viol; bool in_restart = false;
  int cnt[16][4]; uint8_t flip_real[16][4][3], flip_ref[16][4][3];
} G;

static void add_nodes(int def, int parent, int depth) {
  int k = (int)G.nodes.size(); G.nodes.push_back(Node{def, parent, depth, {-1, -1, -1, -1}});
  for (int s = 1; s <= TAB[def].n; s++) if (TAB[def].st[s - 1].sub >= 0) { int c = (int)G.nodes.size(); add_nodes(TAB[def].st[s - 1].sub, k, depth + 1); G.nodes[k].sub[s] = c; }
}
static void put_int(std::string &s, int v) { if (v < 0) { s += '-'; v = -v; } s += char('0' + v); }
static void token(int node, char kind, int st, int rt, int ev, int cur, int last, int next, bool run, bool term) {
  std::string &s = G.tr; s += char('a' + node); s += kind; put_int(s, st); if (rt >= 0 || kind == 'c') { s += kind == 'c' ? '>' : '.'; put_int(s, rt); }
  s += '/'; put_int(s, ev); s += '('; put_int(s, cur); s += ','; put_int(s, last); s += ','; put_int(s, next); s += run ? 'R' : 'S'; if (term) s += 'T'; s += ')';
}
static std::string obs_real(int k) { StateMachine *m = G.sm[k]; std::string s; put_int(s, m->currentState()); s += ','; put_int(s, m->lastState()); s += ','; put_int(s, m->nextState()); s += m->isRunning() ? 'R' : 'S'; if (m->isTerminated()) s += 'T'; return s; }
static bool ledger_zero(std::string *what) { bool z = true; for (size_t k = 0; k < G.nodes.size(); k++) for (int s = 0; s < 4; s++) if (G.cnt[k][s] != 0) { z = false; if (what) { *what += " m"; *what += char('a' + k); *what += ".S" + std::to_string(s) + ":" + std::to_string(G.cnt[k][s]); } } return z; }

// ---- real side: every callback of every generated machine ends here
static void real_hook(const Hook *h, Event e) {
  StateMachine *m = G.sm[h->node];
  token(h->node, h->kind, h->state, h->route, e.id, m->currentState(), m->lastState(), m->nextState(), m->isRunning(), m->isTerminated());
  if (h->kind == 'n') {
    if (h->node == 0 && G.in_restart && G.reent_depth == 0) { std::string w; if (!ledger_zero(&w) && G.balance_viol.empty()) G.balance_viol = "outermost machine was stopped inside restart() with entered-but-not-exited states:" + w; }
    G.cnt[h->node][h->state]++;
  } else if (h->kind == 'x') {
    if (--G.cnt[h->node][h->state] < 0 && G.balance_viol.empty()) G.balance_viol = std::string("exit without enter: m") + char('a' + h->node) + ".S" + std::to_string(h->state);
  }
  if (G.reent >= 0 && G.reent_depth == 0) {
    G.reent_depth++;
    std::string snap = obs_real(h->node); size_t len = G.tr.size(); int r = -1;
    switch (G.reent) { case START: r = m->start(); break; case RUN1: r = m->run(1); break; case RUN2: r = m->run(2); break; case STOP: m->stop(); break; case RESTART: r = m->restart(); break; }
    bool changed = obs_real(h->node) != snap || G.tr.size() != len;
    if ((r == 1 || changed) && G.reent_viol.empty())
      G.reent_viol = std::string("reentrant-") + (G.reent == RUN1 || G.reent == RUN2 ? "run" : CALLN[G.reent]) + "-accepted-in-" + KINDN(h->kind) + " machine m" + char('a' + h->node) + " before=" + snap + " after=" + obs_real(h->node) + " ret=" + std::to_string(r);
    G.tr += '!'; G.tr += G.reent == STOP ? '-' : r ? '1' : '0';
    G.reent_depth--;
  }
}
static bool guard_value(int kind, uint8_t &ctr) { if (kind == 1) return true; if (kind == 2) return false; return (ctr++ & 1) == 1; }

static std::string build_real() {
  for (auto *p : G.sm) delete p; G.sm.clear();
  for (size_t k = 0; k < G.nodes.size(); k++) G.sm.push_back(new StateMachine);
  const Hook *h = G.hooks.data(); bool ok = true;
  for (size_t k = 0; k < G.nodes.size(); k++) {
    const MachD &d = TAB[G.nodes[k].def]; StateMachine *m = G.sm[k];
    if (d.init_explicit) m->setInitState(1);
    for (int i = 0; i < d.n; i++) { int s = d.init_explicit ? d.n - i : i + 1; const Hook *he = h++, *hx = h++;
      ok &= m->newState(s, [he](Event e) { real_hook(he, e); G.tr += ' '; }, [hx](Event e) { real_hook(hx, e); G.tr += ' '; }); }
    // definition order is part of the quantifier ("every machine definition"): with C16_TERM_LATE the user-defined terminal
    // state 0 is created AFTER the routes/handlers that refer to it (addRoute accepts target 0 before it exists)
    static const bool term_late = getenv("C16_TERM_LATE") != nullptr;
    const Hook *he0 = nullptr, *hx0 = nullptr;
    if (d.term_def) { he0 = h++; hx0 = h++;
      if (!term_late) ok &= m->newState(0, [he0](Event e) { real_hook(he0, e); G.tr += ' '; }, [hx0](Event e) { real_hook(hx0, e); G.tr += ' '; }); }
    for (int s = 1; s <= d.n; s++) { const StateD &S = d.st[s - 1];
      for (int r = 0; r < S.nr; r++) { const Hook *hg = h++, *ha = h++; int gk = S.r[r].guard; uint8_t *ctr = &G.flip_real[k][s][r];
        StateMachine::GuardFunc gf; if (gk) gf = [hg, gk, ctr](Event e) { real_hook(hg, e); bool v = guard_value(gk, *ctr); G.tr += v ? "=1 " : "=0 "; return v; };
        ok &= m->addRoute(s, (int)S.r[r].ev, (int)S.r[r].to, gf, [ha](Event e) { real_hook(ha, e); G.tr += ' '; }); }
      // lane C16_BAD_HANDLER: a handler that would decline (-1) returns 9 instead, an id that names no state of the machine
      static const bool bad_handler = getenv("C16_BAD_HANDLER") != nullptr;
      if (S.h_ev) { const Hook *hh = h++; int ret = (bad_handler && S.h_ret == -1) ? 9 : S.h_ret; ok &= m->addEvent(s, (int)S.h_ev, [hh, ret](Event e) { real_hook(hh, e); G.tr += ' '; return ret; }); }
      if (S.h_any != -2) { const Hook *hh = h++; int ret = (bad_handler && S.h_any == -1) ? 9 : S.h_any; ok &= m->addEvent(s, 0, [hh, ret](Event e) { real_hook(hh, e); G.tr += ' '; return ret; }); }
      if (G.nodes[k].sub[s] >= 0) ok &= m->setSubStateMachine(s, G.sm[G.nodes[k].sub[s]]); }
    if (d.term_def && term_late) ok &= m->newState(0, [he0](Event e) { real_hook(he0, e); G.tr += ' '; }, [hx0](Event e) { real_hook(hx0, e); G.tr += ' '; });
    int node = (int)k;
    m->setStateChangedCallback([node](int f, int t, Event e) { Hook hc{node, 'c', f, t}; real_hook(&hc, e); G.tr += ' '; });
  }
  return ok ? "" : "definition call returned false";
}
static void make_hooks() {   // same order as consumed in build_real
  G.hooks.clear();
  for (size_t k = 0; k < G.nodes.size(); k++) { const MachD &d = TAB[G.nodes[k].def]; int n = (int)k;
    for (int i = 0; i < d.n; i++) { int s = d.init_explicit ? d.n - i : i + 1; G.hooks.push_back(Hook{n, 'n', s, -1}); G.hooks.push_back(Hook{n, 'x', s, -1}); }
    if (d.term_def) { G.hooks.push_back(Hook{n, 'n', 0, -1}); G.hooks.push_back(Hook{n, 'x', 0, -1}); }
    for (int s = 1; s <= d.n; s++) { const StateD &S = d.st[s - 1];
      for (int r = 0; r < S.nr; r++) { G.hooks.push_back(Hook{n, 'g', s, r}); G.hooks.push_back(Hook{n, 'a', s, r}); }
      if (S.h_ev) G.hooks.push_back(Hook{n, 'h', s, S.h_ev});
      if (S.h_any != -2) G.hooks.push_back(Hook{n, 'h', s, 0}); } }
}

// ------------------------------------------------------------------------------------------------
// REFERENCE INTERPRETER: written from state_machine.h + the C16 statement + readings R1..R6 above.
struct Ref {
  int cur[16], last[16], next[16]; bool running[16];
  void reset() { for (int i = 0; i < 16; i++) { cur[i] = last[i] = next[i] = -1; running[i] = false; } }
  const MachD &def(int k) const { return TAB[G.nodes[k].def]; }
  void act(int k, char kind, int st, int rt, int ev) {      // an observable action of machine k
    token(k, kind, st, rt, ev, cur[k], last[k], next[k], running[k], cur[k] == 0);
    if (G.reent >= 0) { G.tr += '!'; G.tr += G.reent == STOP ? '-' : '0'; }    // calls from inside an action are rejected, nothing happens
    if (kind != 'g') G.tr += ' ';
  }
  bool has_actions(int k, int st) const { return st >= 1 || (st == 0 && def(k).term_def); }
  bool start(int k) {
    if (running[k]) return false;
    running[k] = true; cur[k] = 1;                          // state 1 is the initial state of every generated machine
    act(k, 'n', 1, -1, 0);
    int sb = G.nodes[k].sub[1]; if (sb >= 0) start(sb);      // R2: no event forwarded on start
    return true;
  }
  void stop(int k) {
    if (!running[k]) return;
    int c = cur[k];
    if (c >= 1) { int sb = G.nodes[k].sub[c]; if (sb >= 0 && running[sb]) stop(sb); }   // statement: balanced at every level; R4: inner first
    if (has_actions(k, c)) act(k, 'x', c, -1, 0);
    cur[k] = -1; running[k] = false;
  }
  bool run(int k, int e) {
    if (!running[k]) return false;
    int c = cur[k]; if (c == 0) return false;               // terminal state has no routes
    int sb = G.nodes[k].sub[c];
    if (sb >= 0 && running[sb]) {                           // events go to the active sub-machine until it has terminated
      bool r = run(sb, e);
      if (cur[sb] != 0) return r;                           // R3
      stop(sb);                                             // R4
    }
    const StateD &S = def(k).st[c - 1]; int target = -1, ri = -1;
    if (S.h_ev == e) { act(k, 'h', c, e, e); target = S.h_ret; }                      // a handler may pick the target (R1)
    else if (S.h_any != -2) { act(k, 'h', c, 0, e); target = S.h_any; }
    static const bool bad_handler = getenv("C16_BAD_HANDLER") != nullptr;
    if (bad_handler && target == -1 && (S.h_ev == e || S.h_any != -2)) return false;   // the handler named a state that does not exist: the event is dropped, nothing changes, the machine stays usable
    if (target == -1) {                                     // first route in registration order whose event matches and whose guard holds
      for (int i = 0; i < S.nr && ri < 0; i++) {
        if (S.r[i].ev != 0 && S.r[i].ev != e) continue;
        if (S.r[i].guard) { act(k, 'g', c, i, e); bool v = guard_value(S.r[i].guard, G.flip_ref[k][c][i]); G.tr += v ? "=1 " : "=0 "; if (!v) continue; }
        ri = i;
      }
      if (ri < 0) return false;
      target = S.r[ri].to;
    }
    next[k] = target;
    act(k, 'x', c, -1, e);                                  // exit: current still the old state, next = target
    last[k] = c; cur[k] = -1;
    if (ri >= 0) act(k, 'a', c, ri, e);                     // route action: "in transition", current = -1
    cur[k] = target; next[k] = -1;
    if (has_actions(k, target)) act(k, 'n', target, -1, e);
    act(k, 'c', c, target, e);                              // state-changed notification
    if (target >= 1) { int ns = G.nodes[k].sub[target]; if (ns >= 0) { start(ns); run(ns, e); } }   // R2
    return true;
  }
  std::string obs(int k) const { std::string s; put_int(s, cur[k]); s += ','; put_int(s, last[k]); s += ','; put_int(s, next[k]); s += running[k] ? 'R' : 'S'; if (cur[k] == 0) s += 'T'; return s; }
} REF;

// ------------------------------------------------------------------------------------------------
static std::string show_op(const Op &o) { std::string s = CALLN[o.call]; if (o.reent >= 0) s += std::string("+every-action-calls:") + CALLN[o.reent]; return s; }
static std::string show_hist(const std::vector<Op> &h) { std::string s; for (auto &o : h) { if (!s.empty()) s += ' '; s += show_op(o); } return s.empty() ? "<empty>" : s; }
static int tok_depth(const std::string &t) { int n = t[0] - 'a'; return n >= 0 && n < (int)G.nodes.size() ? G.nodes[n].depth : 0; }
// number of exit / enter actions of sub-machines (nodes b,c,..) in a trace segment
static int count_sub(const std::string &tr, char kind) { int c = 0; size_t p = 0; while (p < tr.size()) { size_t q = tr.find(' ', p); if (q == std::string::npos) q = tr.size(); if (q > p + 1 && tr[p] != 'a' && tr[p + 1] == kind) c++; p = q + 1; } return c; }

struct EvalOut { std::string canon, viol; uint64_t trace_hash; std::string trace; };
static bool g_keep_trace = false;
static std::map<std::string, size_t> g_sigcount;   // violations per signature in this process

// Replay a call sequence on a fresh real hierarchy and a fresh reference, compare after every call.
static EvalOut evaluate(int top, const std::vector<Op> &hist) {
  EvalOut out; out.trace_hash = 1469598103934665603ull;
  memset(G.cnt, 0, sizeof G.cnt); memset(G.flip_real, 0, sizeof G.flip_real); memset(G.flip_ref, 0, sizeof G.flip_ref);
  G.reent = -1; G.reent_depth = 0; G.reent_viol.clear(); G.balance_viol.clear(); G.in_restart = false;
  std::string berr = build_real(); REF.reset();
  if (!berr.empty()) { out.viol = "harness-build-failed " + berr; return out; }
  StateMachine *m = G.sm[0]; size_t nn = G.nodes.size();
  for (size_t i = 0; i < hist.size(); i++) {
    const Op &op = hist[i]; int r1 = -1, r2 = -1;
    G.tr.clear(); G.reent = op.reent; G.in_restart = op.call == RESTART;
    switch (op.call) { case START: r1 = m->start(); break; case RUN1: r1 = m->run(1); break; case RUN2: r1 = m->run(2); break; case STOP: m->stop(); break; case RESTART: r1 = m->restart(); break; }
    G.in_restart = false; std::string t1; t1.swap(G.tr);
    switch (op.call) { case START: r2 = REF.start(0); break; case RUN1: r2 = REF.run(0, 1); break; case RUN2: r2 = REF.run(0, 2); break; case STOP: REF.stop(0); break; case RESTART: REF.stop(0); r2 = REF.start(0); break; }
    G.reent = -1; std::string t2; t2.swap(G.tr);
    std::string o1, o2; for (size_t k = 0; k < nn; k++) { o1 += obs_real(k); o1 += ' '; o2 += REF.obs(k); o2 += ' '; }
    std::string step = std::string(CALLN[op.call]) + (op.reent >= 0 ? std::string("+") + CALLN[op.reent] : "") + ": " + t1 + "=> " + std::to_string(r1) + " | " + o1 + "; ";
    for (char c : step) { out.trace_hash ^= (uint8_t)c; out.trace_hash *= 1099511628211ull; }
    if (g_keep_trace) out.trace += step;
    // ---- oracles
    std::string sig, bal;
    bool top_stopped = !m->isRunning();
    if (G.balance_viol.empty() && top_stopped && !ledger_zero(&bal)) G.balance_viol = "outermost machine is stopped with entered-but-not-exited states:" + bal;
    bool same = t1 == t2 && r1 == r2 && o1 == o2;
    if (!G.reent_viol.empty()) sig = G.reent_viol;
    else if (!same || !G.balance_viol.empty()) {
      bool sub_left = false;     // a sub-machine the reference has stopped is still running / was not exited
      for (size_t k = 1; k < nn; k++) if (G.sm[k]->isRunning() && !REF.running[k]) sub_left = true;
      if (count_sub(t2, 'x') > count_sub(t1, 'x')) sub_left = true;                               // its exit action is missing
      if (op.call == RESTART && count_sub(t2, 'n') > count_sub(t1, 'n')) sub_left = true;          // or it was not started again because it never stopped
      if ((op.call == STOP || op.call == RESTART) && sub_left) sig = std::string(CALLN[op.call]) + "-leaves-active-submachine-running";
      else if (!G.balance_viol.empty()) {
        int lvl = 0; for (size_t k = 0; k < nn; k++) for (int s = 0; s < 4; s++) if (G.cnt[k][s] != 0) lvl = std::max(lvl, G.nodes[k].depth);
        sig = std::string("enter-exit-unbalanced-after-") + (op.call == RUN1 || op.call == RUN2 ? "run" : CALLN[op.call]) + "-level" + std::to_string(lvl);
      } else {
        // does the active chain of the real hierarchy end at a state whose sub-machine is stopped?
        int k = 0; bool stopped_sub = false;
        while (true) { int c = G.sm[k]->currentState(); if (!G.sm[k]->isRunning() || c < 1) break; int sb = G.nodes[k].sub[c]; if (sb < 0) break; if (!G.sm[sb]->isRunning()) { stopped_sub = true; break; } k = sb; }
        if ((op.call == RUN1 || op.call == RUN2) && t1.empty() && r1 == 0 && stopped_sub) sig = "run-ignored-after-submachine-terminated";
        else {
          // suffix "-reentrant" only when the divergence lies in the inner calls themselves (traces agree once the !<result> marks are removed)
          auto strip = [](const std::string &t) { std::string o; for (size_t i = 0; i < t.size(); i++) { if (t[i] == '!') { i++; continue; } o += t[i]; } return o; };
          bool reent_specific = op.reent >= 0 && strip(t1) == strip(t2) && r1 == r2 && o1 == o2;
          // first differing token
          std::string a = "end", b = "end"; size_t p = 0, q = 0; bool found = false;
          while (p < t1.size() || q < t2.size()) {
            size_t pe = t1.find(' ', p), qe = t2.find(' ', q); if (pe == std::string::npos) pe = t1.size(); if (qe == std::string::npos) qe = t2.size();
            std::string x = p < t1.size() ? t1.substr(p, pe - p) : "", y = q < t2.size() ? t2.substr(q, qe - q) : "";
            if (x != y) { found = true;
              if (!x.empty()) a = std::string(KINDN(x[1])) + "L" + std::to_string(tok_depth(x));
              if (!y.empty()) b = std::string(KINDN(y[1])) + "L" + std::to_string(tok_depth(y));
              if (!x.empty() && !y.empty() && x[0] == y[0] && x[1] == y[1]) {   // same action, different detail
                size_t xo = x.find('('), yo = y.find('(');
                if (x.substr(0, xo) != y.substr(0, yo)) { a += "-id"; b += "-id"; }
                else if (x.substr(0, x.find(')')) != y.substr(0, y.find(')'))) { a += "-observers"; b += "-observers"; }
                else { a += "-result"; b += "-result"; } }
              break; }
            p = pe + 1; q = qe + 1;
          }
          if (!found) { if (r1 != r2) a = b = "return-value"; else a = b = "observers-after-call"; }
          sig = std::string("diverge-") + (op.call == RUN1 || op.call == RUN2 ? "run" : CALLN[op.call]) + (reent_specific ? "-reentrant" : "") + "-real:" + a + "-ref:" + b;
        }
      }
    }
    if (!sig.empty()) {
      std::string s0 = sig.substr(0, sig.find(' '));
      if (g_sigcount[s0] >= 3) { out.viol = s0; return out; }     // already printed three replays of this signature: count only
      out.viol = sig + " machine=" + show_mach(TAB[top]) + " calls=[" + show_hist(hist) + "] diverges at call #" + std::to_string(i + 1) + " " + show_op(op) +
                 " REAL: " + t1 + "=> ret=" + std::to_string(r1) + " state(cur,last,next,Running/Stopped,Terminated per machine a,b,..)= " + o1 +
                 "REF: " + t2 + "=> ret=" + std::to_string(r2) + " state= " + o2 + (G.balance_viol.empty() ? "" : "BALANCE: " + G.balance_viol);
      return out;
    }
  }
  // canonical state: all observers of every machine + flip-flop parities + ledger
  for (size_t k = 0; k < nn; k++) { out.canon += obs_real(k); out.canon += '|'; }
  for (size_t k = 0; k < nn; k++) for (int s = 1; s < 4; s++) for (int r = 0; r < 3; r++) out.canon += char('0' + (G.flip_real[k][s][r] & 1));
  for (size_t k = 0; k < nn; k++) for (int s = 0; s < 4; s++) out.canon += char('0' + G.cnt[k][s]);
  return out;
}

int main(int argc, char **argv) {
  if (argc > 1 && !strcmp(argv[1], "merge")) {     // union of the per-process trace-hash files -> number of distinct traces
    std::vector<uint64_t> all; for (int i = 2; i < argc; i++) { FILE *f = fopen(argv[i], "rb"); if (!f) continue; uint64_t b[4096]; size_t n; while ((n = fread(b, 8, 4096, f)) > 0) all.insert(all.end(), b, b + n); fclose(f); }
    std::sort(all.begin(), all.end()); size_t d = std::unique(all.begin(), all.end()) - all.begin();
    printf("@STAT distinct_traces=%zu\n", d); return 0;
  }
  size_t part = argc > 1 ? atoi(argv[1]) : 0, nparts = argc > 2 ? atoi(argv[2]) : 1, cap = argc > 3 ? atol(argv[3]) : 2000;
  size_t depth = argc > 4 ? atoi(argv[4]) : 5; DMAX = argc > 5 ? atoi(argv[5]) : 2;
  const char *hashfile = argc > 6 && argv[6][0] != '-' ? argv[6] : nullptr; bool flat_only = argc > 7 && !strcmp(argv[7], "flat");
  if (flat_only) DMAX = 1;
  hx::install_crash_reporter("C16-crash");
  double deadline = hx::deadline_from_env(600);

  // ---- enumerate machines by weight until the cap is reached
  std::vector<size_t> sel; size_t complete_w = 0, sel_before_last = 0, last_level_total = 0; int w = 1;
  for (; sel.size() < cap && w <= 12; w++) {
    sel_before_last = sel.size(); size_t b = TAB.size(); gen_level(w); last_level_total = 0;
    for (size_t i = b; i < TAB.size(); i++) { int fe = 0; first_event(TAB[i], fe); if (fe == 2) continue; last_level_total++; if (sel.size() < cap) sel.push_back(i); }
    if (sel.size() - sel_before_last == last_level_total) complete_w = w;
  }
  int last_w = w - 1; double t_gen = hx::now_s();
  if (part == 0) {
    printf("@INFO enumeration took %.1fs, table of %zu machine definitions\n", t_gen - (deadline - (getenv("VERIF_DEADLINE_S") ? atof(getenv("VERIF_DEADLINE_S")) : 600)), TAB.size());
    printf("@INFO machines: %zu selected; weights 1..%zu complete; weight %d: %zu of %zu canonical machines (nesting depth <= %d)\n", sel.size(), complete_w, last_w, sel.size() - sel_before_last, last_level_total, DMAX);
    printf("@CAP machine cap %zu: every canonical machine of weight <= %zu is selected; of weight %d only %zu of %zu (interleaved over all structural shapes); heavier machines (<=3 states, <=3 routes/state, depth <= %d) are not enumerated\n",
           cap, complete_w, last_w, sel.size() - sel_before_last, last_level_total, DMAX);
  }

  std::vector<Op> menu; for (int c = 0; c < 5; c++) menu.push_back(Op{c, -1}); for (int c = 0; c < 5; c++) for (int r = 0; r < 5; r++) menu.push_back(Op{c, r});
  size_t machines = 0, flat = 0, nested = 0, states = 0, transitions = 0, violations = 0, viol_flat = 0, viol_nested = 0, redet = 0, reent_evals = 0, maxdepth = 0, fixpoints = 0, samples = 0;
  std::map<std::string, size_t> &sigcount = g_sigcount; std::unordered_set<uint64_t> hashes; size_t next_outcome = 1; bool capped = false;
  for (size_t j = part; j < sel.size() && !capped; j += nparts) {
    if (hx::now_s() > deadline) { capped = true; printf("@CAP part %zu/%zu: deadline reached before machine #%zu of %zu (weight %d)\n", part, nparts, j, sel.size(), (int)TAB[sel[j]].weight); break; }
    int top = (int)sel[j]; G.nodes.clear(); add_nodes(top, -1, 0); make_hooks();
    bool is_flat = G.nodes.size() == 1; machines++; (is_flat ? flat : nested)++;
    std::string mtxt = show_mach(TAB[top]);
    std::unordered_set<std::string> seen; std::vector<std::vector<Op>> layer(1), next;
    { EvalOut e0 = evaluate(top, layer[0]); seen.insert(e0.canon); states++; if (!e0.viol.empty()) { violations++; printf("@VIOL sig=%s :: %s\n", e0.viol.substr(0, e0.viol.find(' ')).c_str(), e0.viol.c_str()); continue; } }
    std::vector<Op> lastnew; size_t d = 0;
    for (; d < depth && !layer.empty(); d++) {
      next.clear();
      for (auto &h : layer) for (auto &op : menu) {
        std::vector<Op> c = h; c.push_back(op);
        hx::set_current(mtxt + " calls=[" + show_hist(c) + "]");
        bool want = hashes.size() + 1 == next_outcome || (samples < 3 && d + 1 == depth);
        g_keep_trace = want; EvalOut e = evaluate(top, c); transitions++; if (op.reent >= 0) reent_evals++;
        if (hashes.insert(e.trace_hash).second && e.viol.empty() && g_keep_trace && hashes.size() == next_outcome) { next_outcome *= 4; if (part == 0) printf("@OUTCOME %s\n", e.trace.c_str()); }   // ~10 sample outcomes in total; the count is distinct_traces
        if (!e.viol.empty()) {
          violations++; (is_flat ? viol_flat : viol_nested)++;
          std::string s = e.viol.substr(0, e.viol.find(' ')); size_t &n = sigcount[s];
          if (++n <= 3) printf("@VIOL sig=%s :: %s\n", s.c_str(), e.viol.size() > s.size() ? e.viol.substr(s.size() + 1).c_str() : "");
          continue;   // not expanded
        }
        if (seen.insert(e.canon).second) { states++; maxdepth = std::max(maxdepth, c.size()); next.push_back(c); lastnew = c;
          if (samples < 3 && d + 1 == depth && g_keep_trace) { samples++; printf("@SAMPLE %s calls=[%s] trace: %s\n", mtxt.c_str(), show_hist(c).c_str(), e.trace.c_str()); } }
      }
      layer.swap(next);
    }
    if (layer.empty()) fixpoints++;
    if (!lastnew.empty()) { g_keep_trace = false; EvalOut e = evaluate(top, lastnew); redet++; if (!seen.count(e.canon)) { violations++; printf("@VIOL sig=harness-nondeterministic-replay :: %s calls=[%s]\n", mtxt.c_str(), show_hist(lastnew).c_str()); } }
  }
  for (auto *p : G.sm) delete p; G.sm.clear();
  if (hashfile) { FILE *f = fopen(hashfile, "wb"); if (f) { for (uint64_t h : hashes) fwrite(&h, 8, 1, f); fclose(f); } }
  printf("@STAT machines=%zu machines_flat=%zu machines_nested=%zu states=%zu transitions=%zu executions=%zu violations=%zu violations_flat=%zu violations_nested=%zu reentrant_evaluations=%zu replay_checks=%zu machines_at_fixpoint=%zu distinct_traces_per_part=%zu\n",
         machines, flat, nested, states, transitions, transitions + redet + machines, violations, viol_flat, viol_nested, reent_evals, redet, fixpoints, hashes.size());
  for (auto &s : sigcount) printf("@STAT viol[%s]=%zu\n", s.first.c_str(), s.second);
  printf("@INFO part %zu/%zu: machines=%zu (flat %zu, nested %zu) seq_depth=%zu maxdepth_with_new_state=%zu states=%zu evaluated_histories=%zu capped=%d\n", part, nparts, machines, flat, nested, depth, maxdepth, states, transitions, (int)capped);
  fflush(stdout);
  return 0;
}
