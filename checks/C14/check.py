import time, vf
from concurrent.futures import ThreadPoolExecutor
PID = "C14"
D = vf.VERIF + "/checks/C14/"
STUB = [vf.VERIF + "/engine/sched/log_stub.cpp"]

def main(tier, args):
    t0 = time.time()
    thorough = tier != "quick"
    lvl = "1" if thorough else "0"
    frame_srcs = vf.module_sources("jsonrpc", "util/json.cpp", "util/serializer.cpp", "base/catch_throw.cpp", "base/backtrace.cpp",
                                   exclude=("jsonrpc/rpc.cpp",))
    rpc_srcs = vf.module_sources("jsonrpc", "util/json.cpp", "util/serializer.cpp", "base/catch_throw.cpp", "base/backtrace.cpp", "event")
    # three executables; the three big harness TUs compile concurrently (distinct sources/flags -> distinct cache keys)
    cc, mflags = vf.MODES["asan"]
    # harness TUs only: not instrumented (58 s -> 19 s of compile time); every cpp-tbox source keeps ASan+UBSan and is linked first,
    # so shared inline/template code (nlohmann, TimeoutMonitor) resolves to the instrumented copies
    O0 = ["-fno-sanitize=all"]
    with ThreadPoolExecutor(3) as ex:
        f1 = ex.submit(vf.build, "C14/frame_asan", [D + "frame_harness.cpp"], rpc_srcs, mode="asan", plain_srcs=STUB, harness_flags=O0)
        f2 = ex.submit(vf.build, "C14/frame_opt", [D + "frame_harness.cpp"], frame_srcs + STUB, mode="opt")   # stub compiled with the opt flags: no cache-key clash with the concurrent build
        f3 = ex.submit(vf._compile_one, cc, vf.BASE_FLAGS + mflags + ["-fno-access-control"] + O0, D + "rpc_harness.cpp")   # pre-warm the cache
        frame, f3r = f1.result(), f3.result()
        rpc = vf.build("C14/rpc_asan", [D + "rpc_harness.cpp"], rpc_srcs, mode="asan", plain_srcs=STUB, harness_flags=O0)
        frame_opt = f2.result()
    res = vf.Result(); log = open(vf.BUILD + "/C14/log.txt", "w")
    dl = 1100 if thorough else 150
    jobs = []
    def fam(exe, tag, name, nparts, maxseg=0):
        for p in range(nparts):
            jobs.append(("%s:%s:%d" % (tag, name, p), [exe, name, str(p), str(nparts), lvl, str(maxseg)]))
    depth = 12 if thorough else 7     # thorough reaches the BFS fixpoint (depth 8-10) for every configuration
    cfgs = [("raw", "epoll", 2), ("header", "epoll", 2), ("packet", "epoll", 2), ("raw", "select", 2),
            ("raw", "epoll", 1), ("raw", "epoll", 3), ("raw", "epoll", 0)]
    if thorough:
        cfgs += [("header", "select", 3), ("packet", "select", 1), ("header", "epoll", 0), ("packet", "select", 0)]
    # longest first
    if thorough:
        for p, e, t in cfgs:
            jobs.append(("rpc:%s:%s:t%d" % (p, e, t), [rpc, p, e, str(t), str(depth)]))
    fam(frame, "asan", "roundtrip", 8 if thorough else 6)
    fam(frame, "asan", "trunc", 4)
    fam(frame, "asan", "segment", 8 if thorough else 4, 2)      # 2-segment splits + chunkings reach every distinct onRecvData window under ASan
    fam(frame, "asan", "mixed", 4 if thorough else 2, 2)
    fam(frame_opt, "opt", "segment", 8 if thorough else 4)      # the full <=3(4)-segment sweep runs on the -O2 build (40x faster)
    fam(frame_opt, "opt", "mixed", 8 if thorough else 4)
    if not thorough:
        for p, e, t in cfgs:
            jobs.append(("rpc:%s:%s:t%d" % (p, e, t), [rpc, p, e, str(t), str(depth)]))
    fam(frame, "asan", "bytes", 4 if thorough else 2)
    fam(frame, "asan", "envelope", 2)
    fam(frame, "asan", "len", 2)
    fam(frame, "asan", "packet", 1)
    fam(frame, "asan", "magic", 1)
    fam(frame_opt, "opt", "deep", 1)                            # stack depth is measured on the build the project ships (-O2 -DNDEBUG), 8 MiB stack
    if args.only:
        jobs = [j for j in jobs if j[0] == args.only or j[0].split(":")[1] == args.only or j[0].split(":")[0] == args.only]
    env = {"VERIF_DEADLINE_S": str(dl), "VERIF_WORKERS": "0"}
    vf.run_procs(res, jobs, env=env, log=log, jobs=16)
    b = ("4", "8", "8", "3 (4 for single messages)", "3", "3", "5", depth) if thorough else ("3", "4", "4", "3", "3 (<=3-segment splits up to len 2)", "2", "4", depth)
    vf.finish(PID, tier, res, t0,
              rule="(I, framing; real RawStreamProto/HeaderStreamProto/PacketProto; every batch in a forked child, exceptions caught per call) "
                   "ROUND TRIP [ASan+UBSan]: every JSON value of an exhaustive generator (nesting<=3, strings over {quote,backslash,{,},[,],e-acute,a} up to %s symbols, %s object keys) "
                   "as params of a request and result of a response, encoded by the proto's own sender, must decode to exactly one equal message; "
                   "SEGMENTATION (stream framings): every concatenation of <=3 pool messages (triples over the first %s of 8) x every split into <=%s segments [-O2 build] and every 2-segment split + every fixed chunk size (1 = byte-wise) [ASan+UBSan], "
                   "fed as a caller does (consume the returned count, re-present the rest), must give the unsegmented message sequence and consume everything; valid frame + every hostile string (len<=%s [-O2], len<=%s [ASan]) + valid frame: same message sequence; "
                   "PACKET [ASan]: every sequence of <=3 packets, one call each, decodes as each packet alone; "
                   "HOSTILE [ASan]: header length field in {0,1,n-1,n,n+1,n+6,2^31-1,2^31,2^32-7..2^32-1} x every truncation x {alone,followed by a frame}, all 65536 magic values, every proper prefix of ~2000 valid messages, "
                   "every byte string of length<=%s over '{}[]\"\\,:1a ' in 5 presentations, 39000 JSON-RPC envelopes with hostile field types, each bare and inside a batch array; [-O2, 8 MiB stack] arrays nested 100..10^6 deep: "
                   "no exception, no crash/sanitizer report, return value <= presented size, incomplete frame -> 0, non-JSON -> not consumed, no callback for non-messages. "
                   "(H, completion) BFS depth %d over {request(plain | callback issues a follow-up), deliver result|error for any issued request (hence duplicate/late too), deliver future-id / id 1000 / id 0, advance 1 s + loop pass} "
                   "on two real Rpc peers wired back-to-back on a real loop with a virtual monotonic clock; <=3 requests; timeout_sec in {1,2,3,default 30 (advance = 10 ticks)}; 3 protos; epoll+select; "
                   "reference model = per-request ring countdown; oracle = callback exactly once, with the matching response if delivered before the ring wraps, else kRequestTimeout in exactly that tick; "
                   "canonical state = id counter, pending-callback ids, both TimeoutMonitor rings + timer flags, peer's to-be-responded set, loop timer heap" % b,
              assumptions=["decoded values are observed through the public request/response callbacks, so test values travel as params/result of JSON-RPC envelopes (DESIGN 1.7)",
                           "for the packet framing the unit of segmentation is the packet (DESIGN 1.7)",
                           "on hostile streams only the decoded message sequence is compared between segmentations (a differing error/stall status is counted in hostile_status_diffs, not flagged)",
                           "the protos keep no receive state between calls, so the 2-segment splits run under ASan present every distinct buffer window that the 3-segment splits (run on the -O2 build) present",
                           "stack exhaustion is judged on the -O2 -DNDEBUG build with the default 8 MiB main-thread stack, not on the ASan build (inflated frames)",
                           "all clock movement is in whole seconds, so every advance while a TimeoutMonitor holds an id is exactly one ring tick",
                           "clock reads are interposed at clock_gettime/gettimeofday/time; epoll_wait/select are forced to zero timeout",
                           "responses are delivered synchronously into the requester's onRecvData (as modules/jsonrpc/rpc_test.cpp wires its peers)"])
