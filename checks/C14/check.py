import time, vf
from concurrent.futures import ThreadPoolExecutor
PID = "C14"
D = vf.VERIF + "/checks/C14/"
STUB = [vf.VERIF + "/engine/sched/log_stub.cpp"]     # completion executable: logging is not its subject
LOGSTUB = [D + "log_fmt_stub.cpp"]                     # framing executables: every log record is really formatted (instrumented), written nowhere

def main(tier, args):
    t0 = time.time()
    thorough = tier != "quick"
    lvl = "1" if thorough else "0"
    frame_srcs = vf.module_sources("jsonrpc", "util/json.cpp", "util/serializer.cpp", "base/catch_throw.cpp", "base/backtrace.cpp",
                                   exclude=("jsonrpc/rpc.cpp",))
    rpc_srcs = vf.module_sources("jsonrpc", "util/json.cpp", "util/serializer.cpp", "base/catch_throw.cpp", "base/backtrace.cpp", "event")
    # three executables; the three big harness TUs compile concurrently (distinct sources/flags -> distinct cache keys)
    cc, mflags = vf.MODES["asan"]
    # harness TUs only: not instrumented (58 s -> 19 s of compile time); every cpp-tbox source keeps ASan+UBSan and is linked first,
    # so shared inline/template code (nlohmann, TimeoutMonitor) resolves to the instrumented copies
    O0 = ["-fno-sanitize=all"]
    with ThreadPoolExecutor(3) as ex:
        f1 = ex.submit(vf.build, "C14/frame_asan", [D + "frame_harness.cpp"], rpc_srcs + LOGSTUB, mode="asan", harness_flags=O0)
        f2 = ex.submit(vf.build, "C14/frame_opt", [D + "frame_harness.cpp"], frame_srcs + LOGSTUB, mode="opt")
        f3 = ex.submit(vf._compile_one, cc, vf.BASE_FLAGS + mflags + ["-fno-access-control"] + O0, D + "rpc_harness.cpp")   # pre-warm the cache
        frame, f3r = f1.result(), f3.result()
        rpc = vf.build("C14/rpc_asan", [D + "rpc_harness.cpp"], rpc_srcs, mode="asan", plain_srcs=STUB, harness_flags=O0)
        frame_opt = f2.result()
    res = vf.Result(); log = open(vf.BUILD + "/C14/log.txt", "w")
    dl = 1100 if thorough else 150
    jobs = []
    def fam(exe, tag, name, nparts, maxseg=0):
        for p in range(nparts):
            # ASan families: every odd partition (the only one of a single-partition family) runs its protos with setLogEnable(true)
            log = "1" if (tag == "asan" and (p % 2 == 1 or nparts == 1)) else "0"
            jobs.append(("%s:%s:%d" % (tag, name, p), [exe, name, str(p), str(nparts), lvl, str(maxseg), log]))
    depth = 12 if thorough else 7     # thorough reaches the BFS fixpoint (depth 8-11) for every configuration
    # (proto, engine, timeout_sec, optional ops: r = cleanup+initialize once, b = one request in the opposite direction)
    # quick: op r on every configuration, op b on one (the product r x b - measured on raw/epoll/2: fixpoint at depth 9, 17636 states, 174546 transitions - is left to the thorough tier)
    cfgs = [("raw", "epoll", 2, "b"), ("raw", "epoll", 2, "r"), ("header", "epoll", 2, "r"), ("packet", "epoll", 2, "r"), ("raw", "select", 2, "r"),
            ("raw", "epoll", 1, "r"), ("raw", "epoll", 3, "r"), ("raw", "epoll", 0, "r")]
    if thorough:
        # measured (loaded machine): rb reaches its fixpoint at depth 8/9/11 for timeout 1/2/3 (3712/17636/51508 states, 45 s/65 s/280 s); with the 30 s default every
        # advance is ten loop passes, so those configurations keep op r only (rb did not finish within 500 s)
        cfgs = [(p, e, t, "rb" if t else "r") for p, e, t, o in cfgs[1:]]
        cfgs += [("header", "select", 3, "rb"), ("packet", "select", 1, "rb"), ("header", "epoll", 0, "r"), ("packet", "select", 0, "r")]
    def rpc_jobs(cs):
        for p, e, t, o in cs:
            jobs.append(("rpc:%s:%s:t%d:%s" % (p, e, t, o), [rpc, p, e, str(t), str(depth), o]))
    # longest first
    if thorough:
        rpc_jobs(cfgs)
    else:
        rpc_jobs([c for c in cfgs if c[2] == 0 or c[3] == "b"])
    fam(frame, "asan", "roundtrip", 8 if thorough else 6)
    fam(frame, "asan", "trunc", 4)
    fam(frame, "asan", "segment", 8 if thorough else 4, 2)      # 2-segment splits + chunkings reach every distinct onRecvData window under ASan
    fam(frame, "asan", "mixed", 4 if thorough else 2, 2)
    fam(frame_opt, "opt", "segment", 8 if thorough else 4)      # the full <=3(4)-segment sweep runs on the -O2 build (40x faster)
    fam(frame_opt, "opt", "mixed", 8 if thorough else 4)
    if not thorough:
        rpc_jobs([c for c in cfgs if not (c[2] == 0 or c[3] == "b")])
    jobs.append(("rpc:lane", [rpc, "lane"]))
    fam(frame, "asan", "big", 6 if thorough else 2)
    fam(frame, "asan", "bytes", 4 if thorough else 2)
    fam(frame, "asan", "envelope", 6 if thorough else 4)
    fam(frame, "asan", "len", 2)
    fam(frame, "asan", "packet", 1)
    fam(frame, "asan", "magic", 1)
    fam(frame_opt, "opt", "deep", 1)                            # stack depth is measured on the build the project ships (-O2 -DNDEBUG), 8 MiB stack
    if args.only:
        jobs = [j for j in jobs if j[0] == args.only or j[0].split(":")[1] == args.only or j[0].split(":")[0] == args.only]
    env = {"VERIF_DEADLINE_S": str(dl), "VERIF_WORKERS": "0"}
    vf.run_procs(res, jobs, env=env, log=log, jobs=16)
    b = ("4", "8", "8", "3 (4 for single messages)", "3", "3", "5", depth) if thorough else ("3", "4", "4", "3", "3 (<=3-segment splits up to len 2)", "2", "4", depth)
    vf.finish(PID, tier, res, t0,
              rule="(I, framing; real RawStreamProto/HeaderStreamProto/PacketProto; every batch in a forked child, exceptions caught per call) "
                   "ROUND TRIP [ASan+UBSan]: every JSON value of an exhaustive generator (nesting<=3, strings over {quote,backslash,{,},[,],e-acute,a} up to %s symbols, %s object keys) "
                   "as params of a request and result of a response, encoded by the proto's own sender, must decode to exactly one equal message; "
                   "SEGMENTATION (stream framings): every concatenation of <=3 pool messages (triples over the first %s of 8) x every split into <=%s segments [-O2 build] and every 2-segment split + every fixed chunk size (1 = byte-wise) [ASan+UBSan], "
                   "fed as a caller does (consume the returned count, re-present the rest), must give the unsegmented message sequence and consume everything; valid frame + every hostile string (len<=%s [-O2], len<=%s [ASan]) + valid frame: same message sequence; "
                   "PACKET [ASan]: every sequence of <=3 packets, one call each, decodes as each packet alone; "
                   "HOSTILE [ASan]: header length field in {0,1,n-1,n,n+1,n+6,2^31-1,2^31,2^32-7..2^32-1} x every truncation x {alone,followed by a frame}, all 65536 magic values, every proper prefix of ~2000 valid messages, "
                   "every byte string of length<=%s over '{}[]\"\\,:1a ' in 5 presentations, 54000 JSON-RPC envelopes with hostile field types (id in {absent,1,\"1\",1.5,2^31-1,2^31,2^32+1,-(2^32-1),-2^31-1,2^63-1,2^63,2^64-1,-2^63,-1,null,{},true,1e300}), each bare and inside a batch array; "
                   "[-O2, 8 MiB stack] arrays nested 100..10^6 deep, well-formed (must be consumed whole) and with a mismatched innermost closer (must not be consumed): "
                   "no exception, no crash/sanitizer report, return value <= presented size, incomplete frame -> 0, non-JSON -> not consumed, no callback for non-messages, an int-range integer id reaches the callback unchanged; an integer id outside the int range (request, result and error messages, bare and in a batch) never reaches a callback as a truncated in-range id and is treated exactly like the non-integer id 1.5 in the same message (same callbacks - none for a result - and same verdict). "
                   "PARTIALLY WIRED [ASan]: the envelopes with id absent/1/\"1\" are also fed to protos with no / only the request / only the response receive callback (what Rpc::cleanup() leaves behind): no exception, same return value as the fully wired proto, exactly its callbacks of the wired kind. "
                   "BOUNDARY SIZES AND IDS [ASan]: ids {1,127,128,255,256,32767,32768,65535,65536,2^31-1,-1,-128,-129,-32768,-32769,-2^31} x {request,result,error with that code} x 3 protos round trip; "
                   "string values sized so that the encoded frame content is exactly {255,256,257,65535,65536,65537,70000%s} bytes, ending in a / escaped quote / escaped backslash, as params and as result, 3 protos: round trip equal, "
                   "followed by a small frame -> two messages and all consumed, and (stream framings) the same under 2-segment splits at every cut near 1..8, 254..263, 65535..65543, frame end-2..+7 and fixed chunk sizes {255,256,4096; 1 for frames <=400 bytes}. "
                   "LOGGING: every odd ASan partition (and every single-partition family) runs its protos with setLogEnable(true)+setLogLabel; each log record is really formatted by an instrumented sink (checks/C14/log_fmt_stub.cpp). "
                   "(H, completion) BFS depth %d over {request with behaviour in (plain: peer's service defers | completion callback issues a follow-up | peer's service answers synchronously with a result | ... with an error | unknown method (kMethodNotFound) | "
                   "synchronous answer whose callback, running inside request(), issues a follow-up | two notify() overloads then the request(method, cb) overload), "
                   "deliver result|error for any issued request (hence duplicate/late too), one op delivering responses with a future id, id 1000, id 0 (result and error), id -1 and, for every id issued so far in either direction, result and error responses whose id is that id +2^32, -2^32, +3*2^32 and +(2^32-1)*2^32 (equal to it after truncation to 32 bits), advance 1 s + loop pass, "
                   "[op r] Rpc::cleanup() + three deliveries into the now unwired proto + initialize() + addService, at most once, [op b] one request in the opposite direction (same numeric ids) and its answer} "
                   "on two real Rpc peers wired back-to-back on a real loop with a virtual monotonic clock; <=3 requests A->B; timeout_sec in {1,2,3,default 30 (advance = 10 ticks)}; 3 protos; epoll+select; %s; "
                   "reference model = per-request ring countdown per side; oracle = callback exactly once, with the matching response if delivered before the ring wraps (inside request() for a synchronous answer), else kRequestTimeout in exactly that tick; "
                   "after cleanup+initialize: requests of the first session are never called back again and responses carrying their ids are ignored, requests of the second session complete like any other, timeouts included; "
                   "canonical state = per side: id counter, pending-callback ids, to-be-responded set, both TimeoutMonitor rings + timer/callback flags, service count; loop timer heap; ids seen by each peer; model: pending countdowns, chaining flag, budget. "
                   "LANE (deterministic, outside the BFS; 3 protos x 2 engines x timeout {1,2,3} x N in {2,20,60}): L1 N pending, responses with every pending id +-2^32 (ignored), the callback of the first response issues 15 follow-ups, the rest answered in reverse, all duplicated, late copies after the timeouts; "
                   "L2 two staggered groups never answered: the first timeout callback makes the peer answer every other request re-entrantly and issues 15 follow-ups; L3 a chain of N synchronously answered requests each issued from the previous callback: "
                   "every callback exactly once with its own result or its timeout in exactly its tick" % (b[:7] + (",2^24" if thorough else "", b[7], "ops r and b together on every configuration with an explicit timeout_sec, op r alone with the 30 s default" if thorough else "op r on every configuration, op b (without r) on raw/epoll/timeout 2")),
              assumptions=["decoded values are observed through the public request/response callbacks, so test values travel as params/result of JSON-RPC envelopes (DESIGN 1.7)",
                           "for the packet framing the unit of segmentation is the packet (DESIGN 1.7)",
                           "on hostile streams only the decoded message sequence is compared between segmentations (a differing error/stall status is counted in hostile_status_diffs, not flagged)",
                           "the protos keep no receive state between calls, so the 2-segment splits run under ASan present every distinct buffer window that the 3-segment splits (run on the -O2 build) present",
                           "stack exhaustion is judged on the -O2 -DNDEBUG build with the default 8 MiB main-thread stack, not on the ASan build (inflated frames)",
                           "all clock movement is in whole seconds, so every advance while a TimeoutMonitor holds an id is exactly one ring tick",
                           "clock reads are interposed at clock_gettime/gettimeofday/time; epoll_wait/select are forced to zero timeout",
                           "responses are delivered synchronously into the requester's onRecvData (as modules/jsonrpc/rpc_test.cpp wires its peers)",
                           "Rpc::cleanup() abandons pending requests: the oracle accepts either silence (what the code does) or one error callback while cleanup() runs, and demands silence afterwards",
                           "a response delivered from inside a timeout callback of the very tick in which its own request expires may be reported as either the response or the timeout (order within a tick is not promised), still exactly once",
                           "a duplicate of a response delivered re-entrantly from inside that response's own completion callback is explored by lane L4 (C14_REENTRANT_DUP=0 turns it off)",
                           "message ids that are not int-range integers (strings, fractions, 64-bit values, null) are only required not to throw; which id the callback then sees is not judged"])
