import time, vf
from concurrent.futures import ThreadPoolExecutor
PID = "C14"
D = vf.VERIF + "/checks/C14/"
STUB = [vf.VERIF + "/engine/sched/log_stub.cpp"]     # completion executable: logging is not its subject
LOGSTUB = [D + "log_fmt_stub.cpp"]                     # framing executables: every log record is really formatted (instrumented), written nowhere

def main(tier, args):
    t0 = time.time()
    thorough = tier != "quick"
    lvl = "1" if thorough else "0"
    frame_srcs = vf.module_sources("jsonrpc", "util/json.cpp", "util/serializer.cpp", "base/catch_throw.cpp", "base/backtrace.cpp",
                                   exclude=("jsonrpc/rpc.cpp",))
    rpc_srcs = vf.module_sources("jsonrpc", "util/json.cpp", "util/serializer.cpp", "base/catch_throw.cpp", "base/backtrace.cpp", "event")
    # three executables; the three big harness TUs compile concurrently (distinct sources/flags -> distinct cache keys)
    cc, mflags = vf.MODES["asan"]
    # harness TUs only: not instrumented (58 s -> 19 s of compile time); every cpp-tbox source keeps ASan+UBSan and is linked first,
    # so shared inline/template code (nlohmann, TimeoutMonitor) resolves to the instrumented copies
    O0 = ["-fno-sanitize=all"]
    with ThreadPoolExecutor(3) as ex:
        f1 = ex.submit(vf.build, "C14/frame_asan", [D + "frame_harness.cpp"], rpc_srcs + LOGSTUB, mode="asan", harness_flags=O0)
        f2 = ex.submit(vf.build, "C14/frame_opt", [D + "frame_harness.cpp"], frame_srcs + LOGSTUB, mode="opt")
        f3 = ex.submit(vf._compile_one, cc, vf.BASE_FLAGS + mflags + ["-fno-access-control"] + O0, D + "rpc_harness.cpp")   # pre-warm the cache
        frame, f3r = f1.result(), f3.result()
        rpc = vf.build("C14/rpc_asan", [D + "rpc_harness.cpp"], rpc_srcs, mode="asan", plain_srcs=STUB, harness_flags=O0)
        frame_opt = f2.result()
    res = vf.Result(); log = open(vf.BUILD + "/C14/log.txt", "w")
    dl = 1100 if thorough else 150
    jobs = []
    def fam(exe, tag, name, nparts, maxseg=0):
        for p in range(nparts):
            # ASan families: every odd partition (the only one of a single-partition family) runs its protos with setLogEnable(true)
            log = "1" if (tag == "asan" and (p % 2 == 1 or nparts == 1)) else "0"
            jobs.append(("%s:%s:%d" % (tag, name, p), [exe, name, str(p), str(nparts), lvl, str(maxseg), log]))
    depth = 12 if thorough else 7     # thorough reaches the BFS fixpoint (depth 8-11) for every option set measured
    # (proto, engine, timeout_sec, optional ops): r = cleanup ... initialize as separate ops (anything in between) + destruction without cleanup, b = one request in the
    # opposite direction, h = half-second clock steps, d = send callback removed ... restored, c = a request whose response callback runs cleanup+initialize
    # quick (depth 7; measured transitions on raw/epoll/2: r 30k, b 39k, h 20k, d 28k, c 17k, rc 55k, hd 60k, rd 75k, hb 109k, all five 703k): every letter on >=2 configurations
    # (raw/epoll/3 b at depth 6: 28k; raw/epoll/30 without optional ops: 15k transitions of twenty loop passes per advance)
    cfgs = [("raw", "epoll", 2, "hd"), ("raw", "epoll", 2, "rc"), ("raw", "epoll", 2, "b"), ("raw", "epoll", 3, "b", 6), ("raw", "epoll", 0, "-"), ("header", "epoll", 2, "r"),
            ("packet", "epoll", 2, "d"), ("raw", "select", 2, "h"), ("raw", "epoll", 1, "rh")]
    if thorough:
        # measured at depth 12 on raw/epoll/2 (loaded machine): rb fixpoint at depth 11 (46174 states, 436617 transitions, 240 s), hd depth 10 (11350 / 100065, 80 s), rc depth 10 (9939 / 86546, 72 s)
        base = [("raw", "epoll", 2), ("header", "epoll", 2), ("packet", "epoll", 2), ("raw", "select", 2), ("raw", "epoll", 1), ("raw", "epoll", 3), ("raw", "epoll", 0),
                ("header", "select", 3), ("packet", "select", 1), ("header", "epoll", 0), ("packet", "select", 0)]
        sets = {0: ["r", "h"], 1: ["rb", "hd", "rc"], 2: ["rb", "hd", "rc"], 3: ["r", "b", "hd", "rc"]}
        cfgs = [(p, e, t, o) for p, e, t in base for o in sets[t]]
        cfgs.sort(key=lambda c: -(len(c[3]) * 10 + c[2]))      # longest first
    def rpc_jobs(cs):
        for c in cs:
            p, e, t, o = c[:4]
            jobs.append(("rpc:%s:%s:t%d:%s" % (p, e, t, o), [rpc, p, e, str(t), str(c[4] if len(c) > 4 else depth), o]))
    # longest first
    if thorough:
        rpc_jobs(cfgs)
    else:
        rpc_jobs(cfgs[:3])
    fam(frame, "asan", "roundtrip", 8 if thorough else 6)
    fam(frame, "asan", "trunc", 4)
    fam(frame, "asan", "segment", 8 if thorough else 4, 2)      # 2-segment splits + chunkings reach every distinct onRecvData window under ASan
    fam(frame, "asan", "mixed", 4 if thorough else 2, 2)
    fam(frame_opt, "opt", "segment", 8 if thorough else 4)      # the full <=3(4)-segment sweep runs on the -O2 build (40x faster)
    fam(frame_opt, "opt", "mixed", 8 if thorough else 4)
    if not thorough:
        rpc_jobs(cfgs[3:])
    jobs.append(("rpc:lane", [rpc, "lane"]))
    fam(frame, "asan", "big", 6 if thorough else 2)
    fam(frame, "asan", "headcode", 4 if thorough else 2)
    fam(frame, "asan", "bytes", 4 if thorough else 2)
    fam(frame, "asan", "envelope", 6 if thorough else 4)
    fam(frame, "asan", "len", 2)
    fam(frame, "asan", "packet", 1)
    fam(frame, "asan", "magic", 1)
    fam(frame_opt, "opt", "deep", 1)                            # stack depth is measured on the build the project ships (-O2 -DNDEBUG), 8 MiB stack
    if args.only:
        jobs = [j for j in jobs if j[0] == args.only or j[0].split(":")[1] == args.only or j[0].split(":")[0] == args.only]
    env = {"VERIF_DEADLINE_S": str(dl), "VERIF_WORKERS": "0"}
    vf.run_procs(res, jobs, env=env, log=log, jobs=16)
    b = ("4", "8", "8", "3 (4 for single messages)", "3", "3", "5", depth) if thorough else ("3", "4", "4", "3", "3 (<=3-segment splits up to len 2)", "2", "4", depth)
    vf.finish(PID, tier, res, t0,
              rule="(I, framing; real RawStreamProto/HeaderStreamProto/PacketProto; every batch in a forked child, exceptions caught per call) "
                   "ROUND TRIP [ASan+UBSan]: every JSON value of an exhaustive generator (nesting<=3, strings over {quote,backslash,{,},[,],e-acute,a} up to %s symbols, %s object keys) "
                   "as params of a request and result of a response, encoded by the proto's own sender, must decode to exactly one equal message; "
                   "SEGMENTATION (stream framings): every concatenation of <=3 pool messages (triples over the first %s of 8) x every split into <=%s segments [-O2 build] and every 2-segment split + every fixed chunk size (1 = byte-wise) [ASan+UBSan], "
                   "fed as a caller does (consume the returned count, re-present the rest), must give the unsegmented message sequence and consume everything; valid frame + every hostile string (len<=%s [-O2], len<=%s [ASan]) + valid frame: same message sequence; "
                   "PACKET [ASan]: every sequence of <=3 packets, one call each, decodes as each packet alone; "
                   "HOSTILE [ASan]: header length field in {0,1,n-1,n,n+1,n+6,2^31-1,2^31,2^32-7..2^32-1} x every truncation x {alone,followed by a frame}, all 65536 magic values, every proper prefix of ~2000 valid messages, "
                   "every byte string of length<=%s over '{}[]\"\\,:1a ' in 5 presentations, 54000 JSON-RPC envelopes with hostile field types (id in {absent,1,\"1\",1.5,2^31-1,2^31,2^32+1,-(2^32-1),-2^31-1,2^63-1,2^63,2^64-1,-2^63,-1,null,{},true,1e300}), each bare and inside a batch array; "
                   "[-O2, 8 MiB stack] arrays nested 100..10^6 deep, well-formed (must be consumed whole) and with a mismatched innermost closer (must not be consumed): "
                   "no exception, no crash/sanitizer report, return value <= presented size, incomplete frame -> 0, non-JSON -> not consumed, no callback for non-messages, an int-range integer id reaches the callback unchanged; an integer id outside the int range (request, result and error messages, bare and in a batch) never reaches a callback as a truncated in-range id and is treated exactly like the non-integer id 1.5 in the same message (same callbacks - none for a result - and same verdict). "
                   "PARTIALLY WIRED [ASan]: the envelopes with id absent/1/\"1\" are also fed to protos with no / only the request / only the response receive callback (what Rpc::cleanup() leaves behind): no exception, same return value as the fully wired proto, exactly its callbacks of the wired kind. "
                   "BOUNDARY SIZES AND IDS [ASan]: ids {1,127,128,255,256,32767,32768,65535,65536,2^31-1,-1,-128,-129,-32768,-32769,-2^31} x {request,result,error with that code} x 3 protos round trip; "
                   "string values sized so that the encoded frame content is exactly {255,256,257,65535,65536,65537,70000%s} bytes, ending in a / escaped quote / escaped backslash, as params and as result, 3 protos: round trip equal, "
                   "followed by a small frame -> two messages and all consumed, and (stream framings) the same under 2-segment splits at every cut near 1..8, 254..263, 65535..65543, frame end-2..+7 and fixed chunk sizes {255,256,4096; 1 for frames <=400 bytes}. "
                   "HEAD CODES [ASan]: header framing with head codes {0x0000,0x00ff,0xff00,0xffff,0x8081,0x5a3e,0x7f80,0x8000}: boundary-id round trips, every pool single and pair under every 2-segment split and chunk size, frames of each code refused by a proto expecting 0x3e5a and vice versa. "
                   "PRESENTATION: every onRecvData buffer ends exactly at the data (ASan) and starts 0..3 bytes into its block in rotation (misaligned wide reads -> UBSan); the packet encoder must write each message in ONE send; the 2-argument sendRequest overload carries the pool's param-less request; "
                   "a proto without send callback must swallow every boundary-id / boundary-size message silently. "
                   "LOGGING: every odd ASan partition (and every single-partition family) runs its protos with setLogEnable(true)+setLogLabel; each log record is really formatted by an instrumented sink (checks/C14/log_fmt_stub.cpp), "
                   "and such a partition FAILS (harness-log-records-fewer-than-...) unless formatted records >= encoder sends + accepted receives. "
                   "(H, completion) BFS depth %d over {request with behaviour in (plain: peer's service defers | completion callback issues a follow-up | peer's service answers synchronously with a result | ... with an error | unknown method (kMethodNotFound) | "
                   "synchronous answer whose callback, running inside request(), issues a follow-up | two notify() overloads then the request(method, cb) overload | [op c] the RESPONSE callback runs Rpc::cleanup()+initialize()+addService()), "
                   "deliver result|error for any issued request (hence duplicate/late too), one op delivering responses with a future id, id 1000, id 0 (result and error), id -1 and, for every id issued so far in either direction, result and error responses whose id is that id +2^32, -2^32, +3*2^32 and +(2^32-1)*2^32 (equal to it after truncation to 32 bits), advance 1 s (two 500 ms steps, a loop pass after each), [op h] advance 500 ms + pass (requests issued between ring ticks), "
                   "[op r] Rpc::cleanup() and, later, initialize(timeout_sec or timeout_sec+1)+addService as SEPARATE ops, once each - in between the clock moves, responses / unknown ids / the peer's request are delivered into the unwired proto, no request can be issued; "
                   "or destruction WITHOUT cleanup() followed only by clock steps, [op d] proto.setSendCallback(null) ... restored, once each (a request issued meanwhile leaves nothing on the wire and must time out; an answer to the peer is dropped), "
                   "[op b] one request in the opposite direction (same numeric ids; asynchronous service) and its answer} "
                   "on two real Rpc peers wired back-to-back on a real loop with a virtual monotonic clock; <=3 requests A->B; timeout_sec in {1,2,3,default 30 (advance = 10 ticks)}; 3 protos; epoll+select; %s; "
                   "reference model = per-request ring countdown per side + the phase of each side's 1 s ring timer (started by an add into an empty ring); oracle = callback exactly once, with the matching response if delivered before the ring wraps (inside request() for a synchronous answer), else kRequestTimeout in exactly that tick; "
                   "after cleanup (also from inside a response callback) or destruction: requests of that session are never called back again and responses carrying their ids are ignored, requests of the second session complete like any other, timeouts included; "
                   "canonical state (private members read through engine/probe.h only for this key; a member that no longer exists degrades the key, the last 3 ops are appended then) = per side: id counter, pending-callback ids, to-be-responded set, both TimeoutMonitor rings + timer/callback flags, service names, proto wiring; loop timer heap; ids seen by each peer and on the wire; model: pending countdowns, timer phases, session/connection flags, budget. The experiment is driven through public API only (ids read from the bytes on the wire, sendJson through a subclass). "
                   "LANE (deterministic, outside the BFS; 3 protos x 2 engines x timeout {1,2,3} x N in {2,20,60}): L1 N pending, responses with every pending id +-2^32 (ignored), the callback of the first response issues 15 follow-ups, the rest answered in reverse, all duplicated, late copies after the timeouts; "
                   "L2 two staggered groups never answered: the first timeout callback makes the peer answer every other request re-entrantly and issues 15 follow-ups; L3 a chain of N synchronously answered requests each issued from the previous callback: "
                   "every callback exactly once with its own result or its timeout in exactly its tick" % (b[:7] + (",2^24" if thorough else "", b[7], "option sets {rb,hd,rc} for timeout_sec 1 and 2, {r,b,hd,rc} for 3, {r,h} for the 30 s default, on 11 proto/engine/timeout configurations" if thorough else "option sets per configuration: raw/epoll/2 b, rc, hd; raw/epoll/3 b (depth 6); raw/epoll/30 none; header/epoll/2 r; packet/epoll/2 d; raw/select/2 h; raw/epoll/1 rh")),
              assumptions=["decoded values are observed through the public request/response callbacks, so test values travel as params/result of JSON-RPC envelopes (DESIGN 1.7)",
                           "for the packet framing the unit of segmentation is the packet (DESIGN 1.7)",
                           "on hostile streams only the decoded message sequence is compared between segmentations (a differing error/stall status is counted in hostile_status_diffs, not flagged)",
                           "the protos keep no receive state between calls, so the 2-segment splits run under ASan present every distinct buffer window that the 3-segment splits (run on the -O2 build) present",
                           "stack exhaustion is judged on the -O2 -DNDEBUG build with the default 8 MiB main-thread stack, not on the ASan build (inflated frames)",
                           "all clock movement is in 500 ms steps each followed by a loop pass, so the clock never jumps past a ring tick (a late tick would re-phase the timer; not explored)",
                           "clock reads are interposed at clock_gettime/gettimeofday/time; epoll_wait/select are forced to zero timeout",
                           "responses are delivered synchronously into the requester's onRecvData (as modules/jsonrpc/rpc_test.cpp wires its peers)",
                           "Rpc::cleanup() abandons pending requests: the oracle accepts either silence (what the code does) or one error callback while cleanup() runs, and demands silence afterwards",
                           "a response delivered from inside a timeout callback of the very tick in which its own request expires may be reported as either the response or the timeout (order within a tick is not promised), still exactly once",
                           "a duplicate of a response delivered re-entrantly from inside that response's own completion callback is explored by lane L4 (C14_REENTRANT_DUP=0 turns it off)",
                           "Rpc::cleanup() called from inside a TIMEOUT callback is NOT explored by default (switch C14_CLEAN_IN_TIMEOUT=1): the unchanged TimeoutMonitor throws bad_function_call for the next id of the slot - see the check's report",
                           "a request issued while the Rpc is cleaned up (proto_ == nullptr) or with timeout_sec < 1 is API misuse and not explored",
                           "message ids that are not int-range integers (strings, fractions, 64-bit values, null) are only required not to throw; which id the callback then sees is not judged"])
