// C14 (completion, engine H): BFS over histories of request / deliver-response / duplicate / unknown-id / advance-clock
// on two REAL jsonrpc::Rpc peers wired back-to-back through in-memory send callbacks, on a real event loop driven
// single-threaded on a VIRTUAL monotonic clock (1 s tick).
//   usage: rpc_harness <proto: raw|header|packet> <engine: epoll|select> <timeout_sec, 0 = Rpc's default (30)> <depth>
// Oracle (reference model, kept boring): a request issued with a completion callback is pending until either a
// response with its id is delivered (-> callback(errcode, result) exactly then) or the TimeoutMonitor ring has
// ticked timeout_sec times since it was added (-> callback(kRequestTimeout, null) in exactly that tick). Nothing
// else may invoke a callback: duplicates, late responses, unknown / future / zero ids are ignored.
#include "hist/hist.h"
#include <tbox/base/json.hpp>
#include <tbox/event/loop.h>
#include <tbox/event/common_loop.h>
#include <tbox/event/timer_event.h>
#include <tbox/jsonrpc/rpc.h>
#include <tbox/jsonrpc/inner_types.h>
#include <tbox/jsonrpc/protos/raw_stream_proto.h>
#include <tbox/jsonrpc/protos/header_stream_proto.h>
#include <tbox/jsonrpc/protos/packet_proto.h>
#include <sys/epoll.h>
#include <sys/select.h>
#include <sys/syscall.h>
#include <sys/time.h>
#include <memory>

using tbox::Json;
using namespace tbox::event;
using namespace tbox::jsonrpc;

// ---- virtual clocks: the loop's timers read steady_clock::now() = clock_gettime(CLOCK_MONOTONIC) --------------
// Virtual only while the code under test runs (g_virt), so the explorer's own deadline stays on real time.
static bool g_virt = false; static int64_t g_mono_ms = 0; static long g_clock_reads = 0, g_would_block = 0;
extern "C" int clock_gettime(clockid_t k, struct timespec *ts) {
  if (g_virt) { g_clock_reads++; ts->tv_sec = g_mono_ms / 1000; ts->tv_nsec = (g_mono_ms % 1000) * 1000000L; return 0; }
  return (int)syscall(SYS_clock_gettime, k, ts);
}
extern "C" int gettimeofday(struct timeval *tv, void *tz) {
  if (g_virt) { tv->tv_sec = g_mono_ms / 1000; tv->tv_usec = (g_mono_ms % 1000) * 1000; return 0; }
  return (int)syscall(SYS_gettimeofday, tv, tz);
}
extern "C" time_t time(time_t *t) { struct timespec ts; clock_gettime(CLOCK_REALTIME, &ts); if (t) *t = ts.tv_sec; return ts.tv_sec; }
// the back-end never really sleeps: a pass polls once with zero timeout
extern "C" int epoll_wait(int epfd, struct epoll_event *ev, int maxev, int timeout) { if (timeout != 0) g_would_block++; return (int)syscall(SYS_epoll_wait, epfd, ev, maxev, 0); }
extern "C" int select(int nfds, fd_set *r, fd_set *w, fd_set *e, struct timeval *tv) {
  struct timeval z = {0, 0}; if (!(tv && tv->tv_sec == 0 && tv->tv_usec == 0)) g_would_block++; return (int)syscall(SYS_select, nfds, r, w, e, &z);
}

enum Kind { REQ, RSP, UNK, ADV };
struct Op { int k, a, b; };
static const int MAXREQ = 3;
static int g_timeout = 2, g_timeout_arg = 2, g_adv_steps = 1;

// ---- reference model ----------------------------------------------------------------------------------------
struct Ev { int req; int errcode; int val; };      // callback of request #req with (errcode, result == {"r":val} or null if val<0)
static bool operator==(const Ev &a, const Ev &b) { return a.req == b.req && a.errcode == b.errcode && a.val == b.val; }
struct MReq { int beh; bool pending; int remaining; int done_code; };   // remaining = ticks until the ring drops the id (0 = gone)
struct Model {
  std::vector<MReq> r;
  void issue(int beh) { r.push_back(MReq{beh, true, g_timeout, 0}); }
  void complete(int i, int code, int val, std::vector<Ev> &exp, std::vector<int> &chain) {
    r[i].pending = false; r[i].done_code = code; exp.push_back(Ev{i, code, val}); if (r[i].beh == 1) chain.push_back(i); }
  void settle(std::vector<int> &chain) { for (size_t c = 0; c < chain.size(); c++) if ((int)r.size() < MAXREQ) issue(0); chain.clear(); }
  // one op; returns the callbacks that must happen during it
  std::vector<Ev> step(const Op &o) {
    std::vector<Ev> exp; std::vector<int> chain;
    switch (o.k) {
      case REQ: if ((int)r.size() < MAXREQ) issue(o.a); break;
      case RSP: if (o.a < (int)r.size() && r[o.a].pending) { if (o.b == 0) complete(o.a, 0, o.a, exp, chain); else complete(o.a, 100 + o.a, -1, exp, chain); settle(chain); } break;
      case UNK: break;
      case ADV: for (int s = 0; s < g_adv_steps; s++) {
          bool any = false; for (auto &x : r) if (x.remaining > 0) any = true;
          if (!any) continue;                                   // monitor timer is off while the ring is empty
          size_t n = r.size();
          for (size_t i = 0; i < n; i++) if (r[i].remaining > 0 && --r[i].remaining == 0 && r[i].pending) complete((int)i, ErrorCode::kRequestTimeout, -1, exp, chain);
          settle(chain); }
        break;
    }
    return exp;
  }
};

// ---- the real thing ------------------------------------------------------------------------------------------
struct World {
  Loop *loop = nullptr; std::unique_ptr<Proto> pa, pb; std::unique_ptr<Rpc> a, b;
  std::vector<int> peer_ids;            // ids under which peer B received request #i
  std::vector<Ev> events; int issued = 0; std::string viol;
  std::vector<int> beh;
  static Proto *mk(const std::string &p) { if (p == "raw") return new RawStreamProto; if (p == "header") return new HeaderStreamProto(0x3e5a); return new PacketProto; }
  World(const std::string &proto, const std::string &engine) {
    loop = Loop::New(engine); pa.reset(mk(proto)); pb.reset(mk(proto)); a.reset(new Rpc(loop)); b.reset(new Rpc(loop));
    if (g_timeout_arg > 0) { a->initialize(pa.get(), g_timeout_arg); b->initialize(pb.get(), g_timeout_arg); } else { a->initialize(pa.get()); b->initialize(pb.get()); }
    pa->setSendCallback([this](const void *d, size_t n) { ssize_t r = pb->onRecvData(d, n); if (r != (ssize_t)n) viol = "request-not-consumed-by-peer ret=" + std::to_string(r); });
    pb->setSendCallback([this](const void *d, size_t n) { ssize_t r = pa->onRecvData(d, n); if (r != (ssize_t)n) viol = "response-not-consumed-by-requester ret=" + std::to_string(r); });
    b->addService("m", [this](int id, const Json &params, int &, Json &) {
      int n = -1; if (params.is_object() && params.contains("n") && params["n"].is_number_integer()) n = params["n"].get<int>();
      if (n != (int)peer_ids.size()) viol = "peer-received-a-different-request-than-sent";
      peer_ids.push_back(id); return false; });                   // answered later by respond()
  }
  void request(int b_) {
    if (issued >= MAXREQ) return;
    int i = issued++; beh.push_back(b_);
    Json params = Json::object(); params["n"] = i;
    a->request("m", params, [this, i](int errcode, const Json &res) {
      int val = -1; if (res.is_object() && res.contains("r") && res["r"].is_number_integer()) val = res["r"].get<int>(); else if (!res.is_null()) val = -2;
      events.push_back(Ev{i, errcode, val});
      if (beh[i] == 1) request(0);                                 // a completion that issues a follow-up request
    });
    if ((int)peer_ids.size() != issued && viol.empty()) viol = "request-not-delivered-to-peer";
  }
  void pass() { loop->runNext([] {}); loop->runLoop(Loop::Mode::kOnce); }
  void apply(const Op &o) {
    switch (o.k) {
      case REQ: request(o.a); break;
      case RSP: if (o.a < (int)peer_ids.size()) { if (o.b == 0) { Json res = Json::object(); res["r"] = o.a; b->respond(peer_ids[o.a], res); } else b->respond(peer_ids[o.a], 100 + o.a); } break;
      case UNK: { Json res = Json::object(); res["r"] = 9;
        if (o.a == 0) b->respond(a->id_alloc_ + 1, res);           // an id that has not been issued yet
        else if (o.a == 1) b->respond(1000, 55);                   // error reply with an id never issued
        else pb->sendResult(0, res); } break;                      // id 0
      case ADV: for (int s = 0; s < g_adv_steps; s++) { g_mono_ms += 1000; pass(); } break;
    }
  }
  template <class TM> static std::string ring(TM &m) {
    std::string s; if (!m.curr_item_) return "none"; auto *it = m.curr_item_;
    do { s += '['; for (int v : it->items) s += std::to_string(v) + ","; s += ']'; it = it->next; } while (it != m.curr_item_);
    return s + "n" + std::to_string(m.value_number_) + (m.sp_timer_->isEnabled() ? "E" : "d");
  }
  std::string canon() {
    std::string c = "A:id" + std::to_string(a->id_alloc_) + " cb{"; std::vector<int> ks; for (auto &kv : a->request_callback_) ks.push_back(kv.first); std::sort(ks.begin(), ks.end());
    for (int k : ks) c += std::to_string(k) + ","; c += "} " + ring(a->request_timeout_) + "/" + ring(a->respond_timeout_);
    c += " B:{"; ks.assign(b->tobe_respond_.begin(), b->tobe_respond_.end()); std::sort(ks.begin(), ks.end()); for (int k : ks) c += std::to_string(k) + ","; c += "} " + ring(b->respond_timeout_) + "/" + ring(b->request_timeout_);
    CommonLoop *cl = static_cast<CommonLoop *>(loop); std::vector<long> due; for (auto *t : cl->timer_min_heap_) due.push_back((long)((int64_t)t->expired - g_mono_ms)); std::sort(due.begin(), due.end());
    c += " T:"; for (long d : due) c += std::to_string(d) + ",";
    return c;
  }
  ~World() { a->cleanup(); b->cleanup(); a.reset(); b.reset(); loop->cleanup(); delete loop; }
};

struct Virt { Virt() { g_virt = true; g_mono_ms = 5000000; } ~Virt() { g_virt = false; } };

int main(int argc, char **argv) {
  std::string proto = argc > 1 ? argv[1] : "raw", engine = argc > 2 ? argv[2] : "epoll";
  g_timeout_arg = argc > 3 ? atoi(argv[3]) : 2; size_t depth = argc > 4 ? atoi(argv[4]) : 7;
  g_timeout = g_timeout_arg > 0 ? g_timeout_arg : 30;        // Rpc::initialize(proto, timeout_sec = 30)
  g_adv_steps = g_timeout >= 10 ? 10 : 1;                     // with the 30 s default one "advance" op is ten 1-s ticks
  hx::install_crash_reporter("C14-rpc-crash");
  hx::Explorer<Op> ex; ex.name = "rpc-" + proto + "-" + engine + "-timeout" + std::to_string(g_timeout);
  ex.deadline_s = hx::deadline_from_env(600);
  ex.fork_workers = (int)hx::env_int("VERIF_WORKERS", 0);
  ex.show = [](const Op &o) { char b[64];
    if (o.k == REQ) snprintf(b, sizeof b, "request(%s)", o.a ? "cb-issues-followup" : "plain");
    else if (o.k == RSP) snprintf(b, sizeof b, "deliver(#%d,%s)", o.a, o.b ? "error" : "result");
    else if (o.k == UNK) snprintf(b, sizeof b, "deliver(%s)", o.a == 0 ? "future-id" : o.a == 1 ? "id1000-error" : "id0");
    else snprintf(b, sizeof b, "advance(%ds)+pass", g_adv_steps);
    return std::string(b); };
  ex.menu = [&](const std::vector<Op> &h) {
    Model m; for (auto &o : h) m.step(o);
    std::vector<Op> v;
    if ((int)m.r.size() < MAXREQ) { v.push_back({REQ, 0, 0}); v.push_back({REQ, 1, 0}); }
    for (int i = 0; i < (int)m.r.size(); i++) { v.push_back({RSP, i, 0}); v.push_back({RSP, i, 1}); }
    v.push_back({ADV, 0, 0});
    for (int u = 0; u < 3; u++) v.push_back({UNK, u, 0});
    return v; };
  ex.run = [&](const std::vector<Op> &h, std::string &viol) {
    Virt vt; Model m; World w(proto, engine);
    std::vector<int> calls(MAXREQ, 0);
    for (size_t n = 0; n < h.size() && viol.empty(); n++) {
      std::vector<Ev> exp = m.step(h[n]);
      w.events.clear(); w.apply(h[n]);
      if (!w.viol.empty()) { viol = w.viol; break; }
      // every callback seen during this op must be expected, and every expected one seen, exactly once
      for (auto &e : w.events) {
        if (e.req < 0 || e.req >= MAXREQ) { viol = "callback-for-unknown-request"; break; }
        calls[e.req]++;
        bool expected = false; for (auto &x : exp) if (x.req == e.req) expected = true;
        if (calls[e.req] > 1) { viol = std::string("completion-callback-invoked-again-") + (h[n].k == ADV ? "by-timeout-after-completion" : h[n].k == RSP ? "by-duplicate-or-late-response" : "by-unrelated-op"); break; }
        if (!expected) { viol = std::string("completion-callback-invoked-unexpectedly-") + (h[n].k == ADV ? "timeout-before-deadline" : h[n].k == UNK ? "by-unknown-id-response" : "by-op"); break; }
        for (auto &x : exp) if (x.req == e.req && !(x == e)) { viol = "completion-callback-with-wrong-outcome got(err=" + std::to_string(e.errcode) + ",val=" + std::to_string(e.val) + ") want(err=" + std::to_string(x.errcode) + ",val=" + std::to_string(x.val) + ")"; }
      }
      if (!viol.empty()) break;
      for (auto &x : exp) { bool seen = false; for (auto &e : w.events) if (e.req == x.req) seen = true;
        if (!seen) { viol = x.errcode == ErrorCode::kRequestTimeout ? "completion-callback-missing-at-timeout-deadline" : "completion-callback-missing-on-matching-response"; break; } }
      if (!viol.empty()) break;
      if (w.issued != (int)m.r.size()) { viol = "harness-model-and-world-disagree-on-issued-requests"; break; }
      // (the implementation's pending map is part of the canonical state but is not judged: only callbacks are observable)
    }
    std::string c = w.canon();
    c += " M:"; for (auto &x : m.r) c += std::to_string(x.beh) + (x.pending ? "p" : "d") + std::to_string(x.remaining) + "c" + std::to_string(x.done_code) + ",";
    return c;
  };
  ex.explore(depth);
  printf("@STAT virtual_clock_reads=%ld would_block_polls=%ld\n", g_clock_reads, g_would_block);
  return 0;
}
