// C14 (completion, engine H): BFS over histories of request / deliver-response / duplicate / unknown-id / advance-clock (whole and half
// seconds) / cleanup ... initialize / destruction / transport disconnected / request in the opposite direction, on two REAL jsonrpc::Rpc
// peers wired back-to-back through in-memory send callbacks, on a real event loop driven single-threaded on a VIRTUAL monotonic clock.
//   usage: rpc_harness <proto: raw|header|packet> <engine: epoll|select> <timeout_sec, 0 = Rpc's default (30)> <depth> [optional ops, letters of "rbhdc" or "-"]
//          rpc_harness lane          deterministic lane (outside the BFS): many pending requests, re-entrant deliveries from callbacks
// Oracle (reference model, kept boring): a request issued with a completion callback is pending until either a
// response with its id is delivered (-> callback(errcode, result) exactly then; a service that answers synchronously
// delivers it inside request()) or the TimeoutMonitor ring has ticked timeout_sec times since it was added
// (-> callback(kRequestTimeout, null) in exactly that tick; the ring's 1 s timer starts when an id is added to an empty ring and runs while it holds one).
// Nothing else may invoke a callback: duplicates, late responses, unknown / future / zero ids, responses with the same numeric id travelling
// in the other direction are ignored. A request issued while the proto has no send callback reaches nobody and times out.
// Rpc::cleanup() ends a session: its requests are never called back afterwards (READING: cleanup() may either drop them silently - what the
// code does - or complete them with an error while it runs; both satisfy "never twice, never later"), responses carrying their ids are
// ignored, and requests of the session started by the next initialize() complete exactly like those of the first, timeouts included.
// Private members are read ONLY for the canonical state key, through engine/probe.h (a renamed member degrades the key - the last 3 ops are
// appended then - instead of breaking the build); the experiment itself is driven through public API (ids are read from the bytes on the wire).
#include "hist/hist.h"
#include "probe.h"
#include <tbox/base/json.hpp>
#include <tbox/event/loop.h>
#include <tbox/event/common_loop.h>
#include <tbox/event/timer_event.h>
#include <tbox/jsonrpc/rpc.h>
#include <tbox/jsonrpc/inner_types.h>
#include <tbox/jsonrpc/protos/raw_stream_proto.h>
#include <tbox/jsonrpc/protos/header_stream_proto.h>
#include <tbox/jsonrpc/protos/packet_proto.h>
#include <sys/epoll.h>
#include <sys/select.h>
#include <sys/syscall.h>
#include <sys/time.h>
#include <map>
#include <memory>
#include <set>

using tbox::Json;
using namespace tbox::event;
using namespace tbox::jsonrpc;

// ---- virtual clocks: the loop's timers read steady_clock::now() = clock_gettime(CLOCK_MONOTONIC) --------------
// Virtual only while the code under test runs (g_virt), so the explorer's own deadline stays on real time.
static bool g_virt = false; static int64_t g_mono_ms = 0; static long g_clock_reads = 0, g_would_block = 0;
extern "C" int clock_gettime(clockid_t k, struct timespec *ts) {
  if (g_virt) { g_clock_reads++; ts->tv_sec = g_mono_ms / 1000; ts->tv_nsec = (g_mono_ms % 1000) * 1000000L; return 0; }
  return (int)syscall(SYS_clock_gettime, k, ts);
}
extern "C" int gettimeofday(struct timeval *tv, void *tz) {
  if (g_virt) { tv->tv_sec = g_mono_ms / 1000; tv->tv_usec = (g_mono_ms % 1000) * 1000; return 0; }
  return (int)syscall(SYS_gettimeofday, tv, tz);
}
extern "C" time_t time(time_t *t) { struct timespec ts; clock_gettime(CLOCK_REALTIME, &ts); if (t) *t = ts.tv_sec; return ts.tv_sec; }
// the back-end never really sleeps: a pass polls once with zero timeout
extern "C" int epoll_wait(int epfd, struct epoll_event *ev, int maxev, int timeout) { if (timeout != 0) g_would_block++; return (int)syscall(SYS_epoll_wait, epfd, ev, maxev, 0); }
extern "C" int select(int nfds, fd_set *r, fd_set *w, fd_set *e, struct timeval *tv) {
  struct timeval z = {0, 0}; if (!(tv && tv->tv_sec == 0 && tv->tv_usec == 0)) g_would_block++; return (int)syscall(SYS_select, nfds, r, w, e, &z);
}
struct Virt { Virt() { g_virt = true; g_mono_ms = 5000000; } ~Virt() { g_virt = false; } };

// the protos' encoder (protected virtual sendJson) is reached through a subclass, not through an access bypass
template <class P> struct Open : P { using P::P; using P::sendJson; };
typedef std::function<void(const Json &)> SendJson;
static Proto *mk_proto(const std::string &p, SendJson &sj) {
  if (p == "raw") { auto *x = new Open<RawStreamProto>; sj = [x](const Json &j) { x->sendJson(j); }; return x; }
  if (p == "header") { auto *x = new Open<HeaderStreamProto>(0x3e5a); sj = [x](const Json &j) { x->sendJson(j); }; return x; }
  auto *x = new Open<PacketProto>; sj = [x](const Json &j) { x->sendJson(j); }; return x;
}
// the id of a request as it travels (bytes given to the send callback): 0 if the bytes are not a request with an id
static int wire_request_id(const std::string &proto, const void *d, size_t n) {
  size_t off = proto == "header" ? 6 : 0; if (n <= off) return 0;
  try { Json j = Json::parse(std::string((const char *)d + off, n - off)); if (j.is_object() && j.contains("method") && j.contains("id") && j["id"].is_number_integer()) return j["id"].get<int>(); } catch (...) {}
  return 0;
}

// ---- probes (canonical key only) -------------------------------------------------------------------------------------------------
VF_PROBE(id_alloc_) VF_PROBE(value_number_) VF_PROBE(recv_request_cb_) VF_PROBE(recv_respond_cb_) VF_PROBE(send_data_cb_) VF_PROBE(expired)
// pointer to a member, or nullptr (reported once through probe.h) when the member does not exist
#define C14_PTR_PROBE(name)                                                                                     \
  struct c14_ptr_##name {                                                                                       \
    template <class T> static auto get(T &o, int) -> decltype(&o.name) { return &o.name; }                      \
    template <class T> static std::nullptr_t get(T &, long) { vf_note_missing(#name); return nullptr; } };
#define C14_PTR(name, obj) c14_ptr_##name::get((obj), 0)
C14_PTR_PROBE(request_callback_) C14_PTR_PROBE(tobe_respond_) C14_PTR_PROBE(method_services_) C14_PTR_PROBE(proto_) C14_PTR_PROBE(request_timeout_) C14_PTR_PROBE(respond_timeout_)
C14_PTR_PROBE(curr_item_) C14_PTR_PROBE(items) C14_PTR_PROBE(next) C14_PTR_PROBE(sp_timer_) C14_PTR_PROBE(cb_) C14_PTR_PROBE(timer_min_heap_)
namespace key {
static std::string ints(std::nullptr_t) { return "?"; }
template <class C> static std::string ints(C *c) { std::vector<long> v; for (auto &x : *c) v.push_back((long)x); std::sort(v.begin(), v.end()); std::string s; for (long x : v) s += std::to_string(x) + ","; return s; }
static std::string seq(std::nullptr_t) { return "?"; }
template <class C> static std::string seq(C *c) { std::string s; for (auto &x : *c) s += std::to_string((long)x) + ","; return s; }
static std::string keys(std::nullptr_t) { return "?"; }
template <class M> static std::string keys(M *m) { std::vector<long> v; for (auto &kv : *m) v.push_back((long)kv.first); std::sort(v.begin(), v.end()); std::string s; for (long x : v) s += std::to_string(x) + ","; return s; }
static std::string names(std::nullptr_t) { return "?"; }
template <class M> static std::string names(M *m) { std::vector<std::string> v; for (auto &kv : *m) v.push_back(kv.first + (kv.second ? "" : "!null")); std::sort(v.begin(), v.end()); std::string s; for (auto &x : v) s += x + ","; return s; }
static std::string enabled(std::nullptr_t) { return "?"; }
template <class T> static std::string enabled(T **t) { return !*t ? "0" : (*t)->isEnabled() ? "E" : "d"; }
static std::string isset(std::nullptr_t) { return "?"; }
template <class F> static std::string isset(F *f) { return *f ? "" : "!nocb"; }
template <class I> static I *deref(I **p) { return *p; }
static std::nullptr_t deref(std::nullptr_t) { return nullptr; }
static std::string walk(std::nullptr_t) { return "?"; }
template <class Item> static std::string walk(Item **pcur) {
  Item *cur = *pcur; if (!cur) return "none"; std::string s; Item *it = cur; int guard = 0;
  do { s += '[' + seq(C14_PTR(items, *it)) + ']'; it = deref(C14_PTR(next, *it)); } while (it && it != cur && ++guard < 4096);
  return s; }
static std::string ring(std::nullptr_t) { return "?"; }
template <class TM> static std::string ring(TM *m) { return walk(C14_PTR(curr_item_, *m)) + "n" + std::to_string(VF_GET(value_number_, *m, (long)-1)) + enabled(C14_PTR(sp_timer_, *m)) + isset(C14_PTR(cb_, *m)); }
static std::string wired(std::nullptr_t) { return " proto?"; }
template <class P> static std::string wired(P **pp) { if (!*pp) return " noproto";
  return std::string(" wired:") + (VF_GET(recv_request_cb_, **pp, false) ? "q" : "-") + (VF_GET(recv_respond_cb_, **pp, false) ? "r" : "-") + (VF_GET(send_data_cb_, **pp, false) ? "s" : "-"); }
static std::string heap(std::nullptr_t) { return "?"; }
template <class H> static std::string heap(H *h) { std::vector<long> due; for (auto *t : *h) due.push_back((long)(VF_GET(expired, *t, (int64_t)0) - g_mono_ms)); std::sort(due.begin(), due.end()); std::string s; for (long d : due) s += std::to_string(d) + ","; return s; }
static std::string side(Rpc &r) {
  return "id" + std::to_string(VF_GET(id_alloc_, r, -1)) + " cb{" + keys(C14_PTR(request_callback_, r)) + "} tbr{" + ints(C14_PTR(tobe_respond_, r)) + "} " +
         ring(C14_PTR(request_timeout_, r)) + "/" + ring(C14_PTR(respond_timeout_, r)) + " svc{" + names(C14_PTR(method_services_, r)) + "}" + wired(C14_PTR(proto_, r)); }
}  // namespace key

enum Kind { REQ, RSP, UNK, ADV, HALF, DOWN, UP, KILL, DISC, CONN, BREQ, BRSP };
// how a request is issued / answered / what its completion callback does
enum Beh { PLAIN = 0,       // request(method, params, cb); the peer's service defers its answer (respond() later)
           FOLLOW = 1,      // as PLAIN; the completion callback issues a follow-up request
           SYNC_RES = 2,    // the peer's service answers synchronously with a result: the response arrives INSIDE request()
           SYNC_ERR = 3,    // ... synchronously with an error code
           NO_METHOD = 4,   // the peer has no such method: it answers kMethodNotFound synchronously
           SYNC_FOLLOW = 5, // SYNC_RES whose completion callback (running inside request()) issues a follow-up request
           NOTIFY_OVL = 6,  // notify(method, params) + notify(method) first, then the request(method, cb) overload without params
           CLEAN = 7,       // as PLAIN; the completion callback, when it gets a RESPONSE, runs Rpc::cleanup() + initialize() + addService()
           NBEH };
static const char *BEHN[] = {"plain", "cb-issues-followup", "peer-answers-synchronously", "peer-answers-synchronously-with-error", "unknown-method",
                             "peer-answers-synchronously+cb-issues-followup", "after-two-notifications,no-params-overload", "cb-runs-cleanup+initialize"};
struct Op { int k, a, b; };
static const int MAXREQ = 3;         // requests A -> B per history
static const int BREQ_SLOT = MAXREQ; // the single request B -> A is reported as request #MAXREQ
static int g_timeout = 2, g_timeout_arg = 2, g_adv_steps = 1;
static unsigned g_beh_mask = 0x7f;   // request behaviours on the menu (bit per Beh)
static bool g_reinit = true, g_breq = true, g_half = false, g_disc = false;
static bool g_clean_in_timeout = false;   // switch C14_CLEAN_IN_TIMEOUT=1 (DEFAULT OFF: the unchanged library fails it, see the report): a CLEAN request's TIMEOUT callback runs Rpc::cleanup()

// ---- reference model ----------------------------------------------------------------------------------------
struct Ev { int req; int errcode; int val; };      // callback of request #req with (errcode, result == {"r":val} or null if val<0)
static bool operator==(const Ev &a, const Ev &b) { return a.req == b.req && a.errcode == b.errcode && a.val == b.val; }
struct MReq { int beh; bool pending; int remaining; bool delivered; };   // remaining = ring ticks until the ring drops the id (0 = gone)
static bool chains(int beh) { return beh == FOLLOW || beh == SYNC_FOLLOW; }
struct Model {
  std::vector<MReq> r; int tmoA = 0;           // timeout_sec of A's current session
  int tickA = 0, tickB = 0;                    // half seconds until the side's ring ticks (meaningful while the ring holds an id)
  bool up = true, down_done = false, up_done = false, killed = false, connected = true, disc_done = false, conn_done = false, reinit_in_op = false;
  int sessions = 1;
  bool b_issued = false, b_delivered = false; MReq bq{0, false, 0, false};
  Model() { tmoA = g_timeout; }
  int heldA() const { int n = 0; for (auto &x : r) if (x.remaining > 0) n++; return n; }
  void end_session() { for (auto &x : r) { x.pending = false; x.remaining = 0; } reinit_in_op = true; }   // nothing of it may complete any more; the ring is gone
  void complete(int i, int code, int val, std::vector<Ev> &exp, std::vector<int> &chain) {
    r[i].pending = false; exp.push_back(Ev{i, code, val});
    if (chains(r[i].beh) && (int)r.size() < MAXREQ && up && !killed) { std::vector<int> none; issue(PLAIN, exp, none); }   // the follow-up is issued from inside the callback (PLAIN: never completes synchronously)
    if (r[i].beh == CLEAN && code != ErrorCode::kRequestTimeout) { end_session(); sessions++; }
    else if (r[i].beh == CLEAN && g_clean_in_timeout) { end_session(); up = false; down_done = true; } }   // (switch) a TIMEOUT callback that tears the Rpc down: cleanup() only
  void issue(int beh, std::vector<Ev> &exp, std::vector<int> &chain) {
    if (heldA() == 0) tickA = 2;
    r.push_back(MReq{beh, true, tmoA, connected}); int i = (int)r.size() - 1;
    if (!connected) return;                                     // nothing leaves: it can only time out
    if (beh == SYNC_RES || beh == SYNC_FOLLOW) complete(i, 0, i, exp, chain);
    else if (beh == SYNC_ERR) complete(i, 100 + i, -1, exp, chain);
    else if (beh == NO_METHOD) complete(i, ErrorCode::kMethodNotFound, -1, exp, chain);
  }
  void settle(std::vector<Ev> &, std::vector<int> &) {}
  void half_step(std::vector<Ev> &exp) {
    std::vector<int> chain;
    if (heldA() > 0 && --tickA == 0) {
      size_t n = r.size();
      for (size_t i = 0; i < n; i++) if (r[i].remaining > 0 && --r[i].remaining == 0 && r[i].pending) complete((int)i, ErrorCode::kRequestTimeout, -1, exp, chain);
      settle(exp, chain);
      if (heldA() > 0) tickA = 2; }
    if (bq.remaining > 0 && --tickB == 0) {
      if (--bq.remaining == 0 && bq.pending) { bq.pending = false; exp.push_back(Ev{BREQ_SLOT, ErrorCode::kRequestTimeout, -1}); }
      if (bq.remaining > 0) tickB = 2; }
  }
  // one op; returns the callbacks that must happen during it
  std::vector<Ev> step(const Op &o) {
    std::vector<Ev> exp; std::vector<int> chain; reinit_in_op = false;
    switch (o.k) {
      case REQ: if ((int)r.size() < MAXREQ && up && !killed) { issue(o.a, exp, chain); settle(exp, chain); } break;
      case RSP: if (o.a < (int)r.size() && r[o.a].pending && r[o.a].delivered && up && !killed) { if (o.b == 0) complete(o.a, 0, o.a, exp, chain); else complete(o.a, 100 + o.a, -1, exp, chain); settle(exp, chain); } break;
      case UNK: break;
      case ADV: for (int s = 0; s < 2 * g_adv_steps; s++) half_step(exp); break;
      case HALF: half_step(exp); break;
      case DOWN: down_done = true; up = false; end_session(); break;
      case UP: up_done = true; up = true; sessions++; tmoA = g_timeout + o.a; break;
      case KILL: killed = true; end_session(); break;
      case DISC: disc_done = true; connected = false; break;
      case CONN: conn_done = true; connected = true; break;
      case BREQ: if (!b_issued) { b_issued = true; b_delivered = up && !killed; bq = MReq{PLAIN, true, g_timeout, b_delivered}; tickB = 2; } break;
      case BRSP: if (b_issued && b_delivered && bq.pending && up && !killed && connected) { bq.pending = false; exp.push_back(Ev{BREQ_SLOT, 0, 50}); } break;
    }
    return exp;
  }
  std::string canon() const {   // only what can influence the future
    std::string c; for (auto &x : r) { if (x.pending) c += std::string(chains(x.beh) ? "F" : x.beh == CLEAN ? "C" : "p") + std::to_string(x.remaining) + (x.delivered ? "" : "u"); else c += "d" + std::to_string(x.remaining); c += ","; }
    c += "|t" + std::to_string(heldA() ? tickA : 0) + "/" + std::to_string(bq.remaining > 0 ? tickB : 0) + " tmo" + std::to_string(tmoA);
    c += std::string("|") + (up ? "U" : "D") + (down_done ? "d" : "-") + (up_done ? "u" : "-") + (killed ? "K" : "-") + (connected ? "C" : "X") + (disc_done ? "x" : "-") + (conn_done ? "c" : "-") + "s" + std::to_string(sessions);
    c += !b_issued ? "|-" : bq.pending ? std::string("|p") + std::to_string(bq.remaining) + (b_delivered ? "" : "u") : "|d" + std::to_string(bq.remaining);
    return c;
  }
};

// ---- the real thing ------------------------------------------------------------------------------------------
static int result_val(const Json &res) { if (res.is_object() && res.contains("r") && res["r"].is_number_integer()) return res["r"].get<int>(); return res.is_null() ? -1 : -2; }

struct World {
  std::string proto;
  Loop *loop = nullptr; std::unique_ptr<Proto> pa, pb; SendJson ja, jb; std::unique_ptr<Rpc> a, b;
  int peer_ids[MAXREQ];                 // id under which peer B's service received request #i (-1: not received)
  int wire_ids[MAXREQ];                 // id A used on the wire for request #i, read from the bytes A's proto sent (-1: nothing was sent)
  int a_wire_last = 0, a_wire_max = 0;  // newest / largest request id seen on A's wire
  int hidden = 0;                       // requests issued while A's proto had no send callback (their ids were never seen)
  int a_peer_id = -1;                   // id under which A's service received B's request
  bool b_issued = false, a_up = true, a_connected = true;
  int tmo_arg_a;                        // timeout_sec argument of A's current session (0 = default)
  int notes = 0;                        // notifications seen by B's service
  std::vector<Ev> events; int issued = 0; std::string viol;
  std::vector<int> beh;
  void init_a() { if (tmo_arg_a > 0) a->initialize(pa.get(), tmo_arg_a); else a->initialize(pa.get()); a_up = true;
    a->addService("s", [this](int id, const Json &, int &, Json &) { if (a_peer_id > 0 && viol.empty()) viol = "peer-request-delivered-twice"; a_peer_id = id; return false; }); }
  void connect_a() { a_connected = true;
    pa->setSendCallback([this](const void *d, size_t n) { int id = wire_request_id(proto, d, n); if (id) { a_wire_last = id; a_wire_max = std::max(a_wire_max, id); }
      ssize_t r = pb->onRecvData(d, n); if (r != (ssize_t)n) viol = "request-not-consumed-by-peer ret=" + std::to_string(r); }); }
  World(const std::string &proto_, const std::string &engine) : proto(proto_), tmo_arg_a(g_timeout_arg) {
    for (int i = 0; i < MAXREQ; i++) peer_ids[i] = wire_ids[i] = -1;
    loop = Loop::New(engine); pa.reset(mk_proto(proto, ja)); pb.reset(mk_proto(proto, jb)); a.reset(new Rpc(loop)); b.reset(new Rpc(loop));
    init_a();
    if (g_timeout_arg > 0) b->initialize(pb.get(), g_timeout_arg); else b->initialize(pb.get());
    connect_a();
    pb->setSendCallback([this](const void *d, size_t n) { ssize_t r = pa->onRecvData(d, n); if (r != (ssize_t)n) viol = "response-not-consumed-by-requester ret=" + std::to_string(r); });
    auto svc = [this](bool has_params) { return [this, has_params](int id, const Json &params, int &errcode, Json &result) {
      if (id == 0) { notes++; return false; }                      // a notification
      int n = -1, sync = 0;
      if (has_params) { if (params.is_object() && params.contains("n") && params["n"].is_number_integer()) n = params["n"].get<int>();
                        if (params.is_object() && params.contains("sync")) sync = params["sync"].get<int>(); }
      else n = params.is_null() ? issued - 1 : -1;                  // the overload without params: nothing travels, the newest request it must be
      if (n != issued - 1 || n < 0 || n >= MAXREQ || peer_ids[n] >= 0) { if (viol.empty()) viol = "peer-received-a-different-request-than-sent"; return false; }
      peer_ids[n] = id;
      if (sync == 1) { result = Json::object(); result["r"] = n; return true; }
      if (sync == 2) { errcode = 100 + n; return true; }
      return false; }; };                                           // answered later by respond()
    b->addService("m", svc(true)); b->addService("q", svc(false));
  }
  void request(int b_) {
    if (issued >= MAXREQ || !a_up || !a) return;
    int i = issued++; beh.push_back(b_);
    Json params = Json::object(); params["n"] = i;
    if (b_ == SYNC_RES || b_ == SYNC_FOLLOW) params["sync"] = 1; else if (b_ == SYNC_ERR) params["sync"] = 2;
    auto cb = [this, i](int errcode, const Json &res) {
      events.push_back(Ev{i, errcode, result_val(res)});
      if (chains(beh[i])) request(PLAIN);                              // a completion that issues a follow-up request
      if (beh[i] == CLEAN && errcode != ErrorCode::kRequestTimeout) { a->cleanup(); init_a(); }
      else if (beh[i] == CLEAN && g_clean_in_timeout) { a->cleanup(); a_up = false; }
    };
    bool was_connected = a_connected; a_wire_last = 0;
    if (b_ == NO_METHOD) a->request("nosuch", params, cb);
    else if (b_ == NOTIFY_OVL) { int n0 = notes; Json np = Json::object(); np["n"] = -1; a->notify("m", np); a->notify("m");
      if (was_connected && notes != n0 + 2 && viol.empty()) viol = "notification-not-delivered-to-peer-exactly-once";
      a->request("q", cb); }
    else a->request("m", params, cb);
    if (!was_connected) { hidden++; if (viol.empty() && (peer_ids[i] >= 0 || a_wire_last)) viol = "request-left-a-proto-that-has-no-send-callback"; return; }
    if (b_ == NO_METHOD) wire_ids[i] = a_wire_last ? a_wire_last : -1;
    if (viol.empty() && b_ != NO_METHOD && peer_ids[i] < 0) viol = "request-not-delivered-to-peer";
    if (viol.empty() && b_ == NO_METHOD && (peer_ids[i] >= 0 || wire_ids[i] < 0)) viol = "peer-received-a-different-request-than-sent";
  }
  void pass() { loop->runNext([] {}); loop->runLoop(Loop::Mode::kOnce); }
  void half() { g_mono_ms += 500; pass(); }
  void apply(const Op &o) {
    switch (o.k) {
      case REQ: request(o.a); break;
      case RSP: if (o.a < issued) { int id = peer_ids[o.a] >= 0 ? peer_ids[o.a] : wire_ids[o.a]; if (id <= 0) break;
          if (o.b == 0) { Json res = Json::object(); res["r"] = o.a; b->respond(id, res); } else b->respond(id, 100 + o.a); } break;
      case UNK: { Json res = Json::object(); res["r"] = 9;           // responses nobody asked for, one after the other
        b->respond(a_wire_max + hidden + 1, res);                  // an id that has not been issued yet (requests that never reached the wire took ids too)
        b->respond(1000, 55);                                      // error reply with an id never issued
        pb->sendResult(0, res); pb->sendError(0, 55);              // id 0
        pb->sendResult(-1, res);                                   // a negative id
        // ids that differ from an ISSUED id by a multiple of 2^32 (equal to it after truncation to 32 bits): unknown ids like any other
        for (int id = 1; id <= a_wire_max; id++) {
          for (int64_t off : {(int64_t)1 << 32, -((int64_t)1 << 32), (int64_t)3 << 32}) {
            Json m = Json::object(); m["jsonrpc"] = "2.0"; m["id"] = (int64_t)id + off; m["result"] = res; jb(m);
            Json e = Json::object(); e["jsonrpc"] = "2.0"; e["id"] = (int64_t)id + off; e["error"]["code"] = 55; jb(e); }
          Json u = Json::object(); u["jsonrpc"] = "2.0"; u["id"] = (uint64_t)id + ((uint64_t)0xffffffffu << 32); u["result"] = res; jb(u); }
        if (a_peer_id > 0 && a) { Json m = Json::object(); m["jsonrpc"] = "2.0"; m["id"] = (int64_t)a_peer_id + ((int64_t)1 << 32); m["result"] = res; ja(m); }   // and in the other direction
        } break;
      case ADV: for (int s = 0; s < 2 * g_adv_steps; s++) half(); break;
      case HALF: half(); break;
      case DOWN: a->cleanup(); a_up = false; break;                 // (the borrowed proto now has no receive callbacks; later ops keep delivering into it)
      case UP: tmo_arg_a = o.a ? g_timeout + o.a : g_timeout_arg; init_a(); break;
      case KILL: a.reset(); a_up = false; break;                   // destroyed WITHOUT cleanup(); afterwards only the clock moves
      case DISC: pa->setSendCallback(nullptr); a_connected = false; break;
      case CONN: connect_a(); break;
      case BREQ: if (!b_issued) { b_issued = true; Json p = Json::object(); p["k"] = 1;
          b->request("s", p, [this](int errcode, const Json &res) { events.push_back(Ev{BREQ_SLOT, errcode, result_val(res)}); });
          if (a_up && a_peer_id < 0 && viol.empty()) viol = "peer-request-not-delivered";
          if (!a_up && a_peer_id > 0 && viol.empty()) viol = "peer-request-delivered-to-a-cleaned-up-rpc"; } break;
      case BRSP: if (a_peer_id > 0 && a_up && a) { Json res = Json::object(); res["r"] = 50; a->respond(a_peer_id, res); } break;
    }
  }
  std::string canon() {
    std::string c = "A:" + (a ? key::side(*a) : std::string("gone")) + " B:" + key::side(*b);
    CommonLoop *cl = static_cast<CommonLoop *>(loop);
    c += " T:" + key::heap(C14_PTR(timer_min_heap_, *cl));
    c += " W:"; for (int i = 0; i < MAXREQ; i++) c += std::to_string(peer_ids[i]) + "/" + std::to_string(wire_ids[i]) + ","; c += std::to_string(a_peer_id) + "/" + std::to_string(a_wire_max);
    c += std::string(VF_GET(send_data_cb_, *pa, false) ? " s" : " -");
    return c;
  }
  ~World() { if (a) { if (a_up) a->cleanup(); } b->cleanup(); a.reset(); b.reset(); loop->cleanup(); delete loop; }
};

// ---- deterministic lane (outside the BFS): sizes and re-entrancy the 3-request BFS cannot reach -------------------------------
// N pending requests (the pending map of the real Rpc grows through several rehashes / node splits), deliveries made from
// INSIDE completion callbacks (while the Rpc is iterating its expired ids or holding a position in its pending map).
// Oracle, by a local reference table: every request's callback exactly once; with its own response if that was delivered before
// the tick in which it expires; with kRequestTimeout in exactly the tick its ring slot comes round if no response was delivered;
// and - READING - either of the two when the response is delivered re-entrantly during that very tick (order within a tick is
// not promised).
struct Lane {
  Loop *loop; std::unique_ptr<Proto> pa, pb; SendJson ja, jb; std::unique_ptr<Rpc> a, b;
  struct R { int calls = 0, code = 0, val = 0, peer_id = -1, issued_tick = 0, done_tick = -1; bool sync = false; };
  std::vector<R> rq; int tick = 0; std::string viol; long execs = 0;
  std::function<void(int idx, int errcode)> hook;      // scenario: what a completion callback does
  int timeout;
  Lane(const std::string &proto, const std::string &engine, int tmo) : timeout(tmo) {
    loop = Loop::New(engine); pa.reset(mk_proto(proto, ja)); pb.reset(mk_proto(proto, jb)); a.reset(new Rpc(loop)); b.reset(new Rpc(loop));
    a->initialize(pa.get(), tmo); b->initialize(pb.get(), tmo);
    pa->setSendCallback([this](const void *d, size_t n) { if (pb->onRecvData(d, n) != (ssize_t)n && viol.empty()) viol = "request-not-consumed-by-peer"; });
    pb->setSendCallback([this](const void *d, size_t n) { if (pa->onRecvData(d, n) != (ssize_t)n && viol.empty()) viol = "response-not-consumed-by-requester"; });
    b->addService("m", [this](int id, const Json &params, int &, Json &result) {
      int n = params.is_object() && params.contains("n") ? params["n"].get<int>() : -1;
      if (n < 0 || n >= (int)rq.size() || rq[n].peer_id >= 0) { if (viol.empty()) viol = "peer-received-a-different-request-than-sent"; return false; }
      rq[n].peer_id = id;
      if (rq[n].sync) { result = Json::object(); result["r"] = n; return true; }
      return false; });
  }
  ~Lane() { a->cleanup(); b->cleanup(); a.reset(); b.reset(); loop->cleanup(); delete loop; }
  int issue(bool sync = false) {
    int i = (int)rq.size(); rq.push_back(R()); rq[i].sync = sync; rq[i].issued_tick = tick; execs++;
    Json p = Json::object(); p["n"] = i;
    a->request("m", p, [this, i](int errcode, const Json &res) { R &x = rq[i]; x.calls++; x.code = errcode; x.val = result_val(res); x.done_tick = tick; if (hook) hook(i, errcode); });
    if (rq[i].peer_id < 0 && viol.empty()) viol = "request-not-delivered-to-peer";
    return i;
  }
  void respond(int i) { execs++; Json res = Json::object(); res["r"] = i; b->respond(rq[i].peer_id, res); }
  // a response whose id equals request i's id only after truncation to 32 bits: an unknown id
  void respond_wrapped(int i) { execs++; Json res = Json::object(); res["r"] = 9999; Json m = Json::object(); m["jsonrpc"] = "2.0"; m["id"] = (int64_t)rq[i].peer_id + ((int64_t)1 << 32); m["result"] = res; jb(m);
    Json e = Json::object(); e["jsonrpc"] = "2.0"; e["id"] = (int64_t)rq[i].peer_id - ((int64_t)1 << 32); e["error"]["code"] = 9999; jb(e); }
  void advance() { tick++; g_mono_ms += 1000; execs++; loop->runNext([] {}); loop->runLoop(Loop::Mode::kOnce); }
};
static long g_lane_states = 0, g_lane_execs = 0, g_lane_viols = 0;
static void lane_viol(const std::string &sig, const std::string &where, const std::string &detail) {
  g_lane_viols++; printf("@VIOL sig=%s :: lane %s: %s\n", sig.c_str(), where.c_str(), detail.c_str());
}
// judges request i: may_result = its own response was delivered in time, may_timeout = a timeout in tick timeout_tick is acceptable (both: the in-tick reading)
static bool lane_judge(Lane &w, const std::string &where, int i, bool may_result, bool may_timeout, int timeout_tick) {
  Lane::R &x = w.rq[i]; char d[200];
  snprintf(d, sizeof d, "request #%d (issued in tick %d): calls=%d code=%d val=%d done_tick=%d", i, x.issued_tick, x.calls, x.code, x.val, x.done_tick);
  if (x.calls == 0) { lane_viol(may_result && !may_timeout ? "completion-callback-missing-on-matching-response" : "completion-callback-missing-at-timeout-deadline", where, d); return false; }
  if (x.calls > 1) { lane_viol("completion-callback-invoked-again-lane", where, d); return false; }
  bool is_res = x.code == 0 && x.val == i, is_tmo = x.code == ErrorCode::kRequestTimeout && x.val == -1 && x.done_tick == timeout_tick;
  if (!((may_result && is_res) || (may_timeout && is_tmo))) {
    lane_viol(x.code == ErrorCode::kRequestTimeout ? (may_timeout ? "completion-callback-timeout-in-the-wrong-tick-lane" : "completion-callback-invoked-unexpectedly-timeout-before-deadline") : "completion-callback-with-wrong-outcome-lane", where, d);
    return false; }
  return true;
}
static void run_lane(const std::string &proto, const std::string &engine, int tmo, bool reentrant_dup) {
  char tag[120];
  for (int N : {2, 20, 60}) {
    // L1: N pending; the response to #0 arrives; its callback issues 15 follow-ups (the pending map is re-hashed while the Rpc
    // still holds its position in it); then the others are answered in reverse order, then every response is duplicated
    { Virt vt; Lane w(proto, engine, tmo); snprintf(tag, sizeof tag, "L1 %s/%s timeout=%d N=%d", proto.c_str(), engine.c_str(), tmo, N);
      for (int i = 0; i < N; i++) w.issue();
      w.hook = [&](int idx, int) { if (idx == 0) for (int k = 0; k < 15; k++) w.issue(); };
      for (int i = 0; i < N; i++) w.respond_wrapped(i);                          // ids +-2^32 away from the pending ones: ignored
      w.respond(0);
      for (int i = N - 1; i >= 1; i--) w.respond(i);
      for (int i = 0; i < N; i++) w.respond(i);                                  // duplicates
      for (int t = 0; t < tmo + 2; t++) w.advance();
      for (int i = 0; i < N + 15; i++) w.respond(i);                             // late
      bool ok = w.viol.empty(); if (!ok) lane_viol(w.viol, tag, "");
      if ((int)w.rq.size() != N + 15) { ok = false; lane_viol("harness-lane-follow-ups-not-issued", tag, std::to_string(w.rq.size())); }
      for (int i = 0; ok && i < (int)w.rq.size(); i++) ok = i < N ? lane_judge(w, tag, i, true, false, 0) : lane_judge(w, tag, i, false, true, tmo);
      if (ok) printf("@OUTCOME lane L1 N=%d: every one of N+15 callbacks exactly once (N results, 15 follow-up timeouts in tick %d)\n", N, tmo);
      g_lane_states++; g_lane_execs += w.execs; }
    // L2: half of N issued in tick 0, the other half in tick 1 (all in tick 0 when timeout_sec == 1); nothing is answered. The FIRST timeout
    // callback that runs makes the peer answer every other request (re-entrantly, while the Rpc walks the expired slot) and issues 15 follow-ups.
    { Virt vt; Lane w(proto, engine, tmo); snprintf(tag, sizeof tag, "L2 %s/%s timeout=%d N=%d", proto.c_str(), engine.c_str(), tmo, N);
      bool fired = false; int first = -1;
      w.hook = [&](int idx, int errcode) { if (fired || errcode != ErrorCode::kRequestTimeout) return; fired = true; first = idx;
        for (int i = 0; i < N; i++) if (i != idx) w.respond(i);
        for (int k = 0; k < 15; k++) w.issue(); };
      for (int i = 0; i < N / 2; i++) w.issue();
      if (tmo >= 2) w.advance();
      for (int i = N / 2; i < N; i++) w.issue();
      for (int t = 0; t < 2 * tmo + 3; t++) w.advance();
      for (int i = 0; i < (int)w.rq.size(); i++) w.respond(i);                 // late
      bool ok = w.viol.empty(); if (!ok) lane_viol(w.viol, tag, "");
      if (ok && !fired) { ok = false; lane_viol("completion-callback-missing-at-timeout-deadline", tag, "no timeout callback at all"); }
      if (ok && (int)w.rq.size() != N + 15) { ok = false; lane_viol("harness-lane-follow-ups-not-issued", tag, std::to_string(w.rq.size())); }
      int ft = ok ? w.rq[first].done_tick : 0;                                  // the tick in which the others were answered
      for (int i = 0; ok && i < (int)w.rq.size(); i++) {
        int due = w.rq[i].issued_tick + tmo;
        if (i == first || i >= N) ok = lane_judge(w, tag, i, false, true, due);  // unanswered: timeout in exactly its tick
        else ok = lane_judge(w, tag, i, due >= ft, due <= ft, due);              // answered in tick ft: before its tick -> result; in its tick -> either; after -> timeout
      }
      if (ok) printf("@OUTCOME lane L2 N=%d: first timeout callback answered the others re-entrantly; every callback exactly once\n", N);
      g_lane_states++; g_lane_execs += w.execs; }
    // L3: a chain of N requests, each answered synchronously by the peer's service inside request(), each completion callback
    // issuing the next one (re-entrancy depth N)
    { Virt vt; Lane w(proto, engine, tmo); snprintf(tag, sizeof tag, "L3 %s/%s timeout=%d N=%d", proto.c_str(), engine.c_str(), tmo, N);
      w.hook = [&](int, int) { if ((int)w.rq.size() < N) w.issue(true); };
      w.issue(true);
      for (int t = 0; t < tmo + 2; t++) w.advance();
      bool ok = w.viol.empty(); if (!ok) lane_viol(w.viol, tag, "");
      if ((int)w.rq.size() != N) { ok = false; lane_viol("completion-callback-missing-on-matching-response", tag, "chain stopped at " + std::to_string(w.rq.size())); }
      for (int i = 0; ok && i < (int)w.rq.size(); i++) ok = lane_judge(w, tag, i, true, false, 0);
      if (ok) printf("@OUTCOME lane L3 N=%d: chain of synchronously answered requests, every callback exactly once, none at the later ticks\n", N);
      g_lane_states++; g_lane_execs += w.execs; }
    // L4 (on by default; C14_REENTRANT_DUP=0 turns it off; before the repair in /repo the library failed it): the completion callback of #0
    // delivers a copy of #0's own response re-entrantly: (a) from inside the response callback (a duplicate), (b) from inside the timeout callback (a late response)
    if (reentrant_dup) for (int variant = 0; variant < 2; variant++) { Virt vt; Lane w(proto, engine, tmo); snprintf(tag, sizeof tag, "L4%c %s/%s timeout=%d N=%d", 'a' + variant, proto.c_str(), engine.c_str(), tmo, N);
      for (int i = 0; i < N; i++) w.issue();
      bool once = false; w.hook = [&](int idx, int) { if (idx != 0) return;
        if (w.rq[0].calls > 1) { lane_viol("completion-callback-invoked-again-by-response-delivered-from-inside-the-callback", tag, "calls=" + std::to_string(w.rq[0].calls)); fflush(stdout); }
        if (!once) { once = true; w.respond(0); } };
      hx::set_current(std::string("lane ") + tag + (variant ? ": #0 times out, its callback delivers #0's response" : ": #0 answered, its callback delivers the same response again"));
      if (variant == 0) w.respond(0); else for (int t = 0; t < tmo; t++) w.advance();
      if (!w.viol.empty()) lane_viol(w.viol, tag, "");
      g_lane_states++; g_lane_execs += w.execs; }
  }
}

int main(int argc, char **argv) {
  std::string proto = argc > 1 ? argv[1] : "raw", engine = argc > 2 ? argv[2] : "epoll";
  if (proto == "lane") {
    hx::install_crash_reporter("C14-rpc-lane-crash");
    bool dup = hx::env_int("C14_REENTRANT_DUP", 1) != 0;      // on by default since the repair in /repo (C14_REENTRANT_DUP=0 turns it off)
    for (const char *p : {"raw", "header", "packet"}) for (const char *e : {"epoll", "select"}) for (int t : {1, 2, 3}) {
      hx::set_current(std::string("lane ") + p + "/" + e + " timeout=" + std::to_string(t));
      run_lane(p, e, t, dup); }
    printf("@INFO lane: 3 protos x 2 engines x timeout {1,2,3} x N {2,20,60} x scenarios L1 (answer first, callback issues 15 follow-ups, reverse answers, duplicates, late), "
           "L2 (first timeout callback answers all others re-entrantly + 15 follow-ups), L3 (chain of N synchronously answered requests)%s\n", dup ? ", L4 (duplicate delivered from inside the callback)" : "");
    printf("@STAT states=%ld transitions=%ld executions=%ld violations=%ld\n", g_lane_states, g_lane_execs, g_lane_execs, g_lane_viols);
    return 0;
  }
  g_timeout_arg = argc > 3 ? atoi(argv[3]) : 2; size_t depth = argc > 4 ? atoi(argv[4]) : 7;
  g_timeout = g_timeout_arg > 0 ? g_timeout_arg : 30;        // Rpc::initialize(proto, timeout_sec = 30)
  g_adv_steps = g_timeout >= 10 ? 10 : 1;                     // with the 30 s default one "advance" op is ten seconds
  // argv[5]: optional ops on the menu: r = cleanup ... initialize (separate ops, anything may happen in between) and destruction without cleanup,
  // b = a request in the opposite direction, h = half-second clock steps, d = transport disconnected ... connected, c = request whose callback runs cleanup+initialize
  std::string opt = argc > 5 ? argv[5] : "rb"; auto has = [&](char c) { return opt.find(c) != std::string::npos; };
  g_reinit = has('r'); g_breq = has('b'); g_half = has('h'); g_disc = has('d');
  g_beh_mask = (unsigned)hx::env_int("C14_BEH_MASK", has('c') ? 255 : 127);
  g_clean_in_timeout = hx::env_int("C14_CLEAN_IN_TIMEOUT", 0) != 0;
  hx::install_crash_reporter("C14-rpc-crash");
  hx::Explorer<Op> ex; ex.name = "rpc-" + proto + "-" + engine + "-timeout" + std::to_string(g_timeout) + "+" + opt;
  ex.deadline_s = hx::deadline_from_env(600);
  ex.fork_workers = (int)hx::env_int("VERIF_WORKERS", 0);
  ex.show = [](const Op &o) { char b[96];
    switch (o.k) {
      case REQ: snprintf(b, sizeof b, "request(%s)", BEHN[o.a]); break;
      case RSP: snprintf(b, sizeof b, "deliver(#%d,%s)", o.a, o.b ? "error" : "result"); break;
      case UNK: snprintf(b, sizeof b, "deliver(future-id,id1000-error,id0,id0-error,id-1,issued-ids+-k*2^32)"); break;
      case ADV: snprintf(b, sizeof b, "advance(%ds-in-half-seconds)+pass", g_adv_steps); break;
      case HALF: snprintf(b, sizeof b, "advance(500ms)+pass"); break;
      case DOWN: snprintf(b, sizeof b, "cleanup"); break;
      case UP: snprintf(b, sizeof b, "initialize(timeout_sec%s)+addService", o.a ? "+1" : ""); break;
      case KILL: snprintf(b, sizeof b, "destroy-without-cleanup"); break;
      case DISC: snprintf(b, sizeof b, "proto.setSendCallback(null)"); break;
      case CONN: snprintf(b, sizeof b, "proto.setSendCallback(restored)"); break;
      case BREQ: snprintf(b, sizeof b, "peer-requests"); break;
      default: snprintf(b, sizeof b, "answer-peer-request"); break; }
    return std::string(b); };
  ex.menu = [&](const std::vector<Op> &h) {
    Model m; for (auto &o : h) m.step(o);
    std::vector<Op> v;
    if (m.killed) { v.push_back({ADV, 0, 0}); if (g_half) v.push_back({HALF, 0, 0}); return v; }   // the object is gone: only time passes
    if ((int)m.r.size() < MAXREQ && m.up) for (int bh = 0; bh < NBEH; bh++) if (g_beh_mask >> bh & 1) {
      if (!m.connected && !(bh == PLAIN || bh == FOLLOW)) continue;                                // nothing leaves a disconnected proto: only the deferred kinds make sense
      v.push_back({REQ, bh, 0}); }
    for (int i = 0; i < (int)m.r.size(); i++) if (m.r[i].delivered) { v.push_back({RSP, i, 0}); v.push_back({RSP, i, 1}); }
    v.push_back({ADV, 0, 0});
    if (g_half) v.push_back({HALF, 0, 0});
    if (g_reinit) { if (!m.down_done) { v.push_back({DOWN, 0, 0}); v.push_back({KILL, 0, 0}); } else if (!m.up_done) { v.push_back({UP, 0, 0}); v.push_back({UP, 1, 0}); } }
    if (g_disc && m.up) { if (!m.disc_done) v.push_back({DISC, 0, 0}); else if (!m.conn_done) v.push_back({CONN, 0, 0}); }
    if (g_breq) { if (!m.b_issued) v.push_back({BREQ, 0, 0}); else if (m.b_delivered && m.up) v.push_back({BRSP, 0, 0}); }
    v.push_back({UNK, 0, 0});
    return v; };
  ex.run = [&](const std::vector<Op> &h, std::string &viol) {
    Virt vt; Model m; World w(proto, engine);
    std::vector<int> calls(MAXREQ + 1, 0);
    for (size_t n = 0; n < h.size() && viol.empty(); n++) {
      std::vector<bool> was_pending; for (auto &x : m.r) was_pending.push_back(x.pending);
      int k = h[n].k; bool later_session = m.sessions > 1;
      std::vector<Ev> exp = m.step(h[n]);
      w.events.clear(); w.apply(h[n]);
      if (!w.viol.empty()) { viol = w.viol; break; }
      bool clock = k == ADV || k == HALF;
      // every callback seen during this op must be expected, and every expected one seen, exactly once
      for (auto &e : w.events) {
        if (e.req < 0 || e.req > MAXREQ) { viol = "callback-for-unknown-request"; break; }
        calls[e.req]++;
        bool expected = false; for (auto &x : exp) if (x.req == e.req) expected = true;
        if (calls[e.req] > 1) { viol = std::string("completion-callback-invoked-again-") + (clock ? "by-timeout-after-completion" : (k == RSP || k == BRSP) ? "by-duplicate-or-late-response" : (k == DOWN || k == KILL) ? "by-cleanup" : "by-unrelated-op"); break; }
        // reading: cleanup() / the destructor may complete the requests they abandon with an error while they run (the code drops them silently)
        if (m.reinit_in_op && !expected && e.req < (int)was_pending.size() && was_pending[e.req] && e.errcode != 0) continue;
        if (!expected) { viol = std::string("completion-callback-invoked-unexpectedly-") + (clock ? (m.killed ? "after-destruction" : !m.up ? "timeout-while-cleaned-up" : "timeout-before-deadline") : k == UNK ? "by-unknown-id-response" :
                                  (k == RSP && !m.up) ? "by-delivery-while-cleaned-up" : (k == RSP && m.sessions > 1) ? "by-response-to-a-request-of-the-previous-session" :
                                  (k == BRSP || k == BREQ) ? "by-traffic-in-the-other-direction" : "by-op"); break; }
        for (auto &x : exp) if (x.req == e.req && !(x == e)) { viol = "completion-callback-with-wrong-outcome got(err=" + std::to_string(e.errcode) + ",val=" + std::to_string(e.val) + ") want(err=" + std::to_string(x.errcode) + ",val=" + std::to_string(x.val) + ")"; }
      }
      if (!viol.empty()) break;
      for (auto &x : exp) { bool seen = false; for (auto &e : w.events) if (e.req == x.req) seen = true;
        if (!seen) { viol = x.errcode == ErrorCode::kRequestTimeout ? (later_session && x.req < MAXREQ ? "completion-callback-missing-at-timeout-deadline-after-reinitialize" :
                                                                      (x.req < MAXREQ && !m.r[x.req].delivered) ? "completion-callback-missing-at-timeout-deadline-for-a-request-that-could-not-be-sent" : "completion-callback-missing-at-timeout-deadline")
                          : k == REQ ? "completion-callback-missing-on-response-arriving-inside-request" : "completion-callback-missing-on-matching-response"; break; } }
      if (!viol.empty()) break;
      if (w.issued != (int)m.r.size()) { viol = "harness-model-and-world-disagree-on-issued-requests"; break; }
      // (the implementation's pending map is part of the canonical state but is not judged: only callbacks are observable)
    }
    std::string c = w.canon() + " M:" + m.canon();
    if (vf_any_missing()) { c += " H:"; for (size_t n = h.size() >= 3 ? h.size() - 3 : 0; n < h.size(); n++) c += std::to_string(h[n].k) + "." + std::to_string(h[n].a) + "." + std::to_string(h[n].b) + ","; }   // a member the key wanted is gone: tell states apart by the recent past
    return c;
  };
  ex.explore(depth);
  printf("@STAT virtual_clock_reads=%ld would_block_polls=%ld\n", g_clock_reads, g_would_block);
  return 0;
}
