// C14: replaces base/log_impl.cpp in the framing executables. Unlike engine/sched/log_stub.cpp it FORMATS every record
// (as the real sink does), so a log statement that hands printf a pointer which is not NUL-terminated / already freed,
// or a format string that does not match its arguments, is seen by ASan (this file is compiled instrumented; vsnprintf
// is intercepted). Nothing is written anywhere.
#include <cstdarg>
#include <cstdio>
#include <cstring>
static char g_scratch[1 << 16];
long g_c14_log_records = 0, g_c14_log_bytes = 0;
extern "C" void LogPrintfFunc(const char *module_id, const char *func_name, const char *file_name, int line, int level, int with_args, const char *fmt, ...) {
  size_t n = 0;
  if (module_id) n += strlen(module_id);
  if (func_name) n += strlen(func_name);
  if (file_name) n += strlen(file_name);
  (void)line; (void)level;
  if (fmt) {
    if (with_args) { va_list ap; va_start(ap, fmt); int r = vsnprintf(g_scratch, sizeof g_scratch, fmt, ap); va_end(ap); if (r > 0) n += (size_t)r; }
    else n += strlen(fmt);
  }
  g_c14_log_records++; g_c14_log_bytes += (long)n;
}
