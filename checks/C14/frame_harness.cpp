// C14 (framing, engine I): exhaustive input sweeps over the three real JSON-RPC framings
// (RawStreamProto, HeaderStreamProto, PacketProto), ASan+UBSan.
//   usage: frame_harness <family> <part> <nparts> <level> [maxseg] [log]
//   family: roundtrip | segment | packet | len | magic | trunc | bytes | mixed | envelope | deep | big | headcode
//   level : 0 = quick bounds, 1 = thorough bounds
//   log   : 1 = every proto runs with setLogEnable(true) + setLogLabel (records are formatted by log_fmt_stub.cpp, written nowhere)
// Every batch of cases runs in a forked child; the case in flight is published in shared memory, so
// a crash / sanitizer abort of the child identifies its input (and the batch resumes behind it).
// Exceptions escaping onRecvData are caught per call and reported as violations.
#include <tbox/base/json.hpp>
#include <tbox/jsonrpc/proto.h>
#include <tbox/jsonrpc/protos/raw_stream_proto.h>
#include <tbox/jsonrpc/protos/header_stream_proto.h>
#include <tbox/jsonrpc/protos/packet_proto.h>
#include <sys/mman.h>
#include <sys/syscall.h>
#include <sys/wait.h>
#include <unistd.h>
#include <climits>
#include <cstdarg>
#include <cstdio>
#include <cstdlib>
#include <cstring>
#include <functional>
#include <memory>
#include <set>
#include <string>
#include <typeinfo>
#include <vector>

using tbox::Json;
using namespace tbox::jsonrpc;

// ------------------------------------------------------------------------------------------------
// infrastructure: shared state between the driver and its forked children
struct SigRec { char sig[200]; long n; char ex[3][6000]; };
struct Shared {
  volatile long seq;            // sequence number of the case in flight inside the current batch
  volatile long in_flight;
  char cls[200];                // signature prefix of the case in flight
  char text[24000];             // replay text of the case in flight
  volatile long cut[4];         // segmentation of the case in flight (-1 = unused)
  long states, executions, calls, callbacks, viols, status_diffs, log_records, sends, accepted;
  int nsig; SigRec sigs[96];
  int nout; char outs[160][200];
  int nsample; char samples[4][1200];
};
static Shared *S;
static int g_part = 0, g_nparts = 1, g_level = 0, g_maxseg = 0;   // g_maxseg: 0 = full bound of the level, 2 = only 2-segment splits
static int g_log = 0;                                             // protos log every frame they send / receive
extern long g_c14_log_records, g_c14_log_bytes;                   // log_fmt_stub.cpp
static double g_deadline = 1e18; static bool g_capped = false;
static const char *g_family = "";

static double real_now() { struct timespec ts; syscall(SYS_clock_gettime, CLOCK_MONOTONIC, &ts); return ts.tv_sec + ts.tv_nsec * 1e-9; }
static bool expired() { if (!g_capped && real_now() > g_deadline) { g_capped = true; } return g_capped; }

static std::string esc(const std::string &b) {
  std::string o; char t[8];
  for (unsigned char c : b) {
    if (c == '\\') o += "\\\\"; else if (c == '"') o += "\\\""; else if (c >= 0x20 && c < 0x7f) o += (char)c;
    else { snprintf(t, sizeof t, "\\x%02x", c); o += t; } }
  return o;
}
static std::string fmt(const char *f, ...) { char b[1024]; va_list ap; va_start(ap, f); vsnprintf(b, sizeof b, f, ap); va_end(ap); return b; }

static void add_viol(const std::string &sig, const std::string &text) {
  S->viols++;
  int i; for (i = 0; i < S->nsig; i++) if (sig == S->sigs[i].sig) break;
  if (i == S->nsig) { if (S->nsig >= 96) return; S->nsig++; snprintf(S->sigs[i].sig, sizeof S->sigs[i].sig, "%s", sig.c_str()); S->sigs[i].n = 0; }
  SigRec &r = S->sigs[i];
  if (r.n < 3) snprintf(r.ex[r.n], sizeof r.ex[0], "%s", text.c_str());
  r.n++;
}
static void add_outcome(const std::string &o) {
  for (int i = 0; i < S->nout; i++) if (o == S->outs[i]) return;
  if (S->nout < 160) snprintf(S->outs[S->nout++], sizeof S->outs[0], "%s", o.c_str());
}
static void add_sample(const std::string &s) { if (S->nsample < 4) snprintf(S->samples[S->nsample++], sizeof S->samples[0], "%s", s.c_str()); }

// batch protocol: body enumerates cases; for each it calls next_case() (false = already done before a
// crash, skip) and then set_case() before touching the code under test.
static long g_local_seq = 0, g_skip = 0;
static bool next_case() { g_local_seq++; return g_local_seq > g_skip; }
static void set_case(const std::string &cls, const std::string &text) {
  S->seq = g_local_seq; snprintf(S->cls, sizeof S->cls, "%s", cls.c_str()); snprintf(S->text, sizeof S->text, "%s", text.c_str());
  for (int i = 0; i < 4; i++) S->cut[i] = -1; S->in_flight = 1;
}
static void end_case() { S->in_flight = 0; }

static std::string cuts_text() {
  if (S->cut[0] < -1) return fmt(" segments=every-%ld-bytes", -S->cut[0] - 1);
  bool any = false; std::string s = " seg_ends=["; for (int i = 0; i < 4; i++) if (S->cut[i] >= 0) { s += fmt("%s%ld", any ? "," : "", S->cut[i]); any = true; }
  return any ? s + "]" : ""; }

static void run_batch(const std::function<void()> &body) {
  if (expired()) return;
  g_skip = 0;
  for (int attempt = 0; attempt < 40; attempt++) {
    int efd = (int)syscall(SYS_memfd_create, "c14err", 0);
    fflush(stdout);
    pid_t pid = fork();
    if (pid < 0) { perror("fork"); exit(3); }
    if (pid == 0) {
      if (efd >= 0) dup2(efd, 2);
      alarm(600);
      g_local_seq = 0; S->in_flight = 0; g_c14_log_records = 0;
      body();
      __sync_fetch_and_add(&S->log_records, g_c14_log_records);
      _exit(0);
    }
    int st = 0; waitpid(pid, &st, 0);
    std::string err;
    if (efd >= 0) { char b[65536]; ssize_t n = pread(efd, b, sizeof b, 0); if (n > 0) err.assign(b, (size_t)n); close(efd); }
    if (WIFEXITED(st) && WEXITSTATUS(st) == 0) return;
    std::string how = WIFSIGNALED(st) ? fmt("signal%d", WTERMSIG(st)) : fmt("exit%d", WEXITSTATUS(st));
    std::string head; size_t p;
    if ((p = err.find("ERROR: AddressSanitizer: ")) != std::string::npos) { size_t q = err.find_first_of(" \n", p + 25); head = "asan-" + err.substr(p + 25, q - (p + 25)); }
    else if ((p = err.find("runtime error: ")) != std::string::npos) { head = "ubsan"; size_t q = err.find('\n', p); add_outcome("ubsan: " + err.substr(p + 15, std::min<size_t>(q - p - 15, 120))); }
    else if (err.find("terminate called") != std::string::npos) head = "uncaught-exception";
    else if (err.find("stack-overflow") != std::string::npos) head = "stack-overflow";
    if (!S->in_flight) { add_viol(std::string("harness-child-died-outside-a-case:") + how, fmt("family=%s part=%d after case %ld: %s", g_family, g_part, (long)S->seq, esc(err.substr(0, 300)).c_str())); return; }
    add_viol(std::string(S->cls) + "-crash:" + how + (head.empty() ? "" : ":" + head), std::string(S->text) + cuts_text());
    g_skip = S->seq;    // resume behind the case that killed the child
  }
  add_viol("harness-too-many-crashes-in-one-batch", fmt("family=%s part=%d", g_family, g_part));
}

// ------------------------------------------------------------------------------------------------
// the real protos, observed through their public callbacks
enum { RAW, HDR, PKT, NPROTO };
static const char *PN[] = {"raw-stream", "header-stream", "packet"};
static uint16_t kMagic = 0x3e5a;                                  // head code of every HeaderStreamProto made from now on (the headcode family varies it)

struct Msg { int kind; int id; std::string method; int errcode; Json v; };    // kind 0 = request, 1 = response
static bool operator==(const Msg &a, const Msg &b) { return a.kind == b.kind && a.id == b.id && a.method == b.method && a.errcode == b.errcode && a.v == b.v; }
static std::string show(const Msg &m) {
  std::string v; try { v = m.v.dump(); } catch (...) { v = "<undumpable>"; }
  return m.kind == 0 ? fmt("req(id=%d,%s,", m.id, m.method.c_str()) + v + ")" : fmt("rsp(id=%d,err=%d,", m.id, m.errcode) + v + ")";
}
static std::string show(const std::vector<Msg> &v) { std::string s = "["; for (auto &m : v) { if (s.size() > 1) s += ' '; s += show(m); } return s + "]"; }

// the protos' encoder (protected virtual sendJson) is reached through a subclass, not through an access bypass
template <class P> struct Open : P { using P::P; using P::sendJson; };
struct Port {
  int kind; std::unique_ptr<Proto> p; std::function<void(const Json &)> send_json; std::vector<Msg> got; std::string sent; std::vector<size_t> sent_sizes;
  // wiring: bit 0 = request callback set, bit 1 = response callback set (3 = both; 0 = what Rpc::cleanup() leaves behind on a borrowed proto)
  // connected: false = no send callback (transport not connected): every send must be a silent no-op
  explicit Port(int k, int wiring = 3, bool connected = true) : kind(k) {
    if (k == RAW) { auto *x = new Open<RawStreamProto>; p.reset(x); send_json = [x](const Json &j) { x->sendJson(j); }; }
    else if (k == HDR) { auto *x = new Open<HeaderStreamProto>(kMagic); p.reset(x); send_json = [x](const Json &j) { x->sendJson(j); }; }
    else { auto *x = new Open<PacketProto>; p.reset(x); send_json = [x](const Json &j) { x->sendJson(j); }; }
    Proto::RecvRequestCallback rq; Proto::RecvRespondCallback rs;
    if (wiring & 1) rq = [this](int id, const std::string &m, const Json &params) { got.push_back(Msg{0, id, m, 0, params}); S->callbacks++; };
    if (wiring & 2) rs = [this](int id, int ec, const Json &res) { got.push_back(Msg{1, id, "", ec, res}); S->callbacks++; };
    p->setRecvCallback(std::move(rq), std::move(rs));
    if (connected) p->setSendCallback([this](const void *d, size_t n) { sent.append((const char *)d, n); sent_sizes.push_back(n); S->sends++; });
    if (g_log) { p->setLogEnable(true); p->setLogLabel("c14-\"%s\\"); }   // (the label is data, not a format)
  }
};
// what a message to be sent looks like, and what the receiver must observe for it
struct Spec { int kind; int id; Json v; int errcode; };   // kind 0 request(id, "m", v) ; 1 result(id, v) ; 2 error(id, errcode)
static Msg expect_of(const Spec &s) { if (s.kind == 0) return Msg{0, s.id, "m", 0, s.v}; if (s.kind == 1) return Msg{1, s.id, "", 0, s.v}; return Msg{1, s.id, "", s.errcode, Json()}; }
static bool send_spec(Port &pt, const Spec &s, std::string &why) {
  try { if (s.kind == 0 && s.v.is_null()) pt.p->sendRequest(s.id, "m"); else if (s.kind == 0) pt.p->sendRequest(s.id, "m", s.v); else if (s.kind == 1) pt.p->sendResult(s.id, s.v); else pt.p->sendError(s.id, s.errcode, "e\"{"); return true; }
  catch (const std::exception &e) { why = e.what(); return false; }
}

struct CallRes { ssize_t r = 0; bool threw = false; std::string what; };
// one onRecvData call on a heap copy that ENDS exactly where the data ends (so ASan sees any read past data_size) and STARTS 0..3 bytes
// into its block, in rotation (callers pass buffer.readableBegin(): nothing promises alignment; a misaligned wide read shows under UBSan)
static CallRes call(Proto &p, const char *d, size_t n) {
  size_t k = (size_t)(S->calls & 3);
  CallRes c; char *block = new char[n + k]; char *exact = block + k; if (n) memcpy(exact, d, n);
  S->calls++;
  try { c.r = p.onRecvData(exact, n); if (c.r > 0) S->accepted++; }
  catch (const std::exception &e) { c.threw = true; c.what = std::string(typeid(e).name()) + ":" + e.what(); }
  catch (...) { c.threw = true; c.what = "non-std-exception"; }
  delete[] block; return c;
}

struct Feed { std::vector<Msg> msgs; ssize_t err = 0; size_t leftover = 0; bool threw = false, overrun = false; std::string what; };
// Feed a byte stream the way a caller does (examples/jsonrpc): append the segment to the receive buffer, call
// onRecvData while it consumes, drop the consumed count, keep the rest for the next segment; a negative return ends it.
static Feed feed(Port &pt, const std::string &stream, const size_t *ends, int nseg) {
  Feed f; pt.got.clear(); std::string buf; size_t from = 0;
  for (int s = 0; s < nseg && !f.err && !f.threw && !f.overrun; s++) {
    buf.append(stream, from, ends[s] - from); from = ends[s];
    while (!buf.empty()) {
      CallRes c = call(*pt.p, buf.data(), buf.size());
      if (c.threw) { f.threw = true; f.what = c.what; break; }
      if (c.r > 0) { if ((size_t)c.r > buf.size()) { f.overrun = true; break; } buf.erase(0, (size_t)c.r); }
      else if (c.r < 0) { f.err = c.r; break; }
      else break;
    }
  }
  f.leftover = buf.size(); f.msgs.swap(pt.got); return f;
}
static Feed feed_whole(Port &pt, const std::string &stream) { size_t e = stream.size(); return feed(pt, stream, &e, 1); }

// ------------------------------------------------------------------------------------------------
// exhaustive JSON value generator
static const char *ALPHA[8] = {"\"", "\\", "{", "}", "[", "]", "\xC3\xA9", "a"};
static std::vector<Json> scalars() { std::vector<Json> s; for (auto a : ALPHA) s.push_back(std::string(a)); s.push_back(1); s.push_back(nullptr); return s; }
// V(0) = 8 one-character strings, 1, null.  V(d) = V(0) + [] + {} + for every x in V(d-1): [x]; {k:x} for each of the nk keys;
// [x,t] for 3 tails; {k:x,"z":t} for k in {quote,backslash}, t in {backslash-string, 1}.  Nesting of V(d) is d.
static std::vector<Json> gen(int d, int nk) {
  std::vector<Json> out = scalars(); if (d == 0) return out;
  out.push_back(Json::array()); out.push_back(Json::object());
  std::vector<Json> sub = gen(d - 1, nk);
  const Json tails[3] = {std::string("\\"), 1, Json::object()};
  for (auto &x : sub) {
    out.push_back(Json::array({x}));
    for (int k = 0; k < nk; k++) { Json o = Json::object(); o[ALPHA[k]] = x; out.push_back(o); }
    for (auto &t : tails) out.push_back(Json::array({x, t}));
    for (int k = 0; k < 2; k++) for (int t = 0; t < 2; t++) { Json o = Json::object(); o[ALPHA[k]] = x; o["z"] = tails[t]; out.push_back(o); }
  }
  return out;
}
// all strings of 2..maxlen alphabet symbols, bare and wrapped ([s], {s:s})
static void gen_strings(std::vector<Json> &out, int maxlen) {
  std::vector<std::string> cur(1, ""), all;
  for (int l = 1; l <= maxlen; l++) { std::vector<std::string> nx; for (auto &c : cur) for (auto a : ALPHA) nx.push_back(c + a); if (l >= 2) all.insert(all.end(), nx.begin(), nx.end()); cur.swap(nx); }
  out.push_back(std::string(""));
  for (auto &s : all) { out.push_back(s); out.push_back(Json::array({s})); Json o = Json::object(); o[s] = s; out.push_back(o); }
}
static std::vector<Json> all_values() {
  std::vector<Json> v = gen(3, g_level ? 8 : 4);
  gen_strings(v, g_level ? 4 : 3);
  return v;
}
// a small pool of short, awkward messages for concatenation / truncation / header sweeps
static std::vector<Spec> pool() {
  std::vector<Spec> p;
  p.push_back({0, 1, Json::array({std::string("\"")}), 0});                                   // escaped quote
  { Json o = Json::object(); o["\\"] = "}"; p.push_back({1, 2, o, 0}); }                        // key = backslash, closer inside a string
  p.push_back({0, 0, std::string("\\\""), 0});                                                  // notification, string = backslash quote
  { Json o = Json::object(); o["["] = "]"; p.push_back({1, 3, Json::array({std::string("\xC3\xA9"), o}), 0}); }
  p.push_back({2, 4, Json(), -7});                                                             // error reply, message holds a quote and a brace
  p.push_back({0, 5, Json(), 0});                                                              // request without params
  { Json i = Json::object(); i["{"] = "\\"; Json o = Json::object(); o["a"] = Json::array({i}); p.push_back({1, 6, o, 0}); }   // nesting 3
  p.push_back({1, 7, std::string("a\\"), 0});                                                   // string ending in a backslash
  return p;
}
static std::string shape_of(const std::string &text) {   // shape of an encoded JSON text, for signatures
  if (text.find("\\\\\"") != std::string::npos) return "escaped-backslash-before-quote";
  if (text.find("\\\"") != std::string::npos) return "escaped-quote";
  bool in = false; bool br = false;
  for (size_t i = 0; i < text.size(); i++) { char c = text[i]; if (c == '\\') { i++; continue; } if (c == '"') in = !in; else if (in && strchr("{}[]", c)) br = true; }
  if (br) return "bracket-in-string";
  for (unsigned char c : text) if (c >= 0x80) return "non-ascii";
  return "plain";
}
static std::string payload_of(int proto, const std::string &bytes) { return proto == HDR && bytes.size() >= 6 ? bytes.substr(6) : bytes; }

// ------------------------------------------------------------------------------------------------
// family: round trip of every generated value through every proto's own sender
static void fam_roundtrip() {
  std::vector<Json> vals = all_values();
  printf("@INFO roundtrip: %zu generated values (nesting<=3, %d keys, strings up to %d symbols) x {request,result} x 3 protos, part %d/%d\n", vals.size(), g_level ? 8 : 4, g_level ? 4 : 3, g_part, g_nparts);
  const size_t B = 4000;
  for (size_t b0 = 0; b0 < vals.size() && !expired(); b0 += B) {
    run_batch([&] {
      Port port[NPROTO] = {Port(RAW), Port(HDR), Port(PKT)};
      for (size_t i = b0; i < vals.size() && i < b0 + B; i++) {
        if ((int)(i % (size_t)g_nparts) != g_part) continue;
        for (int env = 0; env < 2; env++) for (int k = 0; k < NPROTO; k++) {
          if (!next_case()) continue;
          Spec sp{env, 7, vals[i], 0}; Port &pt = port[k]; pt.sent.clear(); pt.sent_sizes.clear();
          std::string vtxt = vals[i].dump();
          set_case(std::string(PN[k]) + "-roundtrip", fmt("proto=%s %s value=", PN[k], env ? "sendResult(7," : "sendRequest(7,\"m\",") + vtxt);
          std::string why;
          if (!send_spec(pt, sp, why)) { add_viol(std::string(PN[k]) + "-encoder-throws", std::string(S->text) + " what=" + why); end_case(); continue; }
          S->states++; S->executions++;
          Feed f = feed_whole(pt, pt.sent);
          std::string rep = fmt("proto=%s bytes=\"", PN[k]) + esc(pt.sent) + "\" seg_ends=[" + std::to_string(pt.sent.size()) + "]";
          // packet framing: one message = one packet = ONE send (a peer gets every send as a datagram of its own)
          if (k == PKT && pt.sent_sizes.size() != 1) { add_viol("packet-encoder-wrote-one-message-in-several-sends", rep + fmt(" sends=%zu", pt.sent_sizes.size())); end_case(); continue; }
          std::string shape = shape_of(payload_of(k, pt.sent)); Msg want = expect_of(sp);
          if (f.threw) add_viol(fmt("%s-roundtrip-throws-%s", PN[k], shape.c_str()), rep + " what=" + f.what);
          else if (f.overrun) add_viol(fmt("%s-roundtrip-consumed-more-than-presented", PN[k]), rep);
          else if (f.err) add_viol(fmt("%s-roundtrip-own-encoding-rejected-%s", PN[k], shape.c_str()), rep + fmt(" ret=%zd", f.err));
          else if (f.msgs.empty() && f.leftover) add_viol(fmt("%s-roundtrip-never-completes-%s", PN[k], shape.c_str()), rep + fmt(" leftover=%zu", f.leftover));
          else if (f.msgs.size() != 1 || f.leftover) add_viol(fmt("%s-roundtrip-wrong-message-count-%s", PN[k], shape.c_str()), rep + " got=" + show(f.msgs) + fmt(" leftover=%zu", f.leftover));
          else if (!(f.msgs[0] == want)) add_viol(fmt("%s-roundtrip-value-differs-%s", PN[k], shape.c_str()), rep + " got=" + show(f.msgs) + " want=" + show(want));
          else add_outcome(fmt("roundtrip %s %s ok shape=%s", PN[k], env ? "result" : "request", shape.c_str()));
          if (i % 997 == 0 && k == (int)(i % 3)) add_sample(rep + " => " + show(f.msgs));
          end_case();
        }
      }
    });
  }
}

// ------------------------------------------------------------------------------------------------
// family: concatenations of <=3 pool messages x every split into <=3 segments (stream framings)
struct Stream { std::string bytes; std::vector<Msg> want; std::vector<int> ids; };
static bool build_stream(int proto, const std::vector<Spec> &pl, const std::vector<int> &idx, Stream &st) {
  Port tx(proto); std::string why;
  for (int i : idx) { if (!send_spec(tx, pl[i], why)) return false; st.want.push_back(expect_of(pl[i])); }
  st.bytes = tx.sent; st.ids = idx; return true;
}
static std::string seg_rep(int proto, const std::string &bytes, const size_t *ends, int n) {
  std::string s = fmt("proto=%s bytes=\"", PN[proto]) + esc(bytes) + "\" seg_ends=["; for (int i = 0; i < n; i++) s += fmt("%s%zu", i ? "," : "", ends[i]); return s + "]";
}
// compares one segmented feed with the unsegmented reference; returns false after reporting
static bool check_seg(int proto, Port &rx, const Stream &st, const Feed &ref, const size_t *ends, int n, const char *what) {
  for (int i = 0; i < 4; i++) S->cut[i] = i < n ? (long)ends[i] : -1;
  S->executions++;
  Feed f = feed(rx, st.bytes, ends, n);
  const char *P = PN[proto];
  if (f.threw) { add_viol(fmt("%s-%s-throws", P, what), seg_rep(proto, st.bytes, ends, n) + " what=" + f.what); return false; }
  if (f.overrun) { add_viol(fmt("%s-%s-consumed-more-than-presented", P, what), seg_rep(proto, st.bytes, ends, n)); return false; }
  if (f.msgs.size() != ref.msgs.size() || !std::equal(f.msgs.begin(), f.msgs.end(), ref.msgs.begin())) {
    add_viol(fmt("%s-%s-decodes-differently-from-unsegmented", P, what), seg_rep(proto, st.bytes, ends, n) + " got=" + show(f.msgs) + fmt(" ret=%zd leftover=%zu", f.err, f.leftover) + " unsegmented=" + show(ref.msgs)); return false; }
  // (after a negative return the caller stops feeding, so the leftover is only comparable when neither run was rejected)
  if ((f.err != 0) != (ref.err != 0) || (!f.err && !ref.err && f.leftover != ref.leftover)) {
    if (ref.err == 0 && ref.leftover == 0) { add_viol(fmt("%s-%s-valid-stream-%s", P, what, f.err ? "rejected" : "left-unconsumed"), seg_rep(proto, st.bytes, ends, n) + fmt(" ret=%zd leftover=%zu", f.err, f.leftover)); return false; }
    S->status_diffs++;   // hostile stream: only the message sequence is demanded to be equal
  }
  return true;
}
static void all_splits(int proto, Port &rx, const Stream &st, const Feed &ref, int maxseg, const char *what) {
  size_t L = st.bytes.size(); size_t e[4];
  if (maxseg >= 2) for (size_t a = 1; a < L; a++) { e[0] = a; e[1] = L; if (!check_seg(proto, rx, st, ref, e, 2, what)) return; }
  if (maxseg >= 3) for (size_t a = 1; a < L; a++) for (size_t b = a + 1; b < L; b++) { e[0] = a; e[1] = b; e[2] = L; if (!check_seg(proto, rx, st, ref, e, 3, what)) return; }
  if (maxseg >= 4) for (size_t a = 1; a < L; a++) for (size_t b = a + 1; b < L; b++) for (size_t c = b + 1; c < L; c++) { e[0] = a; e[1] = b; e[2] = c; e[3] = L; if (!check_seg(proto, rx, st, ref, e, 4, what)) return; }
}
// fixed chunk sizes 1..L (1 = byte by byte)
static void all_chunkings(int proto, Port &rx, const Stream &st, const Feed &ref, const char *what) {
  size_t L = st.bytes.size();
  for (size_t c = 1; c < L; c++) {
    std::vector<size_t> ends; for (size_t p = c; p < L; p += c) ends.push_back(p); ends.push_back(L);
    S->executions++;
    for (int i = 0; i < 4; i++) S->cut[i] = -1; S->cut[0] = -(long)c - 1;
    Feed f = feed(rx, st.bytes, ends.data(), (int)ends.size());
    std::string rep = fmt("proto=%s bytes=\"", PN[proto]) + esc(st.bytes) + fmt("\" segments=every-%zu-bytes", c);
    if (f.threw) { add_viol(fmt("%s-%s-throws", PN[proto], what), rep + " what=" + f.what); return; }
    if (f.overrun || f.err || f.leftover || f.msgs.size() != ref.msgs.size() || !std::equal(f.msgs.begin(), f.msgs.end(), ref.msgs.begin())) {
      add_viol(fmt("%s-%s-decodes-differently-from-unsegmented", PN[proto], what), rep + " got=" + show(f.msgs) + fmt(" ret=%zd leftover=%zu", f.err, f.leftover) + " unsegmented=" + show(ref.msgs)); return; }
  }
}
// hostile variant: byte-by-byte and every other fixed chunk size, only the message sequence is compared
static void all_chunkings_hostile(int proto, Port &rx, const Stream &st, const Feed &ref) {
  size_t L = st.bytes.size();
  for (size_t c = 1; c < L; c++) {
    std::vector<size_t> ends; for (size_t p = c; p < L; p += c) ends.push_back(p); ends.push_back(L);
    S->executions++; for (int i = 0; i < 4; i++) S->cut[i] = -1; S->cut[0] = -(long)c - 1;
    Feed f = feed(rx, st.bytes, ends.data(), (int)ends.size());
    std::string rep = fmt("proto=%s bytes=\"", PN[proto]) + esc(st.bytes) + fmt("\" segments=every-%zu-bytes", c);
    if (f.threw) { add_viol(fmt("%s-mixed-stream-segmented-throws", PN[proto]), rep + " what=" + f.what); return; }
    if (f.overrun || f.msgs.size() != ref.msgs.size() || !std::equal(f.msgs.begin(), f.msgs.end(), ref.msgs.begin())) {
      add_viol(fmt("%s-mixed-stream-segmented-decodes-differently-from-unsegmented", PN[proto]), rep + " got=" + show(f.msgs) + fmt(" ret=%zd leftover=%zu", f.err, f.leftover) + " unsegmented=" + show(ref.msgs)); return; }
    if ((f.err != 0) != (ref.err != 0) || (!f.err && !ref.err && f.leftover != ref.leftover)) S->status_diffs++;
  }
}
static void fam_segment() {
  std::vector<Spec> pl = pool();
  int p3 = g_level ? (int)pl.size() : 4;           // pool prefix used for triples
  std::vector<std::vector<int>> combos;
  for (int a = 0; a < (int)pl.size(); a++) combos.push_back({a});
  for (int a = 0; a < (int)pl.size(); a++) for (int b = 0; b < (int)pl.size(); b++) combos.push_back({a, b});
  for (int a = 0; a < p3; a++) for (int b = 0; b < p3; b++) for (int c = 0; c < p3; c++) combos.push_back({a, b, c});
  printf("@INFO segment: pool of %zu messages, %zu concatenations (<=2 of all, triples of the first %d) x 2 stream protos, every split into <=%d segments%s + every fixed chunk size for <=2 messages, part %d/%d\n",
         pl.size(), combos.size(), p3, g_maxseg ? g_maxseg : 3, (g_level && !g_maxseg) ? " (<=4 for single messages)" : "", g_part, g_nparts);
  long n = 0;
  for (int proto : {RAW, HDR}) for (auto &idx : combos) {
    if ((int)(n++ % g_nparts) != g_part) continue;
    if (expired()) return;
    run_batch([&] {
      if (!next_case()) return;
      Stream st; std::string ids; for (int i : idx) ids += fmt("%s%d", ids.empty() ? "" : "+", i);
      if (!build_stream(proto, pl, idx, st)) { add_viol(fmt("%s-encoder-throws", PN[proto]), "pool " + ids); return; }
      set_case(fmt("%s-segmented", PN[proto]), fmt("proto=%s bytes=\"", PN[proto]) + esc(st.bytes) + "\"");
      Port rx(proto); S->states++; S->executions++;
      Feed ref = feed_whole(rx, st.bytes);
      std::string rep = fmt("proto=%s bytes=\"", PN[proto]) + esc(st.bytes) + "\" seg_ends=[" + std::to_string(st.bytes.size()) + "]";
      if (ref.threw) add_viol(fmt("%s-concatenation-throws", PN[proto]), rep + " what=" + ref.what);
      else if (ref.err || ref.leftover || ref.overrun || ref.msgs.size() != st.want.size() || !std::equal(ref.msgs.begin(), ref.msgs.end(), st.want.begin()))
        add_viol(fmt("%s-concatenation-decodes-to-a-different-sequence", PN[proto]), rep + " got=" + show(ref.msgs) + fmt(" ret=%zd leftover=%zu", ref.err, ref.leftover) + " want=" + show(st.want));
      else {
        all_splits(proto, rx, st, ref, g_maxseg ? g_maxseg : (idx.size() == 1 && g_level) ? 4 : 3, "segmented");
        if (idx.size() <= 2) all_chunkings(proto, rx, st, ref, "segmented");
        add_outcome(fmt("segment %s %zu-message stream: all segmentations equal", PN[proto], idx.size()));
        if (n % 37 == 1) add_sample(rep + " => " + show(ref.msgs) + " (+ all its segmentations)");
      }
      end_case();
    });
  }
}

// ------------------------------------------------------------------------------------------------
// family: packet framing - one call per packet, any sequence of <=3 packets on one proto instance
static void fam_packet() {
  std::vector<Spec> pl = pool(); int P = (int)pl.size();
  run_batch([&] {
    std::vector<std::string> pk; std::vector<Msg> want;
    for (auto &s : pl) { Port tx(PKT); std::string why; send_spec(tx, s, why); pk.push_back(tx.sent); want.push_back(expect_of(s));
      if (tx.sent_sizes.size() != 1) add_viol("packet-encoder-wrote-one-message-in-several-sends", "proto=packet bytes=\"" + esc(tx.sent) + fmt("\" sends=%zu", tx.sent_sizes.size())); }
    long n = 0;
    for (int len = 1; len <= 3; len++) {
      int tot = 1; for (int i = 0; i < len; i++) tot *= P;
      for (int code = 0; code < tot; code++) {
        if ((int)(n++ % g_nparts) != g_part) continue;
        if (!next_case()) continue;
        int idx[3], c = code; for (int i = 0; i < len; i++) { idx[i] = c % P; c /= P; }
        std::string rep = "proto=packet packets=["; for (int i = 0; i < len; i++) rep += fmt("%s\"", i ? "," : "") + esc(pk[idx[i]]) + "\""; rep += "]";
        set_case("packet-sequence", rep); S->states++; S->executions++;
        Port rx(PKT); bool ok = true;
        for (int i = 0; i < len && ok; i++) {
          rx.got.clear(); CallRes r = call(*rx.p, pk[idx[i]].data(), pk[idx[i]].size());
          if (r.threw) { add_viol("packet-sequence-throws", rep + fmt(" at packet %d what=", i) + r.what); ok = false; }
          else if (r.r != (ssize_t)pk[idx[i]].size() || rx.got.size() != 1 || !(rx.got[0] == want[idx[i]])) {
            add_viol("packet-sequence-packet-decoded-differently-than-alone", rep + fmt(" at packet %d ret=%zd got=", i, r.r) + show(rx.got) + " want=" + show(want[idx[i]])); ok = false; }
        }
        if (ok) add_outcome(fmt("packet sequence of %d: each packet decoded as alone", len));
        if (code == 77) add_sample(rep);
        end_case();
      }
    }
  });
}

// ------------------------------------------------------------------------------------------------
// hostile input
static bool g_big_endian = true;
static std::string hdr_bytes(uint16_t magic, uint32_t len) {
  std::string h(6, 0);
  if (g_big_endian) { h[0] = (char)(magic >> 8); h[1] = (char)magic; h[2] = (char)(len >> 24); h[3] = (char)(len >> 16); h[4] = (char)(len >> 8); h[5] = (char)len; }
  else { h[1] = (char)(magic >> 8); h[0] = (char)magic; h[5] = (char)(len >> 24); h[4] = (char)(len >> 16); h[3] = (char)(len >> 8); h[2] = (char)len; }
  return h;
}
static void detect_header_layout() {   // learn the byte order from the real encoder instead of assuming it
  Port tx(HDR); std::string why; send_spec(tx, Spec{0, 1, Json::array({1, 2, 3}), 0}, why);
  uint32_t n = (uint32_t)tx.sent.size() - 6;
  if (tx.sent.substr(0, 6) == hdr_bytes(kMagic, n)) return;
  g_big_endian = false;
  if (tx.sent.substr(0, 6) != hdr_bytes(kMagic, n)) { printf("@VIOL sig=harness-cannot-recognise-header-layout :: bytes=\"%s\"\n", esc(tx.sent.substr(0, 6)).c_str()); exit(0); }
}

// one hostile call with the generic oracle: no exception, return value <= presented size
static bool hostile_call(Port &pt, const std::string &cls, const std::string &buf, CallRes &c) {
  pt.got.clear(); S->executions++;
  c = call(*pt.p, buf.data(), buf.size());
  std::string rep = fmt("proto=%s bytes=\"", PN[pt.kind]) + esc(buf) + "\" seg_ends=[" + std::to_string(buf.size()) + "]";
  if (c.threw) { add_viol(cls + "-throws", rep + " what=" + c.what); return false; }
  if (c.r > 0 && (size_t)c.r > buf.size()) { add_viol(cls + "-consumed-more-than-presented", rep + fmt(" ret=%zd", c.r)); return false; }
  return true;
}

static void fam_len() {
  std::vector<Spec> pl = pool();
  printf("@INFO len: header framing, %zu base frames x length-field values {0,1,n-1,n,n+1,n+6,2^31-1,2^31,2^32-7,2^32-6..2^32-1} x {alone, followed by a second frame} x every truncation\n", pl.size());
  long n = 0;
  for (size_t m = 0; m < pl.size(); m++) {
    if ((int)(n++ % g_nparts) != g_part) continue;
    if (expired()) return;
    run_batch([&] {
      Port tx(HDR); std::string why; send_spec(tx, pl[m], why); std::string content = tx.sent.substr(6); uint32_t N = (uint32_t)content.size();
      Port t2(HDR); send_spec(t2, pl[(m + 1) % pl.size()], why); std::string follow = t2.sent;
      std::vector<uint32_t> vals = {0u, 1u, N - 1, N, N + 1, N + 6, 0x7fffffffu, 0x80000000u, 0xfffffff9u};
      for (uint32_t v = 0xfffffffau; v != 0; v++) vals.push_back(v);
      Port rx(HDR);
      for (uint32_t v : vals) for (int fol = 0; fol < 2; fol++) {
        std::string full = hdr_bytes(kMagic, v) + content + (fol ? follow : "");
        for (size_t t = 0; t <= full.size(); t++) {
          if (!next_case()) continue;
          std::string buf = full.substr(0, t); uint64_t frame = (uint64_t)v + 6;
          const char *rel = frame > 0xffffffffull ? "length-field-overflow" : frame > t ? "length-field-beyond-data" : v == N ? "length-field-exact" : "length-field-within-data";
          std::string cls = fmt("header-stream-%s", rel);
          std::string rep = "proto=header-stream bytes=\"" + esc(buf) + "\" seg_ends=[" + std::to_string(t) + fmt("] length_field=%u content_available=%zu", v, t > 6 ? t - 6 : 0);
          set_case(cls, rep); S->states++;
          CallRes c;
          if (hostile_call(rx, cls, buf, c)) {
            if (t >= 6 && frame > t && c.r != 0) add_viol(cls + "-incomplete-frame-not-reported-as-incomplete", rep + fmt(" ret=%zd", c.r));
            else if (c.r > 0 && (uint64_t)c.r != frame) add_viol(cls + "-consumed-count-is-not-the-frame-size", rep + fmt(" ret=%zd", c.r));
            else if (c.r <= 0 && !rx.got.empty()) add_viol(cls + "-callback-although-not-consumed", rep + fmt(" ret=%zd", c.r));
            else if (c.r > 0 && v != N && !rx.got.empty()) add_viol(cls + "-callback-for-a-miscut-frame", rep + " got=" + show(rx.got));
            else add_outcome(fmt("len %s ret%s", rel, c.r > 0 ? ">0" : c.r == 0 ? "=0" : fmt("=%zd", c.r).c_str()));
          }
          if (t == full.size() && fol == 0 && (v == N + 1 || v == 0x80000000u) && m == 0) add_sample(rep + fmt(" => ret=%zd", c.r));
          end_case();
        }
      }
    });
  }
}

static void fam_magic() {
  printf("@INFO magic: header framing, every 16-bit magic value in front of a valid frame\n");
  std::vector<Spec> pl = pool();
  for (int chunk = 0; chunk < 16; chunk++) {
    if (chunk % g_nparts != g_part) continue;
    run_batch([&] {
      Port tx(HDR); std::string why; send_spec(tx, pl[0], why); Port rx(HDR);
      for (uint32_t mg = chunk * 4096u; mg < (chunk + 1) * 4096u; mg++) {
        if (!next_case()) continue;
        std::string buf = hdr_bytes((uint16_t)mg, (uint32_t)tx.sent.size() - 6) + tx.sent.substr(6);
        std::string cls = mg == kMagic ? "header-stream-right-magic" : "header-stream-wrong-magic";
        set_case(cls, "proto=header-stream bytes=\"" + esc(buf) + "\""); S->states++;
        CallRes c;
        if (hostile_call(rx, cls, buf, c)) {
          if (mg != kMagic && (c.r > 0 || !rx.got.empty())) add_viol("header-stream-wrong-magic-accepted", "proto=header-stream bytes=\"" + esc(buf) + fmt("\" ret=%zd", c.r));
          else if (mg == kMagic && (c.r != (ssize_t)buf.size() || rx.got.size() != 1)) add_viol("header-stream-right-magic-not-decoded", "proto=header-stream bytes=\"" + esc(buf) + fmt("\" ret=%zd", c.r));
          else add_outcome(fmt("magic %s ret=%zd", mg == kMagic ? "right" : "wrong", c.r));
        }
        end_case();
      }
    });
  }
}

static void fam_trunc() {
  std::vector<Json> vals = gen(2, 8); gen_strings(vals, 2);
  std::vector<Spec> specs = pool();
  for (size_t i = 0; i < vals.size(); i++) specs.push_back(Spec{(int)(i & 1), 9, vals[i], 0});
  printf("@INFO trunc: %zu valid messages x 3 protos x every proper prefix (one call), part %d/%d\n", specs.size(), g_part, g_nparts);
  const size_t B = 600;
  for (size_t b0 = 0; b0 < specs.size() && !expired(); b0 += B) {
    run_batch([&] {
      Port rx[NPROTO] = {Port(RAW), Port(HDR), Port(PKT)};
      for (size_t i = b0; i < specs.size() && i < b0 + B; i++) {
        if ((int)(i % (size_t)g_nparts) != g_part) continue;
        for (int k = 0; k < NPROTO; k++) {
          Port tx(k); std::string why; if (!send_spec(tx, specs[i], why)) continue;
          for (size_t t = 0; t < tx.sent.size(); t++) {
            if (!next_case()) continue;
            std::string buf = tx.sent.substr(0, t); std::string cls = fmt("%s-truncated-message", PN[k]);
            std::string rep = fmt("proto=%s bytes=\"", PN[k]) + esc(buf) + fmt("\" seg_ends=[%zu] (prefix of a %zu-byte message)", t, tx.sent.size());
            set_case(cls, rep); S->states++;
            CallRes c;
            if (hostile_call(rx[k], cls, buf, c)) {
              if (!rx[k].got.empty() || c.r > 0) add_viol(cls + "-accepted", rep + fmt(" ret=%zd got=", c.r) + show(rx[k].got));
              else if (k != PKT && c.r != 0) add_viol(fmt("%s-valid-prefix-rejected", PN[k]), rep + fmt(" ret=%zd", c.r));
              else add_outcome(fmt("trunc %s ret=%zd", PN[k], c.r));
            }
            end_case();
          }
        }
      }
    });
  }
}

static const char HOST[] = "{}[]\"\\,:1a ";
static void enum_strings(int maxlen, const std::function<void(const std::string &)> &f) {
  std::vector<std::string> cur(1, ""); f("");
  for (int l = 1; l <= maxlen; l++) { std::vector<std::string> nx; nx.reserve(cur.size() * 11); for (auto &c : cur) for (const char *h = HOST; *h; h++) { nx.push_back(c + *h); f(nx.back()); } cur.swap(nx); }
}
static bool ref_accept(const std::string &s) { try { return Json::accept(s); } catch (...) { return false; } }

// every byte string of length <= 4 (5 thorough) over the hostile alphabet, as: a raw-stream buffer, a packet, a header-stream
// buffer as is, the content of a frame with a correct header, and (length 4) the length field itself.
static void fam_bytes() {
  int maxlen = g_level ? 5 : 4;
  std::vector<std::string> all; enum_strings(maxlen, [&](const std::string &s) { all.push_back(s); });
  printf("@INFO bytes: %zu byte strings of length<=%d over {%s} x 5 presentations, part %d/%d\n", all.size(), maxlen, HOST, g_part, g_nparts);
  const size_t B = 20000;
  for (size_t b0 = 0; b0 < all.size() && !expired(); b0 += B) {
    run_batch([&] {
      Port rx[NPROTO] = {Port(RAW), Port(HDR), Port(PKT)};
      for (size_t i = b0; i < all.size() && i < b0 + B; i++) {
        if ((int)(i % (size_t)g_nparts) != g_part) continue;
        const std::string &s = all[i]; bool acc = ref_accept(s);
        for (int mode = 0; mode < 5; mode++) {
          if (mode == 4 && s.size() != 4) continue;
          if (!next_case()) continue;
          int k = mode == 0 ? RAW : mode == 1 ? PKT : HDR;
          std::string buf = mode <= 2 ? s : mode == 3 ? hdr_bytes(kMagic, (uint32_t)s.size()) + s : hdr_bytes(kMagic, 0).substr(0, 2) + s + "{}[]";
          static const char *MN[] = {"raw-stream-hostile-bytes", "packet-hostile-bytes", "header-stream-hostile-bytes", "header-stream-hostile-content", "header-stream-hostile-length-field"};
          std::string rep = fmt("proto=%s bytes=\"", PN[k]) + esc(buf) + fmt("\" seg_ends=[%zu]", buf.size());
          set_case(MN[mode], rep); S->states++;
          CallRes c;
          if (hostile_call(rx[k], MN[mode], buf, c)) {
            bool bad = false;
            if (mode == 0 && c.r > 0 && !ref_accept(s.substr(0, (size_t)c.r))) { bad = true; add_viol("raw-stream-hostile-bytes-consumed-text-that-is-not-json", rep + fmt(" ret=%zd", c.r)); }
            if ((mode == 1 || mode == 3) && s.size() >= 2 && ((c.r > 0) != acc)) { bad = true; add_viol(fmt("%s-%s", MN[mode], acc ? "valid-json-not-consumed" : "invalid-json-consumed"), rep + fmt(" ret=%zd", c.r)); }
            if (mode == 1 && c.r > 0 && (size_t)c.r != s.size()) { bad = true; add_viol("packet-hostile-bytes-partial-consume", rep + fmt(" ret=%zd", c.r)); }
            if (!rx[k].got.empty()) { bad = true; add_viol(std::string(MN[mode]) + "-callback-for-non-jsonrpc-text", rep + " got=" + show(rx[k].got)); }
            if (!bad) add_outcome(fmt("%s ret%s", MN[mode], c.r > 0 ? ">0" : c.r == 0 ? "=0" : fmt("=%zd", c.r).c_str()));
          }
          if (i % 3331 == 7 && mode == 0) add_sample(rep + fmt(" => ret=%zd", c.r));
          end_case();
        }
      }
    });
  }
}

// valid message + hostile bytes + valid message, unsegmented vs segmented (stream framings): same message sequence
static void fam_mixed() {
  // strings up to l3 symbols get all <=3-segment splits; up to l2 all 2-segment splits
  int l3 = g_maxseg == 2 ? -1 : g_level ? 3 : 2, l2 = g_maxseg == 2 ? (g_level ? 3 : 2) : 3;
  std::vector<std::string> all; enum_strings(std::max(l2, l3), [&](const std::string &s) { all.push_back(s); });
  std::vector<Spec> pl = pool();
  printf("@INFO mixed: valid frame + %zu hostile strings (len<=%d) + valid frame, 2 stream protos; every split into <=3 segments for len<=%d, <=2 segments otherwise, every fixed chunk size for len<=1, part %d/%d\n", all.size(), std::max(l2, l3), l3, g_part, g_nparts);
  const size_t B = 40;
  long n = 0;
  for (int proto : {RAW, HDR}) for (size_t b0 = 0; b0 < all.size(); b0 += B) {
    if ((int)(n++ % g_nparts) != g_part) continue;
    if (expired()) return;
    run_batch([&] {
      Port rx(proto);
      for (size_t i = b0; i < all.size() && i < b0 + B; i++) {
        if (!next_case()) continue;
        Stream st; Port tx(proto); std::string why;
        send_spec(tx, pl[0], why); tx.sent += all[i]; send_spec(tx, pl[1], why); st.bytes = tx.sent;
        set_case(fmt("%s-mixed-stream", PN[proto]), fmt("proto=%s bytes=\"", PN[proto]) + esc(st.bytes) + "\""); S->states++; S->executions++;
        Feed ref = feed_whole(rx, st.bytes);
        if (ref.threw) add_viol(fmt("%s-mixed-stream-throws", PN[proto]), std::string(S->text) + " what=" + ref.what);
        else if (ref.overrun) add_viol(fmt("%s-mixed-stream-consumed-more-than-presented", PN[proto]), S->text);
        else {
          all_splits(proto, rx, st, ref, (int)all[i].size() <= l3 ? 3 : 2, "mixed-stream-segmented");
          if (all[i].size() <= 1) all_chunkings_hostile(proto, rx, st, ref);
          add_outcome(fmt("mixed %s: %zu message(s) then %s", PN[proto], ref.msgs.size(), ref.err ? "error" : ref.leftover ? "stall" : "clean"));
        }
        end_case();
      }
    });
  }
}

// (nlohmann compares an unsigned with a signed number by casting, so 2^64-1 "==" -1: decide the range on the stored type)
static bool int_in_range(const Json &v) { if (v.is_number_unsigned()) return v.get<uint64_t>() <= (uint64_t)INT_MAX; int64_t x = v.get<int64_t>(); return x >= INT_MIN && x <= INT_MAX; }
// JSON-RPC shaped envelopes with hostile field types, through every proto
static void fam_envelope() {
  const Json ABSENT = Json::binary({});     // marker
  auto big = [](const char *t) { return Json::parse(t); };
  std::vector<Json> ver = {ABSENT, "2.0", "1.0", 2, nullptr};
  std::vector<Json> method = {ABSENT, "m", 1, nullptr, Json::array()};
  std::vector<Json> id = {ABSENT, 1, "1", 1.5, big("2147483647"), big("2147483648"), big("9223372036854775808"), big("18446744073709551615"), big("-9223372036854775808"), -1, nullptr, Json::object(), true, big("1e300"),
                          big("4294967297"), big("-2147483649"), big("9223372036854775807"), big("-4294967295")};   // 2^32+1 and -(2^32-1) truncate to the live id 1
  std::vector<Json> params = {ABSENT, 1, Json::array(), Json::object()};
  std::vector<Json> result = {ABSENT, nullptr, 1};
  Json c1 = Json::object(); c1["code"] = 1; Json c2 = Json::object(); c2["code"] = "x"; Json c3 = Json::object(); c3["code"] = big("4294967296"); Json c4 = Json::object(); c4["code"] = 1.5;
  std::vector<Json> error = {ABSENT, 1, nullptr, Json::object(), c1, c2, c3, c4, Json::array(), "s"};
  size_t total = ver.size() * method.size() * id.size() * params.size() * result.size() * error.size();
  printf("@INFO envelope: %zu envelopes (field present/absent x hostile types) bare and inside a batch array x 3 protos, part %d/%d\n", total, g_part, g_nparts);
  const size_t B = 5000;
  for (size_t b0 = 0; b0 < total && !expired(); b0 += B) {
    run_batch([&] {
      Port rx[NPROTO] = {Port(RAW), Port(HDR), Port(PKT)};
      // the same protos with one or both receive callbacks absent (Rpc::cleanup() leaves its borrowed proto with neither, and the transport may go on delivering)
      Port refp[NPROTO] = {Port(RAW), Port(HDR), Port(PKT)};       // reference run of the same message with a non-integer id
      Port half[NPROTO][3] = {{Port(RAW, 0), Port(RAW, 1), Port(RAW, 2)}, {Port(HDR, 0), Port(HDR, 1), Port(HDR, 2)}, {Port(PKT, 0), Port(PKT, 1), Port(PKT, 2)}};
      for (size_t i = b0; i < total && i < b0 + B; i++) {
        if ((int)(i % (size_t)g_nparts) != g_part) continue;
        size_t c = i; Json js = Json::object();
        bool partial_wiring = (i / (ver.size() * method.size())) % id.size() < 3;     // id absent, 1 or "1": every version/method/params/result/error combination
        auto pick = [&](const std::vector<Json> &v, const char *key) { const Json &x = v[c % v.size()]; c /= v.size(); if (!x.is_binary()) js[key] = x; };
        pick(ver, "jsonrpc"); pick(method, "method"); pick(id, "id"); pick(params, "params"); pick(result, "result"); pick(error, "error");
        for (int batch = 0; batch < 2; batch++) for (int k = 0; k < NPROTO; k++) {
          if (!next_case()) continue;
          Json top = batch ? Json::array({js, 1, Json::array({js})}) : js;
          Port &pt = rx[k]; pt.sent.clear();
          pt.send_json(top);                                    // the proto's own encoder
          std::string cls = fmt("%s-hostile-envelope", PN[k]); std::string rep = fmt("proto=%s bytes=\"", PN[k]) + esc(pt.sent) + fmt("\" seg_ends=[%zu]", pt.sent.size());
          set_case(cls, rep); S->states++;
          CallRes cr;
          if (hostile_call(pt, cls, pt.sent, cr)) {
            size_t maxcb = batch ? 2 : 1; bool bad = false;
            if (cr.r != (ssize_t)pt.sent.size()) { bad = true; add_viol(cls + "-valid-json-not-consumed", rep + fmt(" ret=%zd", cr.r)); }
            else if (pt.got.size() > maxcb) { bad = true; add_viol(cls + "-more-than-one-callback-per-message", rep + " got=" + show(pt.got)); }
            else for (auto &m : pt.got) {
              if (m.kind == 0 && !(js.contains("method") && js["method"].is_string() && js["method"] == m.method && m.v == (js.contains("params") ? js["params"] : Json()))) { bad = true; add_viol(cls + "-request-callback-does-not-match-message", rep + " got=" + show(pt.got)); break; }
              // an id that is an integer within int range must reach the callback unchanged (other id shapes: not judged, the statement only asks for no exception)
              if (js.contains("id") && js["id"].is_number_integer() && int_in_range(js["id"]) && js["id"].get<int64_t>() != (int64_t)m.id) { bad = true; add_viol(cls + "-callback-id-differs-from-message-id", rep + " got=" + show(pt.got)); break; }
              // an integer id OUTSIDE the int range names no request: it must never reach a callback as some in-range id other than 0 (0 = "no usable id")
              if (js.contains("id") && js["id"].is_number_integer() && !int_in_range(js["id"]) && m.id != 0) { bad = true; add_viol(cls + "-out-of-range-id-delivered-as-a-truncated-id", rep + " got=" + show(pt.got)); break; }
              if (m.kind == 1 && js.contains("method")) { bad = true; add_viol(cls + "-response-callback-for-a-request-message", rep + " got=" + show(pt.got)); break; }
              if (m.kind == 1 && js.contains("result") && !(m.errcode == 0 && m.v == js["result"])) { bad = true; add_viol(cls + "-result-callback-does-not-match-message", rep + " got=" + show(pt.got)); break; }
              if (m.kind == 1 && !js.contains("result") && !(js.contains("error") && m.v.is_null())) { bad = true; add_viol(cls + "-error-callback-does-not-match-message", rep + " got=" + show(pt.got)); break; }
              // (an error code outside int range is narrowed by util::json::Get(int): outside this property, only noted)
              if (m.kind == 1 && !js.contains("result") && js["error"].is_object() && js["error"].contains("code") && js["error"]["code"] != m.errcode) add_outcome("envelope: error code outside int range reaches the callback narrowed");
              if (!(js.contains("jsonrpc") && js["jsonrpc"] == "2.0")) { bad = true; add_viol(cls + "-callback-for-wrong-version", rep + " got=" + show(pt.got)); break; }
            }
            // ... and it is treated exactly like a non-integer id of the same message: same callbacks (none for a result), same verdict
            if (!bad && js.contains("id") && js["id"].is_number_integer() && !int_in_range(js["id"])) {
              Json js2 = js; js2["id"] = 1.5; Json top2 = batch ? Json::array({js2, 1, Json::array({js2})}) : js2;
              Port &rp = refp[k]; rp.sent.clear(); rp.send_json(top2); CallRes rr;
              std::vector<Msg> mine = pt.got;
              if (hostile_call(rp, cls, rp.sent, rr)) {
                if ((rr.r == (ssize_t)rp.sent.size()) != (cr.r == (ssize_t)pt.sent.size()) || rp.got.size() != mine.size() || !std::equal(mine.begin(), mine.end(), rp.got.begin())) { bad = true;
                  add_viol(cls + "-out-of-range-id-not-treated-like-a-non-integer-id", rep + " got=" + show(mine) + " with-id-1.5=" + show(rp.got)); }
                else if (js.contains("result") && !js.contains("method") && !mine.empty()) { bad = true; add_viol(cls + "-response-callback-for-a-result-with-an-out-of-range-id", rep + " got=" + show(mine)); }
                else add_outcome(fmt("envelope %s out-of-range integer id: treated like a non-integer id (callbacks=%zu)", PN[k], mine.size()));
              }
            }
            if (!bad) add_outcome(fmt("envelope %s callbacks=%zu", PN[k], pt.got.size()));
            // partially wired protos: no exception, the same return value, and exactly the callbacks of the wired kind
            if (!bad && partial_wiring) for (int wv = 0; wv < 3; wv++) {
              Port &hp = half[k][wv]; CallRes hr; std::string hcls = fmt("%s-envelope-%s", PN[k], wv == 0 ? "no-receive-callbacks" : wv == 1 ? "request-callback-only" : "response-callback-only");
              snprintf(S->cls, sizeof S->cls, "%s", hcls.c_str());
              if (!hostile_call(hp, hcls, pt.sent, hr)) break;
              std::vector<Msg> want; for (auto &m : pt.got) if ((m.kind == 0 && (wv & 1)) || (m.kind == 1 && (wv & 2))) want.push_back(m);
              if (hr.r != cr.r) { add_viol(hcls + "-return-value-differs-from-fully-wired", rep + fmt(" ret=%zd fully-wired ret=%zd", hr.r, cr.r)); break; }
              if (hp.got.size() != want.size() || !std::equal(want.begin(), want.end(), hp.got.begin())) { add_viol(hcls + "-callbacks-differ-from-fully-wired", rep + " got=" + show(hp.got) + " want=" + show(want)); break; }
              add_outcome(fmt("envelope %s %s callbacks=%zu", PN[k], wv == 0 ? "unwired" : wv == 1 ? "request-callback-only" : "response-callback-only", hp.got.size()));
            }
          }
          if (i % 4001 == 11 && k == 0 && !batch) add_sample(rep + " => " + show(pt.got));
          end_case();
        }
      }
    });
  }
}

// valid but hostile: very deep array nesting (a "batch of batches")
static void fam_deep() {
  std::vector<long> depths = {100, 1000, 10000, 30000, 50000, 100000, 1000000};
  printf("@INFO deep: arrays nested %ld..%ld deep through 3 protos (one forked child each), well-formed and with a mismatched innermost closer\n", depths.front(), depths.back());
  long n = 0;
  for (long d : depths) for (int k = 0; k < NPROTO; k++) for (int broken = 0; broken < 2; broken++) {
    if ((int)(n++ % g_nparts) != g_part) continue;
    run_batch([&] {
      if (!next_case()) return;
      // broken: the innermost closer is '}' - every bracket still balances for a counter that ignores the kind, the text is not JSON
      std::string text = std::string((size_t)d, '[') + (broken ? "}" : "]") + std::string((size_t)d - 1, ']');
      std::string buf = k == HDR ? hdr_bytes(kMagic, (uint32_t)text.size()) + text : text;
      std::string cls = fmt("%s-deeply-nested-array%s", PN[k], broken ? "-mismatched-closer" : ""); std::string rep = fmt("proto=%s bytes=%s'['x%ld + '%s' + ']'x%ld", PN[k], k == HDR ? "header+" : "", d, broken ? "}" : "]", d - 1);
      set_case(cls, rep); S->states++;
      Port rx(k); CallRes c;
      rx.got.clear(); S->executions++;
      c = call(*rx.p, buf.data(), buf.size());
      bool acc = ref_accept(text);
      if (acc == (bool)broken) add_viol("harness-deep-reference-parser-disagrees", rep);
      else if (c.threw) add_viol(cls + "-throws", rep + " what=" + c.what);
      else if (!broken && c.r != (ssize_t)buf.size()) add_viol(cls + "-valid-json-not-consumed", rep + fmt(" ret=%zd size=%zu", c.r, buf.size()));
      else if (broken && c.r > 0) add_viol(cls + "-invalid-json-consumed", rep + fmt(" ret=%zd", c.r));
      else if (!rx.got.empty()) add_viol(cls + "-callback-for-non-jsonrpc-text", rep + " got=" + show(rx.got));
      else add_outcome(fmt("deep %s depth=%ld %s ret%s", PN[k], d, broken ? "mismatched-closer" : "well-formed", c.r > 0 ? "=size" : c.r == 0 ? "=0" : "<0"));
      end_case();
    });
  }
}

// ------------------------------------------------------------------------------------------------
// family: boundary sizes and boundary ids. Every other family keeps its frames under 256 bytes and its ids under 8, so on an
// accepted frame only the lowest byte of the header's length field is ever non-zero and ids never leave one byte.
//  (a) ids {1,127,128,255,256,32767,32768,65535,65536,2^31-1,-1,-128,-129,-32768,-32769,-2^31} x {request, result, error} x 3 protos through the proto's own sender;
//  (b) string values whose ENCODED frame content is exactly {255,256,257,65535,65536,65537,70000 (+2^24 at level 1)} bytes, ending in
//      'a' / an escaped quote / an escaped backslash, as request params and as response result, x 3 protos: round trip equal;
//      followed by a second (small) frame: two messages, everything consumed;
//      stream framings: 2-segment splits at every boundary-ish cut and fixed chunk sizes {255,256,4096} (+1 for frames <= 400 bytes; {65536,2^20} for the 2^24 frame).
static std::string big_desc(int proto, const char *what, size_t content, const char *tail) { return fmt("proto=%s %s frame_content_bytes=%zu string_tail=%s", PN[proto], what, content, tail); }
static void fam_big() {
  std::vector<int> ids = {1, 127, 128, 255, 256, 32767, 32768, 65535, 65536, INT_MAX, -1, -128, -129, -32768, -32769, INT_MIN};
  std::vector<size_t> targets = {255, 256, 257, 65535, 65536, 65537, 70000}; if (g_level) targets.push_back((size_t)1 << 24);
  static const char *TAILN[3] = {"plain", "escaped-quote", "escaped-backslash"}; static const char *TAIL[3] = {"a", "\"", "\\"};
  printf("@INFO big: %zu ids x {request,result,error} x 3 protos; frame content sizes {", ids.size()); for (size_t t : targets) printf("%zu,", t);
  printf("} x 3 string tails x {request,result} x 3 protos: round trip, + second frame, 2-segment splits at boundary cuts, chunk sizes {1 (<=400 bytes),255,256,4096} ({65536,2^20} for the 2^24 frame), part %d/%d\n", g_part, g_nparts);
  long n = 0;
  // (a) ids
  if ((int)(n++ % g_nparts) == g_part) run_batch([&] {
    for (int id : ids) for (int kind = 0; kind < 3; kind++) for (int k = 0; k < NPROTO; k++) {
      if (!next_case()) continue;
      Spec sp{kind, id, kind == 2 ? Json() : Json::array({id}), id}; Port pt(k);     // (the error code takes the same boundary value)
      std::string rep = fmt("proto=%s %s id=%d", PN[k], kind == 0 ? "sendRequest" : kind == 1 ? "sendResult" : "sendError(code=id)", id);
      set_case(fmt("%s-boundary-id", PN[k]), rep); S->states++; S->executions++;
      std::string why; if (!send_spec(pt, sp, why)) { add_viol(fmt("%s-encoder-throws", PN[k]), rep + " what=" + why); end_case(); continue; }
      { Port ns(k, 3, false); if (!send_spec(ns, sp, why)) { add_viol(fmt("%s-send-without-send-callback-throws", PN[k]), rep + " what=" + why); end_case(); continue; } }
      if (k == PKT && pt.sent_sizes.size() != 1) { add_viol("packet-encoder-wrote-one-message-in-several-sends", rep + fmt(" sends=%zu", pt.sent_sizes.size())); end_case(); continue; }
      Feed f = feed_whole(pt, pt.sent); Msg want = expect_of(sp); rep += " bytes=\"" + esc(pt.sent) + "\"";
      if (f.threw) add_viol(fmt("%s-boundary-id-throws", PN[k]), rep + " what=" + f.what);
      else if (f.err || f.overrun || f.leftover || f.msgs.size() != 1) add_viol(fmt("%s-boundary-id-own-encoding-not-decoded", PN[k]), rep + fmt(" ret=%zd leftover=%zu got=", f.err, f.leftover) + show(f.msgs));
      else if (!(f.msgs[0] == want)) add_viol(fmt("%s-boundary-id-decoded-differently", PN[k]), rep + " got=" + show(f.msgs) + " want=" + show(want));
      else add_outcome(fmt("big id %s %s ok", PN[k], kind == 0 ? "request" : kind == 1 ? "result" : "error"));
      end_case();
    }
  });
  // (b) sizes
  for (size_t target : targets) for (int tail = 0; tail < 3; tail++) for (int env = 0; env < 2; env++) for (int k = 0; k < NPROTO; k++) {
    if (target > 100000 && tail != 0) continue;                       // the 2^24 frame: plain tail only
    if ((int)(n++ % g_nparts) != g_part) continue;
    if (expired()) return;
    run_batch([&] {
      if (!next_case()) return;
      const char *what = env ? "sendResult(7,<string>)" : "sendRequest(7,\"m\",<string>)";
      std::string rep = big_desc(k, what, target, TAILN[tail]); std::string cls = fmt("%s-big-frame", PN[k]);
      set_case(cls, rep); S->states++; S->executions++;
      // size the string so that the encoded content is exactly `target` bytes: encode once with an empty body to learn the overhead
      Port tx(k); std::string why; size_t hdr = k == HDR ? 6 : 0;
      Spec probe{env, 7, std::string(TAIL[tail]), 0}; if (!send_spec(tx, probe, why)) { add_viol(fmt("%s-encoder-throws", PN[k]), rep + " what=" + why); end_case(); return; }
      size_t overhead = tx.sent.size() - hdr - 0; if (overhead > target) { end_case(); return; }
      std::string val = std::string(target - overhead, 'a') + TAIL[tail];
      Spec sp{env, 7, val, 0}; tx.sent.clear(); tx.sent_sizes.clear();
      if (!send_spec(tx, sp, why)) { add_viol(fmt("%s-encoder-throws", PN[k]), rep + " what=" + why); end_case(); return; }
      std::string frame = tx.sent; Msg want = expect_of(sp);
      if (k == PKT && tx.sent_sizes.size() != 1) { add_viol("packet-encoder-wrote-one-message-in-several-sends", rep + fmt(" sends=%zu", tx.sent_sizes.size())); end_case(); return; }
      { Port ns(k, 3, false); if (!send_spec(ns, sp, why)) { add_viol(fmt("%s-send-without-send-callback-throws", PN[k]), rep + " what=" + why); end_case(); return; } }
      if (frame.size() - hdr != target) { add_viol("harness-big-frame-size-miscomputed", rep + fmt(" got=%zu", frame.size() - hdr)); end_case(); return; }
      auto brief = [&](const Feed &f) { std::string o = fmt(" ret=%zd leftover=%zu threw=%d messages=%zu", f.err, f.leftover, (int)f.threw, f.msgs.size());
        if (!f.msgs.empty() && f.msgs[0].v.is_string()) o += fmt(" first_string_len=%zu", f.msgs[0].v.get_ref<const std::string &>().size()); return o; };
      auto same = [&](const Feed &f, const std::vector<Msg> &w) { return !f.threw && !f.overrun && !f.err && !f.leftover && f.msgs.size() == w.size() && std::equal(w.begin(), w.end(), f.msgs.begin()); };
      Port rx(k); bool ok = true;
      // round trip, alone
      { Feed f = feed_whole(rx, frame);
        if (f.threw) { ok = false; add_viol(cls + "-roundtrip-throws", rep + " what=" + f.what); }
        else if (!same(f, {want})) { ok = false; add_viol(cls + (f.msgs.empty() ? "-roundtrip-never-completes" : "-roundtrip-value-differs"), rep + brief(f)); } }
      // followed by a small frame (the consumed count of the big one must be exact)
      std::vector<Msg> want2 = {want};
      std::string stream = frame;
      if (ok) { Port t2(k); Spec small = pool()[1]; send_spec(t2, small, why); want2.push_back(expect_of(small));
        if (k == PKT) { CallRes c1 = call(*rx.p, frame.data(), frame.size()); rx.got.clear(); CallRes c2 = call(*rx.p, t2.sent.data(), t2.sent.size());
          S->executions++;
          if (c1.threw || c2.threw || c1.r != (ssize_t)frame.size() || c2.r != (ssize_t)t2.sent.size() || rx.got.size() != 1 || !(rx.got[0] == want2[1])) { ok = false; add_viol(cls + "-packet-after-big-packet-decoded-differently", rep + fmt(" ret1=%zd ret2=%zd", c1.r, c2.r)); } }
        else { stream += t2.sent; S->executions++; Feed f = feed_whole(rx, stream);
          if (!same(f, want2)) { ok = false; add_viol(cls + "-followed-by-a-frame-decodes-to-a-different-sequence", rep + brief(f) + (f.threw ? " what=" + f.what : "")); } } }
      // segmentation (stream framings)
      if (ok && k != PKT) {
        size_t L = stream.size(), F = frame.size(); std::set<size_t> cuts;
        for (size_t c : {(size_t)1, (size_t)2, (size_t)5, (size_t)6, (size_t)7, (size_t)8, (size_t)254, (size_t)255, (size_t)256, (size_t)257, (size_t)261, (size_t)262, (size_t)263,
                         (size_t)65535, (size_t)65536, (size_t)65537, (size_t)65541, (size_t)65542, (size_t)65543, F - 2, F - 1, F, F + 1, F + 5, F + 6, F + 7, L - 1}) if (c >= 1 && c < L) cuts.insert(c);
        for (size_t c : cuts) { size_t e[2] = {c, L}; S->executions++; S->cut[0] = (long)c; S->cut[1] = (long)L;
          Feed f = feed(rx, stream, e, 2);
          if (!same(f, want2)) { ok = false; add_viol(cls + (f.threw ? "-segmented-throws" : "-segmented-decodes-differently-from-unsegmented"), rep + fmt(" + small frame, seg_ends=[%zu,%zu]", c, L) + brief(f) + (f.threw ? " what=" + f.what : "")); break; } }
        std::vector<size_t> chunks = {255, 256, 4096}; if (L <= 400) chunks.push_back(1);
        if (target > 100000) chunks = {65536, (size_t)1 << 20};      // (a caller re-presents the whole unconsumed buffer on every call: small chunks of a 2^24-byte frame are quadratic)
        for (size_t c : chunks) { if (!ok) break; std::vector<size_t> ends; for (size_t q = c; q < L; q += c) ends.push_back(q); ends.push_back(L);
          S->executions++; for (int i = 0; i < 4; i++) S->cut[i] = -1; S->cut[0] = -(long)c - 1;
          Feed f = feed(rx, stream, ends.data(), (int)ends.size());
          if (!same(f, want2)) { ok = false; add_viol(cls + (f.threw ? "-segmented-throws" : "-segmented-decodes-differently-from-unsegmented"), rep + fmt(" + small frame, segments=every-%zu-bytes", c) + brief(f) + (f.threw ? " what=" + f.what : "")); } }
      }
      if (ok) add_outcome(fmt("big %s content=%zu: round trip, second frame%s ok", PN[k], target, k != PKT ? ", boundary splits, chunkings" : ""));
      if (ok && tail == 1 && env == 0) add_sample(rep + " => 1 equal message; + small frame => 2 messages under every boundary split / chunk size");
      end_case();
    });
  }
}

// ------------------------------------------------------------------------------------------------
// family: head codes other than 0x3e5a (whose two bytes are both < 0x80 and differ): bytes >= 0x80, equal bytes, zero, the byte-swapped twin.
// For every code: boundary ids x {request,result,error} round trip, every pool single and pair under every 2-segment split and chunk size,
// and frames written with that code are refused (ret <= 0, no callback) by a proto expecting 0x3e5a and vice versa.
static void fam_headcode() {
  std::vector<unsigned> codes = {0x0000, 0x00ff, 0xff00, 0xffff, 0x8081, 0x5a3e, 0x7f80, 0x8000};
  printf("@INFO headcode: header framing with head codes {"); for (unsigned c : codes) printf("0x%04x,", c); printf("}: id round trips, pool singles+pairs x 2-segment splits + chunkings, cross-code rejection against 0x3e5a, part %d/%d\n", g_part, g_nparts);
  std::vector<Spec> pl = pool(); long n = 0;
  for (unsigned code : codes) {
    if ((int)(n++ % g_nparts) != g_part) continue;
    if (expired()) return;
    run_batch([&] {
      kMagic = (uint16_t)code; std::string why;
      for (int id : {1, 255, 256, 65536, -1, INT_MIN}) for (int kind = 0; kind < 3; kind++) {
        if (!next_case()) continue;
        Spec sp{kind, id, kind == 2 ? Json() : Json::array({id}), id}; Port pt(HDR);
        std::string rep = fmt("proto=header-stream head_code=0x%04x %s id=%d", code, kind == 0 ? "sendRequest" : kind == 1 ? "sendResult" : "sendError", id);
        set_case("header-stream-head-code", rep); S->states++; S->executions++;
        if (!send_spec(pt, sp, why)) { add_viol("header-stream-encoder-throws", rep + " what=" + why); end_case(); continue; }
        Feed f = feed_whole(pt, pt.sent); Msg want = expect_of(sp); rep += " bytes=\"" + esc(pt.sent) + "\"";
        if (f.threw) add_viol("header-stream-head-code-throws", rep + " what=" + f.what);
        else if (f.err || f.overrun || f.leftover || f.msgs.size() != 1 || !(f.msgs[0] == want)) add_viol("header-stream-head-code-own-encoding-not-decoded", rep + fmt(" ret=%zd leftover=%zu got=", f.err, f.leftover) + show(f.msgs));
        else {
          // the same bytes must be refused by a proto that expects another code, and the other way round
          kMagic = 0x3e5a; Port other(HDR); kMagic = (uint16_t)code; CallRes c;
          if (code != 0x3e5a && hostile_call(other, "header-stream-foreign-head-code", pt.sent, c) && (c.r > 0 || !other.got.empty())) add_viol("header-stream-wrong-magic-accepted", rep + fmt(" expecting 0x3e5a: ret=%zd", c.r));
          Spec sp2 = sp; other.sent.clear(); send_spec(other, sp2, why);
          if (code != 0x3e5a && hostile_call(pt, "header-stream-foreign-head-code", other.sent, c) && (c.r > 0 || !pt.got.empty())) add_viol("header-stream-wrong-magic-accepted", rep + fmt(" frame written with 0x3e5a: ret=%zd", c.r));
          add_outcome(fmt("headcode 0x%04x id round trip + cross rejection ok", code));
        }
        end_case();
      }
      std::vector<std::vector<int>> combos; for (int a = 0; a < (int)pl.size(); a++) combos.push_back({a});
      for (int a = 0; a < (int)pl.size(); a++) for (int b = 0; b < (int)pl.size(); b++) combos.push_back({a, b});
      for (auto &idx : combos) {
        if (!next_case()) continue;
        Stream st; if (!build_stream(HDR, pl, idx, st)) { add_viol("header-stream-encoder-throws", fmt("head_code=0x%04x", code)); continue; }
        set_case("header-stream-head-code-segmented", fmt("proto=header-stream head_code=0x%04x bytes=\"", code) + esc(st.bytes) + "\""); S->states++; S->executions++;
        Port rx(HDR); Feed ref = feed_whole(rx, st.bytes);
        if (ref.threw || ref.err || ref.leftover || ref.overrun || ref.msgs.size() != st.want.size() || !std::equal(ref.msgs.begin(), ref.msgs.end(), st.want.begin()))
          add_viol("header-stream-head-code-concatenation-decodes-to-a-different-sequence", std::string(S->text) + " got=" + show(ref.msgs) + fmt(" ret=%zd leftover=%zu", ref.err, ref.leftover));
        else { all_splits(HDR, rx, st, ref, 2, "head-code-segmented"); all_chunkings(HDR, rx, st, ref, "head-code-segmented"); add_outcome(fmt("headcode 0x%04x %zu-message stream: all 2-segment splits and chunkings equal", code, idx.size())); }
        end_case();
      }
      kMagic = 0x3e5a;
    });
  }
}

int main(int argc, char **argv) {
  g_family = argc > 1 ? argv[1] : "roundtrip"; g_part = argc > 2 ? atoi(argv[2]) : 0; g_nparts = argc > 3 ? atoi(argv[3]) : 1; g_level = argc > 4 ? atoi(argv[4]) : 0; g_maxseg = argc > 5 ? atoi(argv[5]) : 0; g_log = argc > 6 ? atoi(argv[6]) : 0;
  const char *e = getenv("VERIF_DEADLINE_S"); g_deadline = real_now() + (e ? atof(e) : 600);
  S = (Shared *)mmap(nullptr, sizeof(Shared), PROT_READ | PROT_WRITE, MAP_SHARED | MAP_ANONYMOUS, -1, 0);
  if (S == MAP_FAILED) { perror("mmap"); return 3; }
  memset(S, 0, sizeof *S);
  detect_header_layout();
  std::string f = g_family;
  if (f == "roundtrip") fam_roundtrip(); else if (f == "segment") fam_segment(); else if (f == "packet") fam_packet();
  else if (f == "len") fam_len(); else if (f == "magic") fam_magic(); else if (f == "trunc") fam_trunc();
  else if (f == "bytes") fam_bytes(); else if (f == "mixed") fam_mixed(); else if (f == "envelope") fam_envelope(); else if (f == "deep") fam_deep(); else if (f == "big") fam_big(); else if (f == "headcode") fam_headcode();
  else { printf("@VIOL sig=harness-unknown-family :: %s\n", f.c_str()); return 0; }
  // the evidence claims that with log=1 every frame sent and every frame accepted was logged through the formatting sink: enforce it
  S->log_records += g_c14_log_records;                                   // the driver's own records (header layout probe); the children added theirs
  if (g_log && S->viols == 0 && S->log_records < S->sends + S->accepted)
    add_viol("harness-log-records-fewer-than-sends-plus-accepted-receives", fmt("family=%s part=%d records=%ld sends=%ld accepted=%ld", g_family, g_part, S->log_records, S->sends, S->accepted));
  for (int i = 0; i < S->nsig; i++) for (int j = 0; j < 3 && j < S->sigs[i].n; j++) printf("@VIOL sig=%s :: %s  [%ld occurrence(s) of this signature in %s part %d]\n", S->sigs[i].sig, S->sigs[i].ex[j], S->sigs[i].n, g_family, g_part);
  for (int i = 0; i < S->nout; i++) printf("@OUTCOME %s\n", S->outs[i]);
  for (int i = 0; i < S->nsample; i++) printf("@SAMPLE %s\n", S->samples[i]);
  if (g_capped) printf("@CAP %s part %d/%d: deadline reached after %ld inputs / %ld executions\n", g_family, g_part, g_nparts, S->states, S->executions);
  printf("@STAT states=%ld transitions=%ld executions=%ld onrecv_calls=%ld callbacks=%ld violations=%ld hostile_status_diffs=%ld log_records_formatted=%ld encoder_sends=%ld accepted_receives=%ld\n", S->states, S->executions, S->executions, S->calls, S->callbacks, S->viols, S->status_diffs, S->log_records, S->sends, S->accepted);
  fflush(stdout);
  return 0;
}
