import time, vf
PID = "C10"
H = vf.VERIF + "/checks/C10/harness.cpp"
SCHED = [vf.VERIF + "/engine/sched/sched.cpp", vf.VERIF + "/engine/sched/log_stub.cpp"]
# (buff_size, min, max, pattern code OLA)   - see harness.cpp:
#   A = append pattern: 0,1,6,8: one producer (3 threads); 2,3,5,7: two producers (4 threads); 4: three producers; 6,7 contain zero-length appends;
#       8: the sink callback appends too (pools that cannot reach their limit only)
#   L = life cycle: 0 one session; 1 two sessions, same configuration; 3 rejected configurations offered to initialize() first, cleanup() twice;
#       4 destroyed with pending data instead of cleanup(); 5,6 two full sessions with different configurations; 7 a second pipe alive and fed
#       by the main thread at the same time (4 threads); 8 three sessions: no callback / no append / pattern A
#   O = 1: initialize() before setCallback()
CFG1 = [(1,1,1,0),(1,1,2,0),(2,1,1,0),(2,1,2,1),(2,2,3,0),(4,1,2,1),(1,1,1,1),(1,1,1,10),(2,1,2,10),(2,2,3,10),(2,1,2,11)]
CFG2 = [(1,1,1,2),(2,1,2,2),(2,1,1,3),(2,2,3,3),(4,1,2,3),(2,1,2,5),(1,1,1,5),(2,1,2,12)]
CFG3 = [(2,1,2,4)]
# added after the gap audit; explored one bound lower than CFG1/CFG2
CFG1N = [(1,1,3,0),(2,2,2,0),(4,2,2,0),                    # pool grows/shrinks by two buffers; min == max > 1; 12 distinct bytes through 4-byte buffers
         (1,1,1,100),(2,1,2,101),(2,2,3,110),             # initialize() before setCallback(), one and two sessions
         (1,1,1,30),(2,1,2,131),                          # refused initialize() calls first
         (1,1,1,40),(2,1,2,41),(2,2,3,140),               # destructor instead of cleanup()
         (1,1,1,6),(2,1,2,6),(2,1,1,106),                 # zero-length appends
         (1,1,8,8),(2,1,8,108)]                           # the sink callback appends one byte itself
CFG1S = [(1,1,1,50),(2,1,2,50),(2,2,3,61),(1,1,2,160),    # a full first session, then a second one under another configuration (expensive: two full sessions)
         (1,1,1,81),(2,1,2,80),(2,2,3,186)]               # three sessions: without a callback, without an append, then the judged one
CFG2N = [(2,1,2,7),(2,1,2,102),(2,1,1,43),                # two producers: multi-part locked records with empty parts, initialize() first, destructor
         (2,1,2,71)]                                      # one producer + a second pipe (1,1,2) alive and fed at the same time
CFG2S = [(2,1,2,52),                                      # two producers in the second session of a re-configured pipe
         (1,1,2,71),(2,2,3,170)]                          # second pipe with the larger buffers; initialize() first
TS1 = [(2,1,2,5),(2,1,2,7)]                               # TSan lane at bound 1 in the quick tier too (locked multi-part records against a second producer and the timed flush)
Q3 = [(2,1,2,1)]                                         # quick tier: this one configuration ALSO at the thorough bound 3 (50 k executions). A re-ordering around the timed flush costs
                                                          # three deviations with one producer: the producer preempted between two appends, the timer expiry, and the background
                                                          # thread preempted between detaching the partial buffer and publishing it (wave 9, seed C10-9: missed at bound 2)
Q1 = [(2,2,3,10)]                                         # quick tier: this base configuration one bound lower (pays for the round-2 lanes)
def minus(a, b): return [x for x in a if x not in b]
# spurious condition-variable wake-ups (engine S option SCHED_SPURIOUS=1: one per execution, counted as a deviation) where a producer blocks at the buffer limit
SPUR1 = [(1,1,1,0),(2,1,1,0)]
SPUR2 = [(2,1,1,3)]
SP = {"SCHED_SPURIOUS": "1"}
def cmds(exe, cfgs, bound, tagp, only, env=None):
    c = [("%s:b%d_%d_%d_p%d" % ((tagp,) + s), [exe] + [str(x) for x in s] + [str(bound)], env) for s in cfgs]
    return [x for x in c if not only or x[0].split(":")[1] == only]
def main(tier, args):
    t0 = time.time()
    plain = vf.build("C10/sched_plain", [H], [], mode="plain", plain_srcs=SCHED)
    asan = vf.build("C10/sched_asan", [H], [], mode="asan", plain_srcs=SCHED)
    tsan = vf.build("C10/sched_tsan", [H], [], mode="tsan", plain_srcs=SCHED)
    res = vf.Result(); log = open(vf.BUILD + "/C10/log.txt", "w")
    o = args.only
    if tier == "quick":
        b1, b2, b3, dl = 2, 1, 0, 90
        jobs = (cmds(plain, minus(CFG1, Q1), 2, "plain", o) + cmds(plain, CFG2, 1, "plain", o) + cmds(plain, CFG3, 0, "plain", o)
                + cmds(plain, Q1 + CFG1N + CFG1S, 1, "plain", o) + cmds(plain, CFG2N, 1, "plain", o) + cmds(plain, CFG2S, 0, "plain", o)
                + cmds(plain, SPUR1, 1, "plain-spur", o, SP) + cmds(plain, Q3, 3, "plain-b3", o)
                + cmds(asan, CFG1 + CFG1N, 1, "asan", o) + cmds(asan, CFG2 + CFG1S + CFG2N + CFG2S + CFG3, 0, "asan", o)
                + cmds(tsan, CFG1[:4] + TS1, 1, "tsan", o) + cmds(tsan, CFG1[4:] + minus(CFG2 + CFG2N, TS1) + CFG1N + CFG1S + CFG2S + CFG3, 0, "tsan", o))
        base = "<= 2 (1 producer; (2,2,3) two-session: 1; (2,1,2) with the pattern 1 byte / exactly one buffer / 1 byte additionally <= 3)"
        newb = "<= 1 (1 producer, and 1 producer + second pipe (2,1,2); the other second-pipe ones and the two-producer second session of a re-configured pipe: 0)"
        nsp, spb, ba = len(SPUR1), "1", 1
        bt = "<= 1 on 4 one-producer and 2 two-producer configurations, 0 on all others"
    else:
        b1, b2, b3, dl = 3, 2, 1, 1200
        jobs = (cmds(plain, CFG1, 3, "plain", o) + cmds(plain, CFG2, 2, "plain", o) + cmds(plain, CFG3, 1, "plain", o)
                + cmds(plain, CFG1N + CFG1S[:1], 2, "plain", o) + cmds(plain, CFG1S[1:] + CFG2N + CFG2S, 1, "plain", o)
                + cmds(plain, SPUR1, 2, "plain-spur", o, SP) + cmds(plain, SPUR2, 1, "plain-spur", o, SP)
                + cmds(asan, CFG1, 2, "asan", o) + cmds(asan, CFG2 + CFG1N, 1, "asan", o) + cmds(asan, CFG1S + CFG2N + CFG2S + CFG3, 0, "asan", o)
                + cmds(tsan, CFG1, 2, "tsan", o) + cmds(tsan, CFG2 + CFG1N + TS1[1:], 1, "tsan", o) + cmds(tsan, CFG1S + minus(CFG2N, TS1) + CFG2S + CFG3, 0, "tsan", o))
        base = "<= 3 (1 producer)"
        newb = "<= 2 (1 producer; all but one of the re-configured two-session and all three-session ones: 1)"
        nsp, spb, ba = len(SPUR1 + SPUR2), "2 (1 producer) / 1 (2 producers)", 2
        bt = "<= 2 on the one-producer base configurations, <= 1 on the two-producer base ones, the further one-producer ones and the multi-part-record one, 0 on the rest"
    env = {"VERIF_DEADLINE_S": str(dl), "VERIF_WORKERS": "3", "TSAN_OPTIONS": "report_signal_unsafe=0:exitcode=0"}
    vf.run_procs(res, jobs, env=env, log=log, jobs=6)
    vf.finish(PID, tier, res, t0,
              rule="stateless DFS over all interleavings at mutex/trylock/condvar/thread operations of the real AsyncPipe (producers, background thread, cleanup), "
                   "timed-flush expiry as a bounded deviation; preemptions+deviations %s, <= %d (2 producers), <= %d (3 producers) on the %d base configurations "
                   "(buffer size 1/2/4, min/max buffers, append sizes <,=,> buffer and > whole pool, binary payload with NUL and 0xff, locked and lockless multi-part appends; 5 of them re-initialise the same pipe object for a second session); "
                   "%s / <= 1 (2 producers) on %d further configurations: pool growing/shrinking by two buffers and min==max>1, initialize() before setCallback(), "
                   "refused initialize() calls (each rejected field once followed by cleanup() and once followed directly by the next initialize()) before the real session and cleanup() called twice, destruction with pending data instead of cleanup(), "
                   "a second session under a different configuration (buffer size and pool limits both larger and smaller) after a full first session, three sessions (without callback, without any append, then the judged one), "
                   "zero-length appends (locked, and first/middle/last/all parts of a locked record, plain append right after a locked record), a second pipe with another buffer size alive and fed concurrently (each pipe judged separately), "
                   "the sink callback appending a byte itself (pools that cannot reach their limit); in every configuration each append gets a fresh heap block that is overwritten and freed when the call returns, "
                   "and the Config is zeroed and freed when initialize() returns; "
                   "%d configurations additionally with one spurious condition-variable wake-up per execution as a deviation, <= %s; ASan build <= %d (further configurations and 3 producers at lower bounds, down to 0); "
                   "TSan under the scheduler %s - bound 0 means no preemption and no timed-flush expiry while a thread can run (only the free choices at blocking points: a handful of schedules per configuration, "
                   "the timed-flush branch is then not executed), so race freedom of that branch rests on the TSan lanes at bound >= 1"
                   % (base, b2, b3, len(CFG1 + CFG2 + CFG3), newb, len(CFG1N + CFG1S + CFG2N + CFG2S), nsp, spb, ba, bt),
              assumptions=["appends concurrent with cleanup() are outside the property (DESIGN 1.7); the sink's own append is required in the output only when it returned before cleanup() was called",
                           "sync points = pthread mutex/trylock/cond/create/join",
                           "destroying the pipe is read as a cleanup (async_pipe.h documents that destruction stops the thread and delivers all buffered data)",
                           "the value initialize() returns for a rejected configuration is not judged - only that every cleanup() returns and the following session is lossless",
                           "zero-size sink blocks are ignored (they do not change the concatenation)",
                           "an append from inside the sink callback on a pool that is at its limit is not exercised (the producer waits for the back end while holding the append lock)",
                           "allocation and thread-creation failures are not injected"])
