import time, vf
PID = "C10"
H = vf.VERIF + "/checks/C10/harness.cpp"
SCHED = [vf.VERIF + "/engine/sched/sched.cpp", vf.VERIF + "/engine/sched/log_stub.cpp"]
# patterns 10+p: two sessions on one AsyncPipe object (initialize/cleanup twice), second session = pattern p
# (buff_size, min, max, pattern, threads)   patterns 0,1: one producer (3 threads); 2,3: two producers (4 threads); 4: three producers
CFG1 = [(1,1,1,0),(1,1,2,0),(2,1,1,0),(2,1,2,1),(2,2,3,0),(4,1,2,1),(1,1,1,1),(1,1,1,10),(2,1,2,10),(2,2,3,10),(2,1,2,11)]
CFG2 = [(1,1,1,2),(2,1,2,2),(2,1,1,3),(2,2,3,3),(4,1,2,3),(2,1,2,5),(1,1,1,5),(2,1,2,12)]
CFG3 = [(2,1,2,4)]
def cmds(exe, cfgs, bound, tagp, only):
    c = [("%s:b%d_%d_%d_p%d" % ((tagp,) + s), [exe] + [str(x) for x in s] + [str(bound)]) for s in cfgs]
    return [x for x in c if not only or x[0].split(":")[1] == only]
def main(tier, args):
    t0 = time.time()
    plain = vf.build("C10/sched_plain", [H], [], mode="plain", plain_srcs=SCHED)
    asan = vf.build("C10/sched_asan", [H], [], mode="asan", plain_srcs=SCHED)
    tsan = vf.build("C10/sched_tsan", [H], [], mode="tsan", plain_srcs=SCHED)
    res = vf.Result(); log = open(vf.BUILD + "/C10/log.txt", "w")
    if tier == "quick":
        b1, b2, b3, dl = 2, 1, 0, 90
        jobs = (cmds(plain, CFG1, 2, "plain", args.only) + cmds(plain, CFG2, 1, "plain", args.only) + cmds(plain, CFG3, 0, "plain", args.only)
                + cmds(asan, CFG1, 1, "asan", args.only) + cmds(asan, CFG2, 0, "asan", args.only)
                + cmds(tsan, CFG1[:4], 1, "tsan", args.only) + cmds(tsan, CFG1[4:] + CFG2, 0, "tsan", args.only))
        ba, bt = 1, 1
    else:
        b1, b2, b3, dl = 3, 2, 1, 1200
        jobs = (cmds(plain, CFG1, 3, "plain", args.only) + cmds(plain, CFG2, 2, "plain", args.only) + cmds(plain, CFG3, 1, "plain", args.only)
                + cmds(asan, CFG1, 2, "asan", args.only) + cmds(asan, CFG2, 1, "asan", args.only)
                + cmds(tsan, CFG1, 2, "tsan", args.only) + cmds(tsan, CFG2, 1, "tsan", args.only))
        ba, bt = 2, 2
    env = {"VERIF_DEADLINE_S": str(dl), "VERIF_WORKERS": "3", "TSAN_OPTIONS": "report_signal_unsafe=0:exitcode=0"}
    vf.run_procs(res, jobs, env=env, log=log, jobs=6)
    vf.finish(PID, tier, res, t0,
              rule="stateless DFS over all interleavings at mutex/trylock/condvar/thread operations of the real AsyncPipe (producers, background thread, cleanup), "
                   "timed-flush expiry as a bounded deviation; preemptions+deviations <= %d (1 producer), <= %d (2 producers), <= %d (3 producers); ASan build <= %d; TSan under the scheduler <= %d; "
                   "%d configurations (buffer size 1/2/4, min/max buffers, append sizes <,=,> buffer; 5 of them re-initialise the same pipe object for a second session)" % (b1, b2, b3, ba, bt, len(CFG1 + CFG2 + CFG3)),
              assumptions=["appends concurrent with cleanup() are outside the property (DESIGN 1.7)", "sync points = pthread mutex/trylock/cond/create/join"])
