// C10: util::AsyncPipe under the cooperative scheduler (engine S).
// usage: harness <buff_size> <min> <max> <pattern> <bound> [--replay picks]
//
// <pattern> is a decimal code  O L A :
//   A = pattern % 10          append pattern of the (last) session, see pattern()
//   L = (pattern / 10) % 10   life cycle of the pipe object, see scenario()
//   O = (pattern / 100) % 10  0: setCallback() then initialize();  1: initialize() then setCallback() (what log::AsyncSink and
//                             trace::Sink do) - in every session
//
// Caller-owned inputs never outlive the call that receives them: every append()/appendLockless() gets a fresh heap block that is
// overwritten with '#' and freed as soon as the call returns; the Config handed to initialize() is a heap object that is zeroed and
// freed right after initialize() returns; setCallback() gets a temporary std::function.
#include "sched/sched.h"
#include "sched/explore.h"
#include "probe.h"
#include <tbox/util/async_pipe.cpp>     // included as source: dump() needs the complete AsyncPipe::Impl type (diagnostics only)
#include <string>
#include <thread>
#include <vector>

using tbox::util::AsyncPipe;
// private members, read for the deadlock dump only (never by the oracle); a renamed member degrades the dump, not the build
VF_PROBE(stop_signal_) VF_PROBE(inited_) VF_PROBE(curr_buffer_) VF_PROBE(free_buffers_) VF_PROBE(full_buffers_) VF_PROBE(buff_num_)
namespace {
// append patterns: per producer a list of strings (distinct first symbols so the parse of the output is unambiguous).
// A string that starts with '+' is handed over as ONE record in several lockless appends under appendLock()/appendUnlock()
// ('|' separates the parts; any part may be empty). "" is a zero-length append (trace::Sink does that for empty names).
struct Pattern { std::vector<std::vector<std::string>> prod; bool reenter; };
Pattern pattern(int id, int bs) {
  // 18 distinct symbols: no chunk of big1 repeats for bs <= 6; the payload is binary: it starts with a NUL followed by a 0xff byte (both
  // in the same buffer for every buff_size > 1, so a str*-style copy loses the second)
  static const char A1[] = "\0\xff" "adefgh0123456789";
  std::string big1(3 * bs, 'q'), big2(bs + 1, 'w'), eq(bs, 'e');
  for (size_t i = 0; i < big1.size(); i++) big1[i] = A1[i % 18];
  for (size_t i = 0; i < big2.size(); i++) big2[i] = (char)('i' + i % 8);          // i..p
  for (size_t i = 0; i < eq.size(); i++) eq[i] = (char)('q' + i % 6);              // q..v
  switch (id) {
    case 0: return {{{big1, "X"}}};                       // one producer: 3 buffers worth, then 1 byte
    case 1: return {{{"X", eq, "Y"}}};                    // 1 byte, exactly one buffer, 1 byte
    case 2: return {{{big2}, {"XYZ"}}};                   // two producers
    case 3: return {{{"A", big2}, {eq, "B"}}};            // two producers, two appends each
    case 4: return {{{big1}, {"X"}, {"Y"}}};              // three producers
    case 5: return {{{"+" + big2 + "|" + eq}, {"XYZ"}}};    // producer 0 hands its record over in two lockless appends ('+' marks it, '|' is the split point)
    case 6: return {{{"", eq, "", "Y", ""}}};             // one producer: zero-length appends before any buffer was fetched, right after a buffer
                                                          // was filled exactly (no current buffer, pool possibly exhausted) and as the last call
    case 7: return {{{"+|" + big2 + "||c|", "+|", "E"}, {"", "XY"}}};   // two producers: a five-part locked record with empty first, middle and last parts, a record
                                                          // whose parts are all empty, a plain append right after a locked record, an empty append
    case 8: { Pattern p{{{"X", eq, "Y"}}}; p.reenter = true; return p; }   // like 1, and the sink callback itself appends "Z" once (a sink that records its own
                                                          // trouble); only for pools that cannot reach their limit (at the limit the producer legitimately waits
                                                          // for the back end while holding the append lock, so a back end that appends would wait for itself)
    case 9: return {{}};                                  // no append at all
    default: return {{{"A"}}};
  }
}
std::string esc(const std::string &s) { std::string r; char b[8]; for (unsigned char c : s) { if (c >= 0x21 && c < 0x7f && c != '\\') r += (char)c; else { snprintf(b, sizeof b, "\\x%02x", c); r += b; } } return r; }

struct Ctx {                      // one pipe with its sink
  AsyncPipe *p = nullptr; std::string out; int in_cb = 0; bool overlap = false; size_t max_block = 0;
  bool reenter = false, z_issued = false, z_mandatory = false, cleanup_begun = false;
};
template <class I> void dump_impl(I *i, const char *who) {
  sched_note("DUMP %s: stop=%d inited=%d curr=%p free=%ld full=%ld buff_num=%ld", who, VF_GET(stop_signal_, *i, -1), VF_GET(inited_, *i, -1), VF_GET(curr_buffer_, *i, (const void *)nullptr),
             VF_SIZE(free_buffers_, *i, -1L), VF_SIZE(full_buffers_, *i, -1L), VF_GET(buff_num_, *i, -1L));
}
template <class T> auto impl_of(T &p, int) -> decltype(&*p.impl_) { return p.impl_ ? &*p.impl_ : nullptr; }
template <class T> std::nullptr_t impl_of(T &, long) { return nullptr; }
inline void dump_impl(std::nullptr_t, const char *) {}
Ctx *g_ctx[2] = {nullptr, nullptr};
void dump() { for (int k = 0; k < 2; k++) if (g_ctx[k] && g_ctx[k]->p) { auto i = impl_of(*g_ctx[k]->p, 0); if (i) dump_impl(i, k ? "pipe2" : "pipe"); } }

// one call with a caller-owned block that dies with the call
void put(AsyncPipe &pipe, const char *d, size_t n, bool lockless) {
  char *blk = new char[n ? n : 1]; memcpy(blk, d, n);
  if (lockless) pipe.appendLockless(blk, n); else pipe.append(blk, n);
  memset(blk, '#', n); delete[] blk;
}
std::vector<std::string> parts_of(const std::string &s) {      // "+a|b|c" -> a, b, c
  std::vector<std::string> v; size_t a = 1; for (;;) { size_t b = s.find('|', a); if (b == std::string::npos) { v.push_back(s.substr(a)); break; } v.push_back(s.substr(a, b - a)); a = b + 1; } return v;
}
void produce(AsyncPipe &pipe, const std::vector<std::string> &lst) {
  for (auto &s : lst) {
    if (!s.empty() && s[0] == '+') { pipe.appendLock(); for (auto &x : parts_of(s)) put(pipe, x.data(), x.size(), true); pipe.appendUnlock(); }
    else put(pipe, s.data(), s.size(), false);
  }
}
AsyncPipe::Callback sink_of(Ctx *c) {
  return [c](const void *p, size_t n) {
    if (c->in_cb++) c->overlap = true;
    if (n > c->max_block) c->max_block = n;
    c->out.append((const char *)p, n);
    sched_point_here();                       // let other threads run while "inside" the sink callback
    if (c->reenter && !c->z_issued) { c->z_issued = true; put(*c->p, "Z", 1, false); if (!c->cleanup_begun) c->z_mandatory = true; }   // appended before cleanup began -> must be delivered
    c->in_cb--;
  };
}
void set_up(Ctx &c, int bs, int mn, int mx, int order, bool with_cb) {
  AsyncPipe::Config *cfg = new AsyncPipe::Config; cfg->buff_size = bs; cfg->buff_min_num = mn; cfg->buff_max_num = mx; cfg->interval = 1000;
  // cleanup() drops the callback, so it is set again in every session
  if (!order && with_cb) c.p->setCallback(sink_of(&c));
  if (!c.p->initialize(*cfg)) sched_fail("initialize failed");
  cfg->buff_size = cfg->buff_min_num = cfg->buff_max_num = cfg->interval = 0; delete cfg;      // the caller's Config is gone from here on
  if (order && with_cb) c.p->setCallback(sink_of(&c));
}
// ---- oracle: out must be an interleaving of the producers' append lists, each append contiguous, producer order kept
void judge(Ctx &c, const Pattern &P, int bs, const char *tag) {
  std::vector<std::vector<std::string>> want;
  for (auto &lst : P.prod) { want.emplace_back(); for (auto x : lst) {
      if (!x.empty() && x[0] == '+') { std::string j; for (auto &y : parts_of(x)) j += y; x = j; }      // what must come out: the parts back to back
      if (!x.empty()) want.back().push_back(x); } }                                    // a zero-length append contributes nothing
  size_t optional = want.size();
  if (c.z_issued) { want.push_back({"Z"}); if (c.z_mandatory) optional = want.size(); }   // the sink's own append: one more "producer"; may be missing only if it raced with cleanup
  std::vector<size_t> next(want.size(), 0); size_t pos = 0; bool ok = true; const std::string &out = c.out;
  while (pos < out.size() && ok) {
    ok = false;
    for (size_t p = 0; p < want.size(); p++) if (next[p] < want[p].size()) { const std::string &s = want[p][next[p]];
      if (out.compare(pos, s.size(), s) == 0) { pos += s.size(); next[p]++; ok = true; break; } }
  }
  bool all = true; for (size_t p = 0; p < want.size(); p++) if (p != optional && next[p] != want[p].size()) all = false;
  std::string e = esc(out);
  sched_note("O%s out=%s", tag, e.c_str());
  if (!ok) sched_fail("output-not-an-interleaving-of-contiguous-appends out=%s", e.c_str());
  if (!all) sched_fail("data-lost-at-cleanup-return out=%s", e.c_str());
  if (c.overlap) sched_fail("sink-callbacks-overlap");
  if (c.max_block > (size_t)bs) sched_fail("block-larger-than-buffer");
}

struct Session { int bs, mn, mx; Pattern pat; bool with_cb; };
// Life cycles (L):
//   0  one session: [setCallback, initialize], producers, join, cleanup()
//   1  two sessions on the same object with the same configuration (what log::AsyncSink does on disable/enable); the first is one 1-byte append
//   3  like 0, but first every rejected configuration is offered to initialize() (buff_size 0, min 0, min > max, interval 0), each of them once
//      followed by cleanup() and once followed directly by the next initialize() (the retry idiom); cleanup() is called twice at the end.
//      Whatever initialize() answers, every cleanup() must return and the real session must be lossless.
//   4  like 0 on a heap object that is destroyed with the data still pending, without an explicit cleanup() (async_pipe.h: destroying
//      the object stops the thread and hands all buffered data to the callback, i.e. destruction is a cleanup)
//   5  two sessions with DIFFERENT configurations: the first is pattern 0 (fills buffers, grows the pool, blocks at the limit) under
//      (2,2,3) when the second has buff_size 1, else under (1,1,1); the second is pattern A under the command-line configuration
//   6  like 5, the first session under (1,1,3) when the second has buff_size > 1, else (2,1,3)   (pool grows by two, larger<->smaller buffers)
//   7  like 0 while a SECOND pipe with another buffer size ((2,1,2) or (1,1,2)), its own sink and its own producer (the main thread, "mn") is alive: set up
//      before, fed concurrently, cleaned up after the first; the oracle is applied to each pipe separately (nothing may cross over)
//   8  three sessions on one object: pattern 1 WITHOUT a callback (only: cleanup returns), then a session with no append at all
//      (stop may arrive before the thread's first wait), then pattern A with the full oracle
void scenario(int bs, int mn, int mx, int code) {
  const int app = code % 10, life = (code / 10) % 10, order = (code / 100) % 10;
  std::vector<Session> sessions;
  if (life == 1) sessions.push_back(Session{bs, mn, mx, Pattern{{{"S"}}}, true});
  if (life == 5) sessions.push_back(bs == 1 ? Session{2, 2, 3, pattern(0, 2), true} : Session{1, 1, 1, pattern(0, 1), true});
  if (life == 6) sessions.push_back(bs == 1 ? Session{2, 1, 3, pattern(0, 2), true} : Session{1, 1, 3, pattern(0, 1), true});
  if (life == 8) { sessions.push_back(Session{bs, mn, mx, pattern(1, bs), false}); sessions.push_back(Session{bs, mn, mx, pattern(9, bs), true}); }
  sessions.push_back(Session{bs, mn, mx, pattern(app, bs), true});
  Ctx c1, c2; c1.p = new AsyncPipe; AsyncPipe &pipe = *c1.p; g_ctx[0] = &c1; sched_on_deadlock(dump);
  if (life == 3) {
    for (int pass = 0; pass < 2; pass++) for (int k = 0; k < 4; k++) {
      AsyncPipe::Config *bad = new AsyncPipe::Config;
      if (k == 0) bad->buff_size = 0; if (k == 1) bad->buff_min_num = 0; if (k == 2) { bad->buff_min_num = 3; bad->buff_max_num = 2; } if (k == 3) bad->interval = 0;
      if (!order) pipe.setCallback(sink_of(&c1));
      bool r = pipe.initialize(*bad); sched_note("bad-config %d: initialize=%d", k, (int)r);   // the answer itself is not part of the property
      delete bad;
      if (order) pipe.setCallback(sink_of(&c1));
      if (r || (k + pass) % 2 == 0) pipe.cleanup();    // must return (a pipe that accepted the configuration is cleaned up like any other)
    }
  }
  Pattern P2{{{"mn"}}}; const int bs2 = bs == 1 ? 2 : 1;
  if (life == 7) { c2.p = new AsyncPipe; g_ctx[1] = &c2; set_up(c2, bs2, 1, 2, order, true); }
  for (size_t si = 0; si < sessions.size(); si++) { Session &S = sessions[si]; Pattern &P = S.pat;
    c1.out.clear(); c1.max_block = 0; c1.reenter = P.reenter; c1.z_issued = c1.z_mandatory = c1.cleanup_begun = false;
    set_up(c1, S.bs, S.mn, S.mx, order, S.with_cb);
    std::vector<std::thread> th;
    for (auto &lst : P.prod) th.emplace_back([&pipe, &lst] { produce(pipe, lst); });
    if (life == 7) produce(*c2.p, P2.prod[0]);      // this thread feeds the second pipe while the producers feed the first
    for (auto &t : th) t.join();
    // everything appended before this point must have been delivered when cleanup (or the destructor) returns
    c1.cleanup_begun = true;
    if (life == 4) { AsyncPipe *d = c1.p; g_ctx[0] = nullptr; delete d; c1.p = nullptr; }
    else { pipe.cleanup(); if (life == 3) pipe.cleanup(); }
    char tag[8]; snprintf(tag, sizeof tag, "%zu", si);
    if (S.with_cb) judge(c1, P, S.bs, tag);
    else if (!c1.out.empty()) sched_fail("block delivered to a sink that was never set");
  }
  if (life == 7) { c2.cleanup_begun = true; c2.p->cleanup(); judge(c2, P2, bs2, "b"); g_ctx[1] = nullptr; delete c2.p; }
  g_ctx[0] = nullptr; delete c1.p;
}
}  // namespace

int main(int argc, char **argv) {
  int bs = argc > 1 ? atoi(argv[1]) : 2, mn = argc > 2 ? atoi(argv[2]) : 1, mx = argc > 3 ? atoi(argv[3]) : 2, pat = argc > 4 ? atoi(argv[4]) : 0, bound = argc > 5 ? atoi(argv[5]) : 1;
  sx::Explorer ex; char nm[96]; snprintf(nm, sizeof nm, "pipe(buf%d,min%d,max%d,pat%d)", bs, mn, mx, pat); ex.name = nm;
  ex.body = [=] { scenario(bs, mn, mx, pat); };
  ex.workers = getenv("VERIF_WORKERS") ? atoi(getenv("VERIF_WORKERS")) : 4;
  ex.deadline_s = sx::now_s() + (getenv("VERIF_DEADLINE_S") ? atof(getenv("VERIF_DEADLINE_S")) : 600);
  if (argc > 7 && !strcmp(argv[6], "--replay")) { ex.replay(sx::parse_picks(argv[7])); return 0; }
  ex.explore(bound);
  return 0;
}
