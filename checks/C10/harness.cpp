// C10: util::AsyncPipe under the cooperative scheduler (engine S).
// usage: harness <buff_size> <min> <max> <pattern> <bound> [--replay picks]
#include "sched/sched.h"
#include "sched/explore.h"
#include <tbox/util/async_pipe.cpp>     // included as source: access to AsyncPipe::Impl
#include <string>
#include <thread>
#include <vector>

using tbox::util::AsyncPipe;
namespace {
// append patterns: per producer a list of strings (distinct letters so the parse of the output is unambiguous)
struct Pattern { std::vector<std::vector<std::string>> prod; };
Pattern pattern(int id, int bs) {
  std::string big1(3 * bs, 'q'), big2(bs + 1, 'w'), eq(bs, 'e');
  for (size_t i = 0; i < big1.size(); i++) big1[i] = (char)('a' + i % 8);          // a..h
  for (size_t i = 0; i < big2.size(); i++) big2[i] = (char)('i' + i % 8);          // i..p
  for (size_t i = 0; i < eq.size(); i++) eq[i] = (char)('q' + i % 6);              // q..v
  switch (id) {
    case 0: return {{{big1, "X"}}};                       // one producer: 3 buffers worth, then 1 byte
    case 1: return {{{"X", eq, "Y"}}};                    // 1 byte, exactly one buffer, 1 byte
    case 2: return {{{big2}, {"XYZ"}}};                   // two producers
    case 3: return {{{"A", big2}, {eq, "B"}}};            // two producers, two appends each
    case 4: return {{{big1}, {"X"}, {"Y"}}};              // three producers
    case 5: return {{{"+" + big2 + "|" + eq}, {"XYZ"}}};    // producer 0 hands its record over in two lockless appends under appendLock()/appendUnlock() ('+' marks it, '|' is the split point)
    default: return {{{"A"}}};
  }
}
AsyncPipe *g_pipe = nullptr;
void dump() {
  if (!g_pipe || !g_pipe->impl_) return; auto *i = g_pipe->impl_;
  sched_note("DUMP pipe: stop=%d inited=%d curr=%p free=%zu full=%zu buff_num=%zu", (int)i->stop_signal_, (int)i->inited_, (void *)i->curr_buffer_, i->free_buffers_.size(), i->full_buffers_.size(), i->buff_num_);
}
// patterns >= 10: the same AsyncPipe object is used for two sessions (initialize, appends, cleanup, twice - what log::AsyncSink does on
// disable/enable); the first session is one 1-byte append, the second is pattern pat-10
void scenario(int bs, int mn, int mx, int pat) {
  std::vector<Pattern> sessions; if (pat >= 10) { sessions.push_back(Pattern{{{"S"}}}); pat -= 10; } sessions.push_back(pattern(pat, bs));
  std::string out; int in_cb = 0; bool overlap = false; int cb_thread = -1; bool cb_thread_varies = false; size_t max_block = 0;
  AsyncPipe pipe; g_pipe = &pipe; sched_on_deadlock(dump);
  AsyncPipe::Config cfg; cfg.buff_size = bs; cfg.buff_min_num = mn; cfg.buff_max_num = mx; cfg.interval = 1000;
  for (size_t si = 0; si < sessions.size(); si++) { Pattern &P = sessions[si]; out.clear(); g_pipe = &pipe;
  // cleanup() drops the callback, so it is set before every initialize() (as log::AsyncSink does)
  pipe.setCallback([&](const void *p, size_t n) {
    if (in_cb++) overlap = true;
    if (cb_thread >= 0 && cb_thread != sched_self()) cb_thread_varies = true; cb_thread = sched_self();
    if (n > max_block) max_block = n;
    out.append((const char *)p, n);
    sched_point_here();                       // let other threads run while "inside" the sink callback
    in_cb--;
  });
  if (!pipe.initialize(cfg)) sched_fail("initialize failed");
  std::vector<std::thread> th;
  for (auto &lst : P.prod) th.emplace_back([&pipe, &lst] { for (auto &s : lst) {
      if (!s.empty() && s[0] == '+') { size_t cut = s.find('|'); pipe.appendLock(); pipe.appendLockless(s.data() + 1, cut - 1); pipe.appendLockless(s.data() + cut + 1, s.size() - cut - 1); pipe.appendUnlock(); }
      else pipe.append(s.data(), s.size()); } });
  for (auto &t : th) t.join();
  pipe.cleanup();                             // everything appended before this point must have been delivered on return
  g_pipe = nullptr;
  // ---- oracle: out must be an interleaving of the producers' append lists, each append contiguous, producer order kept
  for (auto &lst : P.prod) for (auto &x : lst) if (!x.empty() && x[0] == '+') { x.erase(x.find('|'), 1); x.erase(0, 1); }      // what must come out: the two parts back to back
  std::vector<size_t> next(P.prod.size(), 0); size_t pos = 0; bool ok = true;
  while (pos < out.size() && ok) {
    ok = false;
    for (size_t p = 0; p < P.prod.size(); p++) if (next[p] < P.prod[p].size()) { const std::string &s = P.prod[p][next[p]];
      if (out.compare(pos, s.size(), s) == 0) { pos += s.size(); next[p]++; ok = true; break; } }
  }
  bool all = true; for (size_t p = 0; p < P.prod.size(); p++) if (next[p] != P.prod[p].size()) all = false;
  sched_note("O%zu out=%s", si, out.c_str());
  if (!ok) sched_fail("output-not-an-interleaving-of-contiguous-appends out=%s", out.c_str());
  if (!all) sched_fail("data-lost-at-cleanup-return out=%s", out.c_str());
  if (overlap) sched_fail("sink-callbacks-overlap");
  if (max_block > (size_t)bs) sched_fail("block-larger-than-buffer");
  }
}
}  // namespace

int main(int argc, char **argv) {
  int bs = argc > 1 ? atoi(argv[1]) : 2, mn = argc > 2 ? atoi(argv[2]) : 1, mx = argc > 3 ? atoi(argv[3]) : 2, pat = argc > 4 ? atoi(argv[4]) : 0, bound = argc > 5 ? atoi(argv[5]) : 1;
  sx::Explorer ex; char nm[96]; snprintf(nm, sizeof nm, "pipe(buf%d,min%d,max%d,pat%d)", bs, mn, mx, pat); ex.name = nm;
  ex.body = [=] { scenario(bs, mn, mx, pat); };
  ex.workers = getenv("VERIF_WORKERS") ? atoi(getenv("VERIF_WORKERS")) : 4;
  ex.deadline_s = sx::now_s() + (getenv("VERIF_DEADLINE_S") ? atof(getenv("VERIF_DEADLINE_S")) : 600);
  if (argc > 7 && !strcmp(argv[6], "--replay")) { ex.replay(sx::parse_picks(argv[7])); return 0; }
  ex.explore(bound);
  return 0;
}
