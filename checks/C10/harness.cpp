// C10: util::AsyncPipe under the cooperative scheduler (engine S).
// usage: harness <buff_size> <min> <max> <pattern> <bound> [--replay picks]
//
// <pattern> is a decimal code  O L A :
//   A = pattern % 10          append pattern of the (last) session, see pattern()
//   L = (pattern / 10) % 10   life cycle of the pipe object, see scenario()
//   O = (pattern / 100) % 10  0: setCallback() then initialize();  1: initialize() then setCallback() (what log::AsyncSink and
//                             trace::Sink do) - in every session
#include "sched/sched.h"
#include "sched/explore.h"
#include <tbox/util/async_pipe.cpp>     // included as source: access to AsyncPipe::Impl
#include <string>
#include <thread>
#include <vector>

using tbox::util::AsyncPipe;
namespace {
// append patterns: per producer a list of strings (distinct letters so the parse of the output is unambiguous).
// A string that starts with '+' is handed over as ONE record in two lockless appends under appendLock()/appendUnlock()
// ('|' is the split point; either part may be empty). "" is a zero-length append (trace::Sink does that for empty names).
struct Pattern { std::vector<std::vector<std::string>> prod; };
Pattern pattern(int id, int bs) {
  static const char A1[] = "abcdefgh0123456789";                                      // 18 distinct symbols: no chunk of big1 repeats for bs <= 6
  std::string big1(3 * bs, 'q'), big2(bs + 1, 'w'), eq(bs, 'e');
  for (size_t i = 0; i < big1.size(); i++) big1[i] = A1[i % 18];
  for (size_t i = 0; i < big2.size(); i++) big2[i] = (char)('i' + i % 8);          // i..p
  for (size_t i = 0; i < eq.size(); i++) eq[i] = (char)('q' + i % 6);              // q..v
  switch (id) {
    case 0: return {{{big1, "X"}}};                       // one producer: 3 buffers worth, then 1 byte
    case 1: return {{{"X", eq, "Y"}}};                    // 1 byte, exactly one buffer, 1 byte
    case 2: return {{{big2}, {"XYZ"}}};                   // two producers
    case 3: return {{{"A", big2}, {eq, "B"}}};            // two producers, two appends each
    case 4: return {{{big1}, {"X"}, {"Y"}}};              // three producers
    case 5: return {{{"+" + big2 + "|" + eq}, {"XYZ"}}};    // producer 0 hands its record over in two lockless appends ('+' marks it, '|' is the split point)
    case 6: return {{{"", eq, "", "Y", ""}}};             // one producer: zero-length appends before any buffer was fetched, right after a buffer
                                                          // was filled exactly (no current buffer, pool possibly exhausted) and as the last call
    case 7: return {{{"+|" + big2, "+|", "+" + eq + "|"}, {"", "XY"}}};   // two producers: lockless parts of length 0 (first / both / second), empty append
    default: return {{{"A"}}};
  }
}
AsyncPipe *g_pipe = nullptr;
void dump() {
  if (!g_pipe || !g_pipe->impl_) return; auto *i = g_pipe->impl_;
  sched_note("DUMP pipe: stop=%d inited=%d curr=%p free=%zu full=%zu buff_num=%zu", (int)i->stop_signal_, (int)i->inited_, (void *)i->curr_buffer_, i->free_buffers_.size(), i->full_buffers_.size(), i->buff_num_);
}
struct Session { int bs, mn, mx; Pattern pat; };
// Life cycles (L):
//   0  one session: [setCallback, initialize], producers, join, cleanup()
//   1  two sessions on the same object with the same configuration (what log::AsyncSink does on disable/enable); the first is one 1-byte append
//   3  like 0, but first every rejected configuration is offered to initialize() (buff_size 0, min 0, min > max, interval 0), with and
//      without a cleanup() after the refusal (the retry idiom); cleanup() is called twice at the end. Whatever initialize() answers, every
//      cleanup() must return and the real session must be lossless.
//   4  like 0 on a heap object that is destroyed with the data still pending, without an explicit cleanup() (async_pipe.h: destroying
//      the object stops the thread and hands all buffered data to the callback, i.e. destruction is a cleanup)
//   5  two sessions with DIFFERENT configurations: the first is pattern 0 (fills buffers, grows the pool, blocks at the limit) under
//      (2,2,3) when the second has buff_size 1, else under (1,1,1); the second is pattern A under the command-line configuration
//   6  like 5, the first session under (1,1,3) when the second has buff_size > 1, else (2,1,3)   (pool grows by two, larger<->smaller buffers)
void scenario(int bs, int mn, int mx, int code) {
  const int app = code % 10, life = (code / 10) % 10, order = (code / 100) % 10;
  std::vector<Session> sessions;
  if (life == 1) sessions.push_back(Session{bs, mn, mx, Pattern{{{"S"}}}});
  if (life == 5) sessions.push_back(bs == 1 ? Session{2, 2, 3, pattern(0, 2)} : Session{1, 1, 1, pattern(0, 1)});
  if (life == 6) sessions.push_back(bs == 1 ? Session{2, 1, 3, pattern(0, 2)} : Session{1, 1, 3, pattern(0, 1)});
  sessions.push_back(Session{bs, mn, mx, pattern(app, bs)});
  std::string out; int in_cb = 0; bool overlap = false; size_t max_block = 0;
  AsyncPipe *pp = new AsyncPipe; AsyncPipe &pipe = *pp; g_pipe = pp; sched_on_deadlock(dump);
  auto sink = [&](const void *p, size_t n) {
    if (in_cb++) overlap = true;
    if (n > max_block) max_block = n;
    out.append((const char *)p, n);
    sched_point_here();                       // let other threads run while "inside" the sink callback
    in_cb--;
  };
  if (life == 3) {
    AsyncPipe::Config bad[4]; bad[0].buff_size = 0; bad[1].buff_min_num = 0; bad[2].buff_min_num = 3; bad[2].buff_max_num = 2; bad[3].interval = 0;
    for (int k = 0; k < 4; k++) {
      if (!order) pipe.setCallback(sink);
      bool r = pipe.initialize(bad[k]); sched_note("bad-config %d: initialize=%d", k, (int)r);   // the answer itself is not part of the property
      if (order) pipe.setCallback(sink);
      if (r || k % 2 == 0) pipe.cleanup();    // must return (a pipe that accepted the configuration is cleaned up like any other)
    }
  }
  for (size_t si = 0; si < sessions.size(); si++) { Session &S = sessions[si]; Pattern &P = S.pat; out.clear(); max_block = 0; g_pipe = pp;
    AsyncPipe::Config cfg; cfg.buff_size = S.bs; cfg.buff_min_num = S.mn; cfg.buff_max_num = S.mx; cfg.interval = 1000;
    // cleanup() drops the callback, so it is set again in every session
    if (!order) pipe.setCallback(sink);
    if (!pipe.initialize(cfg)) sched_fail("initialize failed");
    if (order) pipe.setCallback(sink);
    std::vector<std::thread> th;
    for (auto &lst : P.prod) th.emplace_back([&pipe, &lst] { for (auto &s : lst) {
        if (!s.empty() && s[0] == '+') { size_t cut = s.find('|'); pipe.appendLock(); pipe.appendLockless(s.data() + 1, cut - 1); pipe.appendLockless(s.data() + cut + 1, s.size() - cut - 1); pipe.appendUnlock(); }
        else pipe.append(s.data(), s.size()); } });
    for (auto &t : th) t.join();
    // everything appended before this point must have been delivered when cleanup (or the destructor) returns
    if (life == 4) { g_pipe = nullptr; delete pp; pp = nullptr; }
    else { pipe.cleanup(); if (life == 3) pipe.cleanup(); }
    g_pipe = nullptr;
    // ---- oracle: out must be an interleaving of the producers' append lists, each append contiguous, producer order kept
    std::vector<std::vector<std::string>> want;
    for (auto &lst : P.prod) { want.emplace_back(); for (auto x : lst) {
        if (!x.empty() && x[0] == '+') { x.erase(x.find('|'), 1); x.erase(0, 1); }      // what must come out: the two parts back to back
        if (!x.empty()) want.back().push_back(x); } }                                    // a zero-length append contributes nothing
    std::vector<size_t> next(want.size(), 0); size_t pos = 0; bool ok = true;
    while (pos < out.size() && ok) {
      ok = false;
      for (size_t p = 0; p < want.size(); p++) if (next[p] < want[p].size()) { const std::string &s = want[p][next[p]];
        if (out.compare(pos, s.size(), s) == 0) { pos += s.size(); next[p]++; ok = true; break; } }
    }
    bool all = true; for (size_t p = 0; p < want.size(); p++) if (next[p] != want[p].size()) all = false;
    sched_note("O%zu out=%s", si, out.c_str());
    if (!ok) sched_fail("output-not-an-interleaving-of-contiguous-appends out=%s", out.c_str());
    if (!all) sched_fail("data-lost-at-cleanup-return out=%s", out.c_str());
    if (overlap) sched_fail("sink-callbacks-overlap");
    if (max_block > (size_t)S.bs) sched_fail("block-larger-than-buffer");
  }
  delete pp;
}
}  // namespace

int main(int argc, char **argv) {
  int bs = argc > 1 ? atoi(argv[1]) : 2, mn = argc > 2 ? atoi(argv[2]) : 1, mx = argc > 3 ? atoi(argv[3]) : 2, pat = argc > 4 ? atoi(argv[4]) : 0, bound = argc > 5 ? atoi(argv[5]) : 1;
  sx::Explorer ex; char nm[96]; snprintf(nm, sizeof nm, "pipe(buf%d,min%d,max%d,pat%d)", bs, mn, mx, pat); ex.name = nm;
  ex.body = [=] { scenario(bs, mn, mx, pat); };
  ex.workers = getenv("VERIF_WORKERS") ? atoi(getenv("VERIF_WORKERS")) : 4;
  ex.deadline_s = sx::now_s() + (getenv("VERIF_DEADLINE_S") ? atof(getenv("VERIF_DEADLINE_S")) : 600);
  if (argc > 7 && !strcmp(argv[6], "--replay")) { ex.replay(sx::parse_picks(argv[7])); return 0; }
  ex.explore(bound);
  return 0;
}
