// C05: eventx::ThreadPool / eventx::WorkThread under the cooperative scheduler (engine S).
// usage: harness <scenario> <min> <max> <bound> [--replay picks]
#include "sched/sched.h"
#include "sched/explore.h"
#include "sched/fake_loop.h"
#include <tbox/eventx/thread_pool.cpp>     // included as source: gives access to ThreadPool::Data
#include <tbox/eventx/work_thread.cpp>
#include <condition_variable>

using namespace tbox;
using eventx::ThreadPool; using eventx::WorkThread;

#if defined(__SANITIZE_THREAD__)
#define VERIF_TSAN 1
#elif defined(__has_feature)
#if __has_feature(thread_sanitizer)
#define VERIF_TSAN 1
#endif
#endif
#ifndef VERIF_TSAN
#define VERIF_TSAN 0
#endif
namespace {
const int MAXTASK = 4;
struct Rec { bool accepted = false, has_cb = false; int prio = 0; int started = 0, finished = 0, cb = 0; int start_thr = -1, cb_thr = -1; long fin_seq = 0, cb_seq = 0, start_seq = 0; int cancel_ret = -1; cabinet::Token tok; };
Rec R[MAXTASK]; long g_seq = 0; int g_running = 0, g_max_running = 0;
std::mutex *g_m; std::condition_variable *g_cv;
ThreadPool *g_tp = nullptr; WorkThread *g_wt = nullptr; FakeLoop *g_loop = nullptr;
int g_min = 0, g_max = 1;
bool g_in_cleanup = false; cabinet::Token g_cancel_target; bool g_in_cancel = false;

// ---- pick-order oracle, evaluated at every scheduling point on the waiting queues themselves ----
struct QSnap { int n[THREAD_POOL_PRIO_SIZE]; cabinet::Token t[THREAD_POOL_PRIO_SIZE][MAXTASK + 1]; bool valid = false; } g_prev;
void take(QSnap &s) {
  s.valid = true;
  if (g_tp) for (int i = 0; i < THREAD_POOL_PRIO_SIZE; i++) { auto &q = g_tp->d_->undo_tasks_token[i]; s.n[i] = 0; for (auto &x : q) if (s.n[i] <= MAXTASK) s.t[i][s.n[i]++] = x; }
  else { for (int i = 0; i < THREAD_POOL_PRIO_SIZE; i++) s.n[i] = 0; if (g_wt && g_wt->d_) for (auto &x : g_wt->d_->undo_tasks_token_deque) if (s.n[0] <= MAXTASK) s.t[0][s.n[0]++] = x; }
}
bool in_snap(const QSnap &s, const cabinet::Token &x) { for (int i = 0; i < THREAD_POOL_PRIO_SIZE; i++) for (int k = 0; k < s.n[i]; k++) if (s.t[i][k] == x) return true; return false; }
uint32_t on_point() {
  if (!g_tp && !(g_wt && g_wt->d_)) return 0;
  QSnap cur; take(cur);
  if (g_prev.valid) {
    int hi = -1; for (int i = 0; i < THREAD_POOL_PRIO_SIZE; i++) if (g_prev.n[i] > 0) { hi = i; break; }
    for (int i = 0; i < THREAD_POOL_PRIO_SIZE; i++) for (int k = 0; k < g_prev.n[i]; k++) {
      const cabinet::Token &x = g_prev.t[i][k];
      if (in_snap(cur, x)) continue;
      bool head = (i == hi && k == 0);
      bool by_cancel = g_in_cancel && x == g_cancel_target;
      if (!head && !by_cancel && !g_in_cleanup) sched_fail("pick-order: a waiting task left the queue although it was not the head of the highest-priority queue");
    }
  }
  // first-in-first-out within a priority: tasks that stay in a waiting queue keep their relative order (a cancel must not reorder the rest)
  if (g_prev.valid) for (int i = 0; i < THREAD_POOL_PRIO_SIZE; i++) { int last = -1;
    for (int k = 0; k < g_prev.n[i]; k++) { int at = -1; for (int j = 0; j < cur.n[i]; j++) if (cur.t[i][j] == g_prev.t[i][k]) at = j; if (at < 0) continue;
      if (at < last) sched_fail("fifo-order: the waiting tasks of one priority were reordered"); last = at; } }
  g_prev = cur; return 0;
}
void dump() {
  if (g_tp) sched_note("DUMP pool: stop_flag=%d idle=%zu threads=%zu undo=%zu doing=%zu", (int)g_tp->d_->all_threads_stop_flag, g_tp->d_->idle_thread_num, g_tp->d_->threads_cabinet.size(), g_tp->d_->undo_tasks_cabinet.size(), g_tp->d_->doing_tasks_token.size());
  if (g_wt && g_wt->d_) sched_note("DUMP workthread: stop_flag=%d undo=%zu doing=%zu", (int)g_wt->d_->stop_flag, g_wt->d_->undo_tasks_token_deque.size(), g_wt->d_->doing_tasks_token.size());
  for (int i = 0; i < MAXTASK; i++) if (R[i].accepted) sched_note("DUMP task%d started=%d finished=%d cb=%d cancel=%d", i, R[i].started, R[i].finished, R[i].cb, R[i].cancel_ret);
}

std::function<void()> body_of(int i) {
  return [i] {
    { std::lock_guard<std::mutex> g(*g_m); R[i].started++; R[i].start_thr = sched_self(); R[i].start_seq = ++g_seq; g_running++; if (g_running > g_max_running) g_max_running = g_running; }
    { std::lock_guard<std::mutex> g(*g_m); R[i].finished++; R[i].fin_seq = ++g_seq; g_running--; g_cv->notify_all(); }
  };
}
std::function<void()> cb_of(int i) { return [i] { R[i].cb++; R[i].cb_thr = sched_self(); R[i].cb_seq = ++g_seq; }; }

void submit(int i, int prio, bool cb) {
  R[i].prio = prio; R[i].has_cb = cb;
  if (g_tp) R[i].tok = cb ? g_tp->execute(body_of(i), cb_of(i), prio) : g_tp->execute(body_of(i), prio);
  else R[i].tok = cb ? g_wt->execute(body_of(i), cb_of(i)) : g_wt->execute(body_of(i));
  R[i].accepted = !R[i].tok.isNull();
  if (!R[i].accepted) sched_fail("execute-rejected task %d", i);
}
void status(int i) {
  int st = g_tp ? (int)g_tp->getTaskStatus(R[i].tok) : (int)g_wt->getTaskStatus(R[i].tok);
  int started_now; { std::lock_guard<std::mutex> g(*g_m); started_now = R[i].started; }
  sched_note("O status%d=%d", i, st);
  // kNotFound can only be a correct answer for a task that has already been started (or was cancelled):
  if (st == 2 && started_now == 0 && R[i].cancel_ret != 0) {
    // it must never start later; we wait for it below (wait_task) - remember the claim
    sched_note("claim-notfound %d", i);
    R[i].cancel_ret = -2;   // marker: answered not-found while not started
  }
}
void cancel(int i) {
  g_cancel_target = R[i].tok; g_in_cancel = true;
  int r = g_tp ? g_tp->cancel(R[i].tok) : g_wt->cancel(R[i].tok);
  g_in_cancel = false;
  int started_now; { std::lock_guard<std::mutex> g(*g_m); started_now = R[i].started; }
  sched_note("O cancel%d=%d", i, r);
  if (r == 0) R[i].cancel_ret = 0;
  else if (r == 1 && started_now == 0) R[i].cancel_ret = -3;   // "not found (already executed)" for a task that has not started
  else R[i].cancel_ret = r;
}
void wait_task(int i) {     // blocks (scheduler-visible) until task i has finished; a task that never runs shows up as a deadlock
  if (R[i].cancel_ret == 0) return;
  std::unique_lock<std::mutex> lk(*g_m); g_cv->wait(lk, [i] { return R[i].finished > 0; });
}
void snapshot_check() {
  if (!g_tp) return; auto s = g_tp->snapshot();
  if ((int)s.thread_num > g_max) sched_fail("snapshot: thread_num %zu exceeds max %d", s.thread_num, g_max);
}
void do_cleanup() { g_in_cleanup = true; if (g_tp) g_tp->cleanup(); else if (g_wt) g_wt->cleanup();
  // "cleanup ... joins every worker": once it has returned no worker may use the pool or the loop any more. (A retiring worker that has
  // already handed its thread object to the loop may still be returning from its thread function - DESIGN 1.7 - but it must not post again.)
  g_loop->closed_for_workers = true; }

void final_oracle(bool waited_all) {
  g_loop->drain();
  for (int i = 0; i < MAXTASK; i++) { Rec &r = R[i]; if (!r.accepted) continue;
    if (r.started > 1 || r.finished > 1) sched_fail("task %d executed %d times", i, r.started);
    if (r.started && r.start_thr == 0) sched_fail("task %d body ran on the loop thread", i);
    if (r.cancel_ret == 0 && r.started) sched_fail("cancel-success-but-ran task %d", i);
    if (r.cancel_ret == -2 && r.started) sched_fail("status-notfound-but-ran-later task %d", i);
    if (r.cancel_ret == -3 && r.started) sched_fail("cancel-notfound-but-ran-later task %d", i);
    if (r.cancel_ret == 2 && !r.started) sched_fail("cancel-said-executing-but-never-ran task %d", i);
    if (waited_all && r.cancel_ret != 0 && r.finished != 1) sched_fail("task %d accepted, not cancelled, cleanup not begun, but executed %d times", i, r.finished);
    if (r.cb > 1) sched_fail("completion callback of task %d ran %d times", i, r.cb);
    if (r.cb && !r.finished) sched_fail("completion callback of task %d ran although the body did not finish", i);
    if (r.cb && r.cb_thr != 0) sched_fail("completion callback of task %d ran on a worker thread", i);
    if (r.cb && r.cb_seq < r.fin_seq) sched_fail("completion callback of task %d ran before the body returned", i);
    if (r.finished && r.has_cb && r.cb != 1) sched_fail("task %d finished but its completion callback ran %d times", i, r.cb);
    sched_note("O t%d:s%d,f%d,c%d", i, r.started, r.finished, r.cb);
  }
  // with a single worker the body start order IS the pick order: same priority => submission order (tasks are numbered in submission order)
  if (g_max == 1) for (int i = 0; i < MAXTASK; i++) for (int j = i + 1; j < MAXTASK; j++) if (R[i].started && R[j].started && R[i].prio == R[j].prio && R[i].start_seq > R[j].start_seq) sched_fail("fifo-order: task %d (same priority, submitted earlier) started after task %d", i, j);
  if (g_loop->late_worker_posts) sched_fail("worker-used-the-loop-after-cleanup-returned (%d posts)", g_loop->late_worker_posts);
  if (g_max_running > g_max) sched_fail("%d task bodies ran concurrently, max is %d", g_max_running, g_max);
}

void scenario(int scen) {
  std::mutex m; std::condition_variable cv; g_m = &m; g_cv = &cv;
  FakeLoop loop; g_loop = &loop;
  sched_on_deadlock(dump);
#if !VERIF_TSAN
  sched_on_point(on_point);   // the hook reads pool internals from whichever thread is at the point: meaningless (and reported) under TSan
#endif
  bool waited = false;
  if (scen < 100) {
    ThreadPool tp(&loop); g_tp = &tp;
    if (!tp.initialize(g_min, g_max)) sched_fail("initialize failed");
    switch (scen) {
      case 0: submit(0, 0, true); status(0); break;                                               // submit, query, cleanup at once
      case 1: submit(0, 0, true); submit(1, -1, false); cancel(1); status(0); wait_task(0); wait_task(1); waited = true; loop.drain(); break;
      case 2: submit(0, 0, true); submit(1, 0, false); submit(2, -1, true); snapshot_check(); wait_task(0); wait_task(1); wait_task(2); waited = true; loop.drain(); snapshot_check(); break;
      case 3: submit(0, 0, true); wait_task(0); loop.drain(); submit(1, 0, true); wait_task(1); waited = true; break;   // worker retirement, then a new worker
      case 4: submit(0, 1, false); submit(1, 0, false); status(1); cancel(0); break;                      // cancel/status racing with the pick, then cleanup
      case 5: do_cleanup(); g_in_cleanup = false; loop.closed_for_workers = false; loop.drain(); if (!tp.initialize(g_min, g_max)) sched_fail("re-initialize failed"); submit(0, 0, true); wait_task(0); waited = true; break;   // cleanup then re-initialise
      case 6: submit(0, 0, false); submit(1, -1, false); submit(2, 0, false); break;
      case 7: submit(0, 0, false); submit(1, 0, false); submit(2, 0, false); submit(3, 0, false); cancel(1); wait_task(0); wait_task(1); wait_task(2); wait_task(3); waited = true; break;   // three same-priority waiters, cancel in the middle                       // queue then cleanup: pending tasks dropped, never run twice
    }
    do_cleanup();
    final_oracle(waited);
    g_tp = nullptr;
  } else {
    { WorkThread wt(&loop); g_wt = &wt;
      switch (scen) {
        case 100: submit(0, 0, true); status(0); break;
        case 101: submit(0, 0, true); submit(1, 0, false); cancel(1); status(0); wait_task(0); wait_task(1); waited = true; break;
        case 102: submit(0, 0, false); submit(1, 0, true); submit(2, 0, false); wait_task(2); wait_task(0); wait_task(1); waited = true; break;
      }
      do_cleanup();
      g_wt = nullptr; }
    final_oracle(waited);
  }
  sched_on_point(nullptr);
}
}  // namespace

int main(int argc, char **argv) {
  int scen = argc > 1 ? atoi(argv[1]) : 0; g_min = argc > 2 ? atoi(argv[2]) : 1; g_max = argc > 3 ? atoi(argv[3]) : 1; int bound = argc > 4 ? atoi(argv[4]) : 1;
  sx::Explorer ex; char nm[64]; snprintf(nm, sizeof nm, "scen%d(min%d,max%d)", scen, g_min, g_max); ex.name = nm;
  ex.body = [scen] { scenario(scen); };
  ex.workers = getenv("VERIF_WORKERS") ? atoi(getenv("VERIF_WORKERS")) : 4;
  ex.deadline_s = sx::now_s() + (getenv("VERIF_DEADLINE_S") ? atof(getenv("VERIF_DEADLINE_S")) : 600);
  if (argc > 6 && !strcmp(argv[5], "--replay")) { ex.replay(sx::parse_picks(argv[6])); return 0; }
  ex.explore(bound);
  return 0;
}
