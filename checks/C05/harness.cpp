// C05: eventx::ThreadPool / eventx::WorkThread under the cooperative scheduler (engine S).
// usage: harness <scenario> <min> <max> <bound> [--replay picks]
//
// Scenario numbers: 0..11 thread pool scripts, 50+k = pool script k ended by the DESTRUCTOR instead of an explicit cleanup(),
// 100..107 work thread scripts, 150+k = work thread script 100+k ended by the destructor only, 200..202 = pool / work thread on the REAL epoll loop.
// 1000+s = scenario s with ObjectPool keep_number_ = 1 (both branches of ObjectPool::free run), 2000+s = scenario s with the task cabinet's id counter preset just below its wrap-around.
// Task objects are de-pooled (keep_number_ = 0) in the ASan build only; the plain and TSan builds run the default recycling pool.
// Every odd-numbered task is submitted through the `const NonReturnFunc &` overloads (named lvalue functors), every even one through `&&`.
#include "sched/sched.h"
#include "sched/explore.h"
#include "sched/fake_loop.h"
#include "probe.h"
#include <tbox/eventx/thread_pool.cpp>     // included as source: gives access to ThreadPool::Data
#include <tbox/eventx/work_thread.cpp>
#include <condition_variable>
#include <atomic>

using namespace tbox;
using eventx::ThreadPool; using eventx::WorkThread;

#if defined(__SANITIZE_THREAD__)
#define VERIF_TSAN 1
#elif defined(__has_feature)
#if __has_feature(thread_sanitizer)
#define VERIF_TSAN 1
#endif
#endif
#ifndef VERIF_TSAN
#define VERIF_TSAN 0
#endif
VF_PROBE(all_threads_stop_flag) VF_PROBE(idle_thread_num) VF_PROBE(threads_cabinet) VF_PROBE(undo_tasks_cabinet) VF_PROBE(doing_tasks_token) VF_PROBE(stop_flag) VF_PROBE(undo_tasks_token_deque)
namespace {
const int MAXTASK = 8, REJ = MAXTASK - 1;      // slot REJ: submissions that must be refused
enum { BODY_PLAIN = 0, BODY_GATE = 1, BODY_REENTRANT = 2, BODY_THROW = 3 };
enum { CB_PLAIN = 0, CB_CHAIN = 1, CB_CLEANUP = 2 };       // what a completion callback does besides recording itself
struct Rec { bool accepted = false, has_cb = false; int prio = 0; int started = 0, finished = 0, cb = 0; int start_thr = -1, cb_thr = -1; long fin_seq = 0, cb_seq = 0, start_seq = 0; int cancel_ret = -1; cabinet::Token tok;
  int epoch = 0;           // life cycle (initialize..cleanup) of the pool in which the task was accepted
  bool dropped = false;    // a cleanup() RETURNED while the body had not started: it must never start
  int batch = 0;           // >0: queued together with the other tasks of the batch while the only worker was blocked (total pick order is known)
  int want_loop = 0, cb_loop = -1;
  bool gone = false;          // a cleanup() returned after the task was accepted: nothing of it can be waiting or executing any more
  bool claimed_exec = false;  // status said "executing" while the body had not started: it has to start
  int refused = 0;
  bool unordered = false; };  // submitted while another client thread was submitting too: the harness does not know which came first         // slot REJ: number of refused submissions   // which loop the completion callback belongs to / was run by
Rec R[MAXTASK]; std::atomic<long> g_seq(0);      // atomic: callbacks stamp it on the loop thread while bodies may be running (not a scheduling point)
 int g_running = 0, g_max_running = 0;
std::mutex *g_m; std::condition_variable *g_cv; bool g_gate_open = false;
ThreadPool *g_tp = nullptr; WorkThread *g_wt = nullptr;
bool g_concurrent_clients = false;
int g_min = 0, g_max = 1, g_epoch = 0, g_cur_loop = -1, g_next_cb = CB_PLAIN; unsigned g_waited_mask = 0;
bool g_in_cleanup = false; cabinet::Token g_cancel_target; bool g_in_cancel = false;

// The loop handed to the pool models the CONTRACT of the real Loop entry points (event/loop.h, CommonLoop::run): runInLoop() is the only entry a
// worker thread may use; runNext() is lock-free and loop-thread-only; run() resolves to runNext() unless the loop is running and the caller is a
// foreign thread. "Running" = the main thread is inside drain(). A worker reaching runNext() - directly or through run() while the loop is not
// running - is a violation. (Late posts after cleanup() are counted in both runInLoop overloads.)
struct Loop5 : FakeLoop {
  int id = 0; bool running = false;            // guarded by m
  bool notify_posts = false; std::condition_variable cvq;      // only scripts that must wait for a post switch this on (a notify is a scheduling point)
  void wait_posted() { std::unique_lock<std::mutex> lk(m); cvq.wait(lk, [this] { return !q.empty(); }); }
  std::vector<Func> nq; int nposted = 0;       // run-next queue: loop thread only, no lock - exactly as in CommonLoop
  bool isInLoopThread() override { return sched_self() == 0; }
  RunId runInLoop(Func &&f, const std::string &) override { std::lock_guard<std::mutex> g(m); if (closed_for_workers && sched_self() != 0) late_worker_posts++; q.push_back(std::move(f)); if (notify_posts) cvq.notify_all(); return ++posted; }
  RunId runInLoop(const Func &f, const std::string &) override { std::lock_guard<std::mutex> g(m); if (closed_for_workers && sched_self() != 0) late_worker_posts++; q.push_back(f); if (notify_posts) cvq.notify_all(); return ++posted; }
  RunId runNext(Func &&f, const std::string &) override {
    if (sched_self() != 0) sched_fail("worker-used-a-loop-thread-only-entry-point: runNext() reached from thread %d (directly, or through run() while the loop was not running)", sched_self());
    nq.push_back(std::move(f)); return 1000000 + ++nposted; }
  RunId runNext(const Func &f, const std::string &w) override { Func c(f); return runNext(std::move(c), w); }
  RunId run(Func &&f, const std::string &w) override {
    bool can_run_next; { std::lock_guard<std::mutex> g(m); can_run_next = !(running && sched_self() != 0); }
    return can_run_next ? runNext(std::move(f), w) : runInLoop(std::move(f), w); }
  RunId run(const Func &f, const std::string &w) override { Func c(f); return run(std::move(c), w); }
  size_t drain5() { size_t n = 0;      // same lock operations as FakeLoop::drain; `running` is cleared in the critical section that finds nothing left
    for (;;) { std::vector<Func> a, t; a.swap(nq); { std::lock_guard<std::mutex> g(m); t.swap(q); running = !(a.empty() && t.empty()); }
      if (a.empty() && t.empty()) break; for (auto &f : a) { f(); n++; } for (auto &f : t) { f(); n++; } }
    return n; }
};
Loop5 *g_loop = nullptr, *g_loopB = nullptr;
tbox::event::Loop *g_real = nullptr;     // scenarios 200+: the REAL epoll loop instead of the model
void drain(Loop5 *l) { if (!l) return; g_cur_loop = l->id; l->drain5(); g_cur_loop = -1; }
// one pass of the real loop on the main thread: a queued no-op makes it poll without sleeping; kOnce also drains the deferred calls on its way out
void run_real_once() { if (!g_real) return; g_cur_loop = 0; g_real->runNext([] {}, "C05 no-op"); g_real->runLoop(tbox::event::Loop::Mode::kOnce); g_cur_loop = -1; }
// the same without the no-op: the loop sleeps in epoll_wait until a worker's runInLoop() wakes it, runs what was handed in, and returns
void run_real_blocking_once() { g_cur_loop = 0; g_real->runLoop(tbox::event::Loop::Mode::kOnce); g_cur_loop = -1; }
void drain_all() { drain(g_loop); drain(g_loopB); run_real_once(); }

int clamp_level(int prio) { if (prio < THREAD_POOL_PRIO_MIN) prio = THREAD_POOL_PRIO_MIN; if (prio > THREAD_POOL_PRIO_MAX) prio = THREAD_POOL_PRIO_MAX; return prio - THREAD_POOL_PRIO_MIN; }   // 0 = picked first ("the smaller, the higher")

// ---- pick-order oracle, evaluated at every scheduling point on the waiting queues themselves ----
struct QSnap { int n[THREAD_POOL_PRIO_SIZE]; cabinet::Token t[THREAD_POOL_PRIO_SIZE][MAXTASK + 1]; bool valid = false; } g_prev;
void take(QSnap &s) {
  s.valid = true;
  if (g_tp) for (int i = 0; i < THREAD_POOL_PRIO_SIZE; i++) { auto &q = g_tp->d_->undo_tasks_token[i]; s.n[i] = 0; for (auto &x : q) if (s.n[i] <= MAXTASK) s.t[i][s.n[i]++] = x; }
  else { for (int i = 0; i < THREAD_POOL_PRIO_SIZE; i++) s.n[i] = 0; if (g_wt && g_wt->d_) for (auto &x : g_wt->d_->undo_tasks_token_deque) if (s.n[0] <= MAXTASK) s.t[0][s.n[0]++] = x; }
}
bool in_snap(const QSnap &s, const cabinet::Token &x) { for (int i = 0; i < THREAD_POOL_PRIO_SIZE; i++) for (int k = 0; k < s.n[i]; k++) if (s.t[i][k] == x) return true; return false; }
uint32_t on_point() {
  if (!g_tp && !(g_wt && g_wt->d_)) return 0;
  QSnap cur; take(cur);
  // which queue a waiting task sits in is decided by the model (its submitted priority), not by where the implementation put it
  if (g_tp) for (int i = 0; i < THREAD_POOL_PRIO_SIZE; i++) for (int k = 0; k < cur.n[i]; k++)
    for (int r = MAXTASK - 1; r >= 0; r--) if (R[r].accepted && R[r].tok == cur.t[i][k]) { if (clamp_level(R[r].prio) != i) sched_fail("priority-level: task %d (priority %d) waits in queue %d", r, R[r].prio, i); break; }
  if (g_prev.valid) {
    int hi = -1; for (int i = 0; i < THREAD_POOL_PRIO_SIZE; i++) if (g_prev.n[i] > 0) { hi = i; break; }
    for (int i = 0; i < THREAD_POOL_PRIO_SIZE; i++) for (int k = 0; k < g_prev.n[i]; k++) {
      const cabinet::Token &x = g_prev.t[i][k];
      if (in_snap(cur, x)) continue;
      bool head = (i == hi && k == 0);
      bool by_cancel = g_in_cancel && x == g_cancel_target;
      if (!head && !by_cancel && !g_in_cleanup) sched_fail("pick-order: a waiting task left the queue although it was not the head of the highest-priority queue");
    }
  }
  // first-in-first-out within a priority: tasks that stay in a waiting queue keep their relative order (a cancel must not reorder the rest)
  if (g_prev.valid) for (int i = 0; i < THREAD_POOL_PRIO_SIZE; i++) { int last = -1;
    for (int k = 0; k < g_prev.n[i]; k++) { int at = -1; for (int j = 0; j < cur.n[i]; j++) if (cur.t[i][j] == g_prev.t[i][k]) at = j; if (at < 0) continue;
      if (at < last) sched_fail("fifo-order: the waiting tasks of one priority were reordered"); last = at; } }
  g_prev = cur; return 0;
}
void dump() {     // diagnostics only: read through probes, so a renamed field degrades the dump instead of breaking the build
  if (g_tp) { auto &d = *g_tp->d_; sched_note("DUMP pool: stop_flag=%d idle=%d threads=%d undo=%d doing=%d", VF_GET(all_threads_stop_flag, d, -1), VF_GET(idle_thread_num, d, -1), VF_SIZE(threads_cabinet, d, -1), VF_SIZE(undo_tasks_cabinet, d, -1), VF_SIZE(doing_tasks_token, d, -1)); }
  if (g_wt && g_wt->d_) { auto &d = *g_wt->d_; sched_note("DUMP workthread: stop_flag=%d undo=%d doing=%d", VF_GET(stop_flag, d, -1), VF_SIZE(undo_tasks_token_deque, d, -1), VF_SIZE(doing_tasks_token, d, -1)); }
  for (int i = 0; i < MAXTASK; i++) if (R[i].accepted) sched_note("DUMP task%d epoch=%d started=%d finished=%d cb=%d cancel=%d", i, R[i].epoch, R[i].started, R[i].finished, R[i].cb, R[i].cancel_ret);
}
// experiment set-up through private fields, guarded: if a field is renamed the run degrades (and says so) instead of not compiling
template <class D> auto set_keep(D &d, size_t n, int) -> decltype((void)(d.task_pool.keep_number_ = n), true) { d.task_pool.keep_number_ = n; return true; }
template <class D> bool set_keep(D &, size_t, long) { sched_note("O task_pool.keep_number_-unavailable"); return false; }
template <class D> auto preset_id_wrap(D &d, int) -> decltype((void)(d.undo_tasks_cabinet.last_id_ = 0), true) { d.undo_tasks_cabinet.last_id_ = std::numeric_limits<decltype(d.undo_tasks_cabinet.last_id_)>::max() - 1; return true; }
template <class D> bool preset_id_wrap(D &, long) { sched_note("O cabinet.last_id_-unavailable"); return false; }
#if defined(__SANITIZE_ADDRESS__)
const bool kDepool = true;      // a finished/cancelled/dropped Task is really freed, so ASan sees any later use
#else
const bool kDepool = false;     // the recycling pool as shipped: a recycled block must be a fresh Task
#endif
template <class D> void setup_data(D &d, int variant) { if (variant == 1) set_keep(d, 1, 0); else if (kDepool) set_keep(d, 0, 0); if (variant == 2) preset_id_wrap(d, 0); }

void submit(int i, int prio, bool cb, int kind = BODY_PLAIN, Loop5 *explicit_loop = nullptr);
int status(int i);
void do_cleanup();

std::function<void()> body_of(int i, int kind) {
  return [i, kind] {
    { std::lock_guard<std::mutex> g(*g_m); R[i].started++; R[i].start_thr = sched_self(); R[i].start_seq = ++g_seq; g_running++; if (g_running > g_max_running) g_max_running = g_running; if (kind == BODY_GATE) g_cv->notify_all(); }
    if (kind == BODY_GATE) { std::unique_lock<std::mutex> lk(*g_m); g_cv->wait(lk, [] { return g_gate_open; }); }     // keeps its worker busy until the script opens the gate
    if (kind == BODY_REENTRANT) { submit(i + 1, 0, true); status(i + 1); }                                           // the pool is used from inside a task body (worker thread)
    { std::lock_guard<std::mutex> g(*g_m); R[i].finished++; R[i].fin_seq = ++g_seq; g_running--; g_cv->notify_all(); }
    if (kind == BODY_THROW) throw 1;      // the body has done its work and leaves by an exception: the worker must survive, finish its bookkeeping and hand the callback over
  };
}
std::function<void()> cb_of(int i, int kind = CB_PLAIN) { return [i, kind] { R[i].cb++; R[i].cb_thr = sched_self(); R[i].cb_seq = ++g_seq; R[i].cb_loop = g_cur_loop;
  if (kind == CB_CHAIN) { int keep = g_cur_loop; submit(i + 1, 0, true); status(i + 1); g_cur_loop = keep; }      // the usual idiom: the next task is chained from the completion callback (loop thread, loop draining)
  if (kind == CB_CLEANUP) do_cleanup(); }; }                                                                       // ... or the pool is shut down from it

void submit(int i, int prio, bool cb, int kind, Loop5 *explicit_loop) {
  R[i].prio = prio; R[i].has_cb = cb; R[i].epoch = g_epoch; R[i].want_loop = explicit_loop ? explicit_loop->id : 0;
  int cbk = g_next_cb; if (cbk != CB_PLAIN) g_next_cb = CB_PLAIN; R[i].unordered = g_concurrent_clients;
  if (i & 1) {       // `const &` overloads
    const std::function<void()> body = body_of(i, kind), done = cb_of(i, cbk);
    if (g_tp) R[i].tok = cb ? g_tp->execute(body, done, prio) : g_tp->execute(body, prio);
    else if (explicit_loop) R[i].tok = g_wt->execute(body, done, explicit_loop);
    else R[i].tok = cb ? g_wt->execute(body, done) : g_wt->execute(body);
  } else {           // `&&` overloads
    if (g_tp) R[i].tok = cb ? g_tp->execute(body_of(i, kind), cb_of(i, cbk), prio) : g_tp->execute(body_of(i, kind), prio);
    else if (explicit_loop) R[i].tok = g_wt->execute(body_of(i, kind), cb_of(i, cbk), explicit_loop);
    else R[i].tok = cb ? g_wt->execute(body_of(i, kind), cb_of(i, cbk)) : g_wt->execute(body_of(i, kind));
  }
  R[i].accepted = !R[i].tok.isNull();
  if (!R[i].accepted) sched_fail("execute-rejected task %d", i);
}
// an object that is not ready (not yet initialised, or cleaned up) must refuse the task - a null token - and the body must never start
void submit_refused(const char *when) {
  cabinet::Token t = g_tp ? g_tp->execute(body_of(REJ, BODY_PLAIN), cb_of(REJ), 0) : g_wt->execute(body_of(REJ, BODY_PLAIN), cb_of(REJ));
  sched_note("O refused(%s)=%d", when, (int)t.isNull());
  if (!t.isNull()) sched_fail("execute-accepted-a-task-although-the-object-is-not-ready (%s)", when);
  R[REJ].refused++;
}
int status(int i) {
  int started_before, exec_before; { std::lock_guard<std::mutex> g(*g_m); started_before = R[i].started; exec_before = R[i].started > R[i].finished; }
  int st = g_tp ? (int)g_tp->getTaskStatus(R[i].tok) : (int)g_wt->getTaskStatus(R[i].tok);
  int started_now, finished_now; { std::lock_guard<std::mutex> g(*g_m); started_now = R[i].started; finished_now = R[i].finished; }
  sched_note("O status%d=%d", i, st);
  // the body was running before the question and is still running after the answer: "executing" is the only answer that agrees with history
  if (exec_before && !finished_now && st != 1) sched_fail("status-%d-while-the-body-was-executing task %d", st, i);
  if (st == 1 && !started_now) R[i].claimed_exec = true;      // picked but not started yet: it has to start
  // the other direction: a task whose body had already started before the question was asked is not "waiting" any more
  if (st == 0 && started_before > 0) sched_fail("status-waiting-but-already-started task %d", i);
  // a task that a completed cleanup() dropped is never going to run: neither "waiting" nor "executing" agrees with that history
  if (st != 2 && R[i].dropped) sched_fail("status-%d-for-a-task-dropped-by-cleanup task %d", st, i);
  if (st != 2 && R[i].gone) sched_fail("status-%d-for-a-task-of-a-life-cycle-that-cleanup-ended task %d", st, i);
  // kNotFound can only be a correct answer for a task that has already been started (or was cancelled):
  if (st == 2 && started_now == 0 && R[i].cancel_ret != 0 && !R[i].dropped) {
    // it must never start later; we wait for it below (wait_task) - remember the claim
    sched_note("claim-notfound %d", i);
    R[i].cancel_ret = -2;   // marker: answered not-found while not started
  }
  return st;
}
int cancel(int i) {
  int exec_before; { std::lock_guard<std::mutex> g(*g_m); exec_before = R[i].started > R[i].finished; }
  g_cancel_target = R[i].tok; g_in_cancel = true;
  int r = g_tp ? g_tp->cancel(R[i].tok) : g_wt->cancel(R[i].tok);
  g_in_cancel = false;
  int started_now, finished_now; { std::lock_guard<std::mutex> g(*g_m); started_now = R[i].started; finished_now = R[i].finished; }
  sched_note("O cancel%d=%d", i, r);
  if (exec_before && !finished_now && r != 2) sched_fail("cancel-%d-while-the-body-was-executing task %d", r, i);
  // nothing of an ended life cycle is waiting or executing: "not found" (work thread after cleanup: 3, "cleaned up") is the only answer that agrees
  if (R[i].gone && !(r == 1 || (g_wt && r == 3))) sched_fail("cancel-%d-for-a-task-of-a-life-cycle-that-cleanup-ended task %d", r, i);
  if (r == 0) R[i].cancel_ret = 0;
  else if (r == 1 && started_now == 0 && !R[i].dropped) R[i].cancel_ret = -3;   // "not found (already executed)" for a task that has not started
  else R[i].cancel_ret = r;
  return r;
}
void wait_task(int i) {     // blocks (scheduler-visible) until task i has finished; a task that never runs shows up as a deadlock
  if (R[i].cancel_ret == 0) return;
  std::unique_lock<std::mutex> lk(*g_m); g_cv->wait(lk, [i] { return R[i].finished > 0; });
}
void expect_status(int i, int want, const char *why) { int st = status(i); if (st != want) sched_fail("status-%d-expected-%d task %d (%s)", st, want, i, why); }
void expect_cancel(int i, int want, const char *why) { int r = cancel(i); if (r != want) sched_fail("cancel-%d-expected-%d task %d (%s)", r, want, i, why); }
// single worker and a LATER task has run: the worker (or its predecessor) is done with task i, "not found" is the only answer that agrees with history
void late_check(int i) {
  if (g_max != 1) return;
  int st = g_tp ? (int)g_tp->getTaskStatus(R[i].tok) : (int)g_wt->getTaskStatus(R[i].tok), c = g_tp ? g_tp->cancel(R[i].tok) : g_wt->cancel(R[i].tok); sched_note("O late-status%d=%d late-cancel%d=%d", i, st, i, c);
  if (st != 2 || c != 1) sched_fail("finished task %d is reported status=%d cancel=%d after a later task ran on the only worker", i, st, c);
}
void mark_waited() { g_waited_mask |= 1u << g_epoch; }
void wait_started(int i) { std::unique_lock<std::mutex> lk(*g_m); g_cv->wait(lk, [i] { return R[i].started > 0; }); }
void open_gate() { std::lock_guard<std::mutex> g(*g_m); g_gate_open = true; g_cv->notify_all(); }
void snapshot_check() {
  if (!g_tp) return; auto s = g_tp->snapshot();
  if ((int)s.thread_num > g_max) sched_fail("snapshot: thread_num %zu exceeds max %d", s.thread_num, g_max);
}
// "cleanup ... joins every worker": once it has returned no worker may use the pool or the loop any more and no task body is running or will
// start. (A retiring worker that has already handed its thread object to the loop may still be returning from its thread function - DESIGN 1.7 -
// but it must not post again; it is joined by the closure it posted, so after draining the loop nothing but the main thread is alive.)
void cleanup_begins() { g_in_cleanup = true; g_epoch++; }
void cleanup_returned(const char *how) {
  g_loop->closed_for_workers = true; if (g_loopB) g_loopB->closed_for_workers = true;
  std::lock_guard<std::mutex> g(*g_m);
  for (int i = 0; i < MAXTASK; i++) if (R[i].accepted) {
    if (R[i].started > R[i].finished) sched_fail("%s returned while the body of task %d was still running", how, i);
    if (!R[i].started) R[i].dropped = true;
    R[i].gone = true; }
}
void do_cleanup() { cleanup_begins(); if (g_tp) g_tp->cleanup(); else if (g_wt) g_wt->cleanup(); cleanup_returned("cleanup()"); }
void all_joined(const char *when) { drain_all(); int n = sched_unfinished_others(); if (n) sched_fail("%d worker thread(s) still alive %s", n, when); }
void reopen() { g_in_cleanup = false; g_loop->closed_for_workers = false; if (g_loopB) g_loopB->closed_for_workers = false; }

void final_oracle(int waited_epoch) {      // waited_epoch: the life cycle whose tasks the script waited for (-1: none)
  all_joined("after cleanup returned and the loop was drained");
  if (waited_epoch >= 0) g_waited_mask |= 1u << waited_epoch;
  if (R[REJ].started || R[REJ].cb) sched_fail("a task that was refused (null token) ran: started=%d callback=%d", R[REJ].started, R[REJ].cb);
  for (int i = 0; i < MAXTASK; i++) { Rec &r = R[i]; if (!r.accepted) continue;
    if (r.started > 1 || r.finished > 1) sched_fail("task %d executed %d times", i, r.started);
    if (r.started && r.start_thr == 0) sched_fail("task %d body ran on the loop thread", i);
    if (r.dropped && r.started) sched_fail("task %d started after cleanup had returned", i);
    if (r.cancel_ret == 0 && r.started) sched_fail("cancel-success-but-ran task %d", i);
    if (r.cancel_ret == -2 && r.started) sched_fail("status-notfound-but-ran-later task %d", i);
    if (r.cancel_ret == -3 && r.started) sched_fail("cancel-notfound-but-ran-later task %d", i);
    if (r.cancel_ret == 2 && !r.started) sched_fail("cancel-said-executing-but-never-ran task %d", i);
    if (r.claimed_exec && !r.started) sched_fail("status-said-executing-but-never-started task %d", i);
    for (int j = 0; j < i; j++) if (R[j].accepted && R[j].tok == r.tok) sched_fail("tasks %d and %d were given the same token", j, i);
    if (((g_waited_mask >> r.epoch) & 1) && r.cancel_ret != 0 && r.finished != 1) sched_fail("task %d accepted, not cancelled, cleanup not begun, but executed %d times", i, r.finished);
    if (r.cb > 1) sched_fail("completion callback of task %d ran %d times", i, r.cb);
    if (r.cb && !r.finished) sched_fail("completion callback of task %d ran although the body did not finish", i);
    if (r.cb && r.cb_thr != 0) sched_fail("completion callback of task %d ran on a worker thread", i);
    if (r.cb && r.cb_seq < r.fin_seq) sched_fail("completion callback of task %d ran before the body returned", i);
    if (r.cb && !r.has_cb) sched_fail("task %d was submitted without a completion callback but one ran", i);
    if (r.finished && r.has_cb && r.cb != 1) sched_fail("task %d finished but its completion callback ran %d times", i, r.cb);
    if (r.cb && r.cb_loop != r.want_loop) sched_fail("completion callback of task %d ran on loop %d, not on its own loop %d", i, r.cb_loop, r.want_loop);
    sched_note("O t%d:s%d,f%d,c%d", i, r.started, r.finished, r.cb);
  }
  // with a single worker the body start order IS the pick order: same priority => submission order (tasks are numbered in submission order)
  if (g_max == 1) for (int i = 0; i < MAXTASK; i++) for (int j = i + 1; j < MAXTASK; j++) if (R[i].started && R[j].started && R[i].epoch == R[j].epoch && R[i].prio == R[j].prio && !(R[i].unordered && R[j].unordered) && R[i].start_seq > R[j].start_seq) sched_fail("fifo-order: task %d (same priority, submitted earlier) started after task %d", i, j);
  // tasks of one batch were all waiting while the only worker was busy: they start by priority (smaller first), then in submission order
  if (g_max == 1) for (int i = 0; i < MAXTASK; i++) for (int j = 0; j < MAXTASK; j++) if (i != j && R[i].batch && R[i].batch == R[j].batch && R[i].started && R[j].started) {
    bool i_first = clamp_level(R[i].prio) < clamp_level(R[j].prio) || (clamp_level(R[i].prio) == clamp_level(R[j].prio) && i < j);
    if (i_first && R[i].start_seq > R[j].start_seq) sched_fail("priority-order: task %d (priority %d) started after task %d (priority %d) although both were waiting", i, R[i].prio, j, R[j].prio); }
  int late = g_loop->late_worker_posts + (g_loopB ? g_loopB->late_worker_posts : 0);
  if (late) sched_fail("worker-used-the-loop-after-cleanup-returned (%d posts)", late);
  if (g_max_running > g_max) sched_fail("%d task bodies ran concurrently, max is %d", g_max_running, g_max);
}

// the scripts; return the life cycle whose tasks were all waited for (-1: none)
int pool_script(int scen, ThreadPool &tp, Loop5 &loop) {
  int waited = -1;
  switch (scen) {
    case 0: submit(0, 0, true); status(0); break;                                               // submit, query, cleanup at once
    case 1: submit(0, 0, true); submit(1, -1, false); cancel(1); status(0); wait_task(0); wait_task(1); waited = g_epoch; drain(&loop); break;
    case 2: submit(0, 0, true); submit(1, 0, false); submit(2, -1, true); snapshot_check(); wait_task(0); wait_task(1); wait_task(2); waited = g_epoch; drain(&loop); snapshot_check(); break;
    case 3: submit(0, 0, true); wait_task(0); drain(&loop); submit(1, 0, true);                   // worker retirement, then a new worker (task 1 re-uses the cabinet slot of task 0)
            status(0); cancel(0);                                                                 // the stale token of the finished task: answers must not alias task 1
            wait_task(1); waited = g_epoch;
            late_check(0);
            break;
    case 4: submit(0, 1, false); submit(1, 0, false); status(1); cancel(0); break;                      // cancel/status racing with the pick, then cleanup
    case 5: do_cleanup(); all_joined("after the first cleanup"); submit_refused("after cleanup"); reopen(); if (!tp.initialize(g_min, g_max)) sched_fail("re-initialize failed"); submit(0, 0, true); wait_task(0); waited = g_epoch; break;   // cleanup then re-initialise
    case 6: submit(0, 0, false); submit(1, -1, false); submit(2, 0, false); break;                // queue then cleanup: pending tasks dropped, never run twice
    case 7: submit(0, 0, false); submit(1, 0, false); submit(2, 0, false); submit(3, 0, false); cancel(1); wait_task(0); wait_task(1); wait_task(2); wait_task(3); waited = g_epoch; break;   // three same-priority waiters, cancel in the middle
    case 8: {   // life cycles: initialize on a ready pool, cleanup with queued/executing work, re-initialise with FEWER resident workers (the default min 0), stale tokens
      bool again = tp.initialize(g_min, g_max); sched_note("O init-while-ready=%d", (int)again);
      snapshot_check(); if (g_min == g_max && sched_unfinished_others() > g_max) sched_fail("%d workers alive after a second initialize(), max is %d", sched_unfinished_others(), g_max);
      submit(0, 2, true); submit(1, -2, false);      // lowest and highest priority level: cleanup must empty every queue
      do_cleanup(); all_joined("after the first cleanup"); submit_refused("after cleanup"); reopen();
      if (!tp.initialize(0, g_max)) sched_fail("re-initialize failed");
      submit(2, 0, true); status(1); status(0); cancel(0); cancel(1);      // tokens of the ended life cycle: answers are pinned in status()/cancel(), and they must not hit task 2
      wait_task(2); waited = g_epoch; snapshot_check(); break; }
    case 9:    // second cleanup() in a row, refused submission in between, three life cycles on one object
      submit(0, 0, true); wait_task(0); mark_waited();
      do_cleanup(); do_cleanup(); all_joined("after the first cleanup"); submit_refused("after two cleanups"); reopen();
      if (!tp.initialize(0, g_max)) sched_fail("re-initialize failed"); submit(1, 0, false); wait_task(1); mark_waited();
      do_cleanup(); all_joined("after the second life cycle"); reopen();
      if (!tp.initialize(g_min, g_max)) sched_fail("third initialize failed"); submit(2, -1, true); status(0); cancel(1); wait_task(2); waited = g_epoch; break;
    case 10: submit(0, 0, true, BODY_REENTRANT); wait_task(0); wait_task(1); waited = g_epoch; break;   // body 0 submits task 1 and asks for its status from the worker
    case 11:   // gate: the only worker is held inside task 0 while six tasks with boundary / out-of-range priorities queue up; both the clamped and the raw reading give -9,-2,2,7.
               // While the gate is closed history is fully known, so every answer is pinned: task 0 executing, the others waiting, cancel of a waiter succeeds (both boundary levels).
      submit(0, 0, false, BODY_GATE); wait_started(0);
      submit(1, 2, false); submit(2, 7, true); submit(3, -9, false); submit(4, -2, true); submit(5, 2, false); submit(6, -2, true); for (int i = 1; i <= 6; i++) R[i].batch = 1;
      expect_status(0, 1, "body is blocked in the gate"); expect_cancel(0, 2, "body is blocked in the gate");
      for (int i = 1; i <= 6; i++) expect_status(i, 0, "the only worker is busy");
      expect_cancel(5, 0, "waiting at the lowest priority level"); expect_cancel(6, 0, "waiting at the highest priority level");
      open_gate(); for (int i = 0; i <= 6; i++) wait_task(i); waited = g_epoch; break;
    case 12:   // two client threads at once: body 0 (a worker) submits and queries task 1 while the main thread submits, cancels and takes a snapshot
      g_concurrent_clients = true; submit(0, 0, true, BODY_REENTRANT); submit(2, 0, false); cancel(2); snapshot_check(); wait_task(0); wait_task(1); wait_task(2); waited = g_epoch; break;
    case 13:   // a body that throws: the worker survives, the next task runs, the thrower's token is forgotten, its callback comes at most once
      submit(0, 0, true, BODY_THROW); submit(1, 0, true); wait_task(0); wait_task(1); waited = g_epoch; late_check(0); break;
    case 14:   // the completion callback of task 0 (loop thread, while the loop drains) submits task 1 and asks for its status
      loop.notify_posts = true; g_next_cb = CB_CHAIN; submit(0, 0, true); wait_task(0);
      while (!R[0].cb) { loop.wait_posted(); drain(&loop); }      // blocks until a worker has handed something in; a callback that never comes is a deadlock
      wait_task(1); waited = g_epoch; break;
    case 15:   // the completion callback of task 0 calls cleanup() while task 1 is waiting / executing / done
      loop.notify_posts = true; g_next_cb = CB_CLEANUP; submit(0, 0, true); submit(1, 0, true); wait_task(0);
      while (!R[0].cb) { loop.wait_posted(); drain(&loop); }
      break;
    default: sched_fail("no such pool script %d", scen);
  }
  return waited;
}
int wt_script(int scen, Loop5 &loopB) {
  int waited = -1;
  switch (scen) {
    case 100: submit(0, 0, true); status(0); break;
    case 101: submit(0, 0, true); submit(1, 0, false); cancel(1); status(0); wait_task(0); wait_task(1); waited = g_epoch; break;
    case 102: submit(0, 0, false); submit(1, 0, true); submit(2, 0, false); wait_task(2); wait_task(0); wait_task(1); waited = g_epoch; break;
    case 103: submit(0, 0, true, BODY_PLAIN, &loopB); submit(1, 0, true); submit(2, 0, true, BODY_PLAIN, &loopB); submit(3, 0, true, BODY_PLAIN, &loopB); cancel(2); wait_task(0); wait_task(1); wait_task(2); wait_task(3); waited = g_epoch; break;   // explicit per-task loop next to the default loop
    case 104: submit(0, 0, true, BODY_REENTRANT); wait_task(0); wait_task(1); waited = g_epoch; break;   // body 0 submits task 1 from the worker
    case 105: submit(0, 0, true, BODY_PLAIN, &loopB); submit(1, 0, false); wait_task(1); waited = g_epoch; break;   // no default loop at all: the explicit loop gets the callback
    case 106: submit(0, 0, true, BODY_THROW); submit(1, 0, true); wait_task(0); wait_task(1); waited = g_epoch; late_check(0); break;   // a body that throws
    case 107:   // operations on a work thread that has been cleaned up: refused submission, status / cancel of its old tokens, a second cleanup()
      submit(0, 0, true); submit(1, 0, false); do_cleanup(); all_joined("after cleanup"); submit_refused("after cleanup"); status(0); status(1); cancel(1); cancel(0); do_cleanup(); break;
    default: sched_fail("no such work thread script %d", scen);
  }
  return waited;
}

void scenario(int scen) {
  int variant = scen / 1000; scen %= 1000;      // 1: keep_number_ = 1, 2: cabinet id counter about to wrap
  std::mutex m; std::condition_variable cv; g_m = &m; g_cv = &cv;
  Loop5 loop, loopB; loop.id = 0; loopB.id = 1; g_loop = &loop;
  sched_on_deadlock(dump);
#if !VERIF_TSAN
  sched_on_point(on_point);   // the hook reads pool internals from whichever thread is at the point: meaningless (and reported) under TSan
#endif
  int waited = -1;
  if (scen < 100) {
    bool dtor_only = scen >= 50; int script = dtor_only ? scen - 50 : scen;
    ThreadPool *tp = new ThreadPool(&loop); g_tp = tp;
    setup_data(*tp->d_, variant);
    if (script == 8) { submit_refused("before initialize");   // arguments outside the documented domain must not start workers (max 0, min > max, negative)
      bool a = tp->initialize(2, 1), b = tp->initialize(0, 0), c = tp->initialize(-1, 1); sched_note("O invalid-init=%d%d%d", (int)a, (int)b, (int)c);
      if (sched_unfinished_others()) sched_fail("initialize() with invalid arguments started %d worker(s)", sched_unfinished_others()); }
    if (!tp->initialize(g_min, g_max)) sched_fail("initialize failed");
    waited = pool_script(script, *tp, loop);
    if (dtor_only) {   // the destructor is the cleanup: it must do everything cleanup() promises
      cleanup_begins(); sched_on_point(nullptr); delete tp; g_tp = nullptr; cleanup_returned("the destructor"); final_oracle(waited);
    } else { do_cleanup(); final_oracle(waited); g_tp = nullptr; delete tp; }
  } else if (scen >= 200) {
    // The REAL epoll loop under the scheduler (and under TSan): the loop is NOT inside runLoop() while the bodies finish and the workers hand their
    // completion callbacks over; the main thread then enters the loop while a worker may still be at it, cleans up, and runs the loop again.
    tbox::event::Loop *rl = tbox::event::Loop::New("epoll"); if (!rl) sched_fail("no epoll loop"); g_real = rl;
    if (scen == 200) {
      ThreadPool *tp = new ThreadPool(rl); g_tp = tp; setup_data(*tp->d_, variant);
      if (!tp->initialize(g_min, g_max)) sched_fail("initialize failed");
      submit(0, 0, true); submit(1, 0, true); wait_task(0); wait_task(1); waited = g_epoch;
      run_real_once(); do_cleanup(); final_oracle(waited); g_tp = nullptr; delete tp;
    } else if (scen == 202) {   // the callback of task 0, run by the real loop (which first sleeps until the worker's runInLoop() wakes it), submits task 1 and asks for its status
      ThreadPool *tp = new ThreadPool(rl); g_tp = tp; setup_data(*tp->d_, variant);
      if (!tp->initialize(g_min, g_max)) sched_fail("initialize failed");
      g_next_cb = CB_CHAIN; submit(0, 0, true); wait_task(0); run_real_blocking_once();
      if (!R[0].cb) sched_fail("the real loop woke up and returned without running the completion callback of task 0"); wait_task(1); waited = g_epoch;
      run_real_once(); do_cleanup(); final_oracle(waited); g_tp = nullptr; delete tp;
    } else {
      WorkThread *wt = new WorkThread(rl); g_wt = wt; setup_data(*wt->d_, variant);
      submit(0, 0, true); submit(1, 0, true); wait_task(0); wait_task(1); waited = g_epoch;
      run_real_once(); do_cleanup(); g_wt = nullptr; delete wt; final_oracle(waited);
    }
    g_real = nullptr; delete rl;
  } else {
    bool dtor_only = scen >= 150; int script = dtor_only ? scen - 50 : scen;
    if (script == 103 || script == 105) g_loopB = &loopB;
    WorkThread *wt = new WorkThread(script == 105 ? nullptr : &loop); g_wt = wt;
    setup_data(*wt->d_, variant);
    waited = wt_script(script, loopB);
    if (dtor_only) { cleanup_begins(); sched_on_point(nullptr); delete wt; g_wt = nullptr; cleanup_returned("the destructor"); }
    else { do_cleanup(); g_wt = nullptr; delete wt; }
    final_oracle(waited);
  }
  sched_on_point(nullptr);
}
}  // namespace

int main(int argc, char **argv) {
  int scen = argc > 1 ? atoi(argv[1]) : 0; g_min = argc > 2 ? atoi(argv[2]) : 1; g_max = argc > 3 ? atoi(argv[3]) : 1; int bound = argc > 4 ? atoi(argv[4]) : 1;
  sx::Explorer ex; char nm[64]; snprintf(nm, sizeof nm, "scen%d(min%d,max%d)", scen, g_min, g_max); ex.name = nm;
  ex.body = [scen] { scenario(scen); };
  ex.workers = getenv("VERIF_WORKERS") ? atoi(getenv("VERIF_WORKERS")) : 4;
  ex.deadline_s = sx::now_s() + (getenv("VERIF_DEADLINE_S") ? atof(getenv("VERIF_DEADLINE_S")) : 600);
  if (argc > 6 && !strcmp(argv[5], "--replay")) { ex.replay(sx::parse_picks(argv[6])); return 0; }
  ex.explore(bound);
  return 0;
}
