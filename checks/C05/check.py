import time, vf
PID = "C05"
H = vf.VERIF + "/checks/C05/harness.cpp"
SCHED = [vf.VERIF + "/engine/sched/sched.cpp", vf.VERIF + "/engine/sched/log_stub.cpp"]
REPO_SRCS = ["base/catch_throw.cpp", "base/backtrace.cpp", "event"]      # event: the real epoll loop of scenarios 200/201
# (scenario, min, max).  Scripts (harness.cpp): 0 submit+status, 1 cancel, 2 three tasks two priorities, 3 retirement + stale token of a finished task,
# 4 cancel/status racing the pick, 5 cleanup idle pool then re-initialise, 6 queue then cleanup, 7 cancel in the middle of one priority,
# 8 initialize on a ready pool / invalid arguments / cleanup with queued+executing work / re-initialise with min 0 / stale tokens,
# 10 a task body submits and queries another task, 11 gate: boundary and out-of-range priorities queue up behind a busy single worker,
# 50+k = script k ended by the destructor instead of cleanup().
POOL = [(0,0,1),(0,1,1),(0,1,2),(1,1,1),(1,0,1),(1,0,2),(2,1,1),(2,0,2),(2,2,2),(3,0,1),(3,0,2),(4,1,1),(4,0,2),(5,1,1),(5,0,1),(6,1,1),(6,0,2),(7,1,1),(7,0,1),
        (8,1,1),(8,0,1),(8,0,2),(8,2,2),(10,0,1),(10,1,1),(10,0,2),(11,1,1),(11,0,1),(50,0,1),(56,1,1),(56,0,2)]
# work thread: 100..102 as 0..2, 103 explicit per-task loop next to the default loop, 104 body submits a task, 105 no default loop, 150+k = destructor only
WT = [(100,0,1),(101,0,1),(102,0,1),(103,0,1),(104,0,1),(105,0,1),(150,0,1),(151,0,1)]
# 200 / 201: pool / work thread handing completion callbacks to the REAL epoll loop while it is not running, then the loop runs
REAL = [(200,0,2),(200,1,1),(201,0,1)]
HALF_DEADLINE = {(8,0,2),(8,2,2),(10,0,2),(56,0,2)}      # large at the thorough bounds: they get half the deadline so the tier's wall time stays bounded
SPUR = {"s0_0_1", "s0_1_2", "s2_1_1", "s6_1_1", "s8_0_1", "s100_0_1", "s102_0_1"}      # configurations of the spurious-wake-up lane
def cmds(exe, bound, tagp, only, dl):
    order = sorted(POOL + WT + REAL, key=lambda s: (-s[2], s[0]))      # two-worker configurations first (longest jobs first)
    c = [("%s:s%d_%d_%d" % ((tagp,) + s), [exe, str(s[0]), str(s[1]), str(s[2]), str(bound)],
          {"VERIF_DEADLINE_S": str(dl // 2)} if (s in HALF_DEADLINE and dl > 200) else None) for s in order]
    return [x for x in c if not only or x[0].split(":")[1] == only]
def main(tier, args):
    t0 = time.time()
    srcs = vf.module_sources(*REPO_SRCS)
    plain = vf.build("C05/sched_plain", [H], srcs, mode="plain", plain_srcs=SCHED)
    asan = vf.build("C05/sched_asan", [H], srcs, mode="asan", plain_srcs=SCHED)
    tsan = vf.build("C05/sched_tsan", [H], srcs, mode="tsan", plain_srcs=SCHED)
    bp, ba, bt, dl = (2, 1, 1, 100) if tier == "quick" else (3, 2, 2, 1200)
    res = vf.Result(); log = open(vf.BUILD + "/C05/log.txt", "w")
    env = {"VERIF_DEADLINE_S": str(dl), "VERIF_WORKERS": "4"}
    vf.run_procs(res, cmds(plain, bp, "plain", args.only, dl), env=env, log=log, jobs=6)
    # spurious condition-variable wake-ups as one extra deviation (engine option SCHED_SPURIOUS): a wait that lost its predicate shows here only
    spur = [c for c in cmds(plain, 1 if tier == "quick" else 2, "spur", args.only, dl) if c[0].split(":")[1] in SPUR]
    vf.run_procs(res, spur, env=dict(env, SCHED_SPURIOUS="1"), log=log, jobs=6)
    vf.run_procs(res, cmds(asan, ba, "asan", args.only, dl), env=env, log=log, jobs=6)
    vf.run_procs(res, cmds(tsan, bt, "tsan", args.only, dl), env=dict(env, TSAN_OPTIONS="report_signal_unsafe=0:exitcode=0"), log=log, jobs=6)
    vf.finish(PID, tier, res, t0,
              rule="stateless DFS over all interleavings at mutex/condvar/thread operations of the real ThreadPool/WorkThread, fork per execution, "
                   "%d scenario x (min,max) configurations (scripts of initialize [also on a ready pool and with invalid arguments], execute through both the && and the const& overloads "
                   "with priorities -9..7 incl. both boundary levels, getTaskStatus/cancel [also with the stale token of a finished or dropped task], snapshot, loop drain, "
                   "a task body that itself submits and queries a task, cleanup with queued/executing work followed by re-initialisation with fewer resident workers, "
                   "cleanup() or the destructor alone as the end; WorkThread with default, explicit per-task and no default loop; pool and work thread handing callbacks to the REAL epoll loop while it is not running); "
                   "preemptions+deviations <= %d (plain build), <= %d (ASan/UBSan build, task objects de-pooled), <= %d (ThreadSanitizer under the scheduler: every explored schedule is race-checked); 7 configurations again with one spurious condition-variable wake-up per execution as a further deviation kind (bound 1 quick, 2 thorough); "
                   "a state = one complete schedule; outcomes = distinct (answers, per-task counts). Oracle per schedule against the harness's own record of accepted/started/finished/cancelled: "
                   "exactly-once on a worker, callback once on its loop's thread after the body, answers consistent in both directions, pick order by (priority, submission) decided from the submitted priorities, "
                   "a worker reaches the loop only through runInLoop (run() resolves to the loop-thread-only runNext() while the loop is not draining), bodies <= max, nothing runs or starts and no thread other than main is alive once cleanup()/destructor returned and the loop was drained, no worker post after that return; deadlock/horizon = violation"
                   % (len(POOL + WT + REAL), bp, ba, bt),
              assumptions=["sync points = pthread mutex/cond/create/join (cpp-tbox uses no atomics here)",
                           "a model loop stands in for the event loop except in scenarios 200/201 (runInLoop = locked queue drained on the main thread, runNext = unlocked loop-thread-only queue, run = runNext unless the loop is draining and the caller is foreign - the contract of CommonLoop); two instances where a task names its own loop",
                           "a task picked but not yet started when cleanup begins may still run (DESIGN 1.7); what is demanded is that nothing starts after cleanup returned",
                           "priorities outside [-2,2] are only submitted in an order for which clamping and raw ordering give the same pick order",
                           "the per-scheduling-point pick-order hook reads the waiting queues of the implementation and is compiled out of the TSan build; the start-order oracles in single-worker configurations do not depend on it"])
