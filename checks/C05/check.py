import time, vf
PID = "C05"
H = vf.VERIF + "/checks/C05/harness.cpp"
SCHED = [vf.VERIF + "/engine/sched/sched.cpp", vf.VERIF + "/engine/sched/log_stub.cpp"]
REPO_SRCS = ["base/catch_throw.cpp", "base/backtrace.cpp"]
# (scenario, min, max)
POOL = [(0,0,1),(0,1,1),(0,1,2),(1,1,1),(1,0,1),(1,0,2),(2,1,1),(2,0,2),(2,2,2),(3,0,1),(3,0,2),(4,1,1),(4,0,2),(5,1,1),(5,0,1),(6,1,1),(6,0,2),(7,1,1),(7,0,1)]
WT = [(100,0,1),(101,0,1),(102,0,1)]
def cmds(exe, bound, tagp, only):
    c = [("%s:s%d_%d_%d" % ((tagp,) + s), [exe, str(s[0]), str(s[1]), str(s[2]), str(bound)]) for s in POOL + WT]
    return [x for x in c if not only or x[0].split(":")[1] == only]
def main(tier, args):
    t0 = time.time()
    srcs = vf.module_sources(*REPO_SRCS)
    plain = vf.build("C05/sched_plain", [H], srcs, mode="plain", plain_srcs=SCHED)
    asan = vf.build("C05/sched_asan", [H], srcs, mode="asan", plain_srcs=SCHED)
    tsan = vf.build("C05/sched_tsan", [H], srcs, mode="tsan", plain_srcs=SCHED)
    bp, ba, bt, dl = (2, 1, 1, 100) if tier == "quick" else (3, 2, 2, 1200)
    res = vf.Result(); log = open(vf.BUILD + "/C05/log.txt", "w")
    env = {"VERIF_DEADLINE_S": str(dl), "VERIF_WORKERS": "4"}
    vf.run_procs(res, cmds(plain, bp, "plain", args.only), env=env, log=log, jobs=6)
    vf.run_procs(res, cmds(asan, ba, "asan", args.only), env=env, log=log, jobs=6)
    vf.run_procs(res, cmds(tsan, bt, "tsan", args.only), env=dict(env, TSAN_OPTIONS="report_signal_unsafe=0:exitcode=0"), log=log, jobs=6)
    vf.finish(PID, tier, res, t0,
              rule="stateless DFS over all interleavings at mutex/condvar/thread operations of the real ThreadPool/WorkThread, fork per execution, "
                   "%d scenario x (min,max) configurations; preemptions+deviations <= %d (plain build), <= %d (ASan/UBSan build), <= %d (ThreadSanitizer under the scheduler: every explored schedule is race-checked); "
                   "a state = one complete schedule; outcomes = distinct (answers, per-task counts)" % (len(POOL + WT), bp, ba, bt),
              assumptions=["sync points = pthread mutex/cond/create/join (cpp-tbox uses no atomics here)",
                           "FakeLoop stands in for the event loop (runInLoop = locked queue drained on the main thread)"])
