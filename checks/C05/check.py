import time, vf
PID = "C05"
H = vf.VERIF + "/checks/C05/harness.cpp"
SCHED = [vf.VERIF + "/engine/sched/sched.cpp", vf.VERIF + "/engine/sched/log_stub.cpp"]
REPO_SRCS = ["base/catch_throw.cpp", "base/backtrace.cpp", "event"]      # event: the real epoll loop of scenarios 200/201
# (scenario, min, max).  Scripts (harness.cpp): 0 submit+status, 1 cancel, 2 three tasks two priorities, 3 retirement + stale token of a finished task,
# 4 cancel/status racing the pick, 5 cleanup idle pool then re-initialise, 6 queue then cleanup, 7 cancel in the middle of one priority,
# 8 initialize on a ready pool / invalid arguments / cleanup with queued+executing work / re-initialise with min 0 / stale tokens,
# 9 second cleanup() in a row / refused submission / three life cycles, 10 a task body submits and queries another task,
# 11 gate: boundary and out-of-range priorities queue up behind a busy single worker, every status/cancel answer pinned, waiters at both boundary levels cancelled,
# 12 two client threads at once (a worker's body and main), 13 a body that throws, 14 completion callback submits + queries, 15 completion callback calls cleanup(),
# 50+k = script k ended by the destructor instead of cleanup().
POOL = [(0,0,1),(0,1,1),(0,1,2),(1,1,1),(1,0,1),(1,0,2),(2,1,1),(2,0,2),(2,2,2),(3,0,1),(3,0,2),(4,1,1),(4,0,2),(5,1,1),(5,0,1),(6,1,1),(6,0,2),(7,1,1),(7,0,1),
        (8,1,1),(8,0,1),(8,0,2),(8,2,2),(9,1,1),(9,0,2),(10,0,1),(10,1,1),(10,0,2),(11,1,1),(11,0,1),(12,1,1),(12,0,2),(13,1,1),(13,0,1),(14,0,1),(14,0,2),(15,1,1),(15,0,2),
        (50,0,1),(56,1,1),(56,0,2),(58,0,2),
        (1003,0,1),(1007,1,1),(1008,0,1),      # 1000+k: script k with ObjectPool keep_number_ = 1 (one block recycled, the next really freed)
        (2002,1,1)]                             # 2000+k: script k with the task cabinet's id counter preset one below its wrap-around
# work thread: 100..102 as 0..2, 103 explicit per-task loop next to the default loop, 104 body submits a task, 105 no default loop, 106 a body that throws,
# 107 refused submission / status / cancel / second cleanup() on a cleaned-up work thread, 150+k = destructor only
WT = [(100,0,1),(101,0,1),(102,0,1),(103,0,1),(104,0,1),(105,0,1),(106,0,1),(107,0,1),(150,0,1),(151,0,1)]
# 200 / 201: pool / work thread handing completion callbacks to the REAL epoll loop while it is not running, then the loop runs
# 202: the real loop sleeps until the worker wakes it, then task 0's completion callback submits and queries task 1
REAL = [(200,0,2),(200,1,1),(201,0,1),(202,0,1)]
HALF_DEADLINE = {(8,0,2),(8,2,2),(10,0,2),(56,0,2),(58,0,2),(12,0,2),(15,0,2)}      # large at the thorough bounds: they get half the deadline so the tier's wall time stays bounded
# quick tier only: the plain-build bound of the one configuration that used to take as long as all others together (>100k schedules at bound 2, it hit its deadline on a busy machine);
# min=max=2 is still searched at bound 2 through script 8, and the thorough tier is unchanged
QUICK_PLAIN_BOUND = {(2,2,2): 1}
SPUR = {"s0_0_1", "s0_1_2", "s2_1_1", "s6_1_1", "s8_0_1", "s100_0_1", "s102_0_1"}      # configurations of the spurious-wake-up lane
def cmds(exe, bound, tagp, only, dl, cap=None):
    order = sorted(POOL + WT + REAL, key=lambda s: (-s[2], s[0]))      # two-worker configurations first (longest jobs first)
    c = [("%s:s%d_%d_%d" % ((tagp,) + s), [exe, str(s[0]), str(s[1]), str(s[2]), str(min(bound, (cap or {}).get(s, bound)))],
          {"VERIF_DEADLINE_S": str(dl // 2)} if (s in HALF_DEADLINE and dl > 200) else None) for s in order]
    return [x for x in c if not only or x[0].split(":")[1] == only]
def main(tier, args):
    t0 = time.time()
    srcs = vf.module_sources(*REPO_SRCS)
    plain = vf.build("C05/sched_plain", [H], srcs, mode="plain", plain_srcs=SCHED)
    asan = vf.build("C05/sched_asan", [H], srcs, mode="asan", plain_srcs=SCHED)
    tsan = vf.build("C05/sched_tsan", [H], srcs, mode="tsan", plain_srcs=SCHED)
    bp, ba, bt, dl = (2, 1, 1, 100) if tier == "quick" else (3, 2, 2, 1200)
    res = vf.Result(); log = open(vf.BUILD + "/C05/log.txt", "w")
    env = {"VERIF_DEADLINE_S": str(dl), "VERIF_WORKERS": "4"}
    vf.run_procs(res, cmds(plain, bp, "plain", args.only, dl, QUICK_PLAIN_BOUND if tier == "quick" else None), env=env, log=log, jobs=6)
    # spurious condition-variable wake-ups as one extra deviation (engine option SCHED_SPURIOUS): a wait that lost its predicate shows here only
    spur = [c for c in cmds(plain, 1 if tier == "quick" else 2, "spur", args.only, dl) if c[0].split(":")[1] in SPUR]
    vf.run_procs(res, spur, env=dict(env, SCHED_SPURIOUS="1"), log=log, jobs=6)
    vf.run_procs(res, cmds(asan, ba, "asan", args.only, dl), env=env, log=log, jobs=6)
    vf.run_procs(res, cmds(tsan, bt, "tsan", args.only, dl), env=dict(env, TSAN_OPTIONS="report_signal_unsafe=0:exitcode=0"), log=log, jobs=6)
    vf.finish(PID, tier, res, t0,
              rule="stateless DFS over all interleavings at mutex/condvar/thread operations of the real ThreadPool/WorkThread, fork per execution, "
                   "%d scenario x (min,max) configurations (scripts of initialize [also on a ready pool and with invalid arguments], execute through both the && and the const& overloads "
                   "with priorities -9..7 incl. both boundary levels, execute on an object that is not ready (before initialize, after cleanup: must be refused), getTaskStatus/cancel [also with the token of a finished or dropped task or of an ended life cycle, and of waiting tasks at both boundary levels], snapshot, loop drain, "
                   "a task body that itself submits and queries a task - also while the main thread submits/cancels/snapshots -, a body that throws, a completion callback that submits and queries the next task or calls cleanup(), "
                   "cleanup with queued/executing work followed by re-initialisation with fewer resident workers, cleanup() twice, three life cycles, "
                   "cleanup() or the destructor alone as the end; WorkThread with default, explicit per-task and no default loop; pool and work thread handing callbacks to the REAL epoll loop while it is not running or asleep; ObjectPool recycling as shipped in the plain/TSan builds, keep_number_=1 in three configurations; cabinet id counter preset to its wrap-around in one); "
                   "preemptions+deviations <= %d (plain build; quick tier: <= 1 for script 2 with min=max=2), <= %d (ASan/UBSan build, task objects de-pooled), <= %d (ThreadSanitizer under the scheduler: every explored schedule is race-checked); 7 configurations again with one spurious condition-variable wake-up per execution as a further deviation kind (bound 1 quick, 2 thorough); "
                   "a state = one complete schedule; outcomes = distinct (answers, per-task counts). Oracle per schedule against the harness's own record of accepted/started/finished/cancelled: "
                   "exactly-once on a worker, callback once on its loop's thread after the body, answers consistent in both directions (never waiting once started, never not-found/executing wrongly while the body provably runs or after cleanup ended the life cycle, executing => it starts; every answer pinned while a gate holds the only worker), a refused task never runs, tokens distinct, pick order by (priority, submission) decided from the submitted priorities, "
                   "a worker reaches the loop only through runInLoop (run() resolves to the loop-thread-only runNext() while the loop is not draining), bodies <= max, nothing runs or starts and no thread other than main is alive once cleanup()/destructor returned and the loop was drained, no worker post after that return; deadlock/horizon = violation"
                   % (len(POOL + WT + REAL), bp, ba, bt),
              assumptions=["sync points = pthread mutex/cond/create/join (cpp-tbox uses no atomics here)",
                           "a model loop stands in for the event loop except in scenarios 200/201 (runInLoop = locked queue drained on the main thread, runNext = unlocked loop-thread-only queue, run = runNext unless the loop is draining and the caller is foreign - the contract of CommonLoop); two instances where a task names its own loop",
                           "a task picked but not yet started when cleanup begins may still run (DESIGN 1.7); what is demanded is that nothing starts after cleanup returned",
                           "priorities outside [-2,2] are only submitted in an order for which clamping and raw ordering give the same pick order",
                           "the per-scheduling-point pick-order hook reads the waiting queues of the implementation and is compiled out of the TSan build; the start-order oracles in single-worker configurations do not depend on it"])
