// C07: util::Buffer against a std::deque<uint8_t> reference, BFS over op histories (engine H).
// argv: <initial capacity> <depth> <max live bytes>
#include "hist/hist.h"
#include "probe.h"
#include <tbox/util/buffer.h>
#include <cstdint>
#include <deque>
#include <memory>
using tbox::util::Buffer;
VF_PROBE(buffer_size_) VF_PROBE(read_index_) VF_PROBE(write_index_) VF_PROBE(buffer_ptr_)   // private fields feed the state key only

struct Op { int k, a; };
static const char *kNames[] = {"appX","appY","rsvX","rsv1X","fetchX","readX","readAllX","shrinkX","X=Y","X=mvY","swap","resetX",
                               "cpctor","Y=X","fetchY","X=X","mvctor","shrinkY","readY","overWrittenX","reserveHugeX","reserveOnlyX"};
enum { APPX, APPY, RSVX, RSV1X, FETCHX, READX, READALLX, SHRINKX, XEQY, XMVY, SWAP, RESETX, CPCTOR, YEQX, FETCHY, XEQX, MVCTOR, SHRINKY, READY, OVERW, RSVHUGE, RSVONLY, NK };
static const int sizes_small[] = {0, 1, 2, 3, 5};
static const int sizes_big[] = {0, 1, 100, 255, 256, 257, 600};
static const int sizes_huge[] = {0, 1, 65535, 65536, 65537};         // lane "huge": sizes around 2^16       // lane "big": default-constructed buffers (kInitialSize = 256)
static const int HUGE_ = -2;                                           // stands for (size_t)-1 in consume / commit requests

int main(int argc, char **argv) {
  bool big = argc > 1 && !strcmp(argv[1], "big"), huge = argc > 1 && !strcmp(argv[1], "huge"); if (huge) big = true;     // huge = big lane with sizes around 2^16
  size_t cap = argc > 1 ? atoi(argv[1]) : 0; size_t depth = argc > 2 ? atoi(argv[2]) : 6; size_t maxlive = argc > 3 ? atoi(argv[3]) : 12;
  std::vector<int> sizes(big ? std::begin(sizes_big) : std::begin(sizes_small), big ? std::end(sizes_big) : std::end(sizes_small));
  if (huge) sizes.assign(std::begin(sizes_huge), std::end(sizes_huge));
  hx::install_crash_reporter("C07-crash");
  hx::Explorer<Op> ex;
  ex.name = huge ? std::string("huge") : big ? std::string("big") : "cap" + std::to_string(cap);
  ex.deadline_s = hx::deadline_from_env(600);
  ex.show = [](const Op &o) { char b[32]; snprintf(b, 32, "%s(%d)", kNames[o.k], o.a); return std::string(b); };
  ex.menu = [&](const std::vector<Op> &) {
    std::vector<Op> m;
    for (int k : {APPX, APPY, RSVX, RSV1X, FETCHX, READX, FETCHY, READY}) for (int a : sizes) m.push_back({k, a});
    m.push_back({APPX, -1}); m.push_back({APPY, -1});       // exactly the free space
    m.push_back({READX, HUGE_}); m.push_back({READY, HUGE_});   // consume request of (size_t)-1: clamped like any over-long one
    for (int a : {1, 5, HUGE_}) m.push_back({OVERW, a});      // fill the free space, then commit that much + a: clamped to the free space
    m.push_back({FETCHX, HUGE_}); m.push_back({FETCHY, HUGE_}); // fetch request of (size_t)-1 into a block of exactly the readable size
    for (int a : {0, 1, 2}) m.push_back({RSVHUGE, a});         // reserve requests whose doubling cannot be represented: refused, nothing changes
    for (int a : {1, 5}) m.push_back({RSVONLY, a});            // reserve without writing or committing anything
    for (int k : {READALLX, SHRINKX, XEQY, XMVY, SWAP, RESETX, CPCTOR, YEQX, XEQX, MVCTOR, SHRINKY}) m.push_back({k, 0});
    return m; };
  ex.run = [&](const std::vector<Op> &h, std::string &viol) {
    std::unique_ptr<Buffer> xp(big ? new Buffer() : new Buffer(cap)), yp(big ? new Buffer() : new Buffer(cap)); Buffer &X = *xp, &Y = *yp;
    std::deque<uint8_t> mx, my; uint8_t ctr = 1; uint8_t tmp[1024];
    auto next = [&]() { uint8_t c = ctr; ctr = ctr >= 251 ? 1 : ctr + 1; return c; };     // never 0, period 251 (a period-256 shift cannot hide)
    size_t wx = 0, rx = 0, wy = 0, ry = 0;   // bytes written / consumed per buffer (size law)
    auto chk = [&](Buffer &b, std::deque<uint8_t> &m, const char *n) {
      if (b.readableSize() != m.size()) { viol = std::string("size-mismatch ") + n; return; }
      for (size_t i = 0; i < m.size(); i++) if (b.readableBegin()[i] != m[i]) { viol = std::string("content-mismatch ") + n; return; } };
    auto app = [&](Buffer &b, std::deque<uint8_t> &m, int a) {
      size_t n = a < 0 ? b.writableSize() : (size_t)a; if (m.size() + n > maxlive) return;
      std::unique_ptr<uint8_t[]> src(new uint8_t[n]);          // exact-size heap source: ASan sees a read past the n bytes given
      for (size_t i = 0; i < n; i++) { src[i] = next(); m.push_back(src[i]); }
      if (b.append(src.get(), n) != n) viol = "append-return"; };
    auto fetch = [&](Buffer &b, std::deque<uint8_t> &m, int a) {
      if (a == HUGE_) { size_t have = m.size(); std::unique_ptr<uint8_t[]> d2(new uint8_t[have]);       // over-long request: clamped to what is readable
        size_t n2 = b.fetch(d2.get(), (size_t)-1); if (n2 != have) { viol = "fetch-count"; return; }
        for (size_t i = 0; i < n2; i++) { if (d2[i] != m.front()) viol = "fetch-content"; m.pop_front(); } return; }
      std::unique_ptr<uint8_t[]> dst(new uint8_t[a]);          // exact-size heap destination: ASan sees a write past the a bytes asked for
      memset(dst.get(), 0, a); size_t n = b.fetch(dst.get(), a); size_t e = std::min<size_t>(a, m.size());
      if (n != e) { viol = "fetch-count"; return; }
      for (size_t i = 0; i < n; i++) { if (dst[i] != m.front()) viol = "fetch-content"; m.pop_front(); }
      for (size_t i = n; i < (size_t)a; i++) if (dst[i] != 0) viol = "fetch-wrote-more-than-it-returned"; };
    auto hasread = [&](Buffer &b, std::deque<uint8_t> &m, int a) {   // over-long hasRead discards everything (documented clamp)
      size_t req = a == HUGE_ ? (size_t)-1 : (size_t)a;
      size_t e = std::min<size_t>(req, m.size()); b.hasRead(req); if (req > e) m.clear(); else for (size_t i = 0; i < e; i++) m.pop_front(); };
    for (auto &o : h) {
      switch (o.k) {
        case APPX: app(X, mx, o.a); break;
        case APPY: app(Y, my, o.a); break;
        case RSVX: case RSV1X: { size_t n = o.a, r = n + (o.k == RSV1X ? 1 : 0); if (mx.size() + n > maxlive) break;
          if (!X.ensureWritableSize(r)) { viol = "ensure-false"; break; }
          if (X.writableSize() < r) { viol = "ensure-too-small"; break; }
          if (r > 0 && X.writableBegin() == nullptr) { viol = "writableBegin-null"; break; }
          for (size_t i = 0; i < n; i++) { uint8_t c = next(); X.writableBegin()[i] = c; mx.push_back(c); } X.hasWritten(n); } break;
        case RSVHUGE: { static const size_t REQ[3] = {(size_t)-1, (size_t)-2, ((size_t)-1 >> 1) + 1};
          size_t r0 = X.readableSize(), w0 = X.writableSize();
          if (X.ensureWritableSize(REQ[o.a])) { viol = "reserve-of-unrepresentable-size-reported-as-satisfied"; break; }
          if (X.readableSize() != r0 || X.writableSize() != w0) { viol = "refused-reserve-changed-the-buffer"; break; } } break;
        case RSVONLY: { if (!X.ensureWritableSize((size_t)o.a)) { viol = "ensure-false"; break; } if (X.writableSize() < (size_t)o.a) { viol = "ensure-too-small"; break; } } break;
        case OVERW: { size_t w = X.writableSize(); if (mx.size() + w > maxlive) break;       // over-long commit: clamped to what is writable
          for (size_t i = 0; i < w; i++) { uint8_t c = next(); X.writableBegin()[i] = c; mx.push_back(c); }
          X.hasWritten(o.a == HUGE_ ? (size_t)-1 : w + (size_t)o.a);
          if (X.writableSize() != 0) viol = "over-long-commit-leaves-writable-space"; } break;
        case FETCHX: fetch(X, mx, o.a); break;
        case FETCHY: fetch(Y, my, o.a); break;
        case READX: hasread(X, mx, o.a); break;
        case READY: hasread(Y, my, o.a); break;
        case READALLX: X.hasReadAll(); mx.clear(); break;
        case SHRINKX: X.shrink(); break;
        case SHRINKY: Y.shrink(); break;
        case XEQY: X = Y; mx = my; break;
        case YEQX: Y = X; my = mx; break;
        case XEQX: { Buffer &r = X; X = r; Buffer &r2 = X; X = std::move(r2); X.swap(r2); } break;   // self copy-assign, move-assign and swap are no-ops
        case XMVY: X = std::move(Y); mx = my; my.clear(); if (Y.readableSize() != 0) viol = "moved-from-not-empty"; break;
        case SWAP: X.swap(Y); mx.swap(my); break;
        case RESETX: X.reset(); mx.clear(); if (X.readableSize() != 0 || X.writableSize() != 0) viol = "reset-not-empty"; break;
        case CPCTOR: { Buffer Z(X); std::deque<uint8_t> mz = mx;          // copy must be independent of its source
          if (mx.size() + 2 <= maxlive) { app(X, mx, 2); }
          X.hasRead(1); if (!mx.empty()) mx.pop_front();
          chk(Z, mz, "copy-after-source-mutation"); if (!viol.empty()) break;
          uint8_t z = 0xEE; mz.push_back(z); Z.append(&z, 1); Z.hasRead(1); mz.pop_front();     // the copy is mutated (a fresh clone has no spare room: grow path)
          chk(Z, mz, "copy-after-own-mutation"); if (!viol.empty()) break;
          chk(X, mx, "source-after-copy-mutation"); } break;
        case MVCTOR: { Buffer Z(std::move(X)); if (X.readableSize() != 0) { viol = "moved-from-not-empty"; break; }
          uint8_t z = 0x77; if (X.append(&z, 1) != 1 || X.readableSize() != 1 || *X.readableBegin() != 0x77) { viol = "moved-from-not-reusable"; break; }
          X = std::move(Z); } break;
      }
      if (!viol.empty()) break;
      chk(X, mx, "X"); if (!viol.empty()) break;
      chk(Y, my, "Y"); if (!viol.empty()) break;
      // index invariant through the public API only: a wrapped writableSize()/readableSize() is what write_index_ > buffer_size_ / read_index_ > write_index_ look like
      if (X.writableSize() > ((size_t)1 << 40) || Y.writableSize() > ((size_t)1 << 40) || X.readableSize() > ((size_t)1 << 40) || Y.readableSize() > ((size_t)1 << 40)) { viol = "index-invariant"; break; }
    }
    (void)wx; (void)rx; (void)wy; (void)ry;
    // key: the private geometry if the fields still exist under these names (probe.h), plus what the public API shows; when a field is missing
    // the last three ops are appended so that states the key can no longer tell apart are not merged
    char c[260]; const uint8_t *np = nullptr;
    snprintf(c, sizeof c, "%zu,%zu,%zu,%d,%zu,%zu|%zu,%zu,%zu,%d,%zu,%zu", VF_GET(buffer_size_, X, (size_t)0), VF_GET(read_index_, X, (size_t)0), VF_GET(write_index_, X, (size_t)0),
             VF_GET(buffer_ptr_, X, np) != nullptr, X.readableSize(), X.writableSize(),
             VF_GET(buffer_size_, Y, (size_t)0), VF_GET(read_index_, Y, (size_t)0), VF_GET(write_index_, Y, (size_t)0), VF_GET(buffer_ptr_, Y, np) != nullptr, Y.readableSize(), Y.writableSize());
    std::string key(c);
    if (vf_any_missing()) for (size_t i = h.size() >= 3 ? h.size() - 3 : 0; i < h.size(); i++) { char b[32]; snprintf(b, sizeof b, "/%d:%d", h[i].k, h[i].a); key += b; }
    return key;
  };
  ex.explore(depth);
  return 0;
}
