// C07: util::Buffer against a std::deque<uint8_t> reference, BFS over op histories (engine H).
// argv: <initial capacity> <depth> <max live bytes>
#include "hist/hist.h"
#include <tbox/util/buffer.h>
#include <cstdint>
#include <deque>
using tbox::util::Buffer;

struct Op { int k, a; };
static const char *kNames[] = {"appX","appY","rsvX","rsv1X","fetchX","readX","readAllX","shrinkX","X=Y","X=mvY","swap","resetX",
                               "cpctor","Y=X","fetchY","X=X","mvctor","shrinkY","readY"};
enum { APPX, APPY, RSVX, RSV1X, FETCHX, READX, READALLX, SHRINKX, XEQY, XMVY, SWAP, RESETX, CPCTOR, YEQX, FETCHY, XEQX, MVCTOR, SHRINKY, READY, NK };
static const int sizes[] = {0, 1, 2, 3, 5};

int main(int argc, char **argv) {
  size_t cap = argc > 1 ? atoi(argv[1]) : 0; size_t depth = argc > 2 ? atoi(argv[2]) : 6; size_t maxlive = argc > 3 ? atoi(argv[3]) : 12;
  hx::install_crash_reporter("C07-crash");
  hx::Explorer<Op> ex;
  ex.name = "cap" + std::to_string(cap);
  ex.deadline_s = hx::deadline_from_env(600);
  ex.show = [](const Op &o) { char b[32]; snprintf(b, 32, "%s(%d)", kNames[o.k], o.a); return std::string(b); };
  ex.menu = [&](const std::vector<Op> &) {
    std::vector<Op> m;
    for (int k : {APPX, APPY, RSVX, RSV1X, FETCHX, READX, FETCHY, READY}) for (int a : sizes) m.push_back({k, a});
    m.push_back({APPX, -1}); m.push_back({APPY, -1});       // exactly the free space
    for (int k : {READALLX, SHRINKX, XEQY, XMVY, SWAP, RESETX, CPCTOR, YEQX, XEQX, MVCTOR, SHRINKY}) m.push_back({k, 0});
    return m; };
  ex.run = [&](const std::vector<Op> &h, std::string &viol) {
    Buffer X(cap), Y(cap); std::deque<uint8_t> mx, my; uint8_t ctr = 1; uint8_t tmp[64];
    size_t wx = 0, rx = 0, wy = 0, ry = 0;   // bytes written / consumed per buffer (size law)
    auto chk = [&](Buffer &b, std::deque<uint8_t> &m, const char *n) {
      if (b.readableSize() != m.size()) { viol = std::string("size-mismatch ") + n; return; }
      for (size_t i = 0; i < m.size(); i++) if (b.readableBegin()[i] != m[i]) { viol = std::string("content-mismatch ") + n; return; } };
    auto app = [&](Buffer &b, std::deque<uint8_t> &m, int a) {
      size_t n = a < 0 ? b.writableSize() : (size_t)a; if (m.size() + n > maxlive || n > sizeof tmp) return;
      for (size_t i = 0; i < n; i++) { tmp[i] = ctr; m.push_back(ctr++); }
      if (b.append(tmp, n) != n) viol = "append-return"; };
    auto fetch = [&](Buffer &b, std::deque<uint8_t> &m, int a) {
      memset(tmp, 0, sizeof tmp); size_t n = b.fetch(tmp, a); size_t e = std::min<size_t>(a, m.size());
      if (n != e) { viol = "fetch-count"; return; }
      for (size_t i = 0; i < n; i++) { if (tmp[i] != m.front()) viol = "fetch-content"; m.pop_front(); } };
    auto hasread = [&](Buffer &b, std::deque<uint8_t> &m, int a) {   // over-long hasRead discards everything (documented clamp)
      size_t e = std::min<size_t>(a, m.size()); b.hasRead(a); if ((size_t)a > e) m.clear(); else for (size_t i = 0; i < e; i++) m.pop_front(); };
    for (auto &o : h) {
      switch (o.k) {
        case APPX: app(X, mx, o.a); break;
        case APPY: app(Y, my, o.a); break;
        case RSVX: case RSV1X: { size_t n = o.a, r = n + (o.k == RSV1X ? 1 : 0); if (mx.size() + n > maxlive) break;
          if (!X.ensureWritableSize(r)) { viol = "ensure-false"; break; }
          if (X.writableSize() < r) { viol = "ensure-too-small"; break; }
          if (r > 0 && X.writableBegin() == nullptr) { viol = "writableBegin-null"; break; }
          for (size_t i = 0; i < n; i++) { X.writableBegin()[i] = ctr; mx.push_back(ctr++); } X.hasWritten(n); } break;
        case FETCHX: fetch(X, mx, o.a); break;
        case FETCHY: fetch(Y, my, o.a); break;
        case READX: hasread(X, mx, o.a); break;
        case READY: hasread(Y, my, o.a); break;
        case READALLX: X.hasReadAll(); mx.clear(); break;
        case SHRINKX: X.shrink(); break;
        case SHRINKY: Y.shrink(); break;
        case XEQY: X = Y; mx = my; break;
        case YEQX: Y = X; my = mx; break;
        case XEQX: { Buffer &r = X; X = r; Buffer &r2 = X; X = std::move(r2); } break;   // self copy- and move-assign are no-ops
        case XMVY: X = std::move(Y); mx = my; my.clear(); if (Y.readableSize() != 0) viol = "moved-from-not-empty"; break;
        case SWAP: X.swap(Y); mx.swap(my); break;
        case RESETX: X.reset(); mx.clear(); if (X.readableSize() != 0 || X.writableSize() != 0) viol = "reset-not-empty"; break;
        case CPCTOR: { Buffer Z(X); std::deque<uint8_t> mz = mx;          // copy must be independent of its source
          if (mx.size() + 2 <= maxlive) { app(X, mx, 2); }
          X.hasRead(1); if (!mx.empty()) mx.pop_front();
          chk(Z, mz, "copy-after-source-mutation"); if (!viol.empty()) break;
          uint8_t z = 0xEE; Z.append(&z, 1); Z.hasRead(1); if (!mz.empty()) mz.pop_front(); mz.size() ? (void)0 : (void)0;
          if (!mz.empty() || true) { /* Z mutated; X must be unaffected */ }
          chk(X, mx, "source-after-copy-mutation"); } break;
        case MVCTOR: { Buffer Z(std::move(X)); if (X.readableSize() != 0) { viol = "moved-from-not-empty"; break; }
          uint8_t z = 0x77; if (X.append(&z, 1) != 1 || X.readableSize() != 1 || *X.readableBegin() != 0x77) { viol = "moved-from-not-reusable"; break; }
          X = std::move(Z); } break;
      }
      if (!viol.empty()) break;
      chk(X, mx, "X"); if (!viol.empty()) break;
      chk(Y, my, "Y"); if (!viol.empty()) break;
      if (X.write_index_ > X.buffer_size_ || X.read_index_ > X.write_index_ || Y.write_index_ > Y.buffer_size_ || Y.read_index_ > Y.write_index_) { viol = "index-invariant"; break; }
    }
    (void)wx; (void)rx; (void)wy; (void)ry;
    char c[160]; snprintf(c, sizeof c, "%zu,%zu,%zu|%zu,%zu,%zu", X.buffer_size_, X.read_index_, X.write_index_, Y.buffer_size_, Y.read_index_, Y.write_index_);
    return std::string(c);
  };
  ex.explore(depth);
  return 0;
}
