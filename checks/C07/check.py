import time, vf
PID = "C07"
def main(tier, args):
    t0 = time.time()
    exe = vf.build("C07/buffer", [vf.VERIF + "/checks/C07/harness.cpp"], vf.module_sources("util/buffer.cpp"), mode="asan")
    depth, live, dl = (6, 12, 100) if tier == "quick" else (8, 20, 1500)
    res = vf.Result()
    log = open(vf.BUILD + "/C07/log.txt", "w")
    vf.run_procs(res, [("cap%d" % c, [exe, str(c), str(depth), str(live)]) for c in (0, 1, 2, 3, 4, 8)],
                 env={"VERIF_DEADLINE_S": str(dl)}, log=log)
    vf.finish(PID, tier, res, t0,
              rule="BFS over all op histories (19 op kinds x sizes {0,1,2,3,5,exact-free}) on two real util::Buffer objects, "
                   "depth<=%d, <=%d live bytes, initial capacity in {0,1,2,3,4,8}; state = (capacity,read,write index) of both buffers; "
                   "oracle = std::deque reference after every op + ASan/UBSan" % (depth, live),
              assumptions=["byte values are not part of the canonical state (Buffer has no data-dependent control flow)",
                           "allocation failure (new returning nullptr) is not modelled"])
