import time, vf
PID = "C07"
def main(tier, args):
    t0 = time.time()
    exe = vf.build("C07/buffer", [vf.VERIF + "/checks/C07/harness.cpp"], vf.module_sources("util/buffer.cpp"), mode="asan")
    depth, live, dl = (6, 12, 100) if tier == "quick" else (8, 20, 1500)
    res = vf.Result()
    log = open(vf.BUILD + "/C07/log.txt", "w")
    # lane "big": default-constructed buffers (kInitialSize 256), sizes around 256 and up to 600, shallow
    bigd = 3 if tier == "quick" else 4
    vf.run_procs(res, [("cap%d" % c, [exe, str(c), str(depth), str(live)]) for c in (0, 1, 2, 3, 4, 8)] + [("big", [exe, "big", str(bigd), "1500"]), ("huge", [exe, "huge", "2" if tier == "quick" else "3", "300000"])],
                 env={"VERIF_DEADLINE_S": str(dl)}, log=log)
    vf.finish(PID, tier, res, t0,
              rule="BFS over all op histories (22 op kinds; sizes {0,1,2,3,5,exact-free}; consume and commit requests also over-long and (size_t)-1) on two real util::Buffer objects, "
                   "depth<=%d, <=%d live bytes, initial capacity in {0,1,2,3,4,8}; lane 'big': default-constructed buffers, sizes {0,1,100,255,256,257,600}, depth<=%d, <=1500 live bytes; lane 'huge': sizes {0,1,65535,65536,65537}, depth 2 (thorough 3); reserve requests of SIZE_MAX, SIZE_MAX-1 and 2^63 (must be refused without effect), reserve without commit, fetch of (size_t)-1; "
                   "state = (capacity,read,write index) of both buffers; "
                   "oracle = std::deque reference after every op (also for the mutated copy) + ASan/UBSan with exact-size heap source/destination blocks for append/fetch" % (depth, live, bigd),
              assumptions=["byte values are not part of the canonical state (Buffer has no data-dependent control flow)",
                           "allocation failure (new returning nullptr) is not modelled"])
