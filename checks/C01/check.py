import time, vf
PID = "C01"
HS = vf.VERIF + "/checks/C01/sched_harness.cpp"
NSCEN = 13
HH = vf.VERIF + "/checks/C01/hist_harness.cpp"
SCHED = [vf.VERIF + "/engine/sched/sched.cpp", vf.VERIF + "/engine/sched/log_stub.cpp"]
STUB = [vf.VERIF + "/engine/sched/log_stub.cpp"]
def main(tier, args):
    t0 = time.time()
    srcs = vf.module_sources("event")
    plain = vf.build("C01/sched_plain", [HS], srcs, mode="plain", plain_srcs=SCHED)
    asan = vf.build("C01/sched_asan", [HS], srcs, mode="asan", plain_srcs=SCHED)
    tsan = vf.build("C01/sched_tsan", [HS], srcs, mode="tsan", plain_srcs=SCHED)
    hist = vf.build("C01/hist_asan", [HH], srcs, mode="asan", plain_srcs=STUB)
    res = vf.Result(); log = open(vf.BUILD + "/C01/log.txt", "w")
    bp, ba, bt, depth, sdepth, dl = (2, 1, 1, 4, 3, 90) if tier == "quick" else (3, 2, 2, 6, 4, 1200)
    jobs = []
    for e in ("epoll", "select"):
        jobs.append(("hist:%s" % e, [hist, e, str(depth), str(sdepth)]))
        for s in range(NSCEN):
            jobs.append(("plain:%s_s%d" % (e, s), [plain, e, str(s), str(bp)]))
            jobs.append(("asan:%s_s%d" % (e, s), [asan, e, str(s), str(ba)]))
            jobs.append(("tsan:%s_s%d" % (e, s), [tsan, e, str(s), str(bt)]))
    # longest jobs first (measured): plain scenarios 4, 7, 2, then the history searches
    heavy = {"plain:epoll_s4": 0, "plain:select_s4": 0, "plain:epoll_s7": 1, "plain:select_s7": 1, "plain:epoll_s2": 2, "plain:select_s2": 2, "hist:epoll": 3, "hist:select": 3}
    jobs.sort(key=lambda j: heavy.get(j[0], 9))
    if args.only: jobs = [j for j in jobs if j[0].split(":")[1] == args.only or j[0] == args.only]
    env = {"VERIF_DEADLINE_S": str(dl), "VERIF_WORKERS": "3", "TSAN_OPTIONS": "report_signal_unsafe=0:exitcode=0"}
    vf.run_procs(res, jobs, env=env, log=log, jobs=6)
    vf.finish(PID, tier, res, t0,
              rule="(S) stateless DFS over all interleavings of 1-2 submitting threads with the real loop's start/iteration/exit/re-run/destruction on both back-ends, "
                   "sync points = recursive mutex, eventfd read/write, epoll_wait/select; preemption bound %d (plain), %d (ASan), %d (TSan on every schedule); deadlock with queued work = lost wake-up. "
                   "9 scenarios: foreign runInLoop (both overloads) before/while/after the loop runs, exit + re-run (2 and 3 runs), submissions around exit; "
                   "scenario 6 = a loop-thread callable of a loop that stays alive submits runInLoop + a runNext->runNext chain and the submitter waits for all of them before it offers any further wake-up; "
                   "scenario 7 = loop-thread runInLoop/runNext immediately cancelled (cancel must return true, callable never runs, second cancel false) while a foreign thread submits; "
                   "scenario 8 = foreign run(Func&&), run(const Func&) and runInLoop(const Func&) into a running, possibly sleeping loop, each awaited before the next wake-up source. "
                   "(H) BFS over all single-thread histories of runNext/runInLoop/run (alternating Func&& / const Func& overloads) with 8 callable behaviours (spawn child via either entry point, "
                   "4-generation chain runNext->runInLoop->plain, cancel following/previous/own id in batch, exit), cancel(id), loop passes (forever/once), explicit cleanup() between passes, then destruction; depth %d, "
                   "canonical state = queue contents + wake-up flag + status of the cancellable handles. Model oracles: exactly once unless cancel returned true, order per entry point, nothing submitted before the stop "
                   "is pending after runLoop() returned, and the loop never goes to sleep (blocking epoll_wait/select with nothing ready) while the model still owes a callable. "
                   "Size lanes: for N in {1,99,100,101,102,201,1000} a BFS of depth %d over {a callable that submits N callables through its own entry point, N callables submitted from outside "
                   "(runNext / runInLoop), exit, cancel, pass forever/once, cleanup(), destruction}: N callables of ONE generation pending at stop / cleanup / destruction" % (bp, ba, bt, depth, sdepth),
              assumptions=["cross-thread submission uses runInLoop, or run() while the loop is known to be running and cannot be stopped by anyone else (loop.h documents run() as the auto-selecting entry point); exitLoop/cancel/cleanup are issued on the loop thread (DESIGN 1.7)",
                           "an idle loop in the single-threaded history harness receives an exit request (interposed epoll_wait/select) - after the model has confirmed that nothing is owed",
                           "callables re-submit through at most 4 generations and at most 1000 callables are pending in one generation (the shutdown drain is documented as bounded to 100 generations, not to a number of callables)",
                           "cleanup() is only required not to lose, double or reorder callables; what it must run by itself is not part of the statement"])
