import time, vf
PID = "C01"
HS = vf.VERIF + "/checks/C01/sched_harness.cpp"
HH = vf.VERIF + "/checks/C01/hist_harness.cpp"
SCHED = [vf.VERIF + "/engine/sched/sched.cpp", vf.VERIF + "/engine/sched/log_stub.cpp"]
STUB = [vf.VERIF + "/engine/sched/log_stub.cpp"]
def main(tier, args):
    t0 = time.time()
    srcs = vf.module_sources("event")
    plain = vf.build("C01/sched_plain", [HS], srcs, mode="plain", plain_srcs=SCHED)
    asan = vf.build("C01/sched_asan", [HS], srcs, mode="asan", plain_srcs=SCHED)
    tsan = vf.build("C01/sched_tsan", [HS], srcs, mode="tsan", plain_srcs=SCHED)
    hist = vf.build("C01/hist_asan", [HH], srcs, mode="asan", plain_srcs=STUB)
    res = vf.Result(); log = open(vf.BUILD + "/C01/log.txt", "w")
    bp, ba, bt, depth, dl = (2, 1, 1, 4, 90) if tier == "quick" else (3, 2, 2, 6, 1200)
    jobs = []
    for e in ("epoll", "select"):
        jobs.append(("hist:%s" % e, [hist, e, str(depth)]))
        for s in range(6):
            jobs.append(("plain:%s_s%d" % (e, s), [plain, e, str(s), str(bp)]))
            jobs.append(("asan:%s_s%d" % (e, s), [asan, e, str(s), str(ba)]))
            jobs.append(("tsan:%s_s%d" % (e, s), [tsan, e, str(s), str(bt)]))
    if args.only: jobs = [j for j in jobs if j[0].split(":")[1] == args.only or j[0] == args.only]
    env = {"VERIF_DEADLINE_S": str(dl), "VERIF_WORKERS": "3", "TSAN_OPTIONS": "report_signal_unsafe=0:exitcode=0"}
    vf.run_procs(res, jobs, env=env, log=log, jobs=6)
    vf.finish(PID, tier, res, t0,
              rule="(S) stateless DFS over all interleavings of 1-2 submitting threads (runInLoop) with the real loop's start/iteration/exit/re-run/destruction on both back-ends, "
                   "sync points = recursive mutex, eventfd read/write, epoll_wait/select; preemption bound %d (plain), %d (ASan), %d (TSan on every schedule); deadlock with queued work = lost wake-up. "
                   "(H) BFS over all single-thread histories of runNext/runInLoop/run with 7 callable behaviours (spawn child via either entry point, cancel following/previous/own id in batch, exit), cancel(id), loop passes (forever/once), then destruction; depth %d, canonical state = queue contents + wake-up flag" % (bp, ba, bt, depth),
              assumptions=["cross-thread submission uses runInLoop only; exitLoop/cancel are issued on the loop thread (DESIGN 1.7)",
                           "an idle loop in the single-threaded history harness receives an exit request (interposed epoll_wait/select)"])
