import time, vf
PID = "C01"
HS = vf.VERIF + "/checks/C01/sched_harness.cpp"
NSCEN = 13
HH = vf.VERIF + "/checks/C01/hist_harness.cpp"
SCHED = [vf.VERIF + "/engine/sched/sched.cpp", vf.VERIF + "/engine/sched/log_stub.cpp"]
STUB = [vf.VERIF + "/engine/sched/log_stub.cpp"]
def main(tier, args):
    t0 = time.time()
    srcs = vf.module_sources("event")
    plain = vf.build("C01/sched_plain", [HS], srcs, mode="plain", plain_srcs=SCHED)
    asan = vf.build("C01/sched_asan", [HS], srcs, mode="asan", plain_srcs=SCHED)
    tsan = vf.build("C01/sched_tsan", [HS], srcs, mode="tsan", plain_srcs=SCHED)
    hist = vf.build("C01/hist_asan", [HH], srcs, mode="asan", plain_srcs=STUB)
    res = vf.Result(); log = open(vf.BUILD + "/C01/log.txt", "w")
    bp, ba, bt, depth, sdepth, dl = (2, 1, 1, 4, 3, 90) if tier == "quick" else (3, 2, 2, 6, 4, 1200)
    jobs = []
    for e in ("epoll", "select"):
        jobs.append(("hist:%s" % e, [hist, e, str(depth), str(sdepth)]))
        for s in range(NSCEN):
            jobs.append(("plain:%s_s%d" % (e, s), [plain, e, str(s), str(bp)]))
            jobs.append(("asan:%s_s%d" % (e, s), [asan, e, str(s), str(ba)]))
            jobs.append(("tsan:%s_s%d" % (e, s), [tsan, e, str(s), str(bt + 1 if s in (9, 10, 12) else bt)]))   # the thread-identity scenarios are small: TSan one bound deeper
    # longest jobs first (measured): plain scenarios 4, 7, 2, then the history searches
    heavy = {"plain:epoll_s4": 0, "plain:select_s4": 0, "plain:epoll_s7": 1, "plain:select_s7": 1, "plain:epoll_s2": 2, "plain:select_s2": 2, "hist:epoll": 3, "hist:select": 3}
    jobs.sort(key=lambda j: heavy.get(j[0], 9))
    if args.only: jobs = [j for j in jobs if j[0].split(":")[1] == args.only or j[0] == args.only]
    env = {"VERIF_DEADLINE_S": str(dl), "VERIF_WORKERS": "3", "TSAN_OPTIONS": "report_signal_unsafe=0:exitcode=0"}
    vf.run_procs(res, jobs, env=env, log=log, jobs=6)
    vf.finish(PID, tier, res, t0,
              rule="(S) stateless DFS over all interleavings of the real loop's start/iteration/exit/re-run/destruction with 1-2 other threads on both back-ends, "
                   "sync points = recursive mutex, eventfd read/write, epoll_wait/select; preemption bound %d (plain), %d (ASan), %d (TSan on every schedule; %d for scenarios 9, 10, 12); deadlock with queued work = lost wake-up. "
                   "Thread clause: every callable must run on the thread recorded (under the harness mutex) as being inside runLoop()/the destructor of its loop at that moment - not on a fixed thread. "
                   "13 scenarios: 0-5 foreign runInLoop (both overloads) before/while/after the loop runs, exit + re-run (2 and 3 runs), submissions around exit; "
                   "6 = a loop-thread callable of a loop that stays alive submits runInLoop + a runNext->runNext chain and the submitter waits for all of them before it offers any further wake-up; "
                   "7 = loop-thread runInLoop/runNext immediately cancelled (cancel true, callable never runs, second cancel false) while a foreign thread submits; "
                   "8 = foreign run(Func&&), run(const Func&) and runInLoop(const Func&) into a running, possibly sleeping loop, each awaited before the next wake-up source; "
                   "9 = created + first run on main, second run + destruction on a helper thread while main, the former loop thread, uses runInLoop/run() and leaves one callable for the destructor; "
                   "10 = created and destroyed on main, run on a helper (main never is the loop thread; one callable left for the destructor on main); "
                   "11 = two kOnce passes, each blocked until a foreign runInLoop wakes it; "
                   "12 = two loops (A on main, B on a helper): a callable on A's loop thread calls B->run() and B->runInLoop(const&) and waits for each. "
                   "(H) BFS over all single-thread histories of runNext/runInLoop/run (overload Func&& / const Func& chosen by a function of the canonical state) with 8 callable behaviours (spawn child via either entry point, "
                   "cancel following/previous/own id in batch, exit, exit after 1 ms = stop delivered by a timer callback), one-shot 1 h timers whose callback does nothing / submits through either entry point / exits, cancel(id), "
                   "loop passes (forever/once, each also with the first wait of the pass failing with EINTR), explicit cleanup() between passes, then destruction; depth %d; virtual clock that jumps past the armed timers only when the model owes nothing. "
                   "Canonical state = model (owed callables in submission order, armed timers, pending delayed exit, status of the cancellable handles) + probed queue lengths and wake-up flag. "
                   "Model oracles: exactly once unless cancel returned true, order per entry point, nothing submitted before the stop is pending after runLoop() returned, and the loop never goes to sleep "
                   "(blocking epoll_wait/select with nothing ready, with or without an armed timer) while the model still owes a callable. "
                   "Size lanes: for N in {1,99,100,101,102,201,1000} a BFS of depth %d over {a callable that submits N callables through its own entry point, N callables submitted from outside "
                   "(runNext / runInLoop), exit, cancel, pass forever/once, cleanup(), destruction}: N callables of ONE generation pending at stop / cleanup / destruction. "
                   "Chain lanes: for N in {3,99,100} a BFS of depth %d over {a callable that re-submits itself alternating entry points until N have run (N drain generations), exit, idle timer, cancel, passes incl. EINTR, cleanup(), destruction}"
                   % (bp, ba, bt, bt + 1, depth, sdepth, sdepth + 1),
              assumptions=["cross-thread submission uses runInLoop, or run() while the target loop is known to be running and cannot be stopped by anyone else (loop.h documents run() as the auto-selecting entry point); exitLoop/cancel/cleanup are issued on the loop thread (DESIGN 1.7)",
                           "an idle loop in the single-threaded history harness receives an exit request through the public exitLoop() (interposed epoll_wait/select) - after the model has confirmed that nothing is owed and no timer is armed",
                           "self-re-submitting chains are at most 100 callables long and at most 1000 callables are pending in one generation (the shutdown drain is documented as bounded to 100 generations, not to a number of callables)",
                           "cleanup() is only required not to lose, double or reorder callables; what it must run by itself is not part of the statement",
                           "wait-call failures: only EINTR on the first wait of a pass, only in the history harness (the schedule engine's interposers in engine/sched/sched.cpp never fail)"])
