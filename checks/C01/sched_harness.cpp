// C01 (schedules): real event loop (epoll / select back-end) + submitting threads under engine S.
// usage: sched_harness <engine> <scenario> <bound> [--replay picks]
#include "sched/sched.h"
#include "sched/explore.h"
#include "probe.h"
#include <tbox/event/loop.h>
#include <tbox/event/common_loop.h>
#include <condition_variable>
#include <mutex>
#include <thread>
#include <vector>

using namespace tbox::event;
namespace {
const int MAXC = 16;
VF_PROBE(has_commit_run_req_) VF_PROBE(run_in_loop_func_queue_) VF_PROBE(run_next_func_queue_) VF_PROBE(sp_run_read_event_)
const int NCLASS = 8;
struct Rec { bool submitted = false, cancelled = false; int ran = 0, thr = -1, want = -2, loop = 0, sub = -1, seq = -1; long order = 0; };
Rec R[MAXC]; long g_order = 0;
Loop *g_loop = nullptr, *g_loopB = nullptr; std::mutex *g_m; std::condition_variable *g_cv; int g_runs_done = 0, g_runs_total = 1;
int g_next_seq[NCLASS];
// the thread that is inside runLoop() / the destructor of loop 0 (g_loop) and loop 1 (g_loopB) right now, -1 = nobody: recorded under g_m
// before the call and cleared after it; a callable must run on exactly that thread, whichever thread it is
int g_runner[2] = {-1, -1};
void set_runner(int l) { std::lock_guard<std::mutex> g(*g_m); g_runner[l] = sched_self(); }
void end_run(int l) { std::lock_guard<std::mutex> g(*g_m); g_runner[l] = -1; g_runs_done++; g_cv->notify_all(); }

void dump() {
  for (Loop *l : {g_loop, g_loopB}) { auto *cl = static_cast<CommonLoop *>(l); if (!cl) continue;
    sched_note("DUMP loop%s: has_commit_run_req=%d run_in_loop_queue=%zu run_next_queue=%zu running=%d runs_done=%d/%d", l == g_loopB ? "B" : "", VF_GET(has_commit_run_req_, *cl, -1), VF_SIZE(run_in_loop_func_queue_, *cl, (size_t)0), VF_SIZE(run_next_func_queue_, *cl, (size_t)0), (int)(VF_GET(sp_run_read_event_, *cl, (void *)0) != nullptr), g_runs_done, g_runs_total); }
}
void mark(int id) { std::lock_guard<std::mutex> g(*g_m); R[id].ran++; R[id].thr = sched_self(); R[id].want = g_runner[R[id].loop]; R[id].order = ++g_order; }
// a callable: records itself; optionally exits the loop / re-submits a child through runNext
std::function<void()> task(int id, bool exit_loop, int child = -1) {
  return [id, exit_loop, child] {
    mark(id);
    if (child >= 0) { R[child].submitted = true; R[child].sub = 3; R[child].seq = g_next_seq[3]++; g_loop->runNext(task(child, false)); }
    if (exit_loop) g_loop->exitLoop();
    std::lock_guard<std::mutex> g(*g_m); g_cv->notify_all();
  };
}
// sequence classes ("submitter" for the order clause): 0,1 = foreign threads through runInLoop, 2 = loop thread through runInLoop / a foreign run(), 3 = loop thread through runNext,
// 4 = main thread through runInLoop of the second loop, 5 = main thread through run() of the second loop
void reg(int sub, int id) { R[id].submitted = true; R[id].sub = sub; R[id].seq = g_next_seq[sub]++; }
void wake_all() { std::lock_guard<std::mutex> g(*g_m); g_cv->notify_all(); }
void submit(int sub, int id, bool exit_loop, int child = -1) {
  reg(sub, id);
  if (sub == 1) { const Loop::Func cf(task(id, exit_loop, child)); g_loop->runInLoop(cf); }     // second submitter: `const Func &` overload
  else g_loop->runInLoop(task(id, exit_loop, child));
}
// block (scheduler-visible) until the given callables have all run: a loop that sleeps while one of them is pending deadlocks here
void wait_ran(std::initializer_list<int> ids) {
  std::vector<int> v(ids); std::unique_lock<std::mutex> lk(*g_m);
  g_cv->wait(lk, [v] { for (int id : v) if (R[id].ran == 0) return false; return true; });
}
// scenario 6: a callable of a loop that stays alive hands in more work from the loop thread: runInLoop(child 5), runNext(6) whose callable does runNext(7)
std::function<void()> chain_root(int id) {
  return [id] {
    mark(id);
    reg(2, 5); g_loop->runInLoop(task(5, false));
    reg(3, 6); g_loop->runNext([] { mark(6); reg(3, 7); g_loop->runNext(task(7, false)); wake_all(); });
    wake_all();
  };
}
// scenario 7: a loop-thread callable submits C (5) through runInLoop and cancels it at once, and does the same with a runNext callable (6),
// while a foreign thread is submitting through runInLoop
std::function<void()> cancel_root(int id) {
  return [id] {
    mark(id);
    reg(2, 5); Loop::RunId c = g_loop->runInLoop(task(5, false));
    if (!g_loop->cancel(c)) sched_fail("cancel of a pending runInLoop callable (issued on the loop thread right after submitting it) returned false");
    R[5].cancelled = true;
    reg(3, 6); Loop::RunId n = g_loop->runNext(task(6, false));
    if (!g_loop->cancel(n)) sched_fail("cancel of a pending runNext callable returned false");
    R[6].cancelled = true;
    if (g_loop->cancel(c)) sched_fail("second cancel of the same id returned true");
    wake_all();
  };
}
// closing protocol: keep handing in "exit" callables one at a time until every runLoop() call has returned,
// so a blocked loop can only mean a lost wake-up, never a harness that forgot to stop it.
void closing(int sub, int first_id, int n) {
  for (int i = 0; i < n; i++) {
    { std::lock_guard<std::mutex> g(*g_m); if (g_runs_done == g_runs_total) return; }
    int id = first_id + i; submit(sub, id, true);
    std::unique_lock<std::mutex> lk(*g_m); g_cv->wait(lk, [id] { return R[id].ran > 0 || g_runs_done == g_runs_total; });
  }
}
// a callable for the second loop (scenario 12)
std::function<void()> taskB(int id, bool exit_loop) { return [id, exit_loop] { mark(id); if (exit_loop) g_loopB->exitLoop(); wake_all(); }; }
void regB(int cls, int id) { R[id].loop = 1; reg(cls, id); }
void judge();
void scenario(const char *engine, int scen) {
  std::mutex m; std::condition_variable cv; g_m = &m; g_cv = &cv;
  Loop *loop = Loop::New(engine); g_loop = loop; sched_on_deadlock(dump);
  std::vector<std::thread> subs; Loop::Mode mode = Loop::Mode::kForever;
  switch (scen) {
    case 9: {   // the loop thread changes: created + first run on main, second run + destruction on a helper; main, the FORMER loop thread, submits during the second run
      g_runs_total = 2; bool done = false;
      submit(0, 0, true);                                   // handed in before any run; ends run 0
      set_runner(0); loop->runLoop(); end_run(0);
      std::thread H([&] { set_runner(0); loop->runLoop(); end_run(0);
                          { std::unique_lock<std::mutex> lk(m); cv.wait(lk, [&] { return done; }); }
                          set_runner(0); delete loop; std::lock_guard<std::mutex> g(m); g_runner[0] = -1; });
      submit(0, 1, false); wait_ran({1});                   // run 1 is on, only this thread can stop it
      reg(2, 2); g_loop->run(task(2, false)); wait_ran({2});   // run() on the former loop thread must now take the thread-safe path and wake the helper
      closing(0, 8, 3);
      submit(0, 3, false);                                  // after the last run: runs at destruction, on the helper
      { std::lock_guard<std::mutex> g(m); done = true; cv.notify_all(); }
      H.join(); g_loop = nullptr; judge(); return; }
    case 10: {  // created and destroyed on main, run on a helper: main never is the loop thread
      g_runs_total = 1;
      std::thread H([&] { set_runner(0); loop->runLoop(); end_run(0); });
      submit(0, 0, false); wait_ran({0});
      reg(2, 1); g_loop->run(task(1, false)); wait_ran({1});
      closing(0, 8, 3); H.join();
      submit(0, 2, false);                                  // pending at destruction: runs on the destroying thread
      set_runner(0); delete loop; g_loop = nullptr; judge(); return; }
    case 11: g_runs_total = 2; mode = Loop::Mode::kOnce; subs.emplace_back([] { closing(0, 8, 6); }); break;   // two kOnce passes, each blocked until a foreign runInLoop wakes it (a pass takes at most two of the offered callables)
    case 12: {  // two loops: A on main, B on a helper; a callable on A's thread hands work to B through run() and runInLoop(const&)
      g_runs_total = 2; Loop *B = Loop::New(engine); g_loopB = B;
      regB(4, 4); B->runInLoop(taskB(4, false));            // thread-safe, before B runs
      std::thread H([&] { set_runner(1); B->runLoop(); end_run(1); });
      reg(0, 0); loop->runInLoop([] { mark(0);
        wait_ran({4});                                      // B is running now and only this thread can stop it
        regB(5, 1); g_loopB->run(taskB(1, false)); wait_ran({1});      // this thread is A's loop thread, not B's: must pick runInLoop and wake B
        regB(4, 2); { const Loop::Func cf(taskB(2, false)); g_loopB->runInLoop(cf); } wait_ran({2});
        g_loop->exitLoop(); wake_all(); });
      set_runner(0); loop->runLoop(); end_run(0);
      regB(4, 3); B->runInLoop(taskB(3, true)); H.join();
      set_runner(0); delete loop; g_loop = nullptr;
      set_runner(1); delete B; g_loopB = nullptr; judge(); return; }
    case 0: g_runs_total = 1; subs.emplace_back([] { submit(0, 0, false); submit(0, 1, false); closing(0, 8, 3); }); break;
    case 1: g_runs_total = 2; subs.emplace_back([] { submit(0, 0, true); submit(0, 1, false); closing(0, 8, 4); }); break;   // exit, re-run
    case 2: g_runs_total = 1; subs.emplace_back([] { submit(0, 0, false); closing(0, 8, 3); }); subs.emplace_back([] { submit(1, 1, false); submit(1, 2, false); }); break;
    case 3: g_runs_total = 1; subs.emplace_back([] { submit(0, 0, true); submit(0, 1, false); submit(0, 2, false); }); break;   // submissions around/after exit: run at shutdown or destruction
    case 4: g_runs_total = 2; subs.emplace_back([] { submit(0, 0, true, 4); submit(0, 1, false); closing(0, 8, 4); }); subs.emplace_back([] { submit(1, 2, false); }); break;
    case 5: g_runs_total = 3; subs.emplace_back([] { submit(0, 0, true); closing(0, 8, 5); }); break;                         // three runs
    case 6: g_runs_total = 1; subs.emplace_back([] { reg(0, 0); g_loop->runInLoop(chain_root(0)); wait_ran({0, 5, 6, 7}); closing(0, 8, 3); }); break;   // loop-thread submissions into a live loop must not need another wake-up
    case 7: g_runs_total = 1; subs.emplace_back([] { reg(0, 0); g_loop->runInLoop(cancel_root(0)); closing(0, 8, 3); }); subs.emplace_back([] { submit(1, 1, false); }); break;   // cancel on the loop thread vs foreign submission
    case 8: g_runs_total = 1; subs.emplace_back([] { submit(0, 0, false); wait_ran({0});                       // the loop is now known to be running, and only this thread can stop it
                                                     reg(2, 1); g_loop->run(task(1, false));                    // run() from a foreign thread: must pick the thread-safe path and wake the loop
                                                     reg(2, 2); { const Loop::Func cf(task(2, false)); g_loop->run(cf); }
                                                     wait_ran({1, 2});
                                                     reg(0, 3); { const Loop::Func cf(task(3, false)); g_loop->runInLoop(cf); }     // `const Func &` overload into a loop that may already sleep: nobody else will wake it
                                                     wait_ran({3}); closing(0, 8, 3); }); break;
  }
  for (int r = 0; r < g_runs_total; r++) { set_runner(0); loop->runLoop(mode); end_run(0); }
  for (auto &t : subs) t.join();
  set_runner(0); delete loop; g_loop = nullptr;        // anything still pending must run now, on this thread
  judge();
}
void judge() {
  int lastseq[NCLASS]; for (int &x : lastseq) x = -1;
  {
    // walk in execution order
    std::vector<int> ids; for (int i = 0; i < MAXC; i++) if (R[i].submitted) ids.push_back(i);
    std::sort(ids.begin(), ids.end(), [](int a, int b) { return R[a].order < R[b].order; });
    std::string ord;
    for (int id : ids) { Rec &r = R[id];
      if (r.cancelled) { if (r.ran != 0) sched_fail("cancelled callable %d was invoked %d times", id, r.ran); continue; }
      if (r.ran != 1) sched_fail("callable %d (submitter %d) ran %d times", id, r.sub, r.ran);
      if (r.thr != r.want) sched_fail("callable %d ran on thread %d, but thread %d was running / destroying its loop", id, r.thr, r.want);
      if (r.seq < lastseq[r.sub]) sched_fail("submitter %d: callable seq %d ran after seq %d", r.sub, r.seq, lastseq[r.sub]);
      lastseq[r.sub] = r.seq; ord += std::to_string(id) + ","; }
    sched_note("O order=%s", ord.c_str());
  }
}
}  // namespace

int main(int argc, char **argv) {
  const char *engine = argc > 1 ? argv[1] : "epoll"; int scen = argc > 2 ? atoi(argv[2]) : 0, bound = argc > 3 ? atoi(argv[3]) : 1;
  sx::Explorer ex; char nm[64]; snprintf(nm, sizeof nm, "%s-scen%d", engine, scen); ex.name = nm;
  std::string eng = engine; ex.body = [eng, scen] { scenario(eng.c_str(), scen); };
  ex.workers = getenv("VERIF_WORKERS") ? atoi(getenv("VERIF_WORKERS")) : 4;
  ex.deadline_s = sx::now_s() + (getenv("VERIF_DEADLINE_S") ? atof(getenv("VERIF_DEADLINE_S")) : 600);
  if (argc > 5 && !strcmp(argv[4], "--replay")) { ex.replay(sx::parse_picks(argv[5])); return 0; }
  ex.explore(bound);
  return 0;
}
