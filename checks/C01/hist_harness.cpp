// C01 (histories): single-threaded BFS over submit / cancel / run-loop / destroy histories on the real loop.
// usage: hist_harness <engine> <depth>
#include "hist/hist.h"
#include <tbox/event/loop.h>
#include <tbox/event/common_loop.h>
#include <sys/epoll.h>
#include <sys/select.h>
#include <sys/syscall.h>

using namespace tbox::event;
static CommonLoop *g_cl = nullptr; static long g_idle_exits = 0;
// When the loop would block forever with nothing ready, an exit request "arrives" (keeps the single-threaded run finite).
extern "C" int epoll_wait(int epfd, struct epoll_event *ev, int maxev, int timeout) {
  int n = (int)syscall(SYS_epoll_wait, epfd, ev, maxev, 0);
  if (n == 0 && timeout != 0 && g_cl) { g_idle_exits++; g_cl->stopLoop(); }
  return n;
}
extern "C" int select(int nfds, fd_set *r, fd_set *w, fd_set *e, struct timeval *tv) {
  struct timeval z = {0, 0}; bool blocking = !(tv && tv->tv_sec == 0 && tv->tv_usec == 0);
  int n = (int)syscall(SYS_select, nfds, r, w, e, &z);
  if (n == 0 && blocking && g_cl) { g_idle_exits++; g_cl->stopLoop(); }
  return n;
}

enum Kind { SUB_NEXT, SUB_INLOOP, SUB_RUN, CANCEL, PASS_FOREVER, PASS_ONCE };
enum Beh { PLAIN, CHILD_NEXT, CHILD_INLOOP, CANCEL_FOLLOWING, CANCEL_PREVIOUS, EXIT, CANCEL_SELF, NBEH };
struct Op { int k, a; };
static const char *kN[] = {"runNext", "runInLoop", "run", "cancel", "loopForever", "loopOnce"};
static const char *bN[] = {"plain", "child-next", "child-inloop", "cancel-following", "cancel-previous", "exit", "cancel-self"};

struct Task { int entry = 0; int beh = 0; Loop::RunId id = 0; int ran = 0; bool cancelled_ok = false; long order = 0; int parent = -1; };
struct World {
  Loop *loop; std::vector<Task> t; long order = 0; std::string viol; bool in_pass = false;
  int add(int entry, int beh, int parent) { Task nt; nt.entry = entry; nt.beh = beh; nt.parent = parent; t.push_back(nt); return (int)t.size() - 1; }
  void submit(int idx) {
    auto f = [this, idx] { exec(idx); };
    Task &x = t[idx];
    if (x.entry == SUB_NEXT) x.id = loop->runNext(f); else if (x.entry == SUB_INLOOP) x.id = loop->runInLoop(f); else x.id = loop->run(f);
    if (x.id == 0) viol = "submit-returned-null-id";
  }
  void do_cancel(int idx) {
    if (idx < 0 || idx >= (int)t.size()) return; Task &x = t[idx];
    bool r = loop->cancel(x.id);
    if (r) { if (x.ran) viol = "cancel-true-for-a-callable-that-already-ran"; if (x.cancelled_ok) viol = "cancel-true-twice"; x.cancelled_ok = true; }
  }
  void exec(int idx) {
    Task &x = t[idx]; x.ran++; x.order = ++order;
    if (x.cancelled_ok) viol = "cancelled-callable-was-invoked";
    switch (x.beh) {
      case CHILD_NEXT: { int c = add(SUB_NEXT, PLAIN, idx); submit(c); } break;
      case CHILD_INLOOP: { int c = add(SUB_INLOOP, PLAIN, idx); submit(c); } break;
      case CANCEL_FOLLOWING: do_cancel(idx + 1); break;
      case CANCEL_PREVIOUS: do_cancel(idx - 1); break;
      case CANCEL_SELF: do_cancel(idx); break;        // "cancel whatever I still have pending" idiom: the running callable cancels its own id
      case EXIT: if (in_pass) loop->exitLoop(); break;
    }
  }
};

int main(int argc, char **argv) {
  std::string engine = argc > 1 ? argv[1] : "epoll"; size_t depth = argc > 2 ? atoi(argv[2]) : 5;
  hx::install_crash_reporter("C01-crash");
  hx::Explorer<Op> ex; ex.name = engine; ex.deadline_s = hx::deadline_from_env(600);
  ex.show = [](const Op &o) { char b[48]; if (o.k <= SUB_RUN) snprintf(b, sizeof b, "%s(%s)", kN[o.k], bN[o.a]); else if (o.k == CANCEL) snprintf(b, sizeof b, "cancel(#%d)", o.a); else snprintf(b, sizeof b, "%s", kN[o.k]); return std::string(b); };
  ex.menu = [&](const std::vector<Op> &h) {
    std::vector<Op> m; int issued = 0; for (auto &o : h) if (o.k <= SUB_RUN) issued++;
    for (int k : {SUB_NEXT, SUB_INLOOP, SUB_RUN}) for (int b = 0; b < NBEH; b++) m.push_back({k, b});
    for (int i = 0; i < issued && i < 4; i++) m.push_back({CANCEL, i});
    m.push_back({PASS_FOREVER, 0}); m.push_back({PASS_ONCE, 0});
    return m; };
  ex.run = [&](const std::vector<Op> &h, std::string &viol) {
    World w; w.loop = Loop::New(engine); CommonLoop *cl = static_cast<CommonLoop *>(w.loop); g_cl = cl;
    std::vector<int> top;   // indices of tasks submitted by top-level ops, in issue order
    for (auto &o : h) {
      switch (o.k) {
        case SUB_NEXT: case SUB_INLOOP: case SUB_RUN: { int i = w.add(o.k, o.a, -1); top.push_back(i); w.submit(i); } break;
        case CANCEL: if (o.a < (int)top.size()) w.do_cancel(top[o.a]); break;
        case PASS_FOREVER: case PASS_ONCE:
          w.loop->runNext([] {});            // so the back-end polls instead of sleeping
          w.in_pass = true; w.loop->runLoop(o.k == PASS_FOREVER ? Loop::Mode::kForever : Loop::Mode::kOnce); w.in_pass = false;
          // a callable pending when the loop stops is run during shutdown: nothing may be left behind
          for (auto &x : w.t) if (!x.cancelled_ok && x.ran == 0 && x.parent == -1) w.viol = "callable-still-pending-after-loop-returned";
          break;
      }
      if (!w.viol.empty()) break;
    }
    // canonical state before destruction: queue contents as (entry,behaviour,ran,cancelled) of the owning task + flags
    std::string c;
    auto key = [&](Loop::RunId id) { for (size_t i = 0; i < w.t.size(); i++) if (w.t[i].id == id) { char b[32]; snprintf(b, sizeof b, "%d.%d.%d,", w.t[i].entry, w.t[i].beh, (int)i - (int)w.t.size()); return std::string(b); } return std::string("?,"); };
    c += "N:"; for (auto &it : cl->run_next_func_queue_) c += key(it.id); c += "|L:"; for (auto &it : cl->run_in_loop_func_queue_) c += key(it.id);
    c += "|T:"; for (auto &it : cl->tmp_func_queue_) c += key(it.id);
    c += "|f" + std::to_string((int)cl->has_commit_run_req_) + "|issued" + std::to_string(top.size() > 4 ? 4 : top.size());
    // stale handles the harness may still cancel: the status of the first 4 issued callables
    for (size_t i = 0; i < top.size() && i < 4; i++) { auto &x = w.t[top[i]]; c += (x.cancelled_ok ? 'c' : x.ran ? 'r' : 'p'); }
    g_cl = nullptr; delete w.loop;      // destruction runs whatever is still pending
    if (w.viol.empty()) {
      long last[3] = {0, 0, 0}; std::vector<int> idx(w.t.size()); for (size_t i = 0; i < idx.size(); i++) idx[i] = (int)i;
      for (auto &x : w.t) { int want = x.cancelled_ok ? 0 : 1; if (x.ran != want) { w.viol = x.ran > want ? "callable-invoked-more-than-once" : "callable-dropped-never-invoked"; break; } }
      // submission order within one entry point (tasks are created in submission order)
      for (auto &x : w.t) if (x.ran) { if (x.order < last[x.entry]) { w.viol = std::string("order-violated-within-entry-point-") + kN[x.entry]; break; } last[x.entry] = x.order; }
    }
    viol = w.viol;
    return c;
  };
  ex.explore(depth);
  printf("@STAT idle_exits=%ld\n", g_idle_exits);
  return 0;
}
