// C01 (histories): single-threaded BFS over submit / cancel / timer / run-loop / cleanup / destroy histories on the real loop.
// usage: hist_harness <engine> <depth> [sizes-depth]
//   size lanes  : one search per bulk size N (around the documented drain bound of 100 generations and well above it) over a
//                 reduced alphabet, depth [sizes-depth]: N callables pending in ONE generation at loop stop / cleanup() / destruction.
//   chain lanes : one search per chain length N in {3, 99, 100}: a callable that re-submits itself (alternating entry points) until N
//                 callables have run, i.e. N drain generations, the last two at and just below the documented bound of 100 rounds.
//   main search : every history up to <depth> over the full alphabet (bulk size fixed at 3).
// Private members are only read for the state key, through engine/probe.h (a renamed member degrades the key, not the build);
// every oracle clause is decided by the model. The loop is stopped through the public exitLoop().
#include "hist/hist.h"
#include "probe.h"
#include <tbox/event/loop.h>
#include <tbox/event/common_loop.h>
#include <tbox/event/timer_event.h>
#include <sys/epoll.h>
#include <sys/select.h>
#include <sys/syscall.h>
#include <errno.h>

using namespace tbox::event;
VF_PROBE(run_next_func_queue_) VF_PROBE(run_in_loop_func_queue_) VF_PROBE(tmp_func_queue_) VF_PROBE(has_commit_run_req_)
struct World;
static World *g_w = nullptr; static long g_idle_exits = 0, g_clock_jumps = 0, g_eintr = 0;
static int g_bulk_n = 3, g_chain_n = 3;
// virtual clock (only while a history is evaluated; the engine's deadline reads the real clock)
static long long vnow = 1000000; static bool g_virt = false;
extern "C" int clock_gettime(clockid_t id, struct timespec *ts) { if (!g_virt) return (int)syscall(SYS_clock_gettime, id, ts); ts->tv_sec = vnow / 1000; ts->tv_nsec = (vnow % 1000) * 1000000; return 0; }
extern "C" int gettimeofday(struct timeval *tv, void *tz) { if (!g_virt) return (int)syscall(SYS_gettimeofday, tv, tz); if (tv) { tv->tv_sec = vnow / 1000; tv->tv_usec = (vnow % 1000) * 1000; } return 0; }
static bool g_fail_next_wait = false;     // the next wait call of the back-end is interrupted by a signal: returns -1 / EINTR
static void idle_hook();
static bool spin_guard();
// When the loop would block with nothing ready: first the model is asked whether any callable is still owed (a loop that goes to
// sleep with work pending is a lost wake-up). Then, if a timer is armed, virtual time jumps past its deadline; otherwise an exit
// request "arrives" (keeps the single-threaded run finite).
extern "C" int epoll_wait(int epfd, struct epoll_event *ev, int maxev, int timeout) {
  if (g_w && g_fail_next_wait) { g_fail_next_wait = false; g_eintr++; errno = EINTR; return -1; }
  if (g_w && spin_guard()) return 0;
  int n = (int)syscall(SYS_epoll_wait, epfd, ev, maxev, 0);
  if (n == 0 && timeout != 0 && g_w) idle_hook();
  return n;
}
extern "C" int select(int nfds, fd_set *r, fd_set *w, fd_set *e, struct timeval *tv) {
  if (g_w && g_fail_next_wait) { g_fail_next_wait = false; g_eintr++; errno = EINTR; return -1; }
  if (g_w && spin_guard()) { if (r) FD_ZERO(r); if (w) FD_ZERO(w); if (e) FD_ZERO(e); return 0; }
  struct timeval z = {0, 0}; bool blocking = !(tv && tv->tv_sec == 0 && tv->tv_usec == 0);
  int n = (int)syscall(SYS_select, nfds, r, w, e, &z);
  if (n == 0 && blocking && g_w) idle_hook();
  return n;
}

enum Kind { SUB_NEXT, SUB_INLOOP, SUB_RUN, CANCEL, PASS_FOREVER, PASS_ONCE, CLEANUP, TOPBULK_NEXT, TOPBULK_INLOOP, TIMER, NKIND };
enum Beh { PLAIN, CHILD_NEXT, CHILD_INLOOP, CANCEL_FOLLOWING, CANCEL_PREVIOUS, EXIT, CANCEL_SELF, CHAIN3, BULK, EXIT_DELAYED, CHAIN, NBEH };
struct Op { int k, a; };
static const char *kN[] = {"runNext", "runInLoop", "run", "cancel", "loopForever", "loopOnce", "cleanup", "bulkNext", "bulkInLoop", "timer"};
static const char *bN[] = {"plain", "child-next", "child-inloop", "cancel-following", "cancel-previous", "exit", "cancel-self", "chain3", "bulk", "exit-after-1ms", "chain"};
static const int ENTRY_TIMER = 3;   // a timer callback: not a deferred callable (nothing is owed for it), but it submits some

struct Task { int entry = 0; int beh = 0; int cnt = 0; Loop::RunId id = 0; int ran = 0; bool cancelled_ok = false; long order = 0; int parent = -1; };
struct World {
  Loop *loop; std::deque<Task> t; long order = 0; std::string viol; bool in_pass = false; long exit_at = 0;
  std::vector<TimerEvent *> timers; int armed = 0; bool delayed_exit = false; int jumps_in_pass = 0; long waits_in_pass = 0;
  bool owed(const Task &x) const { return x.entry != ENTRY_TIMER && !x.cancelled_ok && x.ran == 0; }
  int owed_count() const { int n = 0; for (auto &x : t) if (owed(x)) n++; return n; }
  int add(int entry, int beh, int parent, int cnt = 0) { Task nt; nt.entry = entry; nt.beh = beh; nt.parent = parent; nt.cnt = cnt; t.push_back(nt); return (int)t.size() - 1; }
  void submit(int idx) {
    auto f = [this, idx] { exec(idx); };
    Task &x = t[idx];
    // overload: `const Func &` iff (callables owed before this one + entry) is odd - a function of the canonical state, so merged states agree on it
    if ((owed_count() - 1 + x.entry) & 1) {
      const Loop::Func cf(f);
      if (x.entry == SUB_NEXT) x.id = loop->runNext(cf); else if (x.entry == SUB_INLOOP) x.id = loop->runInLoop(cf); else x.id = loop->run(cf);
    } else {
      if (x.entry == SUB_NEXT) x.id = loop->runNext(f); else if (x.entry == SUB_INLOOP) x.id = loop->runInLoop(f); else x.id = loop->run(f);
    }
    if (x.id == 0) viol = "submit-returned-null-id";
  }
  void spawn(int entry, int beh, int parent, int cnt = 0) { int c = add(entry, beh, parent, cnt); submit(c); }
  void arm_timer(int beh) {      // one-shot, one hour ahead
    int idx = add(ENTRY_TIMER, beh, -1);
    TimerEvent *te = loop->newTimerEvent("C01"); te->initialize(std::chrono::milliseconds(3600000), Event::Mode::kOneshot);
    te->setCallback([this, idx] { armed--; exec(idx); }); te->enable(); timers.push_back(te); armed++;
  }
  void do_cancel(int idx) {
    if (idx < 0 || idx >= (int)t.size()) return; Task &x = t[idx]; if (x.entry == ENTRY_TIMER) return;
    bool r = loop->cancel(x.id);
    if (r) { if (x.ran) viol = "cancel-true-for-a-callable-that-already-ran"; if (x.cancelled_ok) viol = "cancel-true-twice"; x.cancelled_ok = true; }
  }
  void exec(int idx) {
    Task &x = t[idx]; x.ran++; x.order = ++order;
    if (x.cancelled_ok) viol = "cancelled-callable-was-invoked";
    int beh = x.beh, entry = x.entry, cnt = x.cnt;
    switch (beh) {
      case CHILD_NEXT: spawn(SUB_NEXT, PLAIN, idx); break;
      case CHILD_INLOOP: spawn(SUB_INLOOP, PLAIN, idx); break;
      case CHAIN3: spawn(SUB_NEXT, CHILD_INLOOP, idx); break;      // three generations: this -> runNext child -> runInLoop plain grandchild
      case CHAIN: if (cnt > 1) spawn(entry == SUB_NEXT ? SUB_INLOOP : SUB_NEXT, CHAIN, idx, cnt - 1); break;   // re-submits itself, alternating entry points, cnt callables in all
      case BULK: for (int i = 0; i < g_bulk_n; i++) spawn(entry, PLAIN, idx); break;   // N callables of one generation through the entry point this one came by
      case CANCEL_FOLLOWING: do_cancel(idx + 1); break;
      case CANCEL_PREVIOUS: do_cancel(idx - 1); break;
      case CANCEL_SELF: do_cancel(idx); break;        // "cancel whatever I still have pending" idiom: the running callable cancels its own id
      case EXIT: if (in_pass) { if (!exit_at) exit_at = order; delayed_exit = false; loop->exitLoop(); } break;
      case EXIT_DELAYED: if (in_pass) { delayed_exit = true; loop->exitLoop(std::chrono::milliseconds(1)); } break;   // the stop arrives from a timer callback
    }
  }
};
// harness protection: a pass over finitely many callables (at most ~1100 per history) must go idle; a loop that keeps finding
// something ready for 20000 iterations is reported and told to exit instead of hanging the search
static bool spin_guard() {
  World &w = *g_w; if (++w.waits_in_pass < 20000) return false;
  if (w.viol.empty()) w.viol = "loop-never-goes-idle-20000-iterations-in-one-pass";
  w.loop->exitLoop(); return true;
}
static void idle_hook() {
  World &w = *g_w; g_idle_exits++;
  if (w.viol.empty()) for (auto &x : w.t) if (w.owed(x)) { w.viol = std::string("loop-sleeps-with-pending-callable-") + kN[x.entry]; break; }
  if (w.viol.empty() && (w.armed > 0 || w.delayed_exit) && w.jumps_in_pass < 3) { w.jumps_in_pass++; g_clock_jumps++; w.delayed_exit = false; vnow += 3600001; return; }   // the armed timers are due now
  w.loop->exitLoop();
}

static std::string engine;
static std::string show_op(const Op &o) { char b[48];
  if (o.k <= SUB_RUN || o.k == TIMER) snprintf(b, sizeof b, "%s(%s)", kN[o.k], bN[o.a]); else if (o.k == CANCEL) snprintf(b, sizeof b, "cancel(#%d)", o.a);
  else if (o.k == PASS_FOREVER || o.k == PASS_ONCE) snprintf(b, sizeof b, "%s%s", kN[o.k], o.a ? "(first-wait-EINTR)" : ""); else snprintf(b, sizeof b, "%s", kN[o.k]);
  return std::string(b); }

static std::string run_history(const std::vector<Op> &h, std::string &viol) {
  vnow = 1000000; g_virt = true; g_fail_next_wait = false; alarm(60);     // watchdog: see main()
  World w; w.loop = Loop::New(engine); CommonLoop *cl = static_cast<CommonLoop *>(w.loop); g_w = &w;
  std::vector<int> top;   // indices of tasks submitted by top-level ops, in issue order
  for (auto &o : h) {
    switch (o.k) {
      case SUB_NEXT: case SUB_INLOOP: case SUB_RUN: { int i = w.add(o.k, o.a, -1, o.a == CHAIN ? g_chain_n : 0); top.push_back(i); w.submit(i); } break;
      case TOPBULK_NEXT: case TOPBULK_INLOOP: for (int n = 0; n < g_bulk_n; n++) { int i = w.add(o.k == TOPBULK_NEXT ? SUB_NEXT : SUB_INLOOP, PLAIN, -1); top.push_back(i); w.submit(i); } break;
      case TIMER: w.arm_timer(o.a); break;
      case CANCEL: if (o.a < (int)top.size()) w.do_cancel(top[o.a]); break;
      case CLEANUP: w.loop->cleanup(); break;   // public drain between runs; the property says nothing about what it must run, only that nothing is lost / doubled / reordered across it
      case PASS_FOREVER: case PASS_ONCE: {
        long pass_start = w.order; w.exit_at = 0; w.jumps_in_pass = 0; w.waits_in_pass = 0;
        w.loop->runNext([] {});            // so the back-end polls instead of sleeping
        g_fail_next_wait = (o.a == 1);
        w.in_pass = true; w.loop->runLoop(o.k == PASS_FOREVER ? Loop::Mode::kForever : Loop::Mode::kOnce); w.in_pass = false;
        g_fail_next_wait = false;
        // a callable pending when the loop stops is run during shutdown: nothing that was submitted before the stop may be left behind.
        // Decided by the model: submitted from outside (before this pass), or by a callable that ran before this pass or before the first exitLoop() call of it.
        for (auto &x : w.t) if (w.owed(x)) {
          if (x.parent == -1) w.viol = "callable-still-pending-after-loop-returned";
          else { long po = w.t[x.parent].order; if (po <= pass_start || (w.exit_at && po < w.exit_at)) w.viol = "callable-submitted-before-the-stop-still-pending-after-loop-returned"; }
        }
      } break;
    }
    if (!w.viol.empty()) break;
  }
  // canonical state before destruction. Model part: the owed callables in submission order as (entry, behaviour, remaining chain, index relative to the next one),
  // the armed timers, the pending delayed exit, the status of the handles the harness may still cancel. Implementation part (probed): the three queue lengths + the wake-up flag.
  std::string c; char b[48];
  for (size_t i = 0; i < w.t.size(); i++) { auto &x = w.t[i];
    if (w.owed(x)) { snprintf(b, sizeof b, "%d.%d.%d.%d,", x.entry, x.beh, x.cnt, (int)i - (int)w.t.size()); c += b; }
    else if (x.entry == ENTRY_TIMER && x.ran == 0) { snprintf(b, sizeof b, "T%d.%d,", x.beh, (int)i - (int)w.t.size()); c += b; } }
  snprintf(b, sizeof b, "|N%zu|L%zu|T%zu|f%d|d%d|issued%zu", VF_SIZE(run_next_func_queue_, *cl, (size_t)0), VF_SIZE(run_in_loop_func_queue_, *cl, (size_t)0), VF_SIZE(tmp_func_queue_, *cl, (size_t)0),
           VF_GET(has_commit_run_req_, *cl, 0), (int)w.delayed_exit, top.size() > 4 ? (size_t)4 : top.size()); c += b;
  for (size_t i = 0; i < top.size() && i < 4; i++) { auto &x = w.t[top[i]]; c += (x.cancelled_ok ? 'c' : x.ran ? 'r' : 'p'); }
  if (vf_any_missing()) { c += "|ops:"; for (size_t i = h.size() > 3 ? h.size() - 3 : 0; i < h.size(); i++) c += show_op(h[i]) + ","; }
  for (auto *te : w.timers) delete te;
  delete w.loop; g_w = nullptr; g_virt = false; alarm(0);     // destruction runs whatever is still pending
  if (w.viol.empty()) {
    long last[3] = {0, 0, 0};
    for (auto &x : w.t) { if (x.entry == ENTRY_TIMER) { if (x.ran > 1) w.viol = "one-shot-timer-fired-twice"; continue; }
      int want = x.cancelled_ok ? 0 : 1; if (x.ran != want) { w.viol = x.ran > want ? "callable-invoked-more-than-once" : "callable-dropped-never-invoked"; break; } }
    // submission order within one entry point (tasks are created in submission order)
    if (w.viol.empty()) for (auto &x : w.t) if (x.ran && x.entry != ENTRY_TIMER) { if (x.order < last[x.entry]) { w.viol = std::string("order-violated-within-entry-point-") + kN[x.entry]; break; } last[x.entry] = x.order; }
  }
  viol = w.viol;
  return c;
}

int main(int argc, char **argv) {
  engine = argc > 1 ? argv[1] : "epoll"; size_t depth = argc > 2 ? atoi(argv[2]) : 5; size_t sdepth = argc > 3 ? atoi(argv[3]) : 3;
  hx::install_crash_reporter("C01-crash");
  signal(SIGALRM, [](int) { hx::emit_crash("history-did-not-terminate-within-60s"); _exit(1); });   // a single history takes milliseconds; never hang the check
  double deadline = hx::deadline_from_env(600);
  // size lanes first (small, bounded): N callables in one generation
  for (int n : {1, 99, 100, 101, 102, 201, 1000}) {
    hx::Explorer<Op> ex; ex.name = engine + "-bulk" + std::to_string(n); ex.deadline_s = deadline; ex.show = show_op; ex.run = run_history;
    ex.menu = [&](const std::vector<Op> &h) {
      std::vector<Op> m; bool any = false; for (auto &o : h) if (o.k <= SUB_RUN || o.k == TOPBULK_NEXT || o.k == TOPBULK_INLOOP) any = true;
      for (int k : {SUB_NEXT, SUB_INLOOP, SUB_RUN}) m.push_back({k, BULK});
      m.push_back({SUB_NEXT, EXIT}); m.push_back({SUB_INLOOP, EXIT});
      m.push_back({TOPBULK_NEXT, 0}); m.push_back({TOPBULK_INLOOP, 0});
      if (any) m.push_back({CANCEL, 0});
      m.push_back({PASS_FOREVER, 0}); m.push_back({PASS_ONCE, 0}); m.push_back({CLEANUP, 0});
      return m; };
    g_bulk_n = n; ex.explore(sdepth);
  }
  // chain lanes: N drain generations
  for (int n : {3, 99, 100}) {
    hx::Explorer<Op> ex; ex.name = engine + "-chain" + std::to_string(n); ex.deadline_s = deadline; ex.show = show_op; ex.run = run_history;
    ex.menu = [&](const std::vector<Op> &h) {
      std::vector<Op> m; bool any = false; for (auto &o : h) if (o.k <= SUB_RUN) any = true;
      for (int k : {SUB_NEXT, SUB_INLOOP, SUB_RUN}) m.push_back({k, CHAIN});
      m.push_back({SUB_NEXT, EXIT}); m.push_back({TIMER, PLAIN});
      if (any) m.push_back({CANCEL, 0});
      m.push_back({PASS_FOREVER, 0}); m.push_back({PASS_ONCE, 0}); m.push_back({PASS_ONCE, 1}); m.push_back({CLEANUP, 0});
      return m; };
    g_chain_n = n; g_bulk_n = 3; ex.explore(sdepth + 1);
  }
  {
    hx::Explorer<Op> ex; ex.name = engine; ex.deadline_s = deadline; ex.show = show_op; ex.run = run_history;
    ex.menu = [&](const std::vector<Op> &h) {
      std::vector<Op> m; int issued = 0; for (auto &o : h) if (o.k <= SUB_RUN) issued++;
      for (int b : {PLAIN, CHILD_NEXT, CHILD_INLOOP, CANCEL_FOLLOWING, CANCEL_PREVIOUS, EXIT, CANCEL_SELF, EXIT_DELAYED}) m.push_back({SUB_NEXT, b});
      for (int b : {PLAIN, CHILD_NEXT, CHILD_INLOOP, CANCEL_FOLLOWING, CANCEL_PREVIOUS, EXIT, CANCEL_SELF}) m.push_back({SUB_INLOOP, b});
      for (int b : {PLAIN, CHILD_INLOOP, CANCEL_SELF}) m.push_back({SUB_RUN, b});     // on one thread run() is runNext(): only the decision / overload path differs
      for (int b : {PLAIN, CHILD_NEXT, CHILD_INLOOP, EXIT}) m.push_back({TIMER, b});
      for (int i = 0; i < issued && i < 4; i++) m.push_back({CANCEL, i});
      m.push_back({PASS_FOREVER, 0}); m.push_back({PASS_ONCE, 0}); m.push_back({PASS_FOREVER, 1}); m.push_back({PASS_ONCE, 1}); m.push_back({CLEANUP, 0});
      return m; };
    g_bulk_n = 3; ex.explore(depth);
  }
  printf("@STAT idle_exits=%ld clock_jumps=%ld first_wait_eintr=%ld\n", g_idle_exits, g_clock_jumps, g_eintr);
  return 0;
}
