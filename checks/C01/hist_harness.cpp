// C01 (histories): single-threaded BFS over submit / cancel / run-loop / cleanup / destroy histories on the real loop.
// usage: hist_harness <engine> <depth> [sizes-depth]
//   main search : every history up to <depth> over the full alphabet (bulk size fixed at 3)
//   size lanes  : one extra search per bulk size N (around the documented drain bound of 100 generations and well
//                 above it) over a reduced alphabet, depth [sizes-depth]: N callables pending in ONE generation at
//                 loop stop / cleanup() / destruction, submitted from outside or by a callable of the last iteration.
#include "hist/hist.h"
#include <tbox/event/loop.h>
#include <tbox/event/common_loop.h>
#include <sys/epoll.h>
#include <sys/select.h>
#include <sys/syscall.h>
#include <unordered_map>

using namespace tbox::event;
struct World;
static CommonLoop *g_cl = nullptr; static World *g_w = nullptr; static long g_idle_exits = 0;
static int g_bulk_n = 3;
static void idle_hook();
// When the loop would block forever with nothing ready, an exit request "arrives" (keeps the single-threaded run finite).
// Before that the model is asked whether any callable is still owed: a loop that goes to sleep with work pending is a lost wake-up.
extern "C" int epoll_wait(int epfd, struct epoll_event *ev, int maxev, int timeout) {
  int n = (int)syscall(SYS_epoll_wait, epfd, ev, maxev, 0);
  if (n == 0 && timeout != 0 && g_cl) idle_hook();
  return n;
}
extern "C" int select(int nfds, fd_set *r, fd_set *w, fd_set *e, struct timeval *tv) {
  struct timeval z = {0, 0}; bool blocking = !(tv && tv->tv_sec == 0 && tv->tv_usec == 0);
  int n = (int)syscall(SYS_select, nfds, r, w, e, &z);
  if (n == 0 && blocking && g_cl) idle_hook();
  return n;
}

enum Kind { SUB_NEXT, SUB_INLOOP, SUB_RUN, CANCEL, PASS_FOREVER, PASS_ONCE, CLEANUP, TOPBULK_NEXT, TOPBULK_INLOOP, NKIND };
enum Beh { PLAIN, CHILD_NEXT, CHILD_INLOOP, CANCEL_FOLLOWING, CANCEL_PREVIOUS, EXIT, CANCEL_SELF, CHAIN3, BULK, NBEH };
struct Op { int k, a; };
static const char *kN[] = {"runNext", "runInLoop", "run", "cancel", "loopForever", "loopOnce", "cleanup", "bulkNext", "bulkInLoop"};
static const char *bN[] = {"plain", "child-next", "child-inloop", "cancel-following", "cancel-previous", "exit", "cancel-self", "chain3", "bulk"};

struct Task { int entry = 0; int beh = 0; Loop::RunId id = 0; int ran = 0; bool cancelled_ok = false; long order = 0; int parent = -1; };
struct World {
  Loop *loop; std::deque<Task> t; long order = 0; std::string viol; bool in_pass = false; long exit_at = 0;
  int add(int entry, int beh, int parent) { Task nt; nt.entry = entry; nt.beh = beh; nt.parent = parent; t.push_back(nt); return (int)t.size() - 1; }
  void submit(int idx) {
    auto f = [this, idx] { exec(idx); };
    Task &x = t[idx];
    if (idx & 1) {      // odd tasks go through the `const Func &` overloads, even ones through `Func &&`
      const Loop::Func cf(f);
      if (x.entry == SUB_NEXT) x.id = loop->runNext(cf); else if (x.entry == SUB_INLOOP) x.id = loop->runInLoop(cf); else x.id = loop->run(cf);
    } else {
      if (x.entry == SUB_NEXT) x.id = loop->runNext(f); else if (x.entry == SUB_INLOOP) x.id = loop->runInLoop(f); else x.id = loop->run(f);
    }
    if (x.id == 0) viol = "submit-returned-null-id";
  }
  void spawn(int entry, int beh, int parent) { int c = add(entry, beh, parent); submit(c); }
  void do_cancel(int idx) {
    if (idx < 0 || idx >= (int)t.size()) return; Task &x = t[idx];
    bool r = loop->cancel(x.id);
    if (r) { if (x.ran) viol = "cancel-true-for-a-callable-that-already-ran"; if (x.cancelled_ok) viol = "cancel-true-twice"; x.cancelled_ok = true; }
  }
  void exec(int idx) {
    Task &x = t[idx]; x.ran++; x.order = ++order;
    if (x.cancelled_ok) viol = "cancelled-callable-was-invoked";
    int beh = x.beh, entry = x.entry;
    switch (beh) {
      case CHILD_NEXT: spawn(SUB_NEXT, PLAIN, idx); break;
      case CHILD_INLOOP: spawn(SUB_INLOOP, PLAIN, idx); break;
      case CHAIN3: spawn(SUB_NEXT, CHILD_INLOOP, idx); break;      // four generations: this -> runNext child -> runInLoop grandchild -> plain
      case BULK: for (int i = 0; i < g_bulk_n; i++) spawn(entry, PLAIN, idx); break;   // N callables of one generation through the entry point this one came by
      case CANCEL_FOLLOWING: do_cancel(idx + 1); break;
      case CANCEL_PREVIOUS: do_cancel(idx - 1); break;
      case CANCEL_SELF: do_cancel(idx); break;        // "cancel whatever I still have pending" idiom: the running callable cancels its own id
      case EXIT: if (in_pass) { if (!exit_at) exit_at = order; loop->exitLoop(); } break;
    }
  }
  bool owed(const Task &x) const { return !x.cancelled_ok && x.ran == 0; }
};
static void idle_hook() {
  g_idle_exits++;
  if (g_w && g_w->viol.empty()) for (auto &x : g_w->t) if (g_w->owed(x)) { g_w->viol = std::string("loop-sleeps-with-pending-callable-") + kN[x.entry]; break; }
  g_cl->stopLoop();
}

static std::string engine;
static std::string show_op(const Op &o) { char b[48]; if (o.k <= SUB_RUN) snprintf(b, sizeof b, "%s(%s)", kN[o.k], bN[o.a]); else if (o.k == CANCEL) snprintf(b, sizeof b, "cancel(#%d)", o.a); else snprintf(b, sizeof b, "%s", kN[o.k]); return std::string(b); }

static std::string run_history(const std::vector<Op> &h, std::string &viol) {
  World w; w.loop = Loop::New(engine); CommonLoop *cl = static_cast<CommonLoop *>(w.loop); g_cl = cl; g_w = &w;
  std::vector<int> top;   // indices of tasks submitted by top-level ops, in issue order
  for (auto &o : h) {
    switch (o.k) {
      case SUB_NEXT: case SUB_INLOOP: case SUB_RUN: { int i = w.add(o.k, o.a, -1); top.push_back(i); w.submit(i); } break;
      case TOPBULK_NEXT: case TOPBULK_INLOOP: for (int n = 0; n < g_bulk_n; n++) { int i = w.add(o.k == TOPBULK_NEXT ? SUB_NEXT : SUB_INLOOP, PLAIN, -1); top.push_back(i); w.submit(i); } break;
      case CANCEL: if (o.a < (int)top.size()) w.do_cancel(top[o.a]); break;
      case CLEANUP: w.loop->cleanup(); break;   // public drain between runs; the property says nothing about what it must run, only that nothing is lost / doubled / reordered across it
      case PASS_FOREVER: case PASS_ONCE: {
        long pass_start = w.order; w.exit_at = 0;
        w.loop->runNext([] {});            // so the back-end polls instead of sleeping
        w.in_pass = true; w.loop->runLoop(o.k == PASS_FOREVER ? Loop::Mode::kForever : Loop::Mode::kOnce); w.in_pass = false;
        // a callable pending when the loop stops is run during shutdown: nothing that was submitted before the stop may be left behind.
        // Decided by the model: submitted from outside (before this pass), or by a callable that ran before this pass or before the first exitLoop() call of it.
        for (auto &x : w.t) if (w.owed(x)) {
          if (x.parent == -1) w.viol = "callable-still-pending-after-loop-returned";
          else { long po = w.t[x.parent].order; if (po <= pass_start || (w.exit_at && po < w.exit_at)) w.viol = "callable-submitted-before-the-stop-still-pending-after-loop-returned"; }
        }
      } break;
    }
    if (!w.viol.empty()) break;
  }
  // canonical state before destruction: queue contents as (entry,behaviour,ran,cancelled) of the owning task + flags
  std::string c;
  std::unordered_map<Loop::RunId, int> by_id; for (size_t i = 0; i < w.t.size(); i++) by_id[w.t[i].id] = (int)i;
  auto key = [&](Loop::RunId id) { auto it = by_id.find(id); if (it == by_id.end()) return std::string("?,"); char b[32]; snprintf(b, sizeof b, "%d.%d.%d,", w.t[it->second].entry, w.t[it->second].beh, it->second - (int)w.t.size()); return std::string(b); };
  c += "N:"; for (auto &it : cl->run_next_func_queue_) c += key(it.id); c += "|L:"; for (auto &it : cl->run_in_loop_func_queue_) c += key(it.id);
  c += "|T:"; for (auto &it : cl->tmp_func_queue_) c += key(it.id);
  c += "|f" + std::to_string((int)cl->has_commit_run_req_) + "|issued" + std::to_string(top.size() > 4 ? 4 : top.size());
  // stale handles the harness may still cancel: the status of the first 4 issued callables
  for (size_t i = 0; i < top.size() && i < 4; i++) { auto &x = w.t[top[i]]; c += (x.cancelled_ok ? 'c' : x.ran ? 'r' : 'p'); }
  g_cl = nullptr; delete w.loop; g_w = nullptr;     // destruction runs whatever is still pending
  if (w.viol.empty()) {
    long last[3] = {0, 0, 0};
    for (auto &x : w.t) { int want = x.cancelled_ok ? 0 : 1; if (x.ran != want) { w.viol = x.ran > want ? "callable-invoked-more-than-once" : "callable-dropped-never-invoked"; break; } }
    // submission order within one entry point (tasks are created in submission order)
    if (w.viol.empty()) for (auto &x : w.t) if (x.ran) { if (x.order < last[x.entry]) { w.viol = std::string("order-violated-within-entry-point-") + kN[x.entry]; break; } last[x.entry] = x.order; }
  }
  viol = w.viol;
  return c;
}

int main(int argc, char **argv) {
  engine = argc > 1 ? argv[1] : "epoll"; size_t depth = argc > 2 ? atoi(argv[2]) : 5; size_t sdepth = argc > 3 ? atoi(argv[3]) : 3;
  hx::install_crash_reporter("C01-crash");
  double deadline = hx::deadline_from_env(600);
  // size lanes first (small, bounded): N callables in one generation
  for (int n : {1, 99, 100, 101, 102, 201, 1000}) {
    hx::Explorer<Op> ex; ex.name = engine + "-bulk" + std::to_string(n); ex.deadline_s = deadline; ex.show = show_op; ex.run = run_history;
    ex.menu = [&](const std::vector<Op> &h) {
      std::vector<Op> m; bool any = false; for (auto &o : h) if (o.k <= SUB_RUN || o.k >= TOPBULK_NEXT) any = true;
      for (int k : {SUB_NEXT, SUB_INLOOP, SUB_RUN}) m.push_back({k, BULK});
      m.push_back({SUB_NEXT, EXIT}); m.push_back({SUB_INLOOP, EXIT});
      m.push_back({TOPBULK_NEXT, 0}); m.push_back({TOPBULK_INLOOP, 0});
      if (any) m.push_back({CANCEL, 0});
      m.push_back({PASS_FOREVER, 0}); m.push_back({PASS_ONCE, 0}); m.push_back({CLEANUP, 0});
      return m; };
    g_bulk_n = n; ex.explore(sdepth);
  }
  {
    hx::Explorer<Op> ex; ex.name = engine; ex.deadline_s = deadline; ex.show = show_op; ex.run = run_history;
    ex.menu = [&](const std::vector<Op> &h) {
      std::vector<Op> m; int issued = 0; for (auto &o : h) if (o.k <= SUB_RUN) issued++;
      for (int k : {SUB_NEXT, SUB_INLOOP, SUB_RUN}) for (int b = 0; b < NBEH; b++) if (b != BULK) m.push_back({k, b});
      for (int i = 0; i < issued && i < 4; i++) m.push_back({CANCEL, i});
      m.push_back({PASS_FOREVER, 0}); m.push_back({PASS_ONCE, 0}); m.push_back({CLEANUP, 0});
      return m; };
    g_bulk_n = 3; ex.explore(depth);
  }
  printf("@STAT idle_exits=%ld\n", g_idle_exits);
  return 0;
}
