import time, subprocess, vf
from concurrent.futures import ThreadPoolExecutor
PID = "C20"
H = vf.VERIF + "/checks/C20/harness.cpp"
STUB = [vf.VERIF + "/engine/sched/log_stub.cpp"]
def main(tier, args):
    t0 = time.time()
    srcs = vf.module_sources("alarm", "event")
    # one source, two executables (sweep half / firing half) built concurrently; the harness TU itself is compiled -Og -g0
    # (25 s -> 8 s of compile time; the cpp-tbox sources keep -O1 -g with ASan+UBSan)
    with ThreadPoolExecutor(2) as ex:
        fs = ex.submit(vf.build, "C20/alarm_sweep_asan", [H], srcs, mode="asan", plain_srcs=STUB, harness_flags=["-Og", "-g0", "-DC20_ONLY_SWEEP"])
        ff = ex.submit(vf.build, "C20/alarm_fire_asan", [H], srcs, mode="asan", plain_srcs=STUB, harness_flags=["-Og", "-g0", "-DC20_ONLY_FIRE"])
        fc = ex.submit(vf.build, "C20/calendar_asan", [vf.VERIF + "/checks/C20/calendar_harness.cpp"], srcs, mode="asan", plain_srcs=STUB)
        sweep, firex, calx = fs.result(), ff.result(), fc.result()
    quick = tier == "quick"
    # the firing configurations are defined in one place only (fire_cfgs() in harness.cpp)
    FIRE = subprocess.run([firex, "list-fire"], capture_output=True, text=True, check=True).stdout.split()
    NFAR = int(subprocess.run([firex, "count-far"], capture_output=True, text=True, check=True).stdout)
    NSETS, NDEFECT = [int(x) for x in subprocess.run([sweep, "count-cron-sets"], capture_output=True, text=True, check=True).stdout.split()]
    depth, dl, budget = (6, 60, 85) if quick else (8, 1100, 1260)
    res = vf.Result(); log = open(vf.BUILD + "/C20/log.txt", "w")
    # per-process deadline + a check-wide absolute one, so that queued processes cannot add up beyond the tier budget
    env = {"VERIF_DEADLINE_S": str(dl), "C20_DEADLINE_ABS": "%.0f" % (time.time() + budget)}      # counted from the end of the build (an overloaded machine must not spend the whole budget compiling)
    cmds = []
    # firing histories first (the longest jobs), then the sweeps; ASan+UBSan build for everything (the week sweep runs 5*10^7 calls/s under ASan, -O2 is not needed)
    cmds += [("fire:" + c, [firex, "fire", c, str(depth)]) for c in FIRE]
    # lane: three WorkdayAlarms on one WorkdayCalendar, calendar updates must re-arm every enabled alarm
    cmds += [("calendar", [calx, "6" if quick else "8"])]
    cmds += [("weekly-full:%d" % i, [sweep, "sweep-weekly-full", str(i), "16", tier]) for i in range(16)]
    cmds += [("weekly-tz:%d" % i, [sweep, "sweep-weekly-tz", str(i), "16", tier]) for i in range(16)]
    cmds += [("cron:%d" % i, [sweep, "sweep-cron", str(i), "16", tier]) for i in range(16)]
    cmds += [("workday:%d" % i, [sweep, "sweep-workday", str(i), "8", tier]) for i in range(8)]
    cmds += [("oneshot:%d" % i, [sweep, "sweep-oneshot", str(i), "4", tier]) for i in range(4)]
    if args.only:
        cmds = [c for c in cmds if c[0].startswith(args.only)]
    vf.run_procs(res, cmds, env=env, log=log)
    vf.finish(PID, tier, res, t0,
              rule="(1) next-instant function, exhaustive input sweeps on the real alarm classes: weekly = every second of 3 base weeks (epoch 0, straddling 2^31, "
                   "last week below 2^32-(1 week+14 h)) x all 128 weekday masks x seconds-of-day {0,86399} (+ %s) through a probe subclass, and +-2 s around every UTC/local day "
                   "boundary and trigger x tz -12h..+14h step 15 min x %s through the real activeTimer() under a virtual wall clock; "
                   "one-shot = every second of 2 days x 9 boundary seconds-of-day + every second-of-day x boundary instants + all tz; workday = all calendars with <=3 special days in a "
                   "10-day window x 4 (thorough 6) week masks + single matching day 1..400 days ahead; cron = shapes 's m h * * *', 's m h * * d', 's m h D M *' with extreme field values, plus "
                   "%d expressions with lists, ranges, steps, month/weekday names (upper, lower and mixed case), '*/10' in day-of-month, '?', 7 = Sunday and day-of-month AND day-of-week whose value sets are written out by hand (harness has no cron parser; "
                   "reference = day scan over the sets, all (h, m, s) combinations inside a matching day) x dense boundary instants (+-2 s around up to 14 triggers of the day) over 7 windows and per-day "
                   "probes over 5+5 years; the `now` values are NOT monotonic (windows jump backwards), so a result remembered from an earlier call shows; oracle = independent day-scan reference "
                   "(own civil calendar), result strictly after now, armed delay >= wall distance. (2) firing: BFS over histories of {enable, disable, refresh, pass, skew monotonic +5 ms, wall +-1 h, "
                   "toggle the explicit time zone by -180 min, initialize() again with the same configuration, cleanup() (at most once, thorough twice; then enable must fail until initialize), initialize() with INVALID arguments (seconds-of-day -1/86400, mask of 6/8 characters, null calendar, combined with otherwise different values: must be refused and leave the alarm as configured; not for cron alarms, see assumptions) [these four not on the %d far-target configurations; wall steps and zone toggles: two per history, one on the plain calendar configurations where steps + calendar ops are two in total, none on start-5ms-before / empty-mask / cron-every-30min / workday-holidays / callback variants of calendar configurations], advance to half/T-5ms/T/T+1s, and on the "
                   "calendar configurations: next matching day stops matching / tomorrow starts matching / special days cleared} depth<=%d on %d weekly/one-shot/cron/workday configurations "
                   "(targets 40/50/60/100/400 days ahead, a two-instants-per-day cron list, two repeating alarms that RUN OUT of instants at a fire (workday calendar with one matching day, cron 29 Feb 2096 with the next "
                   "one beyond the 4-year horizon: must end up stopped, calendar update + enable revives), and 14 configurations whose CALLBACK itself calls enable() / refresh() / disable() / initialize()+enable() / "
                   "cleanup() (which destroys the running callback object) / a calendar update / setTimezone()+refresh() on its alarm) under virtual wall + monotonic clocks, the wall clock standing at a non-zero microsecond (0/1/499/500/501/700/999 us past the millisecond) and every armed delay judged in microseconds; the process time zone "
                   "of all executables is a DST zone far from UTC (TZ=XXX-5:45YYY,M3.2.0,M11.1.0) while every alarm sets its zone explicitly; state = full alarm (incl. the last-fired record, zone, calendar subscriptions) + the configuration fields as the implementation holds them + timer + loop-timer record + model; oracle = one callback "
                   "per matching instant, never two (arming again for an instant whose callback already ran is reported at once), none while disabled or after cleanup, one-shot once per enable, armed "
                   "delay (TimerEvent interval and loop timer record, read inside the callback for re-arms made there) >= wall distance at arming, armed target = earliest matching instant under the zone "
                   "and calendar in force. (3) calendar lane: BFS (depth 6, thorough 8) over enable/disable/refresh of three WorkdayAlarms sharing one WorkdayCalendar and updates of its special days / "
                   "week mask: every enabled alarm must be armed for the earliest matching instant under the calendar in force, its TimerEvent interval and loop timer record >= the wall distance, exactly "
                   "one loop timer record per enabled alarm and none for a disabled one"
                   % ("{1,23296,43200,86398} and 12 more values on a stride-7 grid" if quick else "every 10-minute value, every hour +-1 and 16 boundary values at every second", "seconds-of-day {0,1,43200,86398,86399} x 40 masks (all with <=2 or >=6 days set + 3 patterns)" if quick else "16 boundary seconds-of-day x all 128 masks", NSETS, NFAR, depth, len(FIRE)),
              assumptions=["cron numbers with a leading zero ('0 30 08 * * *', '0 0 010 * * *' = 10:00) and a rejected CronAlarm::initialize() after a valid one are explored by default since their repair in /repo (C20_CRON_LEADING_ZERO=0 / C20_CRON_REJECTED_INIT=0 turn them off)",
                           "cron: day-of-month and day-of-week both restricted is read as a conjunction (what ccronexpr implements); %d expressions left out by C20_CRON_KNOWN_DEFECTS=0 "
                           "(default: none left out; the 8 expressions that exposed the ccronexpr defects 'lower field kept after a roll-over', 'same day number in a later month', "
                           "'day 29..31 overflows when the month is set' are evaluated)" % NDEFECT,
                           "initialize() with the SAME configuration keeps what already fired (a 5 ms early wake-up followed by disable/initialize/enable must not fire the same instant again); "
                           "cleanup() forgets it (both outcomes accepted afterwards); the time-zone toggle is treated like a wall-clock step (unknown to the alarm until enable()/refresh())",
                           "instants within one week + 14 h of 2^32 are excluded; so are inputs whose local time now+tz is negative",
                           "a 'not found' answer is accepted beyond the implementation's search horizon (weekly 8 days, workday 367 days, cron 4 years)",
                           "clock advances stop at each matching instant (+<=1 s) and are followed by a loop pass: no catch-up is demanded",
                           "after a wall-clock step and until the next enable()/refresh() only never-twice/disabled-never/one-shot-once and the armed-delay rule are checked; "
                           "a callback of the un-refreshed timer that comes before the wall clock reaches the instant is not counted as that instant's callback; "
                           "after a backward step both re-firing and not re-firing the re-exposed instants are accepted",
                           "callbacks are attributed to the nearest matching instant (instants >= 30 min apart, skew <= 10 ms, wall steps <= 2 h in total)",
                           "the time zone is always set explicitly (setTimezone); the system-time-zone path (localtime_r) is not exercised",
                           "gettimeofday/clock_gettime/time are the only clock sources of alarm.cpp and common_loop_timer.cpp (checked by reading them)"])
