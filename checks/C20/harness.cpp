// C20: alarms pick the earliest matching future instant and fire once per instant.
//
//   harness sweep-weekly-full <part> <nparts> <tier>     engine I  every second of a week x masks (probe subclass)
//   harness sweep-weekly-tz   <part> <nparts> <tier>     engine I  day-boundary seconds x every tz offset (real activeTimer, virtual wall clock)
//   harness sweep-oneshot     <part> <nparts> <tier>     engine I
//   harness sweep-workday     <part> <nparts> <tier>     engine I  calendars with <=3 special days + long holiday stretches
//   harness sweep-cron        <part> <nparts> <tier>     engine I  three expression shapes, field values at their extremes + list/range/step/name expressions with hand-written value sets
//   harness fire <config> <depth>                        engine H  BFS over enable/disable/refresh/initialize/cleanup/zone/calendar/clock histories, optional action inside the callback
//   harness fire-replay <config> <op,op,...>             replay one history of a firing configuration
//
// Readings (DESIGN.md 1.7, quoted here next to the rules):
//  * instants within one week + 14 h of 2^32 are excluded (no next instant exists in range); symmetrically,
//    inputs whose LOCAL time (now + tz) would be negative are excluded (local time before the epoch).
//  * clock advances stop at each matching instant (+ at most one second) and a loop pass follows before the
//    next advance: alarms have no catch-up and the property does not ask for it.
//  * a "not found" answer is accepted when the reference finds no matching instant inside the implementation's
//    documented search horizon (weekly: 8 days, workday: 367 days, cron: CRON_MAX_YEARS_DIFF = 4 years).
//  * after a wall-clock step the alarm cannot know about it until refresh()/enable(): until then only
//    "never twice for one instant", "disabled never fires", "one-shot once" and the armed-delay rule are checked.
//    A backward step makes the instants it re-exposes future instants again (they may fire again or not: both accepted).
//    A callback that comes while the alarm is still un-refreshed after a step and BEFORE the wall clock reaches the instant
//    (timer ran out on the monotonic clock) is not counted as that instant's callback; advances then stop where the
//    alarm's own armed timer is due.
//  * callbacks are attributed to the nearest matching instant (instants are >= 30 min apart in every configuration,
//    skew <= 10 ms, wall steps <= 2 h in total) under the time zone that was in force when the alarm armed.
//  * toggling the explicit time zone (setTimezone) on a live alarm is treated like a wall-clock step: the alarm cannot know
//    until enable()/refresh(); from then on the earliest matching instant under the NEW zone is demanded.
//  * initialize() again with the same configuration is refused while running and otherwise changes nothing observable: what
//    already fired stays fired (early wake-up, disable, initialize, enable must not deliver the same instant twice).
//    cleanup() stops the alarm and returns it to the un-initialised state (enable() must fail until initialize()); it forgets
//    what fired, so afterwards both re-firing and not re-firing an instant are accepted.
//  * an alarm's callback may call enable()/refresh()/disable()/initialize() on its own alarm; a one-shot re-enabled from its
//    callback must wait for an instant strictly after the one being delivered.  Arming for an instant whose callback already
//    ran (and that no backward step / cleanup() re-exposed) is reported at the arming, not only when the second callback comes.
//  * initialize() with invalid arguments must be refused and leave a configured alarm exactly as it was (weekly, one-shot, workday).  For
//    CronAlarm this does not hold on the unchanged tree (partial expression left behind): C20_CRON_REJECTED_INIT=1 turns the op on there.
//  * a repeating alarm whose re-arm at a fire finds no further instant (within the class's search horizon) ends up stopped; a later calendar
//    update does not revive it by itself (refresh() of a stopped alarm does nothing), enable() does.
//  * the wall clock stands at a non-zero microsecond; "never shorter than the wall-clock distance" is judged in microseconds.
//  * the process time zone (TZ) is a DST zone far from UTC; since every alarm sets its zone explicitly nothing may depend on it.
//  * cleanup() called from the alarm's own callback is explored (it destroys the std::function that is running: the harness' closure is a single
//    pointer copied to a local first); accepted outcome = stopped, un-initialised, callback gone.
//  * cron: day-of-month and day-of-week both restricted = both must hold (what the bundled ccronexpr implements).  Expressions
//    that exposed the three ccronexpr defects (see cron_cases()) are evaluated by default; C20_CRON_KNOWN_DEFECTS=0 leaves them out.
#include "hist/hist.h"
#include "probe.h"
#include <tbox/event/loop.h>
#include <tbox/event/timer_event.h>
#include <tbox/event/common_loop.h>
#include <tbox/event/timer_event_impl.h>
#include <tbox/alarm/alarm.h>
#include <tbox/alarm/weekly_alarm.h>
#include <tbox/alarm/oneshot_alarm.h>
#include <tbox/alarm/workday_alarm.h>
#include <tbox/alarm/workday_calendar.h>
#include <tbox/alarm/cron_alarm.h>
#include <tbox/alarm/3rd-party/ccronexpr.h>
#include <sys/syscall.h>
#include <sys/time.h>
#include <time.h>
#include <cstdint>
#include <cinttypes>
#include <cstdarg>
#include <memory>
#include <set>

using namespace tbox;
using namespace tbox::alarm;

// members that only feed the canonical state key / diagnostics are read through probes (a rename must not stop the check from building)
VF_PROBE(state_) VF_PROBE(fired_utc_sec_) VF_PROBE(using_independ_timezone_) VF_PROBE(timezone_offset_seconds_) VF_PROBE(watch_alarms_)
VF_PROBE(seconds_of_day_) VF_PROBE(week_mask_) VF_PROBE(workday_) VF_PROBE(wp_calendar_) VF_PROBE(sp_cron_expr_)

// ------------------------------------------------------------------------------------------------
// virtual clocks: alarm.cpp reads the wall clock through gettimeofday() only; the loop's timer code
// (common_loop_timer.cpp) reads std::chrono::steady_clock::now() = clock_gettime(CLOCK_MONOTONIC).
// time() and CLOCK_REALTIME are virtualised too so nothing can see the real wall clock.
// While g_virt is false (outside the code under test) the real clocks are returned, so the
// explorer's own deadline (hist.h uses steady_clock) keeps running on real time.
static bool g_virt = false;
static int64_t g_wall_ms = 0, g_mono_ms = 0;
// microseconds on top of g_wall_ms (0..999): the real gettimeofday() is not a multiple of 1000 us.  Constant while a history runs (all advances
// are whole milliseconds); the armed delay is judged against the wall distance in MICROseconds, so rounding the sub-millisecond part the wrong way shows.
static int64_t g_wall_sub_us = 0;
static inline int64_t wall_us() { return g_wall_ms * 1000 + g_wall_sub_us; }
extern "C" int clock_gettime(clockid_t k, struct timespec *ts) {
  if (g_virt) {
    if (k == CLOCK_REALTIME || k == CLOCK_REALTIME_COARSE) { ts->tv_sec = g_wall_ms / 1000; ts->tv_nsec = (g_wall_ms % 1000) * 1000000L + g_wall_sub_us * 1000L; return 0; }
    if (k == CLOCK_MONOTONIC || k == CLOCK_MONOTONIC_COARSE || k == CLOCK_MONOTONIC_RAW || k == CLOCK_BOOTTIME) { ts->tv_sec = g_mono_ms / 1000; ts->tv_nsec = (g_mono_ms % 1000) * 1000000L; return 0; }
  }
  return (int)syscall(SYS_clock_gettime, k, ts);
}
extern "C" int gettimeofday(struct timeval *tv, void *tz) {
  if (g_virt) { tv->tv_sec = g_wall_ms / 1000; tv->tv_usec = (g_wall_ms % 1000) * 1000 + g_wall_sub_us; return 0; }
  return (int)syscall(SYS_gettimeofday, tv, tz);
}
extern "C" time_t time(time_t *t) {
  time_t r;
  if (g_virt) r = (time_t)(g_wall_ms / 1000);
  else { struct timespec ts; syscall(SYS_clock_gettime, CLOCK_REALTIME, &ts); r = ts.tv_sec; }
  if (t) *t = r;
  return r;
}
// watchdog: a hang inside the code under test (e.g. an alarm re-arming itself with a zero delay inside the loop) becomes a violation
static void on_watchdog(int) { hx::emit_crash("hang-watchdog"); _exit(0); }
static void watchdog(unsigned sec) { signal(SIGALRM, on_watchdog); ::alarm(sec); }
static double real_now_s() { struct timespec ts; syscall(SYS_clock_gettime, CLOCK_MONOTONIC, &ts); return ts.tv_sec + ts.tv_nsec * 1e-9; }
// seconds this process may still run: min(VERIF_DEADLINE_S, time left until the check-wide absolute deadline C20_DEADLINE_ABS (real epoch seconds))
static double budget_s(double dflt) {
  const char *e = getenv("VERIF_DEADLINE_S"); double d = e ? atof(e) : dflt;
  if (const char *a = getenv("C20_DEADLINE_ABS")) { struct timespec ts; syscall(SYS_clock_gettime, CLOCK_REALTIME, &ts); d = std::min(d, std::max(1.0, atof(a) - (ts.tv_sec + ts.tv_nsec * 1e-9))); }
  return d;
}
struct Virt { bool old; Virt() : old(g_virt) { g_virt = true; } ~Virt() { g_virt = old; } };

// ------------------------------------------------------------------------------------------------
// reference calendar arithmetic (independent of gmtime/timegm and of the code under test)
static const int64_t DAY = 86400, WEEK = 604800, TWO32 = 4294967296LL;
static inline int64_t fdiv(int64_t a, int64_t b) { int64_t q = a / b; return (a % b != 0 && ((a < 0) != (b < 0))) ? q - 1 : q; }
static inline int wd_of_day(int64_t day) { return (int)((((day + 4) % 7) + 7) % 7); }   // 0 = Sunday; day 0 = 1970-01-01 = Thursday
static void civil_from_days(int64_t z, int &y, int &m, int &d) {                      // proleptic Gregorian
  z += 719468; int64_t era = fdiv(z, 146097); int64_t doe = z - era * 146097;
  int64_t yoe = (doe - doe / 1460 + doe / 36524 - doe / 146096) / 365; int64_t yy = yoe + era * 400;
  int64_t doy = doe - (365 * yoe + yoe / 4 - yoe / 100); int64_t mp = (5 * doy + 2) / 153;
  d = (int)(doy - (153 * mp + 2) / 5 + 1); m = (int)(mp < 10 ? mp + 3 : mp - 9); y = (int)(yy + (m <= 2));
}
static int64_t days_from_civil(int y, int m, int d) {
  y -= m <= 2; int64_t era = fdiv(y, 400); int64_t yoe = y - era * 400;
  int64_t doy = (153 * (m + (m > 2 ? -3 : 9)) + 2) / 5 + d - 1; int64_t doe = yoe * 365 + yoe / 4 - yoe / 100 + doy;
  return era * 146097 + doe - 719468;
}
static int64_t utc(int y, int mo, int d, int h = 0, int mi = 0, int s = 0) { return days_from_civil(y, mo, d) * DAY + h * 3600 + mi * 60 + s; }

// A configuration as the reference sees it: which local days match, and at which second of the day.
struct RefCfg {
  enum Kind { WEEKLY, ONESHOT, WORKDAY, CRON_DAILY, CRON_DOW, CRON_DM, CRON_HALFHOUR, CRON_SETS } kind = WEEKLY;
  // CRON_SETS: explicit value sets per field (written down next to the expression in the case table: the harness has no cron parser).
  // A local day matches when day-of-month AND month AND day-of-week are all in their sets (the conjunction is what the bundled
  // ccronexpr implements, like the Spring scheduler it was ported from); within a matching day the instants are all (h, m, s) combinations.
  uint64_t set_sec = 1, set_min = 1; uint32_t set_hour = 1, set_dom = 0xfffffffeu, set_mon = 0x1ffe, set_dow = 0x7f;
  std::vector<int> tods() const { std::vector<int> v; for (int h = 0; h < 24; h++) if ((set_hour >> h) & 1) for (int m = 0; m < 60; m++) if ((set_min >> m) & 1) for (int x = 0; x < 60; x++) if ((set_sec >> x) & 1) v.push_back(h * 3600 + m * 60 + x); return v; }
  bool sets_day(int64_t day) const { int y, m, d; civil_from_days(day, y, m, d); return ((set_dom >> d) & 1) && ((set_mon >> m) & 1) && ((set_dow >> wd_of_day(day)) & 1); }
  int64_t sets_next(int64_t L) const { int64_t day = fdiv(L, DAY); std::vector<int> t = tods();
    for (int i = 0; i < horizon_days; i++) { if (!sets_day(day + i)) continue; for (int v : t) if ((day + i) * DAY + v > L) return (day + i) * DAY + v; }
    return -1; }
  int64_t sets_prev(int64_t L) const { int64_t day = fdiv(L, DAY); std::vector<int> t = tods();
    for (int i = 0; i < horizon_days; i++) { if (!sets_day(day - i)) continue; for (size_t j = t.size(); j-- > 0;) if ((day - i) * DAY + t[j] <= L) return (day - i) * DAY + t[j]; }
    return -1; }
  int sod = 0;               // second of the local day
  int mask = 0x7f;           // WEEKLY: bit i = weekday i (0 = Sunday); CRON_DOW: single weekday bit
  int dom = 1, mon = 1;      // CRON_DM
  int cal_mask = 0x3e; std::map<int, bool> special; bool on_workday = true;   // WORKDAY
  int horizon_days = 8;      // reference scans this many local days starting with today
  bool day_matches(int64_t day) const {
    switch (kind) {
      case WEEKLY: case CRON_DOW: return (mask >> wd_of_day(day)) & 1;
      case ONESHOT: case CRON_DAILY: case CRON_HALFHOUR: return true;
      case WORKDAY: { auto it = special.find((int)day); bool w = it != special.end() ? it->second : ((cal_mask >> wd_of_day(day)) & 1); return w == on_workday; }
      case CRON_DM: { int y, m, d; civil_from_days(day, y, m, d); return m == mon && d == dom; }
      case CRON_SETS: return sets_day(day);
    }
    return false;
  }
  // earliest LOCAL instant strictly after local second L, or -1 when none within the horizon
  // CRON_DM: the only candidate days are (year, mon, dom) for consecutive years; a date that does not exist (30 Feb) does not round-trip
  int64_t dm_day(int year) const { int64_t d = days_from_civil(year, mon, dom); int y, m, dd; civil_from_days(d, y, m, dd); return (y == year && m == mon && dd == dom) ? d : INT64_MIN; }
  int64_t next_local(int64_t L) const {
    if (kind == CRON_HALFHOUR) return (fdiv(L, 1800) + 1) * 1800;
    if (kind == CRON_SETS) return sets_next(L);
    if (kind == CRON_DM) { int y, m, d; civil_from_days(fdiv(L, DAY), y, m, d);
      for (int i = 0; i <= horizon_days / 366; i++) { int64_t dd = dm_day(y + i); if (dd != INT64_MIN && dd * DAY + sod > L) return dd * DAY + sod; }
      return -1; }
    return next_local_dayscan(L);
  }
  int64_t next_local_dayscan(int64_t L) const {
    int64_t day = fdiv(L, DAY);
    for (int i = 0; i < horizon_days; i++) { int64_t t = (day + i) * DAY + sod; if (t > L && day_matches(day + i)) return t; }
    return -1;
  }
  // latest LOCAL instant <= L (for attributing a callback to an instant), or -1
  int64_t prev_local(int64_t L) const {
    if (kind == CRON_HALFHOUR) return fdiv(L, 1800) * 1800;
    if (kind == CRON_SETS) return sets_prev(L);
    if (kind == CRON_DM) { int y, m, d; civil_from_days(fdiv(L, DAY), y, m, d);
      for (int i = 0; i <= horizon_days / 366; i++) { int64_t dd = dm_day(y - i); if (dd != INT64_MIN && dd * DAY + sod <= L) return dd * DAY + sod; }
      return -1; }
    int64_t day = fdiv(L, DAY);
    for (int i = 0; i < horizon_days; i++) { int64_t t = (day - i) * DAY + sod; if (t <= L && day_matches(day - i)) return t; }
    return -1;
  }
  int64_t next_utc(int64_t now_sec, int tz_sec) const { int64_t r = next_local(now_sec + tz_sec); return r < 0 ? -1 : r - tz_sec; }
  int64_t prev_utc(int64_t now_sec, int tz_sec) const { int64_t r = prev_local(now_sec + tz_sec); return r < 0 ? -1 : r - tz_sec; }
};

// ------------------------------------------------------------------------------------------------
// probe subclasses exposing the protected next-instant computation
struct WeeklyProbe : WeeklyAlarm { using WeeklyAlarm::WeeklyAlarm; using WeeklyAlarm::calculateNextLocalTimeSec; };
struct OneshotProbe : OneshotAlarm { using OneshotAlarm::OneshotAlarm; using OneshotAlarm::calculateNextLocalTimeSec; };
struct WorkdayProbe : WorkdayAlarm { using WorkdayAlarm::WorkdayAlarm; using WorkdayAlarm::calculateNextLocalTimeSec; };
struct CronProbe : CronAlarm { using CronAlarm::CronAlarm; using CronAlarm::calculateNextLocalTimeSec; };

static std::string mask_str(int mask) { std::string s; for (int i = 0; i < 7; i++) s.push_back(((mask >> i) & 1) ? '1' : '0'); return s; }

// ------------------------------------------------------------------------------------------------
// sweep bookkeeping
struct Sweep {
  const char *name; uint64_t evals = 0, skipped = 0, viols = 0, notfound = 0; double deadline; bool capped = false; int samples = 0;
  std::map<std::string, uint64_t> sigs; std::map<std::string, uint64_t> outcomes;
  explicit Sweep(const char *n) : name(n) { double d = budget_s(600); deadline = real_now_s() + d;
    strncpy(hx::g_cur_tag, "C20-sweep", sizeof hx::g_cur_tag - 1); hx::set_current(std::string(n) + " (input sweep)"); watchdog((unsigned)d + 120); }
  // the replay text is only built for the (at most 3) occurrences of a signature that are printed
  template <class F> void viol(const char *kind, const char *what, F &&replay) { viols++;
    if (viols >= 200000 && !capped) { capped = true; printf("@CAP %s: stopped after %" PRIu64 " violations (flood)\n", name, viols); }
    std::string sig = std::string(kind) + what; uint64_t &n = sigs[sig]; if (++n <= 3) { std::string r = replay(); printf("@VIOL sig=%s :: %s\n", sig.c_str(), r.c_str()); fflush(stdout); } }
  void viol(const std::string &sig, const std::string &replay) { viol(sig.c_str(), "", [&] { return replay; }); }
  void sample(const std::string &s) { if (samples++ < 2) printf("@SAMPLE %s: %s\n", name, s.c_str()); }
  bool expired() { if (!capped && real_now_s() > deadline) { capped = true; printf("@CAP %s: deadline reached after %" PRIu64 " evaluations\n", name, evals); } return capped; }
  void outcome(const std::string &o) { outcomes[o]++; }
  uint64_t oc[2][12] = {};
  void outcome_id(int a, int b) { oc[a][b]++; }
  void finish() {
    static const char *dn[12] = {"0", "1", "2", "3", "4", "5", "6", "7", "8", "9..49", "50..366", ">=367"};
    if (oc[0][0]) outcomes["not-found"]++;
    for (int i = 0; i < 12; i++) if (oc[1][i]) outcomes[std::string("found dist_days=") + dn[i]]++;
    for (auto &o : outcomes) printf("@OUTCOME %s: %s\n", name, o.first.c_str());
    for (auto &s : sigs) printf("@INFO %s: signature %s seen %" PRIu64 " times\n", name, s.first.c_str(), s.second);
    printf("@STAT states=%" PRIu64 " transitions=%" PRIu64 " executions=%" PRIu64 " violations=%" PRIu64 " skipped_out_of_domain=%" PRIu64 " not_found_answers=%" PRIu64 "\n", evals, evals, evals, viols, skipped, notfound);
    fflush(stdout);
  }
};
static std::string fmt(const char *f, ...) { char b[600]; va_list ap; va_start(ap, f); vsnprintf(b, sizeof b, f, ap); va_end(ap); return b; }

// Judge one answer of a next-instant computation against the reference.  `now`/`got`/`ref` are in the same time
// scale (local for probe calls, UTC for activeTimer calls); ref < 0 = no matching instant inside the horizon.
template <class F>
static void judge(Sweep &sw, const char *kind, bool ok, int64_t now, int64_t got, int64_t ref, F &&input) {
  sw.evals++;
  if (ref < 0) {
    if (ok) sw.viol(kind, "-next-found-but-no-matching-instant", [&] { return input() + fmt(" got=%" PRId64 " ref=none", got); });
    else { sw.notfound++; sw.outcome_id(0, 0); }
    return;
  }
  if (!ok) { sw.viol(kind, "-next-not-found-but-instant-exists", [&] { return input() + fmt(" ref=%" PRId64, ref); }); return; }
  if (got == ref) { int64_t d = (ref - now) / DAY; sw.outcome_id(1, d < 9 ? (int)d : d < 50 ? 9 : d < 367 ? 10 : 11); return; }
  if (got <= now) sw.viol(kind, "-next-not-strictly-after-now", [&] { return input() + fmt(" got=%" PRId64 " ref=%" PRId64, got, ref); });
  else if (got > ref) sw.viol(kind, "-next-not-earliest", [&] { return input() + fmt(" got=%" PRId64 " ref=%" PRId64 " (late by %" PRId64 " s)", got, ref, got - ref); });
  else sw.viol(kind, "-next-not-a-matching-instant", [&] { return input() + fmt(" got=%" PRId64 " ref=%" PRId64, got, ref); });
}

#ifndef C20_ONLY_FIRE   // ---- engine I half (check.py builds the two halves as two executables so they compile in parallel)
// the base weeks: epoch 0, the week straddling 2^31, and the last week whose instants are all in the domain
static const int64_t BASE_LO = 0, BASE_MID = (1LL << 31) - WEEK / 2, DOMAIN_END = TWO32 - WEEK - 14 * 3600 /* exclusive */, BASE_HI = DOMAIN_END - WEEK;

// drive the REAL Alarm::activeTimer under the virtual wall clock: (re)arm at `now_ms` and read the instant it armed for
struct Armed { bool ok; int64_t target; int64_t delay_ms; uint32_t remain; int64_t sub_us; };
static Armed arm_at(Alarm &a, event::Loop *loop, int64_t now_ms, int tz_min, uint64_t &since_pass) {
  static const int kSub[8] = {0, 1, 499, 500, 501, 700, 998, 999}; static unsigned sub_i = 0;
  Virt v; g_wall_ms = now_ms; g_wall_sub_us = kSub[sub_i++ & 7]; g_mono_ms = 1000000 + (now_ms % 977);
  a.setTimezone(tz_min);
  if (a.isEnabled()) a.refresh(); else a.enable();
  Armed r; r.sub_us = g_wall_sub_us; r.ok = a.isEnabled(); r.target = a.target_utc_sec_; r.remain = a.remainSeconds();
  r.delay_ms = static_cast<event::TimerEventImpl *>(a.sp_timer_ev_)->interval_.count();
  if (++since_pass >= 200) { since_pass = 0; if (a.isEnabled()) a.disable(); loop->runNext([] {}); loop->runLoop(event::Loop::Mode::kOnce); }   // drain the deferred timer frees (alarm disarmed: no callback can run here)
  return r;
}
template <class F>
static void judge_delay(Sweep &sw, const char *kind, const Armed &r, int64_t now_ms, F &&input) {
  if (!r.ok) return;
  int64_t dist = r.target * 1000 - now_ms, dist_us = r.target * 1000000 - (now_ms * 1000 + r.sub_us);   // the wall clock read now_ms + sub_us microseconds
  if (r.delay_ms * 1000 < dist_us) sw.viol(dist > 0xffffffffLL ? "alarm-delay-ms-overflow-32bit" : "alarm-delay-shorter-than-distance", "", [&] { return input() + fmt(" (+%d us) target=%" PRId64 " armed_delay_ms=%" PRId64 " distance_us=%" PRId64, (int)r.sub_us, r.target, r.delay_ms, dist_us); });
  if ((int64_t)r.remain != r.target - now_ms / 1000) sw.viol(kind, "-remainSeconds-mismatch", [&] { return input() + fmt(" remain=%u", r.remain); });
}

// ------------------------------------------------------------------------------------------------
static int sweep_weekly_full(int part, int nparts, bool thorough) {
  Sweep sw("weekly-full");
  event::Loop *loop = event::Loop::New(); WeeklyProbe a(loop);
  // anchor of the weekday convention: 2022-10-01 (day 19266) was a Saturday, 2022-10-03 a Monday (workday_calendar_test.cpp)
  if (wd_of_day(19266) != 6 || wd_of_day(19268) != 1 || wd_of_day(0) != 4) { printf("@VIOL sig=harness-weekday-anchor :: reference weekday function broken\n"); return 0; }
  struct S { int sod, stride; };
  std::vector<S> sods;
  {
    std::set<int> full, grid;
    for (int v : {0, 86399}) full.insert(v);
    for (int v : {1, 23296, 43200, 86398}) (thorough ? full : grid).insert(v);   // 23296 = 2^32 mod 86400
    if (thorough) { for (int v : {2, 59, 60, 3599, 3600, 43199, 43201, 63104, 86340, 86397}) full.insert(v);
                    for (int v = 0; v < 86400; v += 600) full.insert(v); for (int h = 1; h < 24; h++) { full.insert(h * 3600 - 1); full.insert(h * 3600 + 1); } }
    else for (int v = 0; v < 86400; v += 7200) grid.insert(v + 17);
    for (int v : full) sods.push_back({v, 1});
    for (int v : grid) if (!full.count(v)) sods.push_back({v, 7});
  }
  for (int mask = 0; mask < 128 && !sw.capped; mask++) {
    if (mask % nparts != part) continue;
    for (auto sd : sods) {
      if (!a.initialize(sd.sod, mask_str(mask))) { sw.viol("weekly-initialize-rejected", fmt("sod=%d mask=%s", sd.sod, mask_str(mask).c_str())); continue; }
      RefCfg ref; ref.kind = RefCfg::WEEKLY; ref.sod = sd.sod; ref.mask = mask; ref.horizon_days = 8;
      for (int64_t base : {BASE_LO, BASE_MID, BASE_HI}) {
        if (sw.expired()) break;
        // independent day-scan: the sorted list of matching instants covering [base, base + 2 weeks]
        std::vector<int64_t> inst;
        for (int64_t d = fdiv(base, DAY) - 1; d <= fdiv(base, DAY) + 16; d++) if ((mask >> wd_of_day(d)) & 1) inst.push_back(d * DAY + sd.sod);
        size_t p = 0;
        int stride = (mask == 0 && sd.stride == 1) ? 7 : sd.stride;
        for (int64_t t = base + (stride > 1 ? (mask % stride) : 0); t < base + WEEK; t += stride) {
          while (p < inst.size() && inst[p] <= t) p++;
          int64_t r = p < inst.size() ? inst[p] : -1;
          uint32_t got = 0; bool ok = a.calculateNextLocalTimeSec((uint32_t)t, got);
          if (ok && (int64_t)got == r) { sw.evals++; continue; }     // fast path; everything else goes through judge()
          if (!ok && r < 0) { sw.evals++; sw.notfound++; continue; }
          judge(sw, "weekly", ok, t, got, r, [&] { return fmt("weekly sod=%d mask=%s(bit0=Sun) tz=0 now_local=%" PRId64, sd.sod, mask_str(mask).c_str(), t); });
          if (sw.capped) break;
        }
        // cross-check the fast list reference against the plain day-scan on a few points, and sample
        for (int64_t t : {base, base + 86399, base + WEEK - 1}) {
          size_t q = 0; while (q < inst.size() && inst[q] <= t) q++;
          int64_t r1 = q < inst.size() ? inst[q] : -1, r2 = ref.next_local(t);
          if (r1 != r2) sw.viol("harness-reference-disagreement", fmt("weekly sod=%d mask=%d t=%" PRId64 " list=%" PRId64 " scan=%" PRId64, sd.sod, mask, t, r1, r2));
        }
      }
      if ((mask == 0x3e || mask == 1) && (sd.sod == 0 || sd.sod == 86399)) sw.sample(fmt("sod=%d mask=%s every second of 3 base weeks (stride %d) vs day-scan", sd.sod, mask_str(mask).c_str(), sd.stride));
    }
    sw.outcome(mask == 0 ? "mask-empty: never found" : "found==reference");
  }
  sw.finish(); delete loop; return 0;
}

static int sweep_weekly_tz(int part, int nparts, bool thorough) {
  Sweep sw("weekly-tz");
  event::Loop *loop = event::Loop::New();
  uint64_t since_pass = 0, item = 0;
  std::vector<int> sods = {0, 1, 43200, 86398, 86399};
  if (thorough) sods = {0, 1, 2, 59, 60, 3599, 3600, 23296, 43199, 43200, 43201, 63104, 86340, 86397, 86398, 86399};
  std::vector<int> masks; for (int m = 0; m < 128; m++) if (thorough || m == 0 || __builtin_popcount(m) <= 2 || __builtin_popcount(m) >= 6 || m == 0x3e || m == 0x2a || m == 0x55) masks.push_back(m);
  {
    WeeklyAlarm a(loop); a.setCallback([] {});
    for (int mask : masks) {
      for (int sod : sods) {
        if (item++ % nparts != (uint64_t)part) continue;
        if (sw.expired()) break;
        if (a.isEnabled()) a.disable();
        a.initialize(sod, mask_str(mask));
        RefCfg ref; ref.kind = RefCfg::WEEKLY; ref.sod = sod; ref.mask = mask; ref.horizon_days = 8;
        for (int tzm = -720; tzm <= 840; tzm += 15) {
          int tz = tzm * 60;
          for (int64_t base : {BASE_LO, BASE_MID, BASE_HI}) for (int k = 0; k <= 7; k++) {
            // +-2 s around the UTC day boundary, the local day boundary and the trigger instant of local day k
            std::vector<int64_t> nows;
            for (int64_t anchor : {base + k * DAY, base + k * DAY - tz, base + k * DAY - tz + sod}) for (int e = -2; e <= 2; e++) nows.push_back(anchor + e);
            std::sort(nows.begin(), nows.end()); nows.erase(std::unique(nows.begin(), nows.end()), nows.end());
            for (int64_t now : nows) {
              if (now < 0 || now + tz < 0 || now >= DOMAIN_END) { sw.skipped++; continue; }
              int64_t now_ms = now * 1000 + ((now & 2) ? 999 : 0);
              Armed r = arm_at(a, loop, now_ms, tzm, since_pass);
              auto in = [&] { return fmt("weekly(activeTimer) sod=%d mask=%s(bit0=Sun) tz_min=%d now_utc=%" PRId64 ".%03d", sod, mask_str(mask).c_str(), tzm, now, (int)(now_ms % 1000)); };
              judge(sw, "weekly", r.ok, now, r.target, ref.next_utc(now, tz), in);
              judge_delay(sw, "weekly", r, now_ms, in);
            }
          }
        }
        if (mask == 0x3e && sod == 0) sw.sample(fmt("sod=%d mask=%s: +-2 s around UTC midnight, local midnight and the trigger, 8 days x 3 bases x tz -720..+840 step 15 min, via refresh()->activeTimer()", sod, mask_str(mask).c_str()));
      }
    }
    if (a.isEnabled()) a.disable();
  }
  sw.finish(); delete loop; return 0;
}

static int sweep_oneshot(int part, int nparts, bool thorough) {
  Sweep sw("oneshot");
  event::Loop *loop = event::Loop::New(); uint64_t since_pass = 0;
  {
    OneshotProbe a(loop); a.setCallback([] {});
    RefCfg ref; ref.kind = RefCfg::ONESHOT; ref.horizon_days = 2;
    // (a) every second of two days x boundary seconds-of-day
    std::vector<int> sods = {0, 1, 2, 43199, 43200, 43201, 86397, 86398, 86399};
    int idx = 0;
    for (int sod : sods) for (int64_t base : {BASE_LO, BASE_MID, DOMAIN_END - 2 * DAY}) {
      if (idx++ % nparts != part) continue;
      if (sw.expired()) break;
      a.initialize(sod); ref.sod = sod;
      for (int64_t t = base; t < base + 2 * DAY; t++) {
        uint32_t got = 0; bool ok = a.calculateNextLocalTimeSec((uint32_t)t, got);
        int64_t r = ref.next_local(t);
        if (ok && (int64_t)got == r) { sw.evals++; continue; }
        judge(sw, "oneshot", ok, t, got, r, [&] { return fmt("oneshot sod=%d tz=0 now_local=%" PRId64, sod, t); });
      }
      sw.outcome("found==reference (<=1 day ahead)");
    }
    // (b) every second-of-day x now within +-2 s of the trigger and of midnight
    for (int sod = part; sod < 86400; sod += nparts) {
      if ((sod & 1023) == 0 && sw.expired()) break;
      if (!thorough && sod % 7 != 0 && sod > 200 && sod < 86200) continue;
      a.initialize(sod); ref.sod = sod;
      for (int64_t base : {BASE_LO + DAY, BASE_MID, DOMAIN_END - 2 * DAY}) { int64_t d0 = fdiv(base, DAY) * DAY;
        for (int64_t anchor : {d0, d0 + sod, d0 + DAY}) for (int e = -2; e <= 2; e++) {
          int64_t t = anchor + e; uint32_t got = 0; bool ok = a.calculateNextLocalTimeSec((uint32_t)t, got);
          judge(sw, "oneshot", ok, t, got, ref.next_local(t), [&] { return fmt("oneshot sod=%d tz=0 now_local=%" PRId64, sod, t); });
        } }
    }
    // (c) through activeTimer with every tz offset
    if (part == 0) {
      for (int sod : {0, 1, 43200, 86399}) { if (a.isEnabled()) a.disable(); a.initialize(sod); ref.sod = sod;
        for (int tzm = -720; tzm <= 840; tzm += 15) for (int64_t base : {BASE_LO + DAY, BASE_MID, DOMAIN_END - 2 * DAY}) {
          int64_t d0 = fdiv(base, DAY) * DAY;
          for (int64_t anchor : {d0, d0 - tzm * 60, d0 - tzm * 60 + sod}) for (int e = -2; e <= 2; e++) {
            int64_t now = anchor + e; if (now < 0 || now + tzm * 60 < 0 || now >= DOMAIN_END) { sw.skipped++; continue; }
            int64_t now_ms = now * 1000 + (e & 1 ? 250 : 0);
            Armed r = arm_at(a, loop, now_ms, tzm, since_pass);
            auto in = [&] { return fmt("oneshot(activeTimer) sod=%d tz_min=%d now_utc=%" PRId64 ".%03d", sod, tzm, now, (int)(now_ms % 1000)); };
            judge(sw, "oneshot", r.ok, now, r.target, ref.next_utc(now, tzm * 60), in); judge_delay(sw, "oneshot", r, now_ms, in);
          } }
      }
      if (a.isEnabled()) a.disable();
      sw.sample("sod in {0,1,43200,86399} x tz -720..+840 x +-2 s around UTC midnight/local midnight/trigger via activeTimer()");
    }
    sw.sample("every second of 2 days x 9 boundary seconds-of-day x 3 bases; every second-of-day x +-2 s around trigger and midnight");
  }
  sw.finish(); delete loop; return 0;
}

// all calendars with <= 3 special days (each workday or holiday) in a 10-day window
static void gen_calendars(int base_day, std::vector<std::map<int, bool>> &out) {
  out.push_back({});
  for (int a = 0; a < 10; a++) for (int va = 0; va < 2; va++) {
    out.push_back({{base_day + a, (bool)va}});
    for (int b = a + 1; b < 10; b++) for (int vb = 0; vb < 2; vb++) {
      out.push_back({{base_day + a, (bool)va}, {base_day + b, (bool)vb}});
      for (int c = b + 1; c < 10; c++) for (int vc = 0; vc < 2; vc++) out.push_back({{base_day + a, (bool)va}, {base_day + b, (bool)vb}, {base_day + c, (bool)vc}});
    }
  }
}
static std::string cal_str(const std::map<int, bool> &m) { std::string s = "{"; for (auto &kv : m) s += fmt("%d:%s,", kv.first, kv.second ? "work" : "off"); return s + "}"; }

static int sweep_workday(int part, int nparts, bool thorough) {
  Sweep sw("workday");
  event::Loop *loop = event::Loop::New(); uint64_t since_pass = 0;
  {
    WorkdayCalendar cal; WorkdayProbe a(loop); a.setCallback([] {});
    uint64_t item = 0;
    std::vector<int64_t> base_days = {19268 /* 2022-10-03, a Monday */, fdiv(BASE_MID, DAY) - 3};
    std::vector<int> week_masks = {0x3e, 0x00, 0x7f, 0x41};
    if (thorough) { base_days.push_back(0); base_days.push_back(fdiv(DOMAIN_END, DAY) - 380); week_masks.push_back(0x1e); week_masks.push_back(0x55); }
    for (int64_t bd : base_days) {
      std::vector<std::map<int, bool>> cals; gen_calendars((int)bd + 1, cals);
      for (int wm : week_masks) for (auto &sp : cals) {
        if (item++ % nparts != (uint64_t)part) continue;
        if ((item & 63) == 0 && sw.expired()) break;
        cal.updateWeekMask((uint8_t)wm); cal.updateSpecialDays(sp);
        // the calendar's own answer against its specification (special day wins, else week mask, bit0 = Sunday)
        for (int d = (int)bd - 2; d < (int)bd + 14; d++) { auto it = sp.find(d); bool exp = it != sp.end() ? it->second : ((wm >> wd_of_day(d)) & 1);
          sw.evals++; if (cal.isWorkay(d) != exp) sw.viol("workday-calendar-isworkday-wrong", fmt("week_mask=0x%02x special=%s day=%d", wm, cal_str(sp).c_str(), d)); }
        for (int on : {1, 0}) for (int sod : {0, 1, 43200, 86399}) {
          a.initialize(sod, &cal, on);
          RefCfg ref; ref.kind = RefCfg::WORKDAY; ref.sod = sod; ref.cal_mask = wm; ref.special = sp; ref.on_workday = on; ref.horizon_days = 367;
          for (int64_t d = bd; d < bd + 12; d++) for (int64_t tod : {(int64_t)0, (int64_t)sod - 1, (int64_t)sod, (int64_t)sod + 1, (int64_t)86399}) {
            int64_t t = d * DAY + tod; if (t < 0) continue;
            uint32_t got = 0; bool ok = a.calculateNextLocalTimeSec((uint32_t)t, got);
            judge(sw, "workday", ok, t, got, ref.next_local(t), [&] { return fmt("workday sod=%d on_workday=%d week_mask=0x%02x special=%s tz=0 now_local=%" PRId64, sod, on, wm, cal_str(sp).c_str(), t); });
          }
        }
      }
    }
    sw.sample("all calendars with <=3 special days in a 10-day window x week masks {0x3e,0,0x7f,0x41(,0x1e,0x55)} x workday/holiday x sod {0,1,43200,86399} x 12 days x 5 times of day");
    // long stretches without a matching day: the only matching day is `gap` days ahead
    if (part == 0) {
      for (int gap : {1, 7, 8, 40, 49, 50, 60, 100, 365, 366, 367, 400}) for (int on : {1, 0}) for (int64_t bd : {(int64_t)19268, fdiv(BASE_MID, DAY)}) for (int sod : {0, 30600, 86399}) {
        std::map<int, bool> sp = {{(int)bd + gap, (bool)on}};
        cal.updateWeekMask(on ? 0x00 : 0x7f); cal.updateSpecialDays(sp);
        if (a.isEnabled()) a.disable(); a.initialize(sod, &cal, on);
        RefCfg ref; ref.kind = RefCfg::WORKDAY; ref.sod = sod; ref.cal_mask = on ? 0x00 : 0x7f; ref.special = sp; ref.on_workday = on; ref.horizon_days = 367;
        for (int64_t tod : {(int64_t)0, (int64_t)sod, (int64_t)86399}) {
          int64_t t = bd * DAY + tod; uint32_t got = 0; bool ok = a.calculateNextLocalTimeSec((uint32_t)t, got);
          auto in = [&] { return fmt("workday sod=%d on_workday=%d only matching day is %d days ahead, tz=0 now_local=%" PRId64, sod, on, gap, t); };
          int64_t r = ref.next_local(t);
          judge(sw, "workday", ok, t, got, r, in);
          if (r < 0 && !ok) sw.outcome(fmt("only matching day %d days ahead: not found (beyond the 367-day search horizon)", gap));
          // and the armed delay for that distance through the real activeTimer
          for (int tzm : {0, 480}) { int64_t now = t - tzm * 60; int64_t now_ms = now * 1000 + 123;
            Armed ar = arm_at(a, loop, now_ms, tzm, since_pass);
            auto in2 = [&] { return fmt("workday(activeTimer) sod=%d on_workday=%d only matching day %d days ahead tz_min=%d now_utc=%" PRId64 ".123", sod, on, gap, tzm, now); };
            judge(sw, "workday", ar.ok, now, ar.target, ref.next_utc(now, tzm * 60), in2); judge_delay(sw, "workday", ar, now_ms, in2);
            if (a.isEnabled()) a.disable(); }
        }
      }
      sw.sample("week mask empty/full, single matching day 1..400 days ahead (60 and 400 included), probe + activeTimer armed delay");
    }
    if (a.isEnabled()) a.disable();
  }
  sw.finish(); delete loop; return 0;
}

struct CronCase { std::string expr; RefCfg ref; const char *known_defect = nullptr; const char *off_switch = nullptr; };   // off_switch: evaluated unless that environment variable is "0" (these were defect candidates; repaired in /repo)   // was: evaluated only when that environment variable is "1" (defect candidate on the unchanged tree)
static bool env_is_1(const char *k) { const char *e = getenv(k); return e && *e == '1'; }
// Expressions the bundled ccronexpr (modules/alarm/3rd-party/ccronexpr.cpp) answered wrongly when they were added (three defects in
// do_next()/find_next(); repair in /verif/build/c20_cron_fix.diff).  They are evaluated by default; C20_CRON_KNOWN_DEFECTS=0 leaves them out
// (e.g. to look at the rest of the check on a tree that does not have the repair yet):
//   seconds-kept : a lower field that was moved forward was not reset when a higher field rolled ('0,30 0 * * * *' at 10:10:10 -> 11:00:30, not 11:00:00)
//   same-day-no  : find_next_day() landing on the same day NUMBER in a later month was taken for 'day unchanged', the hour/minute/second reset to 0 stayed
//                  ('0 0 12 13 * FRI' at 2020-01-12 23:59:56 -> 2020-03-13 00:00:00, which does not even match hour 12)
//   month-overflow: the month was set before the day was reset, so day 29..31 overflowed into the following month and the target month was skipped
//                  ('0 0 0 * 2 *' at 2023-12-29 00:00:01 -> 2025-02-01, a year late; '30 15 10 29-31 2,4 *' at 2023-12-29 10:15:31 -> 2024-04-29, skipping 2024-02-29)
static bool cron_known_defects_enabled() { const char *e = getenv("C20_CRON_KNOWN_DEFECTS"); return !(e && *e == '0'); }
static void cron_cases(std::vector<CronCase> &out) {
  auto tod = [](int s, int m, int h) { return h * 3600 + m * 60 + s; };
  for (int s : {0, 59}) for (int m : {0, 59}) for (int h : {0, 23}) { CronCase c; c.expr = fmt("%d %d %d * * *", s, m, h); c.ref.kind = RefCfg::CRON_DAILY; c.ref.sod = tod(s, m, h); c.ref.horizon_days = 3; out.push_back(c); }
  { CronCase c; c.expr = "30 30 12 * * *"; c.ref.kind = RefCfg::CRON_DAILY; c.ref.sod = tod(30, 30, 12); c.ref.horizon_days = 3; out.push_back(c); }
  int smh[3][3] = {{0, 0, 0}, {59, 59, 23}, {30, 30, 12}};
  for (auto &t : smh) for (int d : {0, 1, 6, 7}) { CronCase c; c.expr = fmt("%d %d %d * * %d", t[0], t[1], t[2], d); c.ref.kind = RefCfg::CRON_DOW; c.ref.sod = tod(t[0], t[1], t[2]); c.ref.mask = 1 << (d % 7); c.ref.horizon_days = 9; out.push_back(c); }
  for (int i = 0; i < 2; i++) for (int D : {1, 28, 29, 30, 31}) for (int M : {1, 2, 12}) { auto &t = smh[i]; CronCase c; c.expr = fmt("%d %d %d %d %d *", t[0], t[1], t[2], D, M); c.ref.kind = RefCfg::CRON_DM; c.ref.sod = tod(t[0], t[1], t[2]); c.ref.dom = D; c.ref.mon = M; c.ref.horizon_days = 366 * 9; out.push_back(c); }
  // lists, ranges, steps, names, '?', 7 = Sunday, day-of-month AND day-of-week: the value sets are written out by hand next to each expression
  auto B = [](std::initializer_list<int> l) { uint64_t b = 0; for (int v : l) b |= 1ULL << v; return b; };
  const uint64_t ALL60 = (1ULL << 60) - 1; const uint32_t ALL24 = (1u << 24) - 1;
  auto sets = [&](const char *e, uint64_t sec, uint64_t mi, uint32_t hr, uint32_t dom, uint32_t mon, uint32_t dow, int horizon, const char *defect = nullptr) { CronCase c; c.expr = e; c.ref.kind = RefCfg::CRON_SETS; c.known_defect = defect;
    c.ref.set_sec = sec; c.ref.set_min = mi; c.ref.set_hour = hr; if (dom) c.ref.set_dom = dom; if (mon) c.ref.set_mon = mon; if (dow) c.ref.set_dow = dow; c.ref.horizon_days = horizon; c.ref.sod = c.ref.tods().front(); out.push_back(c); };
  sets("0 0 8,20 * * *", 1, 1, (uint32_t)B({8, 20}), 0, 0, 0, 3);
  sets("0 */30 * * * *", 1, B({0, 30}), ALL24, 0, 0, 0, 3);
  sets("*/20 15-45/15 6-18/6 * * *", B({0, 20, 40}), B({15, 30, 45}), (uint32_t)B({6, 12, 18}), 0, 0, 0, 3, "seconds-kept");
  sets("5/10 59 23 * * *", B({5, 15, 25, 35, 45, 55}), B({59}), (uint32_t)B({23}), 0, 0, 0, 3, "seconds-kept");
  sets("0,30 * * * * *", B({0, 30}), ALL60, ALL24, 0, 0, 0, 3);
  sets("15 10,50 */8 * * *", B({15}), B({10, 50}), (uint32_t)B({0, 8, 16}), 0, 0, 0, 3);
  sets("0 0-59/7 3/9 * * *", 1, B({0, 7, 14, 21, 28, 35, 42, 49, 56}), (uint32_t)B({3, 12, 21}), 0, 0, 0, 3);
  sets("0 0 0 1,15,31 * ?", 1, 1, 1, (uint32_t)B({1, 15, 31}), 0, 0, 40);
  sets("0 0 12 13 * FRI", 1, 1, (uint32_t)B({12}), (uint32_t)B({13}), 0, (uint32_t)B({5}), 3 * 366, "same-day-no");
  sets("0 0 0 13 * FRI", 1, 1, 1, (uint32_t)B({13}), 0, (uint32_t)B({5}), 3 * 366);
  sets("0 0 6,18 1-7 * MON", 1, 1, (uint32_t)B({6, 18}), (uint32_t)B({1, 2, 3, 4, 5, 6, 7}), 0, (uint32_t)B({1}), 80, "same-day-no");
  sets("0 0 0 1-7 * MON", 1, 1, 1, (uint32_t)B({1, 2, 3, 4, 5, 6, 7}), 0, (uint32_t)B({1}), 80);
  sets("0 0 0 * JAN,JUL MON-FRI", 1, 1, 1, 0, (uint32_t)B({1, 7}), (uint32_t)B({1, 2, 3, 4, 5}), 2 * 366);
  sets("30 15 10 29-31 2,4 *", B({30}), B({15}), (uint32_t)B({10}), (uint32_t)B({29, 30, 31}), (uint32_t)B({2, 4}), 0, 2 * 366, "month-overflow");
  sets("0 0 0 * 2 *", 1, 1, 1, 0, (uint32_t)B({2}), 0, 2 * 366, "month-overflow");
  sets("30 15 10 1-28 2,4 *", B({30}), B({15}), (uint32_t)B({10}), 0x1ffffffeu, (uint32_t)B({2, 4}), 0, 2 * 366);
  sets("0 0 0 * * 6-7", 1, 1, 1, 0, 0, (uint32_t)B({6, 0}), 9);
  sets("59 59 23 ? 3-12/3 SUN,WED", B({59}), B({59}), (uint32_t)B({23}), 0, (uint32_t)B({3, 6, 9, 12}), (uint32_t)B({0, 3}), 2 * 366, "month-overflow");
  sets("0 0 0 ? 3-12/3 SUN,WED", 1, 1, 1, 0, (uint32_t)B({3, 6, 9, 12}), (uint32_t)B({0, 3}), 2 * 366, "month-overflow");
  // spellings: lower / mixed case names, a step over '*' in day-of-month
  sets("0 0 0 * jan,jul mon-fri", 1, 1, 1, 0, (uint32_t)B({1, 7}), (uint32_t)B({1, 2, 3, 4, 5}), 2 * 366);
  sets("0 0 12 ? Mar Sat", 1, 1, (uint32_t)B({12}), 0, (uint32_t)B({3}), (uint32_t)B({6}), 2 * 366);
  sets("0 0 0 */10 * *", 1, 1, 1, (uint32_t)B({1, 11, 21, 31}), 0, 0, 40);
  // numbers with a leading zero: every cron reads them as decimal; ccronexpr's parse_uint() uses strtol(.., 0), so "08" is rejected (initialize() fails) and
  // "010" silently means 8.  Defect candidate on the unchanged tree: evaluated only with C20_CRON_LEADING_ZERO=1
  sets("0 30 08 * * *", 1, B({30}), (uint32_t)B({8}), 0, 0, 0, 3); out.back().off_switch = "C20_CRON_LEADING_ZERO";
  sets("0 0 010 * * *", 1, 1, (uint32_t)B({10}), 0, 0, 0, 3); out.back().off_switch = "C20_CRON_LEADING_ZERO";
  sets("0 0 0 ? 1-7/2 SUN,WED", 1, 1, 1, 0, (uint32_t)B({1, 3, 5, 7}), (uint32_t)B({0, 3}), 2 * 366);
}

static int sweep_cron(int part, int nparts, bool thorough) {
  Sweep sw("cron");
  event::Loop *loop = event::Loop::New(); uint64_t since_pass = 0;
  {
    std::vector<CronCase> cases; cron_cases(cases);
    // self-check of the reference calendar
    { int y, m, d; civil_from_days(19782, y, m, d); if (y != 2024 || m != 2 || d != 29 || days_from_civil(2024, 2, 29) != 19782 || days_from_civil(1970, 1, 1) != 0) { printf("@VIOL sig=harness-civil-calendar :: reference calendar broken\n"); return 0; } }
    for (size_t ci = 0; ci < cases.size(); ci++) {
      if ((int)(ci % nparts) != part) continue;
      CronCase &c = cases[ci];
      if (c.known_defect && !cron_known_defects_enabled()) { printf("@INFO cron: expr='%s' not evaluated (C20_CRON_KNOWN_DEFECTS=0; it exposed the ccronexpr defect '%s')\n", c.expr.c_str(), c.known_defect); continue; }
      if (c.off_switch && getenv(c.off_switch) && !strcmp(getenv(c.off_switch), "0")) { printf("@INFO cron: expr='%s' not evaluated (%s=0 given)\n", c.expr.c_str(), c.off_switch); continue; }
      CronProbe a(loop); a.setCallback([] {});
      if (!a.initialize(c.expr)) { sw.viol("cron-initialize-rejected", c.expr); continue; }
      // `now` values: windows of days (dense boundary seconds inside each day) + one probe per day over several years for the yearly shape
      std::vector<int64_t> nows;
      const bool day_restricted = c.ref.kind == RefCfg::CRON_DM || (c.ref.kind == RefCfg::CRON_SETS && (c.ref.set_dom != 0xfffffffeu || c.ref.set_mon != 0x1ffe));
      // CRON_SETS: +-2 s around the first three, the last three and up to eight evenly spaced triggers of the day
      std::vector<int> anchors;
      if (c.ref.kind == RefCfg::CRON_SETS) { std::vector<int> t = c.ref.tods(); std::set<int> a; size_t n = t.size();
        for (size_t i = 0; i < n && i < 3; i++) { a.insert(t[i]); a.insert(t[n - 1 - i]); } for (size_t i = 0; i < 8; i++) a.insert(t[i * n / 8]);
        anchors.assign(a.begin(), a.end()); }
      auto add_day = [&](int64_t day, bool dense) {
        int sod = c.ref.sod;
        for (int64_t tod : {0, 1, 2, sod - 2, sod - 1, sod, sod + 1, sod + 2, 43200, 86397, 86398, 86399}) if (tod >= 0 && tod < DAY) nows.push_back(day * DAY + tod);
        for (int an : anchors) for (int e = -2; e <= 2; e++) if (an + e >= 0 && an + e < DAY) nows.push_back(day * DAY + an + e);
        if (dense) for (int64_t tod = 7; tod < DAY; tod += !thorough ? 997 : day_restricted ? 211 : 61) nows.push_back(day * DAY + tod);
      };
      std::vector<int64_t> windows = {0, days_from_civil(2023, 2, 26), days_from_civil(2024, 2, 26), days_from_civil(2023, 12, 29), fdiv(1LL << 31, DAY) - 2, days_from_civil(2100, 2, 26), fdiv(DOMAIN_END, DAY) - 8};
      for (int64_t w : windows) for (int i = 0; i < 7; i++) add_day(w + i, true);
      if (day_restricted) { for (int64_t d = days_from_civil(2019, 12, 1); d < days_from_civil(2025, 2, 1); d += thorough ? 1 : 3) add_day(d, false);
        for (int64_t d = days_from_civil(2095, 12, 1); d < days_from_civil(2101, 3, 1); d += thorough ? 1 : 9) add_day(d, false); }
      for (int64_t t : nows) {
        if ((sw.evals & 1023) == 0 && sw.expired()) break;
        int64_t r = c.ref.next_local(t);
        if (c.ref.kind == RefCfg::CRON_DM && (t % 53) == 0 && r != c.ref.next_local_dayscan(t)) sw.viol("harness-reference-disagreement", fmt("cron %s t=%" PRId64, c.expr.c_str(), t));
        if (r >= DOMAIN_END || t >= DOMAIN_END) { sw.skipped++; continue; }     // next instant not representable in the 32-bit range
        if (r >= 0) { int y0, y1, m, d; civil_from_days(fdiv(t, DAY), y0, m, d); civil_from_days(fdiv(r, DAY), y1, m, d); if (y1 - y0 > 4) r = -1; }   // beyond CRON_MAX_YEARS_DIFF: "not found" is the accepted answer
        uint32_t got = 0; bool ok = a.calculateNextLocalTimeSec((uint32_t)t, got);
        auto in = [&] { return fmt("cron expr='%s' tz=0 now_local=%" PRId64, c.expr.c_str(), t); };
        if (r < 0 && ok && got == 0xffffffffu) { sw.evals++; sw.viol("cron-invalid-instant-reported-as-found", "", [&] { return in() + " got=4294967295 (CRON_INVALID_INSTANT) with return value true; no matching instant within 4 years"; }); continue; }
        judge(sw, "cron", ok, t, got, r, in);
      }
      // through activeTimer: tz offsets at the extremes and odd quarters, `now` around the local trigger; armed delay
      for (int tzm : {-720, -210, 0, 345, 480, 840}) for (int64_t w : {days_from_civil(2023, 12, 30), days_from_civil(2024, 2, 27), days_from_civil(2023, 3, 1)}) for (int i = 0; i < 3; i++) for (int e : {-1, 0, 1}) {
        int64_t now = (w + i) * DAY + c.ref.sod - tzm * 60 + e; int64_t now_ms = now * 1000 + 500;
        int64_t r = c.ref.next_utc(now, tzm * 60);
        if (r >= 0) { int y0, y1, m, d; civil_from_days(fdiv(now + tzm * 60, DAY), y0, m, d); civil_from_days(fdiv(r + tzm * 60, DAY), y1, m, d); if (y1 - y0 > 4) r = -1; }
        Armed ar = arm_at(a, loop, now_ms, tzm, since_pass);
        auto in = [&] { return fmt("cron(activeTimer) expr='%s' tz_min=%d now_utc=%" PRId64 ".500", c.expr.c_str(), tzm, now); };
        if (r < 0 && ar.ok && ar.target == (int64_t)(uint32_t)(0xffffffffu - (uint32_t)(tzm * 60))) { sw.evals++; sw.viol("cron-invalid-instant-reported-as-found", "", [&] { return in() + " armed for CRON_INVALID_INSTANT"; }); }
        else { judge(sw, "cron", ar.ok, now, ar.target, r, in); judge_delay(sw, "cron", ar, now_ms, in); }
        if (a.isEnabled()) a.disable();
      }
      if (ci < 2 || ci == cases.size() - 1) sw.sample(fmt("expr='%s': %zu values of now (7 windows x 7 days dense + per-day probes) + 6 tz x 27 activeTimer arms", c.expr.c_str(), nows.size()));
    }
  }
  sw.finish(); delete loop; return 0;
}

#endif  // !C20_ONLY_FIRE

#ifndef C20_ONLY_SWEEP
// ------------------------------------------------------------------------------------------------
// firing: engine H
// what the alarm's callback does besides being recorded (re-entrant use of the alarm from its own callback)
enum CbAction { CB_NONE, CB_ENABLE, CB_REFRESH, CB_DISABLE, CB_REINIT_ENABLE, CB_CLEANUP, CB_CAL_UPDATE, CB_TZ_REFRESH };
static const char *kCbNames[] = {"none", "enable()", "refresh()", "disable()", "initialize(same configuration) + enable()", "cleanup()",
                                 "calendar update (tomorrow becomes a matching day)", "setTimezone(other zone) + refresh()"};
struct FireCfg {
  std::string name; RefCfg ref; int alarm_kind;   // 0 weekly, 1 oneshot, 2 cron, 3 workday
  std::string cron; int tz_min; int64_t start_ms; bool wall_steps; int cb_action = CB_NONE; bool cal_ops = false;
  int sub_us = 0;            // microseconds of the wall clock on top of the millisecond values (see g_wall_sub_us)
  bool far_target = false;   // target 40..400 days ahead (every arming is an expensive day-by-day search): these configurations are about the delay arithmetic and keep the basic alphabet (no initialize/cleanup/zone toggle)
};
enum { EN, DIS, REF, PASS, SKEW, WPLUS, WMINUS, ADV_HALF, ADV_M5, ADV_T, ADV_P1, INIT, CLEANUP, SETTZ, CAL_OFF, CAL_WORK, CAL_CLEAR, INIT_BAD, NOPS };
static const char *kOpNames[] = {"enable", "disable", "refresh", "pass", "skew-mono+5ms", "wall+1h", "wall-1h", "adv-half", "adv-to-T-5ms", "adv-to-T", "adv-to-T+1s",
                                 "initialize", "cleanup", "toggle-tz-180min", "cal-next-matching-day-off", "cal-tomorrow-matches", "cal-clear-special-days", "initialize-with-invalid-arguments"};
struct Op { int k; };

static std::vector<FireCfg> fire_cfgs() {
  std::vector<FireCfg> v;
  auto mk = [&](const char *n, int kind, RefCfg ref, const char *cron, int tz, int64_t start_ms, bool ws) { FireCfg c; c.name = n; c.alarm_kind = kind; c.ref = ref; c.cron = cron ? cron : ""; c.tz_min = tz; c.start_ms = start_ms; c.wall_steps = ws;
    static const int kSubs[7] = {700, 0, 499, 500, 999, 1, 501}; c.sub_us = kSubs[v.size() % 7];
    c.far_target = strstr(n, "-days-ahead") != nullptr; v.push_back(c); };
  // the same configuration again with an action inside the callback
  auto with_cb = [&](const char *base, int action, const char *suffix) { for (size_t i = 0; i < v.size(); i++) if (v[i].name == base) { FireCfg c = v[i]; c.name += suffix; c.cb_action = action; if (c.cal_ops) c.wall_steps = false;   /* cost: calendar ops x wall steps only on the plain configurations */ v.push_back(c); return; } };
  RefCfg w; w.kind = RefCfg::WEEKLY; w.horizon_days = 8;
  w.sod = 36000; w.mask = 0x7f; mk("weekly-10h-everyday-tz0", 0, w, nullptr, 0, utc(2023, 10, 2, 9, 0, 0) * 1000 + 250, true);
  mk("weekly-10h-everyday-start-5ms-before", 0, w, nullptr, 0, utc(2023, 10, 2, 10, 0, 0) * 1000 - 5, false);
  w.sod = 0; w.mask = 0x02; mk("weekly-00h-monday-tz+480", 0, w, nullptr, 480, (utc(2023, 10, 1, 23, 59, 58) - 480 * 60) * 1000 + 500, true);
  w.sod = 86399; w.mask = 0x41; mk("weekly-235959-weekend-tz-300", 0, w, nullptr, -300, (utc(2023, 10, 6, 12, 0, 0) + 300 * 60) * 1000, true);
  w.sod = 43200; w.mask = 0x00; mk("weekly-empty-mask", 0, w, nullptr, 0, utc(2023, 10, 2, 9, 0, 0) * 1000, false);
  RefCfg o; o.kind = RefCfg::ONESHOT; o.horizon_days = 2;
  o.sod = 36000; mk("oneshot-10h-tz0", 1, o, nullptr, 0, utc(2023, 10, 2, 9, 59, 59) * 1000, true);
  o.sod = 0; mk("oneshot-00h-tz+345", 1, o, nullptr, 345, (utc(2023, 10, 2, 0, 0, 0) - 345 * 60) * 1000 + 1, true);
  RefCfg c; c.kind = RefCfg::CRON_DAILY; c.horizon_days = 3; c.sod = 36000; mk("cron-daily-10h-tz0", 2, c, "0 0 10 * * *", 0, utc(2023, 10, 2, 9, 0, 0) * 1000 + 750, true);
  c.kind = RefCfg::CRON_HALFHOUR; mk("cron-every-30min-tz+330", 2, c, "0 */30 * * * *", 330, utc(2023, 10, 2, 9, 10, 0) * 1000, false);
  RefCfg y; y.kind = RefCfg::CRON_DM; y.horizon_days = 366 * 9; y.sod = 0; y.dom = 1; y.mon = 1;
  mk("cron-yearly-40-days-ahead", 2, y, "0 0 0 1 1 *", 0, (utc(2024, 1, 1) - 40 * DAY) * 1000, true);
  mk("cron-yearly-50-days-ahead", 2, y, "0 0 0 1 1 *", 0, (utc(2024, 1, 1) - 50 * DAY) * 1000, true);
  mk("cron-yearly-100-days-ahead", 2, y, "0 0 0 1 1 *", 480, (utc(2024, 1, 1) - 480 * 60 - 100 * DAY) * 1000 + 10, true);
  y.dom = 29; y.mon = 2; mk("cron-feb29-400-days-ahead", 2, y, "0 0 0 29 2 *", 0, (utc(2024, 2, 29) - 400 * DAY) * 1000, true);
  RefCfg k; k.kind = RefCfg::WORKDAY; k.horizon_days = 367; k.sod = 30600; k.cal_mask = 0; k.on_workday = true; for (int i = 60; i < 80; i++) k.special[(int)days_from_civil(2023, 10, 2) + i] = true;
  mk("workday-next-workday-60-days-ahead", 3, k, nullptr, 0, utc(2023, 10, 2, 8, 30, 0) * 1000, true);
  // two instants per day from a list in the hour field (local 08:00 and 20:00, UTC+1)
  RefCfg s2; s2.kind = RefCfg::CRON_SETS; s2.horizon_days = 3; s2.set_hour = (1u << 8) | (1u << 20); s2.sod = 8 * 3600;
  mk("cron-8h-and-20h-tz+60", 2, s2, "0 0 8,20 * * *", 60, (utc(2023, 10, 2, 7, 30, 0) - 3600) * 1000 + 400, true);
  // Monday..Friday 08:30 under a calendar whose special days are updated while the alarm runs; starts on Friday 2023-10-06 08:00
  RefCfg k2; k2.kind = RefCfg::WORKDAY; k2.horizon_days = 367; k2.sod = 30600; k2.cal_mask = 0x3e; k2.on_workday = true;
  mk("workday-weekdays-0830-calendar-updates", 3, k2, nullptr, 0, utc(2023, 10, 6, 8, 0, 0) * 1000 + 100, true); v.back().cal_ops = true;
  k2.on_workday = false; k2.sod = 0;
  mk("workday-holidays-00h-calendar-updates-tz+480", 3, k2, nullptr, 480, (utc(2023, 10, 6, 23, 0, 0) - 480 * 60) * 1000, false); v.back().cal_ops = true;
  // repeating alarms that RUN OUT of instants at a fire: the re-arm inside the expiry handler finds nothing, the alarm must end up stopped (and can be revived)
  RefCfg k3; k3.kind = RefCfg::WORKDAY; k3.horizon_days = 367; k3.sod = 30600; k3.cal_mask = 0; k3.on_workday = true; k3.special[(int)days_from_civil(2023, 10, 7)] = true;
  mk("workday-only-tomorrow-then-none", 3, k3, nullptr, 0, utc(2023, 10, 6, 8, 0, 0) * 1000 + 100, true); v.back().cal_ops = true;
  RefCfg y2; y2.kind = RefCfg::CRON_DM; y2.horizon_days = 366 * 4; y2.sod = 0; y2.dom = 29; y2.mon = 2;   // after 2096-02-29 the next one is 2104 (2100 is no leap year): beyond ccronexpr's 4-year horizon
  mk("cron-feb29-2096-then-none-within-4-years", 2, y2, "0 0 0 29 2 *", 0, utc(2096, 2, 28, 23, 0, 0) * 1000 + 300, true); v.back().far_target = true;   // every failed search walks 5 years day by day
  // re-entrant use from the callback
  with_cb("oneshot-10h-tz0", CB_ENABLE, "-cb-enable");
  with_cb("oneshot-00h-tz+345", CB_REINIT_ENABLE, "-cb-reinit-enable");
  with_cb("weekly-10h-everyday-tz0", CB_DISABLE, "-cb-disable");
  with_cb("weekly-10h-everyday-tz0", CB_REFRESH, "-cb-refresh");
  with_cb("weekly-10h-everyday-tz0", CB_ENABLE, "-cb-enable");
  with_cb("cron-daily-10h-tz0", CB_REFRESH, "-cb-refresh");
  with_cb("cron-daily-10h-tz0", CB_DISABLE, "-cb-disable");
  with_cb("workday-weekdays-0830-calendar-updates", CB_REFRESH, "-cb-refresh");
  with_cb("weekly-10h-everyday-tz0", CB_CLEANUP, "-cb-cleanup");
  with_cb("oneshot-10h-tz0", CB_CLEANUP, "-cb-cleanup");
  with_cb("workday-weekdays-0830-calendar-updates", CB_CLEANUP, "-cb-cleanup");
  with_cb("workday-weekdays-0830-calendar-updates", CB_CAL_UPDATE, "-cb-calendar-update");
  with_cb("workday-only-tomorrow-then-none", CB_CAL_UPDATE, "-cb-calendar-update");
  with_cb("weekly-10h-everyday-tz0", CB_TZ_REFRESH, "-cb-tz-refresh");
  return v;
}

// what the callback sees of the alarm, its TimerEvent and the loop's timer heap
struct Snap { uint32_t target; int64_t delay_ms; bool timer_on; bool running; size_t heap_n; int64_t heap_left; };
struct Fire { int64_t wall_ms; Snap pre, post; int r_init, r_act; int cal_day; int tz_min_after; };   // pre/post = before/after the callback's own action; r_* = its return values (-1 = not called)

// CronAlarm::initialize(valid) followed by initialize(invalid) returns false but leaves the alarm initialised with a PARTIAL expression
// (memset + partial parse), which enable() then arms: defect candidate on the unchanged tree, so the op is off by default for cron alarms.
static bool cron_rejected_init_enabled() { const char *e = getenv("C20_CRON_REJECTED_INIT"); return !(e && *e == '0'); }   // on by default since the repair in /repo; =0 turns it off

static int fire(const std::string &cfgname, size_t depth, const char *replay = nullptr) {
  std::vector<FireCfg> cfgs = fire_cfgs(); const FireCfg *cfgp = nullptr;
  for (auto &c : cfgs) if (cfgname == c.name) cfgp = &c;
  if (!cfgp) { printf("@VIOL sig=harness-unknown-config :: %s\n", cfgname.c_str()); return 0; }
  const FireCfg &cfg = *cfgp;
  hx::install_crash_reporter("C20-fire-crash");
  hx::Explorer<Op> ex;
  ex.name = std::string("fire[") + cfg.name + fmt(" tz_min=%d start_utc_ms=%" PRId64 " callback-action=%s]", cfg.tz_min, cfg.start_ms, kCbNames[cfg.cb_action]);
  ex.deadline_s = hx::now_s() + budget_s(600);
  ex.max_viol_print = 1000000;   // the per-signature limit (3) is the only one wanted: a frequent signature must not hide a rare one
  ex.show = [](const Op &o) { return std::string(kOpNames[o.k]); };
  // menu restrictions are a function of the history alone (and are part of the canonical state)
  struct Lim { int skews = 0, steps = 0, cleanups = 0, calops = 0; bool need_pass = false; };
  auto limits = [](const std::vector<Op> &h) { Lim l; for (auto &o : h) { if (o.k == SKEW) l.skews++; if (o.k == WPLUS || o.k == WMINUS || o.k == SETTZ) l.steps++;
      if (o.k == CLEANUP) l.cleanups++; if (o.k == CAL_OFF || o.k == CAL_WORK || o.k == CAL_CLEAR) l.calops++;
      if (o.k == PASS) l.need_pass = false; if (o.k == ADV_M5 || o.k == ADV_T || o.k == ADV_P1 || o.k == WPLUS) l.need_pass = true; } return l; };
  ex.menu = [&](const std::vector<Op> &h) {
    Lim l = limits(h); std::vector<Op> m;
    for (int k : {EN, DIS, REF, PASS}) m.push_back({k});
    if (!l.need_pass) for (int k : {ADV_T, ADV_P1, ADV_M5, ADV_HALF}) m.push_back({k});
    if (l.skews < 2) m.push_back({SKEW});
    if (!cfg.far_target) { m.push_back({INIT}); if (l.cleanups < (depth >= 8 ? 2 : 1)) m.push_back({CLEANUP}); if (cfg.alarm_kind != 2 || cron_rejected_init_enabled()) m.push_back({INIT_BAD}); }
    // wall steps / zone toggles: two per history; on the calendar configurations one, and steps + calendar ops together are two (cost)
    if (cfg.wall_steps && (cfg.cal_ops ? l.steps < 1 && l.steps + l.calops < 2 : l.steps < 2)) { m.push_back({WPLUS}); m.push_back({WMINUS}); if (!cfg.far_target) m.push_back({SETTZ}); }
    if (cfg.cal_ops && (cfg.wall_steps ? l.steps + l.calops < 2 : l.calops < 2)) { m.push_back({CAL_OFF}); m.push_back({CAL_WORK}); m.push_back({CAL_CLEAR}); }
    return m; };
  uint64_t total_fires = 0, total_arms = 0, premature = 0, cb_actions = 0; std::map<std::string, uint64_t> outcomes;
  ex.run = [&](const std::vector<Op> &h, std::string &viol) -> std::string {
    Virt virt; g_wall_ms = cfg.start_ms; g_wall_sub_us = cfg.sub_us; g_mono_ms = 5000000;
    event::Loop *loop = event::Loop::New();
    WorkdayCalendar cal;
    RefCfg rc = cfg.ref;                       // the configuration in force (the calendar ops change its special days)
    int tz_min_cur = cfg.tz_min, tz = cfg.tz_min * 60;   // the explicit time-zone offset in force (tz_min_cur = last value given to setTimezone; tz = the model's, they differ only between a callback that changes the zone and its evaluation)
    std::map<int, bool> sent_special = rc.special;       // the special days last given to the calendar (differs from rc.special only between a callback that updates the calendar and its evaluation)
    int tz_armed = tz;                                   // ... and the one that was in force when the alarm last (re)armed: a callback belongs to the instant it was armed for
    WeeklyAlarm *wa = nullptr; OneshotAlarm *oa = nullptr; CronAlarm *ca = nullptr; WorkdayAlarm *ka = nullptr;
    std::unique_ptr<Alarm> ap;
    if (cfg.alarm_kind == 0) ap.reset(wa = new WeeklyAlarm(loop));
    else if (cfg.alarm_kind == 1) ap.reset(oa = new OneshotAlarm(loop));
    else if (cfg.alarm_kind == 2) ap.reset(ca = new CronAlarm(loop));
    else { ap.reset(ka = new WorkdayAlarm(loop)); cal.updateWeekMask((uint8_t)rc.cal_mask); cal.updateSpecialDays(rc.special); }
    auto do_init = [&]() -> bool { return wa ? wa->initialize(cfg.ref.sod, mask_str(cfg.ref.mask)) : oa ? oa->initialize(cfg.ref.sod) : ca ? ca->initialize(cfg.cron) : ka->initialize(cfg.ref.sod, &cal, cfg.ref.on_workday); };
    bool init_ok = do_init();
    Alarm &a = *ap; a.setTimezone(cfg.tz_min);
    auto *tev = static_cast<event::TimerEventImpl *>(a.sp_timer_ev_);
    auto *cl = static_cast<event::CommonLoop *>(loop);
    auto snap = [&] { Snap s; s.target = a.target_utc_sec_; s.delay_ms = tev->interval_.count(); s.timer_on = tev->is_enabled_; s.running = a.isEnabled(); s.heap_n = cl->timer_min_heap_.size();
                      s.heap_left = cl->timer_min_heap_.empty() ? -1 : (int64_t)(cl->timer_min_heap_.front()->expired - (uint64_t)g_mono_ms); return s; };
    std::vector<Fire> fires;
    bool storm = false;
    std::function<void()> cb_body = [&] {
      Fire f; f.wall_ms = g_wall_ms; f.pre = snap(); f.r_init = f.r_act = -1; f.cal_day = 0; f.tz_min_after = tz_min_cur;
      if (fires.size() >= 15) { storm = true; a.disable(); }   // re-arming with a zero delay would never leave the loop pass
      else switch (cfg.cb_action) {
        case CB_ENABLE: f.r_act = a.enable(); break;
        case CB_REFRESH: a.refresh(); break;
        case CB_DISABLE: f.r_act = a.disable(); break;
        case CB_REINIT_ENABLE: f.r_init = do_init(); f.r_act = a.enable(); break;
        case CB_CLEANUP: a.cleanup(); break;     // destroys the alarm's copy of the callback WHILE it runs (cleanup() does cb_ = nullptr): see `cb` below
        case CB_CAL_UPDATE: f.cal_day = (int)fdiv(fdiv(g_wall_ms, 1000) + tz_min_cur * 60, DAY) + 1; sent_special[f.cal_day] = cfg.ref.on_workday; cal.updateSpecialDays(sent_special); break;
        case CB_TZ_REFRESH: tz_min_cur = tz_min_cur == cfg.tz_min ? cfg.tz_min - 180 : cfg.tz_min; f.tz_min_after = tz_min_cur; a.setTimezone(tz_min_cur); a.refresh(); break;
        default: break; }
      f.post = snap(); fires.push_back(f); };
    // What the alarm stores is a one-pointer closure that copies the pointer to a local BEFORE anything runs and never touches itself again: the body and
    // everything it uses live in this frame.  (A callback with by-reference captures that calls cleanup() on its own alarm would read its freed closure.)
    std::function<void()> *pbody = &cb_body;
    std::function<void()> cb = [pbody] { std::function<void()> *b = pbody; (*b)(); };
    a.setCallback(cb);
    watchdog(30);
    if (!init_ok) viol = "alarm-initialize-rejected";
    // ---- reference model (property level)
    bool m_inited = true, m_enabled = false, m_synced = false; int64_t m_last_fired = -1, m_pending = -1; std::set<int64_t> m_fired; int m_fires_since_enable = 0, m_skew_ms = 0; const char *m_rearmed_by = ""; int64_t m_ever_fired = -1;   // explicit re-arming op since the last callback
    const bool oneshot = cfg.alarm_kind == 1;
    auto ref_next = [&](int64_t now_sec) { return rc.next_utc(now_sec, tz); };
    // no instant left under at least one of the accepted lower bounds (now; the last counted instant; any instant that ever had a callback - see on_armed): the alarm may stop / refuse to start
    auto none_left = [&](int64_t t) { return ref_next(t) < 0 || ref_next(std::max(t, m_last_fired)) < 0 || ref_next(std::max(t, m_ever_fired)) < 0; };
    // called whenever the alarm (re)arms: at wall clock `at_ms` the implementation armed for s.target with delay s.delay_ms
    auto on_armed = [&](int64_t at_ms, const Snap &s, const char *how) {
      total_arms++;
      int64_t now_sec = fdiv(at_ms, 1000); int64_t target = s.target;
      // accepted: the earliest matching instant after now (alt); the same but not before an instant that already fired (want);
      // after a backward wall-clock step (or cleanup()) the property does not say whether re-exposed instants fire again, so "not before
      // any instant that ever fired" (keep) is accepted as well
      int64_t want = ref_next(std::max(now_sec, m_last_fired)), alt = ref_next(now_sec), keep = ref_next(std::max(now_sec, m_ever_fired));
      m_synced = true; tz_armed = tz; m_pending = (target == alt || target == keep) ? target : want;
      if (target != want && target != alt && target != keep) { viol = fmt("alarm-armed-target-not-earliest after %s at wall_ms=%" PRId64 ": armed target=%" PRId64 " but earliest matching instant after now is %" PRId64 " (late by %" PRId64 " s)", how, at_ms, target, alt, target - alt); return; }
      // the instant's callback has already run (the monotonic clock was ahead) and nothing re-exposed it (a backward step / cleanup() erases it from m_fired):
      // arming for it again IS the second callback for one instant, whether or not the history goes on to the pass that delivers it
      if (target == alt && m_fired.count(alt)) { viol = fmt("alarm-armed-for-instant-that-already-fired after %s at wall_ms=%" PRId64 ": instant=%" PRId64 " had its callback, yet the alarm waits for it again (delay %" PRId64 " ms)", how, at_ms, target, s.delay_ms); return; }
      int64_t dist = target * 1000 - at_ms, dist_us = target * 1000000 - (at_ms * 1000 + g_wall_sub_us);   // the wall clock read at_ms + g_wall_sub_us microseconds
      if (s.delay_ms * 1000 < dist_us) { viol = fmt("%s after %s at wall_ms=%" PRId64 ": target=%" PRId64 " distance_ms=%" PRId64 " (%.1f days) armed_delay_ms=%" PRId64 " (%.1f days)", dist > 0xffffffffLL ? "alarm-delay-ms-overflow-32bit" : "alarm-delay-shorter-than-distance", how, at_ms, target, dist, dist / 86400000.0, s.delay_ms, s.delay_ms / 86400000.0); return; }
      if (s.heap_n != 1 || s.heap_left * 1000 < dist_us) { viol = fmt("alarm-loop-timer-record-shorter-than-distance after %s at wall_ms=%" PRId64 " (loop timer records=%zu, first due in %" PRId64 " ms, distance %" PRId64 " ms)", how, at_ms, s.heap_n, s.heap_left, dist); return; }
    };
    // the model's side of what the callback did (f.post = what the implementation looked like right after it)
    auto apply_cb_action = [&](const Fire &f) {
      if (cfg.cb_action == CB_NONE) return;
      cb_actions++;
      int64_t ws = fdiv(f.wall_ms, 1000);
      switch (cfg.cb_action) {
        case CB_DISABLE: if ((f.r_act == 1) != m_enabled) { viol = fmt("alarm-disable-return-value in callback: returned %d, running=%d", f.r_act, (int)m_enabled); return; } m_enabled = false; break;
        case CB_REFRESH: if (m_enabled) { m_rearmed_by = "-after-refresh"; if (f.post.running) on_armed(f.wall_ms, f.post, "refresh() in callback"); else if (none_left(ws)) m_enabled = false; } break;
        case CB_CLEANUP: m_enabled = false; m_inited = false; m_fired.clear(); m_last_fired = -1; m_pending = -1; m_fires_since_enable = 0; break;
        case CB_CAL_UPDATE: rc.special[f.cal_day] = rc.on_workday;
          if (m_enabled) { m_rearmed_by = "-after-calendar-update"; if (f.post.running) on_armed(f.wall_ms, f.post, "calendar update in callback"); else if (none_left(ws)) m_enabled = false; } break;
        case CB_TZ_REFRESH: tz = f.tz_min_after * 60;
          if (m_enabled) { m_rearmed_by = "-after-refresh"; if (f.post.running) on_armed(f.wall_ms, f.post, "setTimezone() + refresh() in callback"); else if (none_left(ws)) m_enabled = false; } else m_synced = false; break;
        case CB_REINIT_ENABLE: if ((f.r_init == 1) != !m_enabled) { viol = f.r_init == 1 ? "alarm-initialize-accepted-while-running (in callback)" : "alarm-initialize-rejected in callback although the alarm is stopped"; return; }   // fall through
        case CB_ENABLE:
          if (m_enabled) { if (f.r_act == 1) { viol = "alarm-enable-returned-true-while-running (in callback)"; return; } }
          else if (f.r_act == 1) { m_enabled = true; m_fires_since_enable = 0; m_rearmed_by = "-after-reenable"; on_armed(f.wall_ms, f.post, "enable() in callback"); }
          else if (!none_left(ws)) { viol = "alarm-enable-failed in callback although a matching instant exists"; return; }
          break;
        default: break; }
      if (viol.empty() && (f.post.running != m_enabled || f.post.timer_on != m_enabled)) viol = fmt("alarm-enabled-state-mismatch after %s in callback: isEnabled=%d timer=%d expected=%d", kCbNames[cfg.cb_action], (int)f.post.running, (int)f.post.timer_on, (int)m_enabled);
    };
    for (size_t i = 0; i < h.size() && viol.empty(); i++) {
      int k = h[i].k;
      int64_t now_sec = fdiv(g_wall_ms, 1000);
      // the instant clock advances aim at: the reference's next matching instant after now (independent of the implementation)
      // ... but never past the moment the alarm's own armed timer is due (they differ only after a wall-clock step / tz change): one armed instant at a time
      int64_t N = ref_next(now_sec); int64_t dist_ms = N < 0 ? DAY * 1000 : N * 1000 - g_wall_ms;
      if (tev->is_enabled_ && !cl->timer_min_heap_.empty()) { int64_t left = (int64_t)(cl->timer_min_heap_.front()->expired - (uint64_t)g_mono_ms); if (!m_synced && left < dist_ms) dist_ms = std::max<int64_t>(left, 0); }   // overdue (monotonic clock ahead): the loop would wake up now, no sleeping across it
      switch (k) {
        case EN: { bool r = a.enable(); bool exp_ok = !m_enabled && !none_left(now_sec);
          if (!m_inited) { if (r) viol = "alarm-enable-succeeded-after-cleanup-without-initialize"; }
          else if (!m_enabled) { if (r) { m_enabled = true; m_fires_since_enable = 0; m_rearmed_by = "-after-reenable"; on_armed(g_wall_ms, snap(), "enable"); } else if (exp_ok) viol = "alarm-enable-failed although a matching instant exists"; }
          else if (r) viol = "alarm-enable-returned-true-while-running";
        } break;
        case DIS: { bool r = a.disable(); if (r != m_enabled) viol = "alarm-disable-return-value"; m_enabled = false; } break;
        case REF: { a.refresh(); if (m_enabled) { m_rearmed_by = "-after-refresh"; if (a.isEnabled()) on_armed(g_wall_ms, snap(), "refresh");
                                                  else if (none_left(now_sec)) m_enabled = false;   /* nothing left to wait for: refresh() leaves the alarm stopped */ } } break;
        case INIT: {   // initialize() again with the same configuration: refused while running; otherwise nothing observable changes (what already fired stays fired)
          if (!m_inited) { a.setCallback(cb); a.setTimezone(tz_min_cur); }     // cleanup() dropped both
          bool r = do_init();
          if (r == m_enabled) viol = r ? "alarm-initialize-accepted-while-running" : "alarm-initialize-rejected although the alarm is stopped";
          if (r) m_inited = true; } break;
        case INIT_BAD: {   // initialize() with invalid arguments (and otherwise DIFFERENT values than configured) must be refused and leave the alarm exactly as it was
          const char *which = ""; int sod2 = (cfg.ref.sod + 1800) % 86400;
          if (wa) { std::string other = mask_str(cfg.ref.mask ^ 0x7f);
            if (wa->initialize(-1, other)) which = "seconds-of-day=-1"; else if (wa->initialize(86400, other)) which = "seconds-of-day=86400";
            else if (wa->initialize(sod2, "111111")) which = "mask of 6 characters"; else if (wa->initialize(sod2, "11111111")) which = "mask of 8 characters"; }
          else if (oa) { if (oa->initialize(-1)) which = "seconds-of-day=-1"; else if (oa->initialize(86400)) which = "seconds-of-day=86400"; }
          else if (ka) { if (ka->initialize(-1, &cal, !cfg.ref.on_workday)) which = "seconds-of-day=-1"; else if (ka->initialize(86400, &cal, !cfg.ref.on_workday)) which = "seconds-of-day=86400";
            else if (ka->initialize(sod2, nullptr, !cfg.ref.on_workday)) which = "calendar=nullptr"; }
          else if (ca) { if (ca->initialize("0 0 10 * * 1,9")) which = "day-of-week 9"; }
          if (*which) viol = fmt("alarm-initialize-accepted-invalid-arguments (%s)", which); } break;
        case CLEANUP: {   // back to the un-initialised state: stops the alarm; what fired before is forgotten (both re-firing and not re-firing an instant are accepted afterwards)
          a.cleanup(); m_enabled = false; m_inited = false; m_fired.clear(); m_last_fired = -1; m_pending = -1; m_fires_since_enable = 0; } break;
        case SETTZ: { tz_min_cur = tz_min_cur == cfg.tz_min ? cfg.tz_min - 180 : cfg.tz_min; tz = tz_min_cur * 60; a.setTimezone(tz_min_cur); m_synced = false; } break;   // like a wall step: unknown to the alarm until enable()/refresh()
        case CAL_OFF: case CAL_WORK: case CAL_CLEAR: {
          if (k == CAL_OFF) { if (N >= 0) rc.special[(int)fdiv(N + tz, DAY)] = !rc.on_workday; }        // the day of the next matching instant stops matching
          else if (k == CAL_WORK) rc.special[(int)fdiv(now_sec + tz, DAY) + 1] = rc.on_workday;          // tomorrow (local) becomes a matching day
          else rc.special.clear();
          sent_special = rc.special; cal.updateSpecialDays(sent_special);
          if (m_enabled) { m_rearmed_by = "-after-calendar-update";
            if (a.isEnabled()) on_armed(g_wall_ms, snap(), "calendar update");
            else if (none_left(now_sec)) m_enabled = false; } } break;
        case SKEW: g_mono_ms += 5; m_skew_ms += 5; break;
        case WPLUS: g_wall_ms += 3600000; m_synced = false; break;
        case WMINUS: { g_wall_ms -= 3600000; m_synced = false; int64_t ns = fdiv(g_wall_ms, 1000);
          // instants after the new `now` are future instants again
          while (!m_fired.empty() && *m_fired.rbegin() > ns) m_fired.erase(*m_fired.rbegin());
          m_last_fired = m_fired.empty() ? -1 : *m_fired.rbegin(); } break;
        case ADV_HALF: { int64_t d = dist_ms / 2; g_wall_ms += d; g_mono_ms += d; } break;
        case ADV_M5: { int64_t d = std::max<int64_t>(0, dist_ms - 5); g_wall_ms += d; g_mono_ms += d; } break;
        case ADV_T: { g_wall_ms += dist_ms; g_mono_ms += dist_ms; } break;
        case ADV_P1: { g_wall_ms += dist_ms + 1000; g_mono_ms += dist_ms + 1000; } break;
        case PASS: {
          fires.clear();
          loop->runNext([] {}); loop->runLoop(event::Loop::Mode::kOnce);
          if (storm) { viol = fmt("alarm-callback-storm-in-one-pass %zu callbacks at wall_ms=%" PRId64 " without the clock moving (re-armed with delay %" PRId64 " ms for target=%u)", fires.size(), g_wall_ms, fires[1].pre.delay_ms, fires[1].pre.target); break; }
          for (auto &f : fires) {
            total_fires++;
            if (!m_enabled) { viol = fmt("alarm-fired-while-disabled at wall_ms=%" PRId64, f.wall_ms); break; }
            if (oneshot && m_fires_since_enable >= 1) { viol = fmt("oneshot-fired-twice at wall_ms=%" PRId64, f.wall_ms); break; }
            // attribute the callback to the nearest matching instant (under the zone in force when the alarm armed: the zone may have been toggled since, without refresh())
            int64_t ws = fdiv(f.wall_ms, 1000); int64_t pv = rc.prev_utc(ws, tz_armed), nx = rc.next_utc(ws, tz_armed);
            int64_t att = (pv >= 0 && (nx < 0 || f.wall_ms - pv * 1000 <= nx * 1000 - f.wall_ms)) ? pv : nx;
            if (att < 0) { viol = fmt("alarm-fired-without-matching-instant at wall_ms=%" PRId64, f.wall_ms); break; }
            if (m_synced && f.wall_ms < att * 1000 - m_skew_ms) { viol = fmt("alarm-fired-before-instant at wall_ms=%" PRId64 ": nearest matching instant %" PRId64 " is still %.3f s (%.2f days) away, monotonic clock only %d ms ahead", f.wall_ms, att, (att * 1000 - f.wall_ms) / 1000.0, (att * 1000 - f.wall_ms) / 86400000.0, m_skew_ms); break; }
            if (!m_synced && f.wall_ms < att * 1000 - m_skew_ms) {
              // the wall clock was stepped (or the zone changed) after arming and the un-refreshed timer ran out before the wall clock reached the instant:
              // the property is silent here.  Not counted as the callback of `att` (it may or may not fire again), only remembered.
              m_ever_fired = std::max(m_ever_fired, att); premature++; m_fires_since_enable++;
              if (oneshot) m_enabled = false; else if (f.pre.running && f.pre.timer_on) on_armed(f.wall_ms, f.pre, "fire"); else m_enabled = false;
            } else {
              if (m_fired.count(att)) { viol = fmt("alarm-double-fire-same-instant%s instant=%" PRId64 " second callback at wall_ms=%" PRId64 " (monotonic ahead by %d ms)", m_rearmed_by, att, f.wall_ms, m_skew_ms); break; }
              m_rearmed_by = "";
              m_fired.insert(att); m_last_fired = std::max(m_last_fired, att); m_ever_fired = std::max(m_ever_fired, att); m_fires_since_enable++;
              if (oneshot) { m_enabled = false; if (f.pre.running || f.pre.timer_on) { viol = "oneshot-still-armed-in-callback"; break; } }
              else { if (!f.pre.running || !f.pre.timer_on) { if (ref_next(std::max(ws, m_last_fired)) >= 0) { viol = fmt("alarm-not-rearmed-after-fire at wall_ms=%" PRId64, f.wall_ms); break; } m_enabled = false; }
                     else on_armed(f.wall_ms, f.pre, "fire"); }
            }
            if (!viol.empty()) break;
            apply_cb_action(f);
            if (!viol.empty()) break;
          }
          if (!viol.empty()) break;
          if (m_enabled && m_synced && m_pending >= 0 && g_wall_ms >= m_pending * 1000 && !m_fired.count(m_pending)) {
            viol = fmt("alarm-missed-instant instant=%" PRId64 " wall_ms=%" PRId64 " after a loop pass: no callback; implementation target=%u remain=%u", m_pending, g_wall_ms, a.target_utc_sec_, a.remainSeconds()); break; }
        } break;
      }
      if (!viol.empty()) break;
      if (a.isEnabled() != m_enabled) { viol = fmt("alarm-enabled-state-mismatch after %s: isEnabled=%d expected=%d", kOpNames[k], (int)a.isEnabled(), (int)m_enabled); break; }
      if (tev->isEnabled() != m_enabled) { viol = fmt("alarm-timer-enabled-mismatch after %s: timer=%d expected=%d", kOpNames[k], (int)tev->isEnabled(), (int)m_enabled); break; }
      if (m_enabled && (int64_t)a.remainSeconds() != (int64_t)a.target_utc_sec_ - fdiv(g_wall_ms, 1000) && (int64_t)a.target_utc_sec_ >= fdiv(g_wall_ms, 1000)) { viol = "alarm-remainSeconds-mismatch"; break; }
    }
    Lim l = limits(h);
    std::string sp; if (cfg.cal_ops) for (auto &kv : rc.special) sp += fmt("%d%c", kv.first - (int)fdiv(cfg.start_ms / 1000, DAY), kv.second ? 'w' : 'h');
    // implementation part: alarm state, armed target, the last-fired record (the one hidden field that decides the next target), timer, loop heap, calendar subscriptions
    std::string ck;   // the configuration as the implementation holds it (a refused initialize() must not change it)
    if (wa) ck = fmt("s%d m%d", VF_GET(seconds_of_day_, *wa, -1), VF_GET(week_mask_, *wa, -1));
    else if (oa) ck = fmt("s%d", VF_GET(seconds_of_day_, *oa, -1));
    else if (ka) ck = fmt("s%d w%d c%d", VF_GET(seconds_of_day_, *ka, -1), VF_GET(workday_, *ka, -1), (int)(VF_GET(wp_calendar_, *ka, (const void *)nullptr) != nullptr));
    else if (ca) { const unsigned char *pe = (const unsigned char *)VF_GET(sp_cron_expr_, *ca, (const void *)nullptr); uint64_t hsh = 1469598103934665603ULL; if (pe) for (size_t i = 0; i < sizeof(cron_expr); i++) hsh = (hsh ^ pe[i]) * 1099511628211ULL; ck = fmt("x%016" PRIx64, hsh); }
    Snap fin = snap();
    std::string canon = fmt("w%" PRId64 " m%" PRId64 " st%d tg%u fs%u te%d iv%" PRId64 " hp%zu ex%" PRId64 " ws%zu tz%d | in%d en%d sy%d lf%" PRId64 " ef%" PRId64 " rb%zu pe%" PRId64 " nf%zu fe%d sk%d sp%s | %d%d%d%d%d",
                            g_wall_ms, g_mono_ms - g_wall_ms, VF_GET(state_, a, -1), fin.target, VF_GET(fired_utc_sec_, a, 0u), (int)fin.timer_on, fin.timer_on ? fin.delay_ms : -1, fin.heap_n,
                            fin.heap_left, VF_SIZE(watch_alarms_, cal, (size_t)0), VF_GET(using_independ_timezone_, a, 1) ? VF_GET(timezone_offset_seconds_, a, 0) / 60 : 9999,
                            (int)m_inited, (int)m_enabled, (int)m_synced, m_last_fired, m_ever_fired, strlen(m_rearmed_by), m_pending, m_fired.size(), m_fires_since_enable, m_skew_ms, sp.c_str(),
                            l.skews, l.steps, l.cleanups, l.calops, (int)l.need_pass);
    if (tz_min_cur != cfg.tz_min) canon += "|tz-alt"; if (tz_armed != tz) canon += "|armed-under-other-tz";
    canon += "|" + ck;
    if (vf_any_missing()) for (size_t i = h.size() > 3 ? h.size() - 3 : 0; i < h.size(); i++) canon += fmt(",%d", h[i].k);   // a probed member is gone: make the key finer instead of merging states that can no longer be told apart
    if (viol.empty()) { std::string o = fmt("callbacks=%zu enabled=%d synced=%d", m_fired.size(), (int)m_enabled, (int)m_synced); outcomes[o]++; }
    if (a.isEnabled()) a.disable();
    loop->runNext([] {}); loop->runLoop(event::Loop::Mode::kOnce);
    ap.reset(); delete loop; ::alarm(0);
    return canon;
  };
  if (replay) {   // fire-replay <config> <op,op,...>: evaluate one history, print the violation (if any) and the canonical state
    std::vector<Op> h; std::string r = replay, tok;
    for (size_t i = 0; i <= r.size(); i++) { if (i == r.size() || r[i] == ',' || r[i] == ' ') { for (int k = 0; k < NOPS; k++) if (tok == kOpNames[k]) h.push_back({k}); tok.clear(); } else tok.push_back(r[i]); }
    std::string v; std::string c = ex.run(h, v);
    printf("history: %s\nviolation: %s\nstate: %s\n", ex.hist_str(h).c_str(), v.empty() ? "(none)" : v.c_str(), c.c_str()); return 0;
  }
  ex.explore(depth);
  for (auto &o : outcomes) printf("@OUTCOME %s: %s\n", cfg.name.c_str(), o.first.c_str());
  printf("@STAT callbacks_observed=%" PRIu64 " armings_checked=%" PRIu64 " premature_callbacks_after_wall_step=%" PRIu64 " callback_actions=%" PRIu64 "\n", total_fires, total_arms, premature, cb_actions);
  return 0;
}

#endif  // !C20_ONLY_SWEEP

int main(int argc, char **argv) {
  std::string mode = argc > 1 ? argv[1] : "";
  setvbuf(stdout, nullptr, _IOLBF, 0);
  // the PROCESS time zone is a DST zone far from UTC (POSIX string, no tzdata needed): every alarm here sets its zone explicitly, so nothing may
  // depend on it - an explicit offset that falls back to the system zone, or ccronexpr going through mktime()/localtime(), would show
  setenv("TZ", "XXX-5:45YYY,M3.2.0,M11.1.0", 1); tzset();
#ifndef C20_ONLY_SWEEP
  if (mode == "fire") return fire(argc > 2 ? argv[2] : "", argc > 3 ? (size_t)atoi(argv[3]) : 6);
  if (mode == "fire-replay") return fire(argc > 2 ? argv[2] : "", 0, argc > 3 ? argv[3] : "");
  if (mode == "list-fire") { for (auto &c : fire_cfgs()) printf("%s\n", c.name.c_str()); return 0; }
  if (mode == "count-far") { int n = 0; for (auto &c : fire_cfgs()) n += c.far_target; printf("%d\n", n); return 0; }
#endif
#ifndef C20_ONLY_FIRE
  int part = argc > 2 ? atoi(argv[2]) : 0, nparts = argc > 3 ? atoi(argv[3]) : 1; bool thorough = argc > 4 && std::string(argv[4]) == "thorough";
  if (mode == "sweep-weekly-full") return sweep_weekly_full(part, nparts, thorough);
  if (mode == "sweep-weekly-tz") return sweep_weekly_tz(part, nparts, thorough);
  if (mode == "sweep-oneshot") return sweep_oneshot(part, nparts, thorough);
  if (mode == "sweep-workday") return sweep_workday(part, nparts, thorough);
  if (mode == "sweep-cron") return sweep_cron(part, nparts, thorough);
  if (mode == "count-cron-sets") { std::vector<CronCase> cs; cron_cases(cs); int on = 0, off = 0; for (auto &c : cs) if (c.ref.kind == RefCfg::CRON_SETS) (((c.known_defect && !cron_known_defects_enabled()) || (c.off_switch && !env_is_1(c.off_switch))) ? off : on)++; printf("%d %d\n", on, off); return 0; }
#endif
  printf("@VIOL sig=harness-bad-arguments :: %s\n", mode.c_str());
  return 0;
}
