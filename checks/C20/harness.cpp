// C20: alarms pick the earliest matching future instant and fire once per instant.
//
//   harness sweep-weekly-full <part> <nparts> <tier>     engine I  every second of a week x masks (probe subclass)
//   harness sweep-weekly-tz   <part> <nparts> <tier>     engine I  day-boundary seconds x every tz offset (real activeTimer, virtual wall clock)
//   harness sweep-oneshot     <part> <nparts> <tier>     engine I
//   harness sweep-workday     <part> <nparts> <tier>     engine I  calendars with <=3 special days + long holiday stretches
//   harness sweep-cron        <part> <nparts> <tier>     engine I  three expression shapes, field values at their extremes
//   harness fire <config> <depth>                        engine H  BFS over enable/disable/refresh/clock histories
//   harness fire-replay <config> <op,op,...>             replay one history of a firing configuration
//
// Readings (DESIGN.md 1.7, quoted here next to the rules):
//  * instants within one week + 14 h of 2^32 are excluded (no next instant exists in range); symmetrically,
//    inputs whose LOCAL time (now + tz) would be negative are excluded (local time before the epoch).
//  * clock advances stop at each matching instant (+ at most one second) and a loop pass follows before the
//    next advance: alarms have no catch-up and the property does not ask for it.
//  * a "not found" answer is accepted when the reference finds no matching instant inside the implementation's
//    documented search horizon (weekly: 8 days, workday: 367 days, cron: CRON_MAX_YEARS_DIFF = 4 years).
//  * after a wall-clock step the alarm cannot know about it until refresh()/enable(): until then only
//    "never twice for one instant", "disabled never fires", "one-shot once" and the armed-delay rule are checked.
//    A backward step makes the instants it re-exposes future instants again (they may fire again or not: both accepted).
//    A callback that comes while the alarm is still un-refreshed after a step and BEFORE the wall clock reaches the instant
//    (timer ran out on the monotonic clock) is not counted as that instant's callback; advances then stop where the
//    alarm's own armed timer is due.
//  * callbacks are attributed to the nearest matching instant (instants are >= 30 min apart in every configuration,
//    skew <= 10 ms, wall steps <= 2 h in total).
#include "hist/hist.h"
#include <tbox/event/loop.h>
#include <tbox/event/timer_event.h>
#include <tbox/event/common_loop.h>
#include <tbox/event/timer_event_impl.h>
#include <tbox/alarm/alarm.h>
#include <tbox/alarm/weekly_alarm.h>
#include <tbox/alarm/oneshot_alarm.h>
#include <tbox/alarm/workday_alarm.h>
#include <tbox/alarm/workday_calendar.h>
#include <tbox/alarm/cron_alarm.h>
#include <sys/syscall.h>
#include <sys/time.h>
#include <time.h>
#include <cstdint>
#include <cinttypes>
#include <cstdarg>
#include <memory>
#include <set>

using namespace tbox;
using namespace tbox::alarm;

// ------------------------------------------------------------------------------------------------
// virtual clocks: alarm.cpp reads the wall clock through gettimeofday() only; the loop's timer code
// (common_loop_timer.cpp) reads std::chrono::steady_clock::now() = clock_gettime(CLOCK_MONOTONIC).
// time() and CLOCK_REALTIME are virtualised too so nothing can see the real wall clock.
// While g_virt is false (outside the code under test) the real clocks are returned, so the
// explorer's own deadline (hist.h uses steady_clock) keeps running on real time.
static bool g_virt = false;
static int64_t g_wall_ms = 0, g_mono_ms = 0;
extern "C" int clock_gettime(clockid_t k, struct timespec *ts) {
  if (g_virt) {
    if (k == CLOCK_REALTIME || k == CLOCK_REALTIME_COARSE) { ts->tv_sec = g_wall_ms / 1000; ts->tv_nsec = (g_wall_ms % 1000) * 1000000L; return 0; }
    if (k == CLOCK_MONOTONIC || k == CLOCK_MONOTONIC_COARSE || k == CLOCK_MONOTONIC_RAW || k == CLOCK_BOOTTIME) { ts->tv_sec = g_mono_ms / 1000; ts->tv_nsec = (g_mono_ms % 1000) * 1000000L; return 0; }
  }
  return (int)syscall(SYS_clock_gettime, k, ts);
}
extern "C" int gettimeofday(struct timeval *tv, void *tz) {
  if (g_virt) { tv->tv_sec = g_wall_ms / 1000; tv->tv_usec = (g_wall_ms % 1000) * 1000; return 0; }
  return (int)syscall(SYS_gettimeofday, tv, tz);
}
extern "C" time_t time(time_t *t) {
  time_t r;
  if (g_virt) r = (time_t)(g_wall_ms / 1000);
  else { struct timespec ts; syscall(SYS_clock_gettime, CLOCK_REALTIME, &ts); r = ts.tv_sec; }
  if (t) *t = r;
  return r;
}
// watchdog: a hang inside the code under test (e.g. an alarm re-arming itself with a zero delay inside the loop) becomes a violation
static void on_watchdog(int) { hx::emit_crash("hang-watchdog"); _exit(0); }
static void watchdog(unsigned sec) { signal(SIGALRM, on_watchdog); ::alarm(sec); }
static double real_now_s() { struct timespec ts; syscall(SYS_clock_gettime, CLOCK_MONOTONIC, &ts); return ts.tv_sec + ts.tv_nsec * 1e-9; }
// seconds this process may still run: min(VERIF_DEADLINE_S, time left until the check-wide absolute deadline C20_DEADLINE_ABS (real epoch seconds))
static double budget_s(double dflt) {
  const char *e = getenv("VERIF_DEADLINE_S"); double d = e ? atof(e) : dflt;
  if (const char *a = getenv("C20_DEADLINE_ABS")) { struct timespec ts; syscall(SYS_clock_gettime, CLOCK_REALTIME, &ts); d = std::min(d, std::max(1.0, atof(a) - (ts.tv_sec + ts.tv_nsec * 1e-9))); }
  return d;
}
struct Virt { bool old; Virt() : old(g_virt) { g_virt = true; } ~Virt() { g_virt = old; } };

// ------------------------------------------------------------------------------------------------
// reference calendar arithmetic (independent of gmtime/timegm and of the code under test)
static const int64_t DAY = 86400, WEEK = 604800, TWO32 = 4294967296LL;
static inline int64_t fdiv(int64_t a, int64_t b) { int64_t q = a / b; return (a % b != 0 && ((a < 0) != (b < 0))) ? q - 1 : q; }
static inline int wd_of_day(int64_t day) { return (int)((((day + 4) % 7) + 7) % 7); }   // 0 = Sunday; day 0 = 1970-01-01 = Thursday
static void civil_from_days(int64_t z, int &y, int &m, int &d) {                      // proleptic Gregorian
  z += 719468; int64_t era = fdiv(z, 146097); int64_t doe = z - era * 146097;
  int64_t yoe = (doe - doe / 1460 + doe / 36524 - doe / 146096) / 365; int64_t yy = yoe + era * 400;
  int64_t doy = doe - (365 * yoe + yoe / 4 - yoe / 100); int64_t mp = (5 * doy + 2) / 153;
  d = (int)(doy - (153 * mp + 2) / 5 + 1); m = (int)(mp < 10 ? mp + 3 : mp - 9); y = (int)(yy + (m <= 2));
}
static int64_t days_from_civil(int y, int m, int d) {
  y -= m <= 2; int64_t era = fdiv(y, 400); int64_t yoe = y - era * 400;
  int64_t doy = (153 * (m + (m > 2 ? -3 : 9)) + 2) / 5 + d - 1; int64_t doe = yoe * 365 + yoe / 4 - yoe / 100 + doy;
  return era * 146097 + doe - 719468;
}
static int64_t utc(int y, int mo, int d, int h = 0, int mi = 0, int s = 0) { return days_from_civil(y, mo, d) * DAY + h * 3600 + mi * 60 + s; }

// A configuration as the reference sees it: which local days match, and at which second of the day.
struct RefCfg {
  enum Kind { WEEKLY, ONESHOT, WORKDAY, CRON_DAILY, CRON_DOW, CRON_DM, CRON_HALFHOUR } kind = WEEKLY;
  int sod = 0;               // second of the local day
  int mask = 0x7f;           // WEEKLY: bit i = weekday i (0 = Sunday); CRON_DOW: single weekday bit
  int dom = 1, mon = 1;      // CRON_DM
  int cal_mask = 0x3e; std::map<int, bool> special; bool on_workday = true;   // WORKDAY
  int horizon_days = 8;      // reference scans this many local days starting with today
  bool day_matches(int64_t day) const {
    switch (kind) {
      case WEEKLY: case CRON_DOW: return (mask >> wd_of_day(day)) & 1;
      case ONESHOT: case CRON_DAILY: case CRON_HALFHOUR: return true;
      case WORKDAY: { auto it = special.find((int)day); bool w = it != special.end() ? it->second : ((cal_mask >> wd_of_day(day)) & 1); return w == on_workday; }
      case CRON_DM: { int y, m, d; civil_from_days(day, y, m, d); return m == mon && d == dom; }
    }
    return false;
  }
  // earliest LOCAL instant strictly after local second L, or -1 when none within the horizon
  // CRON_DM: the only candidate days are (year, mon, dom) for consecutive years; a date that does not exist (30 Feb) does not round-trip
  int64_t dm_day(int year) const { int64_t d = days_from_civil(year, mon, dom); int y, m, dd; civil_from_days(d, y, m, dd); return (y == year && m == mon && dd == dom) ? d : INT64_MIN; }
  int64_t next_local(int64_t L) const {
    if (kind == CRON_HALFHOUR) return (fdiv(L, 1800) + 1) * 1800;
    if (kind == CRON_DM) { int y, m, d; civil_from_days(fdiv(L, DAY), y, m, d);
      for (int i = 0; i <= horizon_days / 366; i++) { int64_t dd = dm_day(y + i); if (dd != INT64_MIN && dd * DAY + sod > L) return dd * DAY + sod; }
      return -1; }
    return next_local_dayscan(L);
  }
  int64_t next_local_dayscan(int64_t L) const {
    int64_t day = fdiv(L, DAY);
    for (int i = 0; i < horizon_days; i++) { int64_t t = (day + i) * DAY + sod; if (t > L && day_matches(day + i)) return t; }
    return -1;
  }
  // latest LOCAL instant <= L (for attributing a callback to an instant), or -1
  int64_t prev_local(int64_t L) const {
    if (kind == CRON_HALFHOUR) return fdiv(L, 1800) * 1800;
    if (kind == CRON_DM) { int y, m, d; civil_from_days(fdiv(L, DAY), y, m, d);
      for (int i = 0; i <= horizon_days / 366; i++) { int64_t dd = dm_day(y - i); if (dd != INT64_MIN && dd * DAY + sod <= L) return dd * DAY + sod; }
      return -1; }
    int64_t day = fdiv(L, DAY);
    for (int i = 0; i < horizon_days; i++) { int64_t t = (day - i) * DAY + sod; if (t <= L && day_matches(day - i)) return t; }
    return -1;
  }
  int64_t next_utc(int64_t now_sec, int tz_sec) const { int64_t r = next_local(now_sec + tz_sec); return r < 0 ? -1 : r - tz_sec; }
  int64_t prev_utc(int64_t now_sec, int tz_sec) const { int64_t r = prev_local(now_sec + tz_sec); return r < 0 ? -1 : r - tz_sec; }
};

// ------------------------------------------------------------------------------------------------
// probe subclasses exposing the protected next-instant computation
struct WeeklyProbe : WeeklyAlarm { using WeeklyAlarm::WeeklyAlarm; using WeeklyAlarm::calculateNextLocalTimeSec; };
struct OneshotProbe : OneshotAlarm { using OneshotAlarm::OneshotAlarm; using OneshotAlarm::calculateNextLocalTimeSec; };
struct WorkdayProbe : WorkdayAlarm { using WorkdayAlarm::WorkdayAlarm; using WorkdayAlarm::calculateNextLocalTimeSec; };
struct CronProbe : CronAlarm { using CronAlarm::CronAlarm; using CronAlarm::calculateNextLocalTimeSec; };

static std::string mask_str(int mask) { std::string s; for (int i = 0; i < 7; i++) s.push_back(((mask >> i) & 1) ? '1' : '0'); return s; }

// ------------------------------------------------------------------------------------------------
// sweep bookkeeping
struct Sweep {
  const char *name; uint64_t evals = 0, skipped = 0, viols = 0, notfound = 0; double deadline; bool capped = false; int samples = 0;
  std::map<std::string, uint64_t> sigs; std::map<std::string, uint64_t> outcomes;
  explicit Sweep(const char *n) : name(n) { double d = budget_s(600); deadline = real_now_s() + d;
    strncpy(hx::g_cur_tag, "C20-sweep", sizeof hx::g_cur_tag - 1); hx::set_current(std::string(n) + " (input sweep)"); watchdog((unsigned)d + 120); }
  // the replay text is only built for the (at most 3) occurrences of a signature that are printed
  template <class F> void viol(const char *kind, const char *what, F &&replay) { viols++;
    if (viols >= 200000 && !capped) { capped = true; printf("@CAP %s: stopped after %" PRIu64 " violations (flood)\n", name, viols); }
    std::string sig = std::string(kind) + what; uint64_t &n = sigs[sig]; if (++n <= 3) { std::string r = replay(); printf("@VIOL sig=%s :: %s\n", sig.c_str(), r.c_str()); fflush(stdout); } }
  void viol(const std::string &sig, const std::string &replay) { viol(sig.c_str(), "", [&] { return replay; }); }
  void sample(const std::string &s) { if (samples++ < 2) printf("@SAMPLE %s: %s\n", name, s.c_str()); }
  bool expired() { if (!capped && real_now_s() > deadline) { capped = true; printf("@CAP %s: deadline reached after %" PRIu64 " evaluations\n", name, evals); } return capped; }
  void outcome(const std::string &o) { outcomes[o]++; }
  uint64_t oc[2][12] = {};
  void outcome_id(int a, int b) { oc[a][b]++; }
  void finish() {
    static const char *dn[12] = {"0", "1", "2", "3", "4", "5", "6", "7", "8", "9..49", "50..366", ">=367"};
    if (oc[0][0]) outcomes["not-found"]++;
    for (int i = 0; i < 12; i++) if (oc[1][i]) outcomes[std::string("found dist_days=") + dn[i]]++;
    for (auto &o : outcomes) printf("@OUTCOME %s: %s\n", name, o.first.c_str());
    for (auto &s : sigs) printf("@INFO %s: signature %s seen %" PRIu64 " times\n", name, s.first.c_str(), s.second);
    printf("@STAT states=%" PRIu64 " transitions=%" PRIu64 " executions=%" PRIu64 " violations=%" PRIu64 " skipped_out_of_domain=%" PRIu64 " not_found_answers=%" PRIu64 "\n", evals, evals, evals, viols, skipped, notfound);
    fflush(stdout);
  }
};
static std::string fmt(const char *f, ...) { char b[600]; va_list ap; va_start(ap, f); vsnprintf(b, sizeof b, f, ap); va_end(ap); return b; }

// Judge one answer of a next-instant computation against the reference.  `now`/`got`/`ref` are in the same time
// scale (local for probe calls, UTC for activeTimer calls); ref < 0 = no matching instant inside the horizon.
template <class F>
static void judge(Sweep &sw, const char *kind, bool ok, int64_t now, int64_t got, int64_t ref, F &&input) {
  sw.evals++;
  if (ref < 0) {
    if (ok) sw.viol(kind, "-next-found-but-no-matching-instant", [&] { return input() + fmt(" got=%" PRId64 " ref=none", got); });
    else { sw.notfound++; sw.outcome_id(0, 0); }
    return;
  }
  if (!ok) { sw.viol(kind, "-next-not-found-but-instant-exists", [&] { return input() + fmt(" ref=%" PRId64, ref); }); return; }
  if (got == ref) { int64_t d = (ref - now) / DAY; sw.outcome_id(1, d < 9 ? (int)d : d < 50 ? 9 : d < 367 ? 10 : 11); return; }
  if (got <= now) sw.viol(kind, "-next-not-strictly-after-now", [&] { return input() + fmt(" got=%" PRId64 " ref=%" PRId64, got, ref); });
  else if (got > ref) sw.viol(kind, "-next-not-earliest", [&] { return input() + fmt(" got=%" PRId64 " ref=%" PRId64 " (late by %" PRId64 " s)", got, ref, got - ref); });
  else sw.viol(kind, "-next-not-a-matching-instant", [&] { return input() + fmt(" got=%" PRId64 " ref=%" PRId64, got, ref); });
}

#ifndef C20_ONLY_FIRE   // ---- engine I half (check.py builds the two halves as two executables so they compile in parallel)
// the base weeks: epoch 0, the week straddling 2^31, and the last week whose instants are all in the domain
static const int64_t BASE_LO = 0, BASE_MID = (1LL << 31) - WEEK / 2, DOMAIN_END = TWO32 - WEEK - 14 * 3600 /* exclusive */, BASE_HI = DOMAIN_END - WEEK;

// drive the REAL Alarm::activeTimer under the virtual wall clock: (re)arm at `now_ms` and read the instant it armed for
struct Armed { bool ok; int64_t target; int64_t delay_ms; uint32_t remain; };
static Armed arm_at(Alarm &a, event::Loop *loop, int64_t now_ms, int tz_min, uint64_t &since_pass) {
  Virt v; g_wall_ms = now_ms; g_mono_ms = 1000000 + (now_ms % 977);
  a.setTimezone(tz_min);
  if (a.isEnabled()) a.refresh(); else { a.target_utc_sec_ = 0; a.enable(); }   // fresh arming: no previous target (refresh() clears it itself)
  Armed r; r.ok = a.isEnabled(); r.target = a.target_utc_sec_; r.remain = a.remainSeconds();
  r.delay_ms = static_cast<event::TimerEventImpl *>(a.sp_timer_ev_)->interval_.count();
  if (++since_pass >= 200) { since_pass = 0; if (a.isEnabled()) a.disable(); loop->runNext([] {}); loop->runLoop(event::Loop::Mode::kOnce); }   // drain the deferred timer frees (alarm disarmed: no callback can run here)
  return r;
}
template <class F>
static void judge_delay(Sweep &sw, const char *kind, const Armed &r, int64_t now_ms, F &&input) {
  if (!r.ok) return;
  int64_t dist = r.target * 1000 - now_ms;
  if (r.delay_ms < dist) sw.viol(dist > 0xffffffffLL ? "alarm-delay-ms-overflow-32bit" : "alarm-delay-shorter-than-distance", "", [&] { return input() + fmt(" target=%" PRId64 " armed_delay_ms=%" PRId64 " distance_ms=%" PRId64, r.target, r.delay_ms, dist); });
  if ((int64_t)r.remain != r.target - now_ms / 1000) sw.viol(kind, "-remainSeconds-mismatch", [&] { return input() + fmt(" remain=%u", r.remain); });
}

// ------------------------------------------------------------------------------------------------
static int sweep_weekly_full(int part, int nparts, bool thorough) {
  Sweep sw("weekly-full");
  event::Loop *loop = event::Loop::New(); WeeklyProbe a(loop);
  // anchor of the weekday convention: 2022-10-01 (day 19266) was a Saturday, 2022-10-03 a Monday (workday_calendar_test.cpp)
  if (wd_of_day(19266) != 6 || wd_of_day(19268) != 1 || wd_of_day(0) != 4) { printf("@VIOL sig=harness-weekday-anchor :: reference weekday function broken\n"); return 0; }
  struct S { int sod, stride; };
  std::vector<S> sods;
  {
    std::set<int> full, grid;
    for (int v : {0, 86399}) full.insert(v);
    for (int v : {1, 23296, 43200, 86398}) (thorough ? full : grid).insert(v);   // 23296 = 2^32 mod 86400
    if (thorough) { for (int v : {2, 59, 60, 3599, 3600, 43199, 43201, 63104, 86340, 86397}) full.insert(v);
                    for (int v = 0; v < 86400; v += 600) full.insert(v); for (int h = 1; h < 24; h++) { full.insert(h * 3600 - 1); full.insert(h * 3600 + 1); } }
    else for (int v = 0; v < 86400; v += 7200) grid.insert(v + 17);
    for (int v : full) sods.push_back({v, 1});
    for (int v : grid) if (!full.count(v)) sods.push_back({v, 7});
  }
  for (int mask = 0; mask < 128 && !sw.capped; mask++) {
    if (mask % nparts != part) continue;
    for (auto sd : sods) {
      if (!a.initialize(sd.sod, mask_str(mask))) { sw.viol("weekly-initialize-rejected", fmt("sod=%d mask=%s", sd.sod, mask_str(mask).c_str())); continue; }
      RefCfg ref; ref.kind = RefCfg::WEEKLY; ref.sod = sd.sod; ref.mask = mask; ref.horizon_days = 8;
      for (int64_t base : {BASE_LO, BASE_MID, BASE_HI}) {
        if (sw.expired()) break;
        // independent day-scan: the sorted list of matching instants covering [base, base + 2 weeks]
        std::vector<int64_t> inst;
        for (int64_t d = fdiv(base, DAY) - 1; d <= fdiv(base, DAY) + 16; d++) if ((mask >> wd_of_day(d)) & 1) inst.push_back(d * DAY + sd.sod);
        size_t p = 0;
        int stride = (mask == 0 && sd.stride == 1) ? 7 : sd.stride;
        for (int64_t t = base + (stride > 1 ? (mask % stride) : 0); t < base + WEEK; t += stride) {
          while (p < inst.size() && inst[p] <= t) p++;
          int64_t r = p < inst.size() ? inst[p] : -1;
          uint32_t got = 0; bool ok = a.calculateNextLocalTimeSec((uint32_t)t, got);
          if (ok && (int64_t)got == r) { sw.evals++; continue; }     // fast path; everything else goes through judge()
          if (!ok && r < 0) { sw.evals++; sw.notfound++; continue; }
          judge(sw, "weekly", ok, t, got, r, [&] { return fmt("weekly sod=%d mask=%s(bit0=Sun) tz=0 now_local=%" PRId64, sd.sod, mask_str(mask).c_str(), t); });
          if (sw.capped) break;
        }
        // cross-check the fast list reference against the plain day-scan on a few points, and sample
        for (int64_t t : {base, base + 86399, base + WEEK - 1}) {
          size_t q = 0; while (q < inst.size() && inst[q] <= t) q++;
          int64_t r1 = q < inst.size() ? inst[q] : -1, r2 = ref.next_local(t);
          if (r1 != r2) sw.viol("harness-reference-disagreement", fmt("weekly sod=%d mask=%d t=%" PRId64 " list=%" PRId64 " scan=%" PRId64, sd.sod, mask, t, r1, r2));
        }
      }
      if ((mask == 0x3e || mask == 1) && (sd.sod == 0 || sd.sod == 86399)) sw.sample(fmt("sod=%d mask=%s every second of 3 base weeks (stride %d) vs day-scan", sd.sod, mask_str(mask).c_str(), sd.stride));
    }
    sw.outcome(mask == 0 ? "mask-empty: never found" : "found==reference");
  }
  sw.finish(); delete loop; return 0;
}

static int sweep_weekly_tz(int part, int nparts, bool thorough) {
  Sweep sw("weekly-tz");
  event::Loop *loop = event::Loop::New();
  uint64_t since_pass = 0, item = 0;
  std::vector<int> sods = {0, 1, 43200, 86398, 86399};
  if (thorough) sods = {0, 1, 2, 59, 60, 3599, 3600, 23296, 43199, 43200, 43201, 63104, 86340, 86397, 86398, 86399};
  std::vector<int> masks; for (int m = 0; m < 128; m++) if (thorough || m == 0 || __builtin_popcount(m) <= 2 || __builtin_popcount(m) >= 6 || m == 0x3e || m == 0x2a || m == 0x55) masks.push_back(m);
  {
    WeeklyAlarm a(loop); a.setCallback([] {});
    for (int mask : masks) {
      for (int sod : sods) {
        if (item++ % nparts != (uint64_t)part) continue;
        if (sw.expired()) break;
        if (a.isEnabled()) a.disable();
        a.initialize(sod, mask_str(mask));
        RefCfg ref; ref.kind = RefCfg::WEEKLY; ref.sod = sod; ref.mask = mask; ref.horizon_days = 8;
        for (int tzm = -720; tzm <= 840; tzm += 15) {
          int tz = tzm * 60;
          for (int64_t base : {BASE_LO, BASE_MID, BASE_HI}) for (int k = 0; k <= 7; k++) {
            // +-2 s around the UTC day boundary, the local day boundary and the trigger instant of local day k
            std::vector<int64_t> nows;
            for (int64_t anchor : {base + k * DAY, base + k * DAY - tz, base + k * DAY - tz + sod}) for (int e = -2; e <= 2; e++) nows.push_back(anchor + e);
            std::sort(nows.begin(), nows.end()); nows.erase(std::unique(nows.begin(), nows.end()), nows.end());
            for (int64_t now : nows) {
              if (now < 0 || now + tz < 0 || now >= DOMAIN_END) { sw.skipped++; continue; }
              int64_t now_ms = now * 1000 + ((now & 2) ? 999 : 0);
              Armed r = arm_at(a, loop, now_ms, tzm, since_pass);
              auto in = [&] { return fmt("weekly(activeTimer) sod=%d mask=%s(bit0=Sun) tz_min=%d now_utc=%" PRId64 ".%03d", sod, mask_str(mask).c_str(), tzm, now, (int)(now_ms % 1000)); };
              judge(sw, "weekly", r.ok, now, r.target, ref.next_utc(now, tz), in);
              judge_delay(sw, "weekly", r, now_ms, in);
            }
          }
        }
        if (mask == 0x3e && sod == 0) sw.sample(fmt("sod=%d mask=%s: +-2 s around UTC midnight, local midnight and the trigger, 8 days x 3 bases x tz -720..+840 step 15 min, via refresh()->activeTimer()", sod, mask_str(mask).c_str()));
      }
    }
    if (a.isEnabled()) a.disable();
  }
  sw.finish(); delete loop; return 0;
}

static int sweep_oneshot(int part, int nparts, bool thorough) {
  Sweep sw("oneshot");
  event::Loop *loop = event::Loop::New(); uint64_t since_pass = 0;
  {
    OneshotProbe a(loop); a.setCallback([] {});
    RefCfg ref; ref.kind = RefCfg::ONESHOT; ref.horizon_days = 2;
    // (a) every second of two days x boundary seconds-of-day
    std::vector<int> sods = {0, 1, 2, 43199, 43200, 43201, 86397, 86398, 86399};
    int idx = 0;
    for (int sod : sods) for (int64_t base : {BASE_LO, BASE_MID, DOMAIN_END - 2 * DAY}) {
      if (idx++ % nparts != part) continue;
      if (sw.expired()) break;
      a.initialize(sod); ref.sod = sod;
      for (int64_t t = base; t < base + 2 * DAY; t++) {
        uint32_t got = 0; bool ok = a.calculateNextLocalTimeSec((uint32_t)t, got);
        int64_t r = ref.next_local(t);
        if (ok && (int64_t)got == r) { sw.evals++; continue; }
        judge(sw, "oneshot", ok, t, got, r, [&] { return fmt("oneshot sod=%d tz=0 now_local=%" PRId64, sod, t); });
      }
      sw.outcome("found==reference (<=1 day ahead)");
    }
    // (b) every second-of-day x now within +-2 s of the trigger and of midnight
    for (int sod = part; sod < 86400; sod += nparts) {
      if ((sod & 1023) == 0 && sw.expired()) break;
      if (!thorough && sod % 7 != 0 && sod > 200 && sod < 86200) continue;
      a.initialize(sod); ref.sod = sod;
      for (int64_t base : {BASE_LO + DAY, BASE_MID, DOMAIN_END - 2 * DAY}) { int64_t d0 = fdiv(base, DAY) * DAY;
        for (int64_t anchor : {d0, d0 + sod, d0 + DAY}) for (int e = -2; e <= 2; e++) {
          int64_t t = anchor + e; uint32_t got = 0; bool ok = a.calculateNextLocalTimeSec((uint32_t)t, got);
          judge(sw, "oneshot", ok, t, got, ref.next_local(t), [&] { return fmt("oneshot sod=%d tz=0 now_local=%" PRId64, sod, t); });
        } }
    }
    // (c) through activeTimer with every tz offset
    if (part == 0) {
      for (int sod : {0, 1, 43200, 86399}) { if (a.isEnabled()) a.disable(); a.initialize(sod); ref.sod = sod;
        for (int tzm = -720; tzm <= 840; tzm += 15) for (int64_t base : {BASE_LO + DAY, BASE_MID, DOMAIN_END - 2 * DAY}) {
          int64_t d0 = fdiv(base, DAY) * DAY;
          for (int64_t anchor : {d0, d0 - tzm * 60, d0 - tzm * 60 + sod}) for (int e = -2; e <= 2; e++) {
            int64_t now = anchor + e; if (now < 0 || now + tzm * 60 < 0 || now >= DOMAIN_END) { sw.skipped++; continue; }
            int64_t now_ms = now * 1000 + (e & 1 ? 250 : 0);
            Armed r = arm_at(a, loop, now_ms, tzm, since_pass);
            auto in = [&] { return fmt("oneshot(activeTimer) sod=%d tz_min=%d now_utc=%" PRId64 ".%03d", sod, tzm, now, (int)(now_ms % 1000)); };
            judge(sw, "oneshot", r.ok, now, r.target, ref.next_utc(now, tzm * 60), in); judge_delay(sw, "oneshot", r, now_ms, in);
          } }
      }
      if (a.isEnabled()) a.disable();
      sw.sample("sod in {0,1,43200,86399} x tz -720..+840 x +-2 s around UTC midnight/local midnight/trigger via activeTimer()");
    }
    sw.sample("every second of 2 days x 9 boundary seconds-of-day x 3 bases; every second-of-day x +-2 s around trigger and midnight");
  }
  sw.finish(); delete loop; return 0;
}

// all calendars with <= 3 special days (each workday or holiday) in a 10-day window
static void gen_calendars(int base_day, std::vector<std::map<int, bool>> &out) {
  out.push_back({});
  for (int a = 0; a < 10; a++) for (int va = 0; va < 2; va++) {
    out.push_back({{base_day + a, (bool)va}});
    for (int b = a + 1; b < 10; b++) for (int vb = 0; vb < 2; vb++) {
      out.push_back({{base_day + a, (bool)va}, {base_day + b, (bool)vb}});
      for (int c = b + 1; c < 10; c++) for (int vc = 0; vc < 2; vc++) out.push_back({{base_day + a, (bool)va}, {base_day + b, (bool)vb}, {base_day + c, (bool)vc}});
    }
  }
}
static std::string cal_str(const std::map<int, bool> &m) { std::string s = "{"; for (auto &kv : m) s += fmt("%d:%s,", kv.first, kv.second ? "work" : "off"); return s + "}"; }

static int sweep_workday(int part, int nparts, bool thorough) {
  Sweep sw("workday");
  event::Loop *loop = event::Loop::New(); uint64_t since_pass = 0;
  {
    WorkdayCalendar cal; WorkdayProbe a(loop); a.setCallback([] {});
    uint64_t item = 0;
    std::vector<int64_t> base_days = {19268 /* 2022-10-03, a Monday */, fdiv(BASE_MID, DAY) - 3};
    std::vector<int> week_masks = {0x3e, 0x00, 0x7f, 0x41};
    if (thorough) { base_days.push_back(0); base_days.push_back(fdiv(DOMAIN_END, DAY) - 380); week_masks.push_back(0x1e); week_masks.push_back(0x55); }
    for (int64_t bd : base_days) {
      std::vector<std::map<int, bool>> cals; gen_calendars((int)bd + 1, cals);
      for (int wm : week_masks) for (auto &sp : cals) {
        if (item++ % nparts != (uint64_t)part) continue;
        if ((item & 63) == 0 && sw.expired()) break;
        cal.updateWeekMask((uint8_t)wm); cal.updateSpecialDays(sp);
        // the calendar's own answer against its specification (special day wins, else week mask, bit0 = Sunday)
        for (int d = (int)bd - 2; d < (int)bd + 14; d++) { auto it = sp.find(d); bool exp = it != sp.end() ? it->second : ((wm >> wd_of_day(d)) & 1);
          sw.evals++; if (cal.isWorkay(d) != exp) sw.viol("workday-calendar-isworkday-wrong", fmt("week_mask=0x%02x special=%s day=%d", wm, cal_str(sp).c_str(), d)); }
        for (int on : {1, 0}) for (int sod : {0, 1, 43200, 86399}) {
          a.initialize(sod, &cal, on);
          RefCfg ref; ref.kind = RefCfg::WORKDAY; ref.sod = sod; ref.cal_mask = wm; ref.special = sp; ref.on_workday = on; ref.horizon_days = 367;
          for (int64_t d = bd; d < bd + 12; d++) for (int64_t tod : {(int64_t)0, (int64_t)sod - 1, (int64_t)sod, (int64_t)sod + 1, (int64_t)86399}) {
            int64_t t = d * DAY + tod; if (t < 0) continue;
            uint32_t got = 0; bool ok = a.calculateNextLocalTimeSec((uint32_t)t, got);
            judge(sw, "workday", ok, t, got, ref.next_local(t), [&] { return fmt("workday sod=%d on_workday=%d week_mask=0x%02x special=%s tz=0 now_local=%" PRId64, sod, on, wm, cal_str(sp).c_str(), t); });
          }
        }
      }
    }
    sw.sample("all calendars with <=3 special days in a 10-day window x week masks {0x3e,0,0x7f,0x41(,0x1e,0x55)} x workday/holiday x sod {0,1,43200,86399} x 12 days x 5 times of day");
    // long stretches without a matching day: the only matching day is `gap` days ahead
    if (part == 0) {
      for (int gap : {1, 7, 8, 40, 49, 50, 60, 100, 365, 366, 367, 400}) for (int on : {1, 0}) for (int64_t bd : {(int64_t)19268, fdiv(BASE_MID, DAY)}) for (int sod : {0, 30600, 86399}) {
        std::map<int, bool> sp = {{(int)bd + gap, (bool)on}};
        cal.updateWeekMask(on ? 0x00 : 0x7f); cal.updateSpecialDays(sp);
        if (a.isEnabled()) a.disable(); a.initialize(sod, &cal, on);
        RefCfg ref; ref.kind = RefCfg::WORKDAY; ref.sod = sod; ref.cal_mask = on ? 0x00 : 0x7f; ref.special = sp; ref.on_workday = on; ref.horizon_days = 367;
        for (int64_t tod : {(int64_t)0, (int64_t)sod, (int64_t)86399}) {
          int64_t t = bd * DAY + tod; uint32_t got = 0; bool ok = a.calculateNextLocalTimeSec((uint32_t)t, got);
          auto in = [&] { return fmt("workday sod=%d on_workday=%d only matching day is %d days ahead, tz=0 now_local=%" PRId64, sod, on, gap, t); };
          int64_t r = ref.next_local(t);
          judge(sw, "workday", ok, t, got, r, in);
          if (r < 0 && !ok) sw.outcome(fmt("only matching day %d days ahead: not found (beyond the 367-day search horizon)", gap));
          // and the armed delay for that distance through the real activeTimer
          for (int tzm : {0, 480}) { int64_t now = t - tzm * 60; int64_t now_ms = now * 1000 + 123;
            Armed ar = arm_at(a, loop, now_ms, tzm, since_pass);
            auto in2 = [&] { return fmt("workday(activeTimer) sod=%d on_workday=%d only matching day %d days ahead tz_min=%d now_utc=%" PRId64 ".123", sod, on, gap, tzm, now); };
            judge(sw, "workday", ar.ok, now, ar.target, ref.next_utc(now, tzm * 60), in2); judge_delay(sw, "workday", ar, now_ms, in2);
            if (a.isEnabled()) a.disable(); }
        }
      }
      sw.sample("week mask empty/full, single matching day 1..400 days ahead (60 and 400 included), probe + activeTimer armed delay");
    }
    if (a.isEnabled()) a.disable();
  }
  sw.finish(); delete loop; return 0;
}

struct CronCase { std::string expr; RefCfg ref; };
static void cron_cases(std::vector<CronCase> &out) {
  auto tod = [](int s, int m, int h) { return h * 3600 + m * 60 + s; };
  for (int s : {0, 59}) for (int m : {0, 59}) for (int h : {0, 23}) { CronCase c; c.expr = fmt("%d %d %d * * *", s, m, h); c.ref.kind = RefCfg::CRON_DAILY; c.ref.sod = tod(s, m, h); c.ref.horizon_days = 3; out.push_back(c); }
  { CronCase c; c.expr = "30 30 12 * * *"; c.ref.kind = RefCfg::CRON_DAILY; c.ref.sod = tod(30, 30, 12); c.ref.horizon_days = 3; out.push_back(c); }
  int smh[3][3] = {{0, 0, 0}, {59, 59, 23}, {30, 30, 12}};
  for (auto &t : smh) for (int d : {0, 1, 6, 7}) { CronCase c; c.expr = fmt("%d %d %d * * %d", t[0], t[1], t[2], d); c.ref.kind = RefCfg::CRON_DOW; c.ref.sod = tod(t[0], t[1], t[2]); c.ref.mask = 1 << (d % 7); c.ref.horizon_days = 9; out.push_back(c); }
  for (int i = 0; i < 2; i++) for (int D : {1, 28, 29, 30, 31}) for (int M : {1, 2, 12}) { auto &t = smh[i]; CronCase c; c.expr = fmt("%d %d %d %d %d *", t[0], t[1], t[2], D, M); c.ref.kind = RefCfg::CRON_DM; c.ref.sod = tod(t[0], t[1], t[2]); c.ref.dom = D; c.ref.mon = M; c.ref.horizon_days = 366 * 9; out.push_back(c); }
}

static int sweep_cron(int part, int nparts, bool thorough) {
  Sweep sw("cron");
  event::Loop *loop = event::Loop::New(); uint64_t since_pass = 0;
  {
    std::vector<CronCase> cases; cron_cases(cases);
    // self-check of the reference calendar
    { int y, m, d; civil_from_days(19782, y, m, d); if (y != 2024 || m != 2 || d != 29 || days_from_civil(2024, 2, 29) != 19782 || days_from_civil(1970, 1, 1) != 0) { printf("@VIOL sig=harness-civil-calendar :: reference calendar broken\n"); return 0; } }
    for (size_t ci = 0; ci < cases.size(); ci++) {
      if ((int)(ci % nparts) != part) continue;
      CronCase &c = cases[ci];
      CronProbe a(loop); a.setCallback([] {});
      if (!a.initialize(c.expr)) { sw.viol("cron-initialize-rejected", c.expr); continue; }
      // `now` values: windows of days (dense boundary seconds inside each day) + one probe per day over several years for the yearly shape
      std::vector<int64_t> nows;
      auto add_day = [&](int64_t day, bool dense) {
        int sod = c.ref.sod;
        for (int64_t tod : {0, 1, 2, sod - 2, sod - 1, sod, sod + 1, sod + 2, 43200, 86397, 86398, 86399}) if (tod >= 0 && tod < DAY) nows.push_back(day * DAY + tod);
        if (dense) for (int64_t tod = 7; tod < DAY; tod += !thorough ? 997 : c.ref.kind == RefCfg::CRON_DM ? 211 : 61) nows.push_back(day * DAY + tod);
      };
      std::vector<int64_t> windows = {0, days_from_civil(2023, 2, 26), days_from_civil(2024, 2, 26), days_from_civil(2023, 12, 29), fdiv(1LL << 31, DAY) - 2, days_from_civil(2100, 2, 26), fdiv(DOMAIN_END, DAY) - 8};
      for (int64_t w : windows) for (int i = 0; i < 7; i++) add_day(w + i, true);
      if (c.ref.kind == RefCfg::CRON_DM) { for (int64_t d = days_from_civil(2019, 12, 1); d < days_from_civil(2025, 2, 1); d += thorough ? 1 : 3) add_day(d, false);
        for (int64_t d = days_from_civil(2095, 12, 1); d < days_from_civil(2101, 3, 1); d += thorough ? 1 : 9) add_day(d, false); }
      for (int64_t t : nows) {
        if ((sw.evals & 1023) == 0 && sw.expired()) break;
        int64_t r = c.ref.next_local(t);
        if (c.ref.kind == RefCfg::CRON_DM && (t % 53) == 0 && r != c.ref.next_local_dayscan(t)) sw.viol("harness-reference-disagreement", fmt("cron %s t=%" PRId64, c.expr.c_str(), t));
        if (r >= DOMAIN_END || t >= DOMAIN_END) { sw.skipped++; continue; }     // next instant not representable in the 32-bit range
        if (r >= 0) { int y0, y1, m, d; civil_from_days(fdiv(t, DAY), y0, m, d); civil_from_days(fdiv(r, DAY), y1, m, d); if (y1 - y0 > 4) r = -1; }   // beyond CRON_MAX_YEARS_DIFF: "not found" is the accepted answer
        uint32_t got = 0; bool ok = a.calculateNextLocalTimeSec((uint32_t)t, got);
        auto in = [&] { return fmt("cron expr='%s' tz=0 now_local=%" PRId64, c.expr.c_str(), t); };
        if (r < 0 && ok && got == 0xffffffffu) { sw.evals++; sw.viol("cron-invalid-instant-reported-as-found", "", [&] { return in() + " got=4294967295 (CRON_INVALID_INSTANT) with return value true; no matching instant within 4 years"; }); continue; }
        judge(sw, "cron", ok, t, got, r, in);
      }
      // through activeTimer: tz offsets at the extremes and odd quarters, `now` around the local trigger; armed delay
      for (int tzm : {-720, -210, 0, 345, 480, 840}) for (int64_t w : {days_from_civil(2023, 12, 30), days_from_civil(2024, 2, 27), days_from_civil(2023, 3, 1)}) for (int i = 0; i < 3; i++) for (int e : {-1, 0, 1}) {
        int64_t now = (w + i) * DAY + c.ref.sod - tzm * 60 + e; int64_t now_ms = now * 1000 + 500;
        int64_t r = c.ref.next_utc(now, tzm * 60);
        if (r >= 0) { int y0, y1, m, d; civil_from_days(fdiv(now + tzm * 60, DAY), y0, m, d); civil_from_days(fdiv(r + tzm * 60, DAY), y1, m, d); if (y1 - y0 > 4) r = -1; }
        Armed ar = arm_at(a, loop, now_ms, tzm, since_pass);
        auto in = [&] { return fmt("cron(activeTimer) expr='%s' tz_min=%d now_utc=%" PRId64 ".500", c.expr.c_str(), tzm, now); };
        if (r < 0 && ar.ok && ar.target == (int64_t)(uint32_t)(0xffffffffu - (uint32_t)(tzm * 60))) { sw.evals++; sw.viol("cron-invalid-instant-reported-as-found", "", [&] { return in() + " armed for CRON_INVALID_INSTANT"; }); }
        else { judge(sw, "cron", ar.ok, now, ar.target, r, in); judge_delay(sw, "cron", ar, now_ms, in); }
        if (a.isEnabled()) a.disable();
      }
      if (ci < 2 || ci == cases.size() - 1) sw.sample(fmt("expr='%s': %zu values of now (7 windows x 7 days dense + per-day probes) + 6 tz x 27 activeTimer arms", c.expr.c_str(), nows.size()));
    }
  }
  sw.finish(); delete loop; return 0;
}

#endif  // !C20_ONLY_FIRE

#ifndef C20_ONLY_SWEEP
// ------------------------------------------------------------------------------------------------
// firing: engine H
struct FireCfg {
  const char *name; RefCfg ref; int alarm_kind;   // 0 weekly, 1 oneshot, 2 cron, 3 workday
  std::string cron; int tz_min; int64_t start_ms; bool wall_steps; std::map<int, bool> special;
};
enum { EN, DIS, REF, PASS, SKEW, WPLUS, WMINUS, ADV_HALF, ADV_M5, ADV_T, ADV_P1, NOPS };
static const char *kOpNames[] = {"enable", "disable", "refresh", "pass", "skew-mono+5ms", "wall+1h", "wall-1h", "adv-half", "adv-to-T-5ms", "adv-to-T", "adv-to-T+1s"};
struct Op { int k; };

static std::vector<FireCfg> fire_cfgs() {
  std::vector<FireCfg> v;
  auto mk = [&](const char *n, int kind, RefCfg ref, const char *cron, int tz, int64_t start_ms, bool ws) { FireCfg c; c.name = n; c.alarm_kind = kind; c.ref = ref; c.cron = cron ? cron : ""; c.tz_min = tz; c.start_ms = start_ms; c.wall_steps = ws; v.push_back(c); };
  RefCfg w; w.kind = RefCfg::WEEKLY; w.horizon_days = 8;
  w.sod = 36000; w.mask = 0x7f; mk("weekly-10h-everyday-tz0", 0, w, nullptr, 0, utc(2023, 10, 2, 9, 0, 0) * 1000 + 250, true);
  mk("weekly-10h-everyday-start-5ms-before", 0, w, nullptr, 0, utc(2023, 10, 2, 10, 0, 0) * 1000 - 5, false);
  w.sod = 0; w.mask = 0x02; mk("weekly-00h-monday-tz+480", 0, w, nullptr, 480, (utc(2023, 10, 1, 23, 59, 58) - 480 * 60) * 1000 + 500, true);
  w.sod = 86399; w.mask = 0x41; mk("weekly-235959-weekend-tz-300", 0, w, nullptr, -300, (utc(2023, 10, 6, 12, 0, 0) + 300 * 60) * 1000, true);
  w.sod = 43200; w.mask = 0x00; mk("weekly-empty-mask", 0, w, nullptr, 0, utc(2023, 10, 2, 9, 0, 0) * 1000, false);
  RefCfg o; o.kind = RefCfg::ONESHOT; o.horizon_days = 2;
  o.sod = 36000; mk("oneshot-10h-tz0", 1, o, nullptr, 0, utc(2023, 10, 2, 9, 59, 59) * 1000, true);
  o.sod = 0; mk("oneshot-00h-tz+345", 1, o, nullptr, 345, (utc(2023, 10, 2, 0, 0, 0) - 345 * 60) * 1000 + 1, true);
  RefCfg c; c.kind = RefCfg::CRON_DAILY; c.horizon_days = 3; c.sod = 36000; mk("cron-daily-10h-tz0", 2, c, "0 0 10 * * *", 0, utc(2023, 10, 2, 9, 0, 0) * 1000 + 750, true);
  c.kind = RefCfg::CRON_HALFHOUR; mk("cron-every-30min-tz+330", 2, c, "0 */30 * * * *", 330, utc(2023, 10, 2, 9, 10, 0) * 1000, false);
  RefCfg y; y.kind = RefCfg::CRON_DM; y.horizon_days = 366 * 9; y.sod = 0; y.dom = 1; y.mon = 1;
  mk("cron-yearly-40-days-ahead", 2, y, "0 0 0 1 1 *", 0, (utc(2024, 1, 1) - 40 * DAY) * 1000, true);
  mk("cron-yearly-50-days-ahead", 2, y, "0 0 0 1 1 *", 0, (utc(2024, 1, 1) - 50 * DAY) * 1000, true);
  mk("cron-yearly-100-days-ahead", 2, y, "0 0 0 1 1 *", 480, (utc(2024, 1, 1) - 480 * 60 - 100 * DAY) * 1000 + 10, true);
  y.dom = 29; y.mon = 2; mk("cron-feb29-400-days-ahead", 2, y, "0 0 0 29 2 *", 0, (utc(2024, 2, 29) - 400 * DAY) * 1000, true);
  RefCfg k; k.kind = RefCfg::WORKDAY; k.horizon_days = 367; k.sod = 30600; k.cal_mask = 0; k.on_workday = true; for (int i = 60; i < 80; i++) k.special[(int)days_from_civil(2023, 10, 2) + i] = true;
  mk("workday-next-workday-60-days-ahead", 3, k, nullptr, 0, utc(2023, 10, 2, 8, 30, 0) * 1000, true);
  return v;
}

struct Fire { int64_t wall_ms; uint32_t target; int64_t delay_ms; bool timer_on; bool running; };

static int fire(const std::string &cfgname, size_t depth, const char *replay = nullptr) {
  std::vector<FireCfg> cfgs = fire_cfgs(); const FireCfg *cfgp = nullptr;
  for (auto &c : cfgs) if (cfgname == c.name) cfgp = &c;
  if (!cfgp) { printf("@VIOL sig=harness-unknown-config :: %s\n", cfgname.c_str()); return 0; }
  const FireCfg &cfg = *cfgp; const int tz = cfg.tz_min * 60;
  hx::install_crash_reporter("C20-fire-crash");
  hx::Explorer<Op> ex;
  ex.name = std::string("fire[") + cfg.name + fmt(" tz_min=%d start_utc_ms=%" PRId64 "]", cfg.tz_min, cfg.start_ms);
  ex.deadline_s = hx::now_s() + budget_s(600);
  ex.max_viol_print = 1000000;   // the per-signature limit (3) is the only one wanted: a frequent signature must not hide a rare one
  ex.show = [](const Op &o) { return std::string(kOpNames[o.k]); };
  // menu restrictions are a function of the history alone (and are part of the canonical state)
  struct Lim { int skews = 0, steps = 0; bool need_pass = false; };
  auto limits = [](const std::vector<Op> &h) { Lim l; for (auto &o : h) { if (o.k == SKEW) l.skews++; if (o.k == WPLUS || o.k == WMINUS) l.steps++;
      if (o.k == PASS) l.need_pass = false; if (o.k == ADV_M5 || o.k == ADV_T || o.k == ADV_P1 || o.k == WPLUS) l.need_pass = true; } return l; };
  ex.menu = [&](const std::vector<Op> &h) {
    Lim l = limits(h); std::vector<Op> m;
    for (int k : {EN, DIS, REF, PASS}) m.push_back({k});
    if (!l.need_pass) for (int k : {ADV_T, ADV_P1, ADV_M5, ADV_HALF}) m.push_back({k});
    if (l.skews < 2) m.push_back({SKEW});
    if (cfg.wall_steps && l.steps < 2) { m.push_back({WPLUS}); m.push_back({WMINUS}); }
    return m; };
  uint64_t total_fires = 0, total_arms = 0, premature = 0; std::map<std::string, uint64_t> outcomes;
  ex.run = [&](const std::vector<Op> &h, std::string &viol) -> std::string {
    Virt virt; g_wall_ms = cfg.start_ms; g_mono_ms = 5000000;
    event::Loop *loop = event::Loop::New();
    WorkdayCalendar cal;
    std::unique_ptr<Alarm> ap; bool init_ok = false;
    if (cfg.alarm_kind == 0) { auto *a = new WeeklyAlarm(loop); init_ok = a->initialize(cfg.ref.sod, mask_str(cfg.ref.mask)); ap.reset(a); }
    else if (cfg.alarm_kind == 1) { auto *a = new OneshotAlarm(loop); init_ok = a->initialize(cfg.ref.sod); ap.reset(a); }
    else if (cfg.alarm_kind == 2) { auto *a = new CronAlarm(loop); init_ok = a->initialize(cfg.cron); ap.reset(a); }
    else { auto *a = new WorkdayAlarm(loop); cal.updateWeekMask((uint8_t)cfg.ref.cal_mask); cal.updateSpecialDays(cfg.ref.special); init_ok = a->initialize(cfg.ref.sod, &cal, cfg.ref.on_workday); ap.reset(a); }
    Alarm &a = *ap; a.setTimezone(cfg.tz_min);
    auto *tev = static_cast<event::TimerEventImpl *>(a.sp_timer_ev_);
    auto *cl = static_cast<event::CommonLoop *>(loop);
    std::vector<Fire> fires;
    bool storm = false;
    a.setCallback([&] { fires.push_back(Fire{g_wall_ms, a.target_utc_sec_, tev->interval_.count(), tev->is_enabled_, a.isEnabled()});
                        if (fires.size() >= 16) { storm = true; a.disable(); } });   // re-arming with a zero delay would never leave the loop pass
    watchdog(30);
    if (!init_ok) viol = "alarm-initialize-rejected";
    // ---- reference model (property level)
    bool m_enabled = false, m_synced = false; int64_t m_last_fired = -1, m_pending = -1; std::set<int64_t> m_fired; int m_fires_since_enable = 0, m_skew_ms = 0; const char *m_rearmed_by = ""; int64_t m_ever_fired = -1;   // explicit re-arming op since the last callback
    const bool oneshot = cfg.alarm_kind == 1;
    auto ref_next = [&](int64_t now_sec) { return cfg.ref.next_utc(now_sec, tz); };
    // called whenever the alarm (re)arms: at wall clock `at_ms` the implementation armed for `target` with delay `delay_ms`
    auto on_armed = [&](int64_t at_ms, int64_t target, int64_t delay_ms, const char *how) {
      total_arms++;
      int64_t now_sec = fdiv(at_ms, 1000);
      // accepted: the earliest matching instant after now (alt); the same but not before an instant that already fired (want);
      // after a backward wall-clock step the property does not say whether re-exposed instants fire again, so "not before
      // any instant that ever fired" (keep) is accepted as well
      int64_t want = ref_next(std::max(now_sec, m_last_fired)), alt = ref_next(now_sec), keep = ref_next(std::max(now_sec, m_ever_fired));
      m_synced = true; m_pending = (target == alt || target == keep) ? target : want;
      if (target != want && target != alt && target != keep) { viol = fmt("alarm-armed-target-not-earliest after %s at wall_ms=%" PRId64 ": armed target=%" PRId64 " but earliest matching instant after now is %" PRId64 " (late by %" PRId64 " s)", how, at_ms, target, alt, target - alt); return; }
      int64_t dist = target * 1000 - at_ms;
      if (delay_ms < dist) { viol = fmt("%s after %s at wall_ms=%" PRId64 ": target=%" PRId64 " distance_ms=%" PRId64 " (%.1f days) armed_delay_ms=%" PRId64 " (%.1f days)", dist > 0xffffffffLL ? "alarm-delay-ms-overflow-32bit" : "alarm-delay-shorter-than-distance", how, at_ms, target, dist, dist / 86400000.0, delay_ms, delay_ms / 86400000.0); return; }
      if (cl->timer_min_heap_.size() != 1 || (int64_t)(cl->timer_min_heap_.front()->expired - (uint64_t)g_mono_ms) < dist) { viol = fmt("alarm-loop-timer-record-shorter-than-distance after %s at wall_ms=%" PRId64, how, at_ms); return; }
    };
    for (size_t i = 0; i < h.size() && viol.empty(); i++) {
      int k = h[i].k;
      int64_t now_sec = fdiv(g_wall_ms, 1000);
      // the instant clock advances aim at: the reference's next matching instant after now (independent of the implementation)
      // ... but never past the moment the alarm's own armed timer is due (they differ only after a wall-clock step): one armed instant at a time
      int64_t N = ref_next(now_sec); int64_t dist_ms = N < 0 ? DAY * 1000 : N * 1000 - g_wall_ms;
      if (tev->is_enabled_ && !cl->timer_min_heap_.empty()) { int64_t left = (int64_t)(cl->timer_min_heap_.front()->expired - (uint64_t)g_mono_ms); if (!m_synced && left >= 0 && left < dist_ms) dist_ms = left; }
      switch (k) {
        case EN: { bool r = a.enable(); bool exp_ok = !m_enabled && N >= 0 && ref_next(std::max(now_sec, m_last_fired)) >= 0;
          if (!m_enabled) { if (r) { m_enabled = true; m_fires_since_enable = 0; m_rearmed_by = "-after-reenable"; on_armed(g_wall_ms, a.target_utc_sec_, tev->interval_.count(), "enable"); } else if (exp_ok) viol = "alarm-enable-failed although a matching instant exists"; }
          else if (r) viol = "alarm-enable-returned-true-while-running";
        } break;
        case DIS: { bool r = a.disable(); if (r != m_enabled) viol = "alarm-disable-return-value"; m_enabled = false; } break;
        case REF: { a.refresh(); if (m_enabled) { m_rearmed_by = "-after-refresh"; if (a.isEnabled()) on_armed(g_wall_ms, a.target_utc_sec_, tev->interval_.count(), "refresh");
                                                  else if (N < 0) m_enabled = false;   /* nothing left to wait for: refresh() leaves the alarm stopped */ } } break;
        case SKEW: g_mono_ms += 5; m_skew_ms += 5; break;
        case WPLUS: g_wall_ms += 3600000; m_synced = false; break;
        case WMINUS: { g_wall_ms -= 3600000; m_synced = false; int64_t ns = fdiv(g_wall_ms, 1000);
          // instants after the new `now` are future instants again
          while (!m_fired.empty() && *m_fired.rbegin() > ns) m_fired.erase(*m_fired.rbegin());
          m_last_fired = m_fired.empty() ? -1 : *m_fired.rbegin(); } break;
        case ADV_HALF: { int64_t d = dist_ms / 2; g_wall_ms += d; g_mono_ms += d; } break;
        case ADV_M5: { int64_t d = std::max<int64_t>(0, dist_ms - 5); g_wall_ms += d; g_mono_ms += d; } break;
        case ADV_T: { g_wall_ms += dist_ms; g_mono_ms += dist_ms; } break;
        case ADV_P1: { g_wall_ms += dist_ms + 1000; g_mono_ms += dist_ms + 1000; } break;
        case PASS: {
          fires.clear();
          loop->runNext([] {}); loop->runLoop(event::Loop::Mode::kOnce);
          if (storm) { viol = fmt("alarm-callback-storm-in-one-pass %zu callbacks at wall_ms=%" PRId64 " without the clock moving (re-armed with delay %" PRId64 " ms for target=%u)", fires.size(), g_wall_ms, fires[1].delay_ms, fires[1].target); break; }
          for (auto &f : fires) {
            total_fires++;
            if (!m_enabled) { viol = fmt("alarm-fired-while-disabled at wall_ms=%" PRId64, f.wall_ms); break; }
            if (oneshot && m_fires_since_enable >= 1) { viol = fmt("oneshot-fired-twice at wall_ms=%" PRId64, f.wall_ms); break; }
            // attribute the callback to the nearest matching instant
            int64_t ws = fdiv(f.wall_ms, 1000); int64_t pv = cfg.ref.prev_utc(ws, tz), nx = ref_next(ws);
            int64_t att = (pv >= 0 && (nx < 0 || f.wall_ms - pv * 1000 <= nx * 1000 - f.wall_ms)) ? pv : nx;
            if (att < 0) { viol = fmt("alarm-fired-without-matching-instant at wall_ms=%" PRId64, f.wall_ms); break; }
            if (m_synced && f.wall_ms < att * 1000 - m_skew_ms) { viol = fmt("alarm-fired-before-instant at wall_ms=%" PRId64 ": nearest matching instant %" PRId64 " is still %.3f s (%.2f days) away, monotonic clock only %d ms ahead", f.wall_ms, att, (att * 1000 - f.wall_ms) / 1000.0, (att * 1000 - f.wall_ms) / 86400000.0, m_skew_ms); break; }
            if (!m_synced && f.wall_ms < att * 1000 - m_skew_ms) {
              // the wall clock was stepped after arming and the un-refreshed timer ran out before the wall clock reached the instant:
              // the property is silent here.  Not counted as the callback of `att` (it may or may not fire again), only remembered.
              m_ever_fired = std::max(m_ever_fired, att); premature++; m_fires_since_enable++;
              if (oneshot) m_enabled = false; else if (f.running && f.timer_on) on_armed(f.wall_ms, f.target, f.delay_ms, "fire"); else m_enabled = false;
              if (!viol.empty()) break;
              continue; }
            if (m_fired.count(att)) { viol = fmt("alarm-double-fire-same-instant%s instant=%" PRId64 " second callback at wall_ms=%" PRId64 " (monotonic ahead by %d ms)", m_rearmed_by, att, f.wall_ms, m_skew_ms); break; }
            m_rearmed_by = "";
            m_fired.insert(att); m_last_fired = std::max(m_last_fired, att); m_ever_fired = std::max(m_ever_fired, att); m_fires_since_enable++;
            if (oneshot) { m_enabled = false; if (f.running || f.timer_on) { viol = "oneshot-still-armed-in-callback"; break; } }
            else { if (!f.running || !f.timer_on) { if (ref_next(std::max(ws, m_last_fired)) >= 0) { viol = fmt("alarm-not-rearmed-after-fire at wall_ms=%" PRId64, f.wall_ms); break; } m_enabled = false; }
                   else { on_armed(f.wall_ms, f.target, f.delay_ms, "fire"); if (!viol.empty()) break; } }
          }
          if (!viol.empty()) break;
          if (m_enabled && m_synced && m_pending >= 0 && g_wall_ms >= m_pending * 1000 && !m_fired.count(m_pending)) {
            viol = fmt("alarm-missed-instant instant=%" PRId64 " wall_ms=%" PRId64 " after a loop pass: no callback; implementation target=%u remain=%u", m_pending, g_wall_ms, a.target_utc_sec_, a.remainSeconds()); break; }
        } break;
      }
      if (!viol.empty()) break;
      if (a.isEnabled() != m_enabled) { viol = fmt("alarm-enabled-state-mismatch after %s: isEnabled=%d expected=%d", kOpNames[k], (int)a.isEnabled(), (int)m_enabled); break; }
      if (tev->isEnabled() != m_enabled) { viol = fmt("alarm-timer-enabled-mismatch after %s: timer=%d expected=%d", kOpNames[k], (int)tev->isEnabled(), (int)m_enabled); break; }
      if (m_enabled && (int64_t)a.remainSeconds() != (int64_t)a.target_utc_sec_ - fdiv(g_wall_ms, 1000) && (int64_t)a.target_utc_sec_ >= fdiv(g_wall_ms, 1000)) { viol = "alarm-remainSeconds-mismatch"; break; }
    }
    Lim l = limits(h);
    std::string canon = fmt("w%" PRId64 " m%" PRId64 " st%d tg%u te%d iv%" PRId64 " hp%zu ex%" PRId64 " | en%d sy%d lf%" PRId64 " ef%" PRId64 " rb%zu pe%" PRId64 " nf%zu fe%d sk%d | %d%d%d",
                            g_wall_ms, g_mono_ms - g_wall_ms, (int)a.state_, a.target_utc_sec_, (int)tev->is_enabled_, tev->is_enabled_ ? (int64_t)tev->interval_.count() : -1, cl->timer_min_heap_.size(),
                            cl->timer_min_heap_.empty() ? -1 : (int64_t)(cl->timer_min_heap_.front()->expired - (uint64_t)g_mono_ms),
                            (int)m_enabled, (int)m_synced, m_last_fired, m_ever_fired, strlen(m_rearmed_by), m_pending, m_fired.size(), m_fires_since_enable, m_skew_ms, l.skews, l.steps, (int)l.need_pass);
    if (viol.empty()) { std::string o = fmt("callbacks=%zu enabled=%d synced=%d", m_fired.size(), (int)m_enabled, (int)m_synced); outcomes[o]++; }
    if (a.isEnabled()) a.disable();
    loop->runNext([] {}); loop->runLoop(event::Loop::Mode::kOnce);
    ap.reset(); delete loop; ::alarm(0);
    return canon;
  };
  if (replay) {   // fire-replay <config> <op,op,...>: evaluate one history, print the violation (if any) and the canonical state
    std::vector<Op> h; std::string r = replay, tok;
    for (size_t i = 0; i <= r.size(); i++) { if (i == r.size() || r[i] == ',' || r[i] == ' ') { for (int k = 0; k < NOPS; k++) if (tok == kOpNames[k]) h.push_back({k}); tok.clear(); } else tok.push_back(r[i]); }
    std::string v; std::string c = ex.run(h, v);
    printf("history: %s\nviolation: %s\nstate: %s\n", ex.hist_str(h).c_str(), v.empty() ? "(none)" : v.c_str(), c.c_str()); return 0;
  }
  ex.explore(depth);
  for (auto &o : outcomes) printf("@OUTCOME %s: %s\n", cfg.name, o.first.c_str());
  printf("@STAT callbacks_observed=%" PRIu64 " armings_checked=%" PRIu64 " premature_callbacks_after_wall_step=%" PRIu64 "\n", total_fires, total_arms, premature);
  return 0;
}

#endif  // !C20_ONLY_SWEEP

int main(int argc, char **argv) {
  std::string mode = argc > 1 ? argv[1] : "";
  setvbuf(stdout, nullptr, _IOLBF, 0);
#ifndef C20_ONLY_SWEEP
  if (mode == "fire") return fire(argc > 2 ? argv[2] : "", argc > 3 ? (size_t)atoi(argv[3]) : 6);
  if (mode == "fire-replay") return fire(argc > 2 ? argv[2] : "", 0, argc > 3 ? argv[3] : "");
  if (mode == "list-fire") { for (auto &c : fire_cfgs()) printf("%s\n", c.name); return 0; }
#endif
#ifndef C20_ONLY_FIRE
  int part = argc > 2 ? atoi(argv[2]) : 0, nparts = argc > 3 ? atoi(argv[3]) : 1; bool thorough = argc > 4 && std::string(argv[4]) == "thorough";
  if (mode == "sweep-weekly-full") return sweep_weekly_full(part, nparts, thorough);
  if (mode == "sweep-weekly-tz") return sweep_weekly_tz(part, nparts, thorough);
  if (mode == "sweep-oneshot") return sweep_oneshot(part, nparts, thorough);
  if (mode == "sweep-workday") return sweep_workday(part, nparts, thorough);
  if (mode == "sweep-cron") return sweep_cron(part, nparts, thorough);
#endif
  printf("@VIOL sig=harness-bad-arguments :: %s\n", mode.c_str());
  return 0;
}
