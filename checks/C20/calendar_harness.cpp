// C20 lane: several WorkdayAlarms sharing one WorkdayCalendar; calendar updates must re-arm EVERY enabled alarm to the earliest
// matching instant under the new calendar (engine H, in-process BFS, fixed virtual wall clock).  usage: calendar_harness <depth>
// Judged by the reference model AND by what would really fire: the alarm's TimerEvent interval and its record in the loop's timer heap must
// wait at least the wall distance to that instant, the loop must hold exactly one timer record per enabled alarm (no stale record of an
// earlier arming left running) and none for a disabled alarm.
#include "hist/hist.h"
#include "probe.h"
#include <tbox/event/loop.h>
#include <tbox/event/common_loop.h>
#include <tbox/event/timer_event_impl.h>
#include <tbox/alarm/workday_alarm.h>
#include <tbox/alarm/workday_calendar.h>
#include <sys/time.h>
#include <time.h>
#include <map>
using namespace tbox; using namespace tbox::alarm;
// key-only read of the calendar's subscriber list (order is implementation state); survives a rename of the member (then the key falls back to the history tail)
template <class C, class A> static auto subs_key(C &c, A *const *al, int n, int) -> decltype(c.watch_alarms_.size(), std::string()) { std::string r; for (auto *a : c.watch_alarms_) for (int i = 0; i < n; i++) if (a == al[i]) r += std::to_string(i); return r; }
template <class C, class A> static std::string subs_key(C &, A *const *, int, long) { vf_note_missing("watch_alarms_"); return "?"; }

// Monday 2023-10-02 07:00:00 UTC; day index 19632 (1970-01-01 = day 0 = Thursday)
static const long long kNowUsec = 500700;   // the wall clock is not at a whole millisecond: the armed delay is judged in microseconds
static const long long kNow = 1696230000LL; static const int kToday = (int)(kNow / 86400);
static bool g_virt = false;
extern "C" int gettimeofday(struct timeval *tv, void *) { if (!g_virt) { struct timespec ts; syscall(228 /*SYS_clock_gettime*/, 0, &ts); if (tv) { tv->tv_sec = ts.tv_sec; tv->tv_usec = ts.tv_nsec / 1000; } return 0; } if (tv) { tv->tv_sec = kNow; tv->tv_usec = kNowUsec; } return 0; }

enum K { EN, DIS, SPECIAL, MASK, REFRESH };
struct Op { int k, a, b; };
static const int NA = 3; static const int SOD[NA] = {8 * 3600, 9 * 3600, 6 * 3600}; static const bool ONWORK[NA] = {true, true, false};
static const uint8_t MASKS[3] = {0x3e, 0x7f, 0x41};

struct Model { uint8_t mask = 0x3e; std::map<int, bool> special;
  bool workday(int d) const { auto it = special.find(d); if (it != special.end()) return it->second; int wd = ((d % 7) + 4) % 7; return (mask >> wd) & 1; }
  bool next(int i, long long &t) const { for (int k = 0; k < 367; k++) { long long cand = (long long)(kToday + k) * 86400 + SOD[i]; if (cand > kNow && workday(kToday + k) == ONWORK[i]) { t = cand; return true; } } return false; } };

int main(int argc, char **argv) {
  setenv("TZ", "XXX-5:45YYY,M3.2.0,M11.1.0", 1); tzset();   // process zone = a DST zone far from UTC: the alarms set their zone explicitly, nothing may depend on it
  size_t depth = argc > 1 ? atoi(argv[1]) : 5; hx::install_crash_reporter("C20-calendar-crash");
  hx::Explorer<Op> ex; ex.name = "workday-calendar-3-alarms"; ex.deadline_s = hx::deadline_from_env(300);
  ex.show = [](const Op &o) { char b[64]; switch (o.k) { case EN: snprintf(b, 64, "enable(a%d)", o.a); break; case DIS: snprintf(b, 64, "disable(a%d)", o.a); break; case REFRESH: snprintf(b, 64, "refresh(a%d)", o.a); break;
    case SPECIAL: snprintf(b, 64, "special(today+%d=%s)", o.a, o.b == 0 ? "workday" : o.b == 1 ? "holiday" : "cleared"); break; default: snprintf(b, 64, "week-mask(0x%02x)", MASKS[o.a]); } return std::string(b); };
  ex.menu = [&](const std::vector<Op> &) { std::vector<Op> m; for (int i = 0; i < NA; i++) { m.push_back({EN, i, 0}); m.push_back({DIS, i, 0}); } m.push_back({REFRESH, 1, 0});
    for (int d = 0; d < 3; d++) for (int v = 0; v < 3; v++) m.push_back({SPECIAL, d, v}); for (int k = 0; k < 3; k++) m.push_back({MASK, k, 0}); return m; };
  ex.run = [&](const std::vector<Op> &h, std::string &viol) {
    g_virt = true; event::Loop *loop = event::Loop::New(); WorkdayCalendar *cal = new WorkdayCalendar; WorkdayAlarm *al[NA]; bool en[NA] = {false, false, false}; Model M;
    auto *cl = static_cast<event::CommonLoop *>(loop); struct timespec ts0; syscall(228 /*SYS_clock_gettime*/, 1 /*CLOCK_MONOTONIC*/, &ts0); const unsigned long long mono0 = (unsigned long long)ts0.tv_sec * 1000ULL + ts0.tv_nsec / 1000000;
    for (int i = 0; i < NA; i++) { al[i] = new WorkdayAlarm(loop); al[i]->setTimezone(0); al[i]->initialize(SOD[i], cal, ONWORK[i]); al[i]->setCallback([] {}); }
    for (auto &o : h) { if (!viol.empty()) break; long long t;
      switch (o.k) {
        case EN: if (!en[o.a]) { bool r = al[o.a]->enable(); bool want = M.next(o.a, t); if (r != want) viol = std::string("workday-alarm-enable-returned-") + (r ? "true-although-no-instant-exists" : "false-although-an-instant-exists"); en[o.a] = r; } break;
        case DIS: if (en[o.a]) { al[o.a]->disable(); en[o.a] = false; } break;
        case REFRESH: al[o.a]->refresh(); if (en[o.a] && !M.next(o.a, t)) en[o.a] = false; break;
        case SPECIAL: { if (o.b == 2) M.special.erase(kToday + o.a); else M.special[kToday + o.a] = (o.b == 0); cal->updateSpecialDays(M.special); for (int i = 0; i < NA; i++) if (en[i] && !M.next(i, t)) en[i] = false; } break;
        case MASK: M.mask = MASKS[o.a]; cal->updateWeekMask(M.mask); for (int i = 0; i < NA; i++) if (en[i] && !M.next(i, t)) en[i] = false; break; }
      for (int i = 0; i < NA && viol.empty(); i++) {
        if (al[i]->isEnabled() != en[i]) { viol = "workday-alarm-enabled-state-differs-from-history a" + std::to_string(i); break; }
        if (en[i]) { long long want = 0; M.next(i, want); long long got = al[i]->target_utc_sec_;
          if (got != want) viol = "workday-alarm-not-armed-for-the-earliest-matching-instant-after-calendar-change a" + std::to_string(i) + " armed=" + std::to_string(got) + " expected=" + std::to_string(want);
          else if ((long long)al[i]->remainSeconds() != want - kNow) viol = "workday-alarm-remainSeconds-wrong a" + std::to_string(i);
          else { auto *tev = static_cast<event::TimerEventImpl *>(al[i]->sp_timer_ev_); long long dist_ms = (want - kNow) * 1000 - kNowUsec / 1000, dist_us = (want - kNow) * 1000000 - kNowUsec;
            auto *rec = tev->is_enabled_ ? cl->timer_cabinet_.at(tev->token_) : nullptr;
            if (!tev->is_enabled_ || (long long)tev->interval_.count() * 1000 < dist_us) viol = "workday-alarm-armed-delay-shorter-than-distance-after-calendar-change a" + std::to_string(i) + " delay_ms=" + std::to_string((long long)tev->interval_.count()) + " distance_us=" + std::to_string(dist_us);
            else if (!rec || (long long)rec->interval * 1000 < dist_us || rec->expired < mono0 + (unsigned long long)dist_ms) viol = "workday-alarm-loop-timer-record-shorter-than-distance-after-calendar-change a" + std::to_string(i); } }
        else if (static_cast<event::TimerEventImpl *>(al[i]->sp_timer_ev_)->is_enabled_) viol = "workday-alarm-disabled-but-timer-still-armed a" + std::to_string(i); }
      if (viol.empty()) { size_t n = 0; for (int i = 0; i < NA; i++) n += en[i]; if (cl->timer_min_heap_.size() != n) viol = "workday-alarm-stale-loop-timer-record: " + std::to_string(cl->timer_min_heap_.size()) + " records for " + std::to_string(n) + " enabled alarms"; }
    }
    std::string c; for (int i = 0; i < NA; i++) c += en[i] ? 'E' : 'd'; c += "|m" + std::to_string(M.mask) + "|"; for (auto &kv : M.special) c += std::to_string(kv.first - kToday) + (kv.second ? "w" : "h");
    c += "|subs:" + subs_key(*cal, al, NA, 0);        // subscription order is implementation state
    if (vf_any_missing()) for (size_t i = h.size() > 3 ? h.size() - 3 : 0; i < h.size(); i++) c += "," + ex.show(h[i]);
    for (int i = 0; i < NA; i++) delete al[i]; delete cal; loop->runNext([] {}); loop->runLoop(event::Loop::Mode::kOnce); delete loop; g_virt = false;
    return c; };
  ex.explore(depth);
  return 0;
}
