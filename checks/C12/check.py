import os, time, vf
PID = "C12"
HP = vf.VERIF + "/checks/C12/parser_harness.cpp"
HL = vf.VERIF + "/checks/C12/pipeline_harness.cpp"
STUB = [vf.VERIF + "/engine/sched/log_stub.cpp"]


def build_parser():
    return vf.build("C12/parser_asan", [HP],
                    vf.module_sources("http/server/request_parser.cpp", "http/common.cpp", "http/url.cpp", "http/request.cpp",
                                      "util/string.cpp", "util/buffer.cpp"),
                    mode="asan", plain_srcs=STUB)


def build_pipeline():
    srcs = (vf.module_sources("http/server", "http/common.cpp", "http/url.cpp", "http/request.cpp", "http/respond.cpp")
            + vf.module_sources("network", exclude=("network/tcp_server.cpp", "network/uart.cpp", "network/stdio_stream.cpp", "network/dns_request.cpp", "network/net_if.cpp"))
            + vf.module_sources("event", "util/string.cpp", "util/buffer.cpp", "util/fd.cpp", "util/fs.cpp", "util/pid_file.cpp"))
    return vf.build("C12/pipeline_asan", [HL], srcs, mode="asan", plain_srcs=STUB)


def main(tier, args):
    t0 = time.time()
    parser = build_parser()
    pipe = build_pipeline()
    res = vf.Result(); log = open(vf.BUILD + "/C12/log.txt", "w")
    quick = tier == "quick"
    dl = 55 if quick else 1000
    jobs = []
    # (2) pipeline half, engine H (fork per evaluation) -- queued first, they run longest
    depth, maxreq = (6, 3) if quick else (8, 4)
    for cfg in (("unix", "epoll", 0), ("unix", "select", 0), ("tcp", "epoll", 1)):     # loopback TCP: one request fewer (slower, port churn)
        jobs.append(("pipe:%s-%s" % cfg[:2], [pipe, cfg[0], cfg[1], str(depth), str(maxreq - cfg[2])]))
    # (1) parser half, engine I
    nsplit = 8 if quick else 12
    for s in range(nsplit):
        jobs.append(("split:%d" % s, [parser, "split", str(s), str(nsplit), "0" if quick else "1"]))
    nbytes = 3 if quick else 6
    for s in range(nbytes):
        jobs.append(("bytes:%d" % s, [parser, "bytes", str(s), str(nbytes), "5" if quick else "6"]))
    for s in range(3):
        jobs.append(("mut:%d" % s, [parser, "mut", str(s), "3", "80" if quick else "400"]))
    if args.only:
        jobs = [j for j in jobs if j[0] == args.only or j[0].split(":")[0] == args.only]
    os.makedirs(vf.BUILD + "/C12/sock", exist_ok=True)
    env = {"VERIF_DEADLINE_S": str(dl), "VERIF_WORKERS": "4" if quick else "5", "C12_SOCK_DIR": vf.BUILD + "/C12/sock"}
    vf.run_procs(res, jobs, env=env, log=log, jobs=16)
    vf.finish(PID, tier, res, t0,
              rule="(I) real RequestParser fed like Server::Impl::onTcpReceived (consume returned count, re-present the rest with the next segment): "
                   "(a) request grammar {GET,POST,DELETE} x 3 targets x HTTP/1.0|1.1 x 5 header sets (0-2 headers, Content-Length always, first or last) x body 0/1/5 = 270 requests; "
                   "1-request streams: all, every split with <=%d cuts; 2-request streams (%s) and 3-request streams (covering subset^3): every split with <=2 cuts; every uniform chunk size incl. byte-by-byte; "
                   "oracle = request sequence (method,target,version,headers,body) equal to the unsplit stream and to the generator, parse() return <= size given; "
                   "(b) every byte string of length <=%d over {G,E,T,P,SP,/,:,CR,LF,H,1,.,0,x} behind 7 valid prefixes (one segment and prefix|bytes), "
                   "185 single-field mutations of a valid request x 3 contexts x every 1-cut (2-cut if <=%d bytes) split: no exception, ASan/UBSan clean, feed loop terminates. "
                   "(H) real http::server::Server + TcpServer + loop (epoll, select) over a real unix-domain / loopback TCP connection, single-threaded, fork per history: "
                   "BFS over histories of depth <=%d with <=%d requests of: request(kind keep-alive|Connection: close|HTTP/1.0, handler completes in the callback or 1|2 loop passes later, "
                   "sent alone | glued to the next request in one segment | cut in two segments), and loop passes; "
                   "oracle after settling: one response per delivered request, in request order (tagged bodies), nothing after the response to the closing request, EOF after it"
                   % (2 if quick else 3, "covering subset^2" if quick else "all x covering subset both ways", 5 if quick else 6, 80 if quick else 400, depth, maxreq),
              assumptions=["every request of a segmentation-independence stream declares Content-Length; canonical header spelling (DESIGN 1.7)",
                           "the client writes a segment, then the loop runs one pass; segments written without a pass in between coalesce into one receive",
                           "handlers complete on the loop thread (the shared Context is released from a loop callback)",
                           "an idle loop pass is ended by an interposed epoll_wait/select (zero timeout) instead of blocking"])
