import glob, os, time, vf
PID = "C12"
HP = vf.VERIF + "/checks/C12/parser_harness.cpp"
HL = vf.VERIF + "/checks/C12/pipeline_harness.cpp"
STUB = [vf.VERIF + "/engine/sched/log_stub.cpp"]


def build_parser():
    return vf.build("C12/parser_asan", [HP],
                    vf.module_sources("http/server/request_parser.cpp", "http/common.cpp", "http/url.cpp", "http/request.cpp",
                                      "util/string.cpp", "util/buffer.cpp"),
                    mode="asan", plain_srcs=STUB)


def build_pipeline():
    # network/tcp_server.cpp is #included by the harness (file-local TcpServer::Data is part of the canonical state)
    srcs = (vf.module_sources("http/server", "http/common.cpp", "http/url.cpp", "http/request.cpp", "http/respond.cpp")
            + vf.module_sources("network", exclude=("network/tcp_server.cpp", "network/uart.cpp", "network/stdio_stream.cpp",
                                                    "network/dns_request.cpp", "network/net_if.cpp"))
            + vf.module_sources("event", "util/string.cpp", "util/buffer.cpp", "util/fd.cpp", "util/fs.cpp", "util/pid_file.cpp"))
    return vf.build("C12/pipeline_asan", [HL], srcs, mode="asan", plain_srcs=STUB)


def main(tier, args):
    t0 = time.time()
    parser = build_parser()
    pipe = build_pipeline()
    res = vf.Result(); log = open(vf.BUILD + "/C12/log.txt", "w")
    quick = tier == "quick"
    dl = 55 if quick else 1000
    jobs = []
    # 16 processes in total: all start together, so the one (relative) deadline bounds the wall time.
    # (2) pipeline half, engine H, fork per evaluation.  <=requests per configuration: quick 3/3/3, thorough 4/3/4
    depth = 6 if quick else 8
    mr = {"unix-epoll": 3 if quick else 4, "unix-select": 3, "tcp-epoll": 3 if quick else 4}
    for tr, eng in (("unix", "epoll"), ("unix", "select"), ("tcp", "epoll")):
        jobs.append(("pipe:%s-%s" % (tr, eng), [pipe, tr, eng, str(depth), str(mr[tr + "-" + eng])]))
    # lane: 4-5 pipelined keep-alive requests, every assignment of completion delays (out-of-order completion with gaps)
    jobs.append(("pipe:unix-epoll-keeponly", [pipe, "unix", "epoll", "6" if quick else "8", "4" if quick else "5", "keeponly"]))
    # (1) parser half, engine I
    nsplit, nbytes, nmut = 8, 3, 2
    for s in range(nsplit):
        jobs.append(("split:%d" % s, [parser, "split", str(s), str(nsplit), "0" if quick else "1"]))
    for s in range(nbytes):
        jobs.append(("bytes:%d" % s, [parser, "bytes", str(s), str(nbytes), "5" if quick else "6"]))
    for s in range(nmut):
        jobs.append(("mut:%d" % s, [parser, "mut", str(s), str(nmut), "80" if quick else "400"]))
    if args.only:
        jobs = [j for j in jobs if j[0] == args.only or j[0].split(":")[0] == args.only]
    os.makedirs(vf.BUILD + "/C12/sock", exist_ok=True)
    env = {"VERIF_DEADLINE_S": str(dl), "VERIF_WORKERS": "6", "C12_SOCK_DIR": vf.BUILD + "/C12/sock"}
    vf.run_procs(res, jobs, env=env, log=log, jobs=16)
    for f in glob.glob(vf.BUILD + "/C12/sock/c12-*.sock"):      # left behind by children that died (crash = reported violation)
        try: os.unlink(f)
        except OSError: pass
    rule = (
        "(I) real RequestParser fed like Server::Impl::onTcpReceived (consume the returned count, re-present the rest together with the next segment). "
        "(a) request grammar {GET,POST,DELETE} x 3 targets (one with a query, one with a fragment) x HTTP/1.0|1.1 x 5 header sets (0-2 headers, Content-Length always present, first or last) "
        "x body length 0/1/5 = 270 requests; 1-request streams: all 270, every split with <=%d cuts; 2-request streams (%s) and 3-request streams (covering subset^3): every split with <=2 cuts; "
        "every uniform chunk size incl. byte-by-byte; oracle = request sequence (method,target,version,headers,body) equal to the unsplit stream and to the generator, parse() return <= size given. "
        "(b) every byte string of length <=%d over {G,E,T,P,SP,/,:,CR,LF,H,1,.,0,x} behind 7 valid prefixes (one segment, and prefix|bytes); 185 single-field mutations of a valid request "
        "x 3 contexts x every 1-cut split (2-cut if <=%d bytes) + uniform chunks: no exception escapes, ASan/UBSan clean, feed loop and parse() terminate. "
        "(H) real http::server::Server + TcpServer + loop over a real connection, single-threaded, fork per history (ASan/UBSan): unix-domain socket on epoll and select, loopback TCP on epoll; "
        "BFS (canonical state = Connection bookkeeping, parser state, buffers, write event, pending handlers) over histories of depth <=%d with <=%d/%d/%d requests of: "
        "request(keep-alive | Connection: close | HTTP/1.0; handler completes in the callback or 1|2 loop passes later; sent alone | glued to the next request in one segment | "
        "cut in two segments | cut inside the method token), malformed request (non-numeric Content-Length | unknown method; crash/hang freedom only), loop pass. "
        "Oracle after settling: every request handed to the handler is the one sent, handed once and in order; exactly one response per delivered request in request order (tagged bodies); "
        "nothing after the response to the closing request; EOF after it; every request up to the closing one reaches the handler"
        % (2 if quick else 3, "covering subset^2" if quick else "all x covering subset, both orders", 5 if quick else 6, 80 if quick else 400,
           depth, mr["unix-epoll"], mr["unix-select"], mr["tcp-epoll"]))
    vf.finish(PID, tier, res, t0, rule=rule,
              assumptions=["every request of a segmentation-independence stream declares Content-Length; canonical header spelling (DESIGN 1.7)",
                           "the client writes a segment, then the loop runs one pass; segments written without a pass in between coalesce into one receive",
                           "handlers complete on the loop thread: the shared Context is released from a runNext callback of the pass in which it is due",
                           "an idle loop pass is ended by an interposed epoll_wait/select (zero timeout) instead of blocking",
                           "the client never closes or half-closes its side during a history; responses are small (no partial socket writes)"])
