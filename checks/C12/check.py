import glob, os, time, vf
PID = "C12"
HP = vf.VERIF + "/checks/C12/parser_harness.cpp"
HL = vf.VERIF + "/checks/C12/pipeline_harness.cpp"
STUB = [vf.VERIF + "/engine/sched/log_stub.cpp"]


def build_parser():
    return vf.build("C12/parser_asan", [HP],
                    vf.module_sources("http/server/request_parser.cpp", "http/common.cpp", "http/url.cpp", "http/request.cpp",
                                      "util/string.cpp", "util/buffer.cpp"),
                    mode="asan", plain_srcs=STUB)


def build_pipeline():
    # network/tcp_server.cpp is #included by the harness (file-local TcpServer::Data is part of the canonical state)
    srcs = (vf.module_sources("http/server", "http/common.cpp", "http/url.cpp", "http/request.cpp", "http/respond.cpp")
            + vf.module_sources("network", exclude=("network/tcp_server.cpp", "network/uart.cpp", "network/stdio_stream.cpp",
                                                    "network/dns_request.cpp", "network/net_if.cpp"))
            + vf.module_sources("event", "util/string.cpp", "util/buffer.cpp", "util/fd.cpp", "util/fs.cpp", "util/pid_file.cpp"))
    return vf.build("C12/pipeline_asan", [HL], srcs, mode="asan", plain_srcs=STUB)


def main(tier, args):
    t0 = time.time()
    parser = build_parser()
    pipe = build_pipeline()
    res = vf.Result(); log = open(vf.BUILD + "/C12/log.txt", "w")
    quick = tier == "quick"
    # relative deadline of every process. The quick tier needs ~440 CPU-seconds (about 40 s on 16 idle cores); on a machine that is shared with other runs the
    # deadline is stretched with the load (at most 4x), so that the shallow-but-late cases (4-request pipelines, the last mutations) are still reached.
    stretch = min(4.0, max(1.0, os.getloadavg()[0] / (os.cpu_count() or 16)))
    dl = int(os.environ.get("C12_DEADLINE_S", (55 * stretch) if quick else 1000))
    jobs = []
    # all processes start together (run_procs jobs=36), so the one (relative) deadline bounds the wall time; the fork-bound pipeline lanes come first.
    # (2) pipeline half, engine H, fork per evaluation.  <=requests per configuration: quick 3/3/3, thorough 4/3/4
    depth = 6 if quick else 8
    mr = {"unix-epoll": 3 if quick else 4, "unix-select": 3, "tcp-epoll": 3 if quick else 4}
    for tr, eng in (("unix", "epoll"), ("unix", "select"), ("tcp", "epoll")):
        jobs.append(("pipe:%s-%s" % (tr, eng), [pipe, tr, eng, str(depth), str(mr[tr + "-" + eng])]))
    # lane: 4-5 pipelined keep-alive requests, every assignment of completion delays (out-of-order completion with gaps)
    jobs.append(("pipe:unix-epoll-keeponly", [pipe, "unix", "epoll", "6" if quick else "8", "4" if quick else "5", "keeponly"]))
    # lanes that each open one more dimension of the closed system (see main() of the harness); <=3 requests, depth 6 (thorough 7)
    ldepth = "6" if quick else "7"
    for tr, eng, lane in (("unix", "epoll", "hdr"), ("unix", "epoll", "big"), ("unix", "epoll", "multi"), ("tcp", "epoll", "multi"), ("unix", "epoll", "mw"),
                          ("unix", "epoll", "resp"), ("unix", "epoll", "life"), ("tcp", "epoll", "life")):
        jobs.append(("pipe:%s-%s-%s" % (tr, eng, lane), [pipe, tr, eng, ldepth, "3", lane]))
    # the big and resp lanes once more under a digit-grouping global C++ locale (what std::locale::global(std::locale("en_US.UTF-8")) does in an application):
    # Content-Length must still be a plain decimal number (the library used 'oss << size_t' until the repair in /repo)
    for lane in ("big", "resp"):
        jobs.append(("pipe:unix-epoll-%s-grouping-locale" % lane, [pipe, "unix", "epoll", "4" if quick else "5", "3", lane], {"C12_GROUPING_LOCALE": "1"}))
    for tr, eng in (("unix", "epoll"), ("tcp", "epoll")):      # hostile Content-Length values against the real server (small: the lane reaches its fixpoint at depth 4)
        jobs.append(("pipe:%s-%s-hcl" % (tr, eng), [pipe, tr, eng, "4" if quick else "5", "3", "hcl"]))
    # where the segment boundary falls relative to the BODY (all three back-end/transport pairs; small: correct code merges the states again)
    for tr, eng in (("unix", "epoll"), ("unix", "select"), ("tcp", "epoll")):
        jobs.append(("pipe:%s-%s-bodycut" % (tr, eng), [pipe, tr, eng, "5" if quick else "6", "3", "bodycut"]))
    # (1) parser half, engine I
    nsplit, nbytes, nmut = 8, 3, 4
    for s in range(nsplit):
        jobs.append(("split:%d" % s, [parser, "split", str(s), str(nsplit), "0" if quick else "1"]))
    for s in range(nbytes):
        jobs.append(("bytes:%d" % s, [parser, "bytes", str(s), str(nbytes), "5" if quick else "6"]))
    for s in range(nmut):
        jobs.append(("mut:%d" % s, [parser, "mut", str(s), str(nmut), "80" if quick else "400"]))
    if args.only:
        jobs = [j for j in jobs if j[0] == args.only or j[0].split(":")[0] == args.only]
    os.makedirs(vf.BUILD + "/C12/sock", exist_ok=True)
    env = {"VERIF_DEADLINE_S": str(dl), "VERIF_WORKERS": "6", "C12_SOCK_DIR": vf.BUILD + "/C12/sock"}
    vf.run_procs(res, jobs, env=env, log=log, jobs=36)
    for f in glob.glob(vf.BUILD + "/C12/sock/c12-*.sock"):      # left behind by children that died (crash = reported violation)
        try: os.unlink(f)
        except OSError: pass
    # sizes of the enumerated lists, asked from the harnesses themselves (so the text cannot drift from the code)
    import subprocess
    def counts(exe):
        out = subprocess.run([exe, "counts"], capture_output=True, text=True).stdout
        return dict(kv.split("=") for kv in out.split() if "=" in kv)
    pc, lc = counts(parser), counts(pipe)
    rule = (
        "(I) real RequestParser fed like Server::Impl::onTcpReceived (consume the returned count, re-present the rest together with the next segment); every parse() call gets an "
        "exact-size heap copy of the bytes given (a read before/after them is an ASan report), and Request::toString() (the context-log text) is evaluated for every request delivered. "
        "(a) request grammar {GET,POST,DELETE} x 3 targets (one with a query, one with a fragment) x HTTP/1.0|1.1 x 5 header sets (0-2 headers, Content-Length always present, first or last) "
        "x body length 0/1/5 = 270 requests; 1-request streams: all 270, every split with <=%d cuts; 2-request streams (%s) and 3-request streams (covering subset^3): every split with <=2 cuts; "
        "every uniform chunk size incl. byte-by-byte; plus {NEXTRAS} hand-written extras (HEAD/PUT/TRACE/OPTIONS, ;params and %%xx escapes in path/params/query/fragment, unpadded and padded header values, "
        "Connection: keep-alive[, TE], bodies containing CRLFCRLF / a whole request / a bare CRLF, body lengths 10,12,99,100,255,256,300,1023,1024,4096,5000, heads with 16 and 40 headers, an 1100-byte header value, a 2100-byte target) alone, before and after a grammar request "
        "and doubled: every 1-cut split (2-cut when short) + uniform chunks, and one 66000-byte body (cuts in head/middle/tail, chunks 64..4096); "
        "oracle = request sequence (method,target,version,headers,body) equal to the unsplit stream and to the generator/hand-written expectation, parse() return <= size given. "
        "(b) every byte string of length <=%d over {G,E,T,P,SP,/,:,CR,LF,H,1,.,0,x} behind 7 valid prefixes (one segment, and prefix|bytes); {NMUT} single-field mutations of a valid request "
        "(incl. hostile Content-Length values: every negative length -1..-(head size+4), signs/zeros/blanks, both signs around 2^31, 2^32, 2^63, 2^64) "
        "x 3 contexts x every 1-cut split (inputs up to 6000 bytes, i.e. all of them; 2-cut if <=%d bytes) + uniform chunks 1/2/3/7/1024: no exception escapes, ASan/UBSan clean, feed loop and parse() terminate (step bound: a request delivered while "
        "nothing was consumed = the server's receive loop never ends; a request that consumed less than its own body + blank line is reported too); for every Content-Length value mutation "
        "(except -1 = the parser's 'no length' mark) the outcome (requests, reject/wait) is the same for every split; and whenever the unsplit mutated stream "
        "parses completely into requests whose Content-Length equals the body delivered, every one of those splits must give the same request sequence. "
        "(H) real http::server::Server + TcpServer + loop over real connections, single-threaded, fork per history (ASan/UBSan): unix-domain socket on epoll and select, loopback TCP on epoll; "
        "BFS (canonical state = per-connection bookkeeping, parser state, buffers, write event, pending handlers and deferred next() calls, per-client model) over histories of depth <=%d with <=%d/%d/%d requests of: "
        "request(keep-alive | Connection: close | HTTP/1.0; handler completes in the callback or 1|2 loop passes later; sent alone | glued to the next request in one segment | "
        "cut in two segments | cut inside the method token), malformed request (non-numeric Content-Length | unknown method; crash/hang freedom only), loop pass. "
        "Lanes on top (unix/epoll, <=3 requests, depth %s): keeponly (<=%s plain keep-alive requests, handler delays 0-3 passes: every completion order of 4 requests incl. fully reversed; "
        "plus 'rel' requests whose handler first completes every outstanding context from inside its own callback, i.e. commitRespond nested in onTcpReceived); hdr (HTTP/1.1 + Connection: keep-alive, HTTP/1.0 + keep-alive, HTTP/1.0 + 'keep-alive, TE' "
        "must not close; HTTP/1.1 + 'TE, close' and 'close' close); big (12 KB responses against a minimal server-side SO_SNDBUF: several partial writes per response, small responses queued behind them, "
        "closing response big or small; the client may close and reconnect while the send buffer still holds a response; pending big and small responses are distinct states; context log on); multi (two connections at once with interleaved requests and delays, the client closing a connection with or without responses outstanding and "
        "reconnecting into the freed slot, <=2 reconnects; 'xclose' = request and close in one step, so the server answers a peer that is already gone (EPIPE/ECONNRESET write path); 'rel' = a handler "
        "completing the contexts of both connections from inside its callback; also on loopback TCP; per-connection oracle incl. 'response written to another connection'; context log on); mw (two callbacks: the first "
        "defers next() by 0|1|2 passes, the second - registered through use(Middleware*) - answers in its callback or 1 pass later; context log on); resp (response variants: Content-Type + X-Tag headers | X-Tag and an empty body | response left untouched = 404 without body or tag; delays 0|1; alone|glued); "
        "life (unix and tcp: stop()+start() and cleanup()+initialize()+use()+start() with connections open and handlers outstanding - <=2 restarts, every client reconnects, old contexts complete "
        "afterwards - and a terminal cleanup() with live connections whose contexts are released only after it); bodycut (unix/epoll, unix/select, tcp/epoll: requests with body length 0|1|2|5, keep-alive (handler delay 0|1) or closing, sent with the cut right after the blank line | before the "
        "LAST body byte | byte by byte (a pass after every byte), as the last bytes on the connection (followed only by passes) or in front of further requests; full oracle); hcl (unix and tcp: after 0-2 valid requests one request "
        "with one of {NHCL} hostile Content-Length values - negative incl. exactly -(size of its own head) and +-1/+5 around it, signed, zero-padded, blank, empty, around 2^31/2^32/2^63/2^64 - in one segment or "
        "cut in two, then optionally a valid request: judged by crash/hang freedom and the stream rules; watchdog = a loop pass that enters the handler >40 times is reported with its history, a busy pass "
        "without handler calls by the 15 s CPU-time watchdog). "
        "Oracle after settling (passes until nothing moves), per connection: every request handed to the handler is the one sent, handed once and in order; exactly one response per delivered request in "
        "request order, the whole response (status line, every header, blank line, body) equal to a string the model builds without Respond::toString(), matched by position; Content-Length must be plain decimal; nothing after the response to the closing request; EOF after it; every request up to the closing one reaches the handler; "
        "a connection closed by the client or ended by stop()/cleanup() is judged for crash/hang freedom and the stream rules up to its end only; a hostile-length request whose value the model reads as plain decimal 5 "
        "(05, blanks around 5) is an ordinary request and fully judged"
        % (2 if quick else 3, "covering subset^2" if quick else "all x covering subset, both orders", 5 if quick else 6, 80 if quick else 400,
           depth, mr["unix-epoll"], mr["unix-select"], mr["tcp-epoll"], ldepth, "4" if quick else "5"))
    rule = rule.replace("{NMUT}", pc.get("nmut", "?")).replace("{NEXTRAS}", pc.get("nextras", "?")).replace("{NHCL}", lc.get("nhcl", "?"))
    vf.finish(PID, tier, res, t0, rule=rule,
              assumptions=["every request of a segmentation-independence stream declares Content-Length; canonical header-name spelling (DESIGN 1.7); lower-case Connection tokens (this check's own reading: capitalised Keep-Alive/Close are not exercised)",
                           "the process runs in the classic \"C\" locale except for two lanes that run under a digit-grouping global C++ locale (C12_GROUPING_LOCALE=1, see the harness)",
                           "the client writes a segment, then the loop runs one pass; segments written without a pass in between coalesce into one receive",
                           "handlers complete (and deferred next() calls are made) on the loop thread: from a runNext callback of the pass in which they are due",
                           "an idle loop pass is ended by an interposed epoll_wait/select (zero timeout) instead of blocking",
                           "the client reads everything available after every pass; it never half-closes; it closes its side only in the multi and big lanes (then it reconnects at once)",
                           "partial socket writes are produced by a small server-side SO_SNDBUF on a unix-domain socket (big lane) - how many bytes one write takes is the kernel's choice"])
