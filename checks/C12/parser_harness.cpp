// C12 (parser half, engine I): exhaustive input sweeps on the real http::server::RequestParser, fed the way
// Server::Impl::onTcpReceived feeds it (append segment to a util::Buffer; parse(readableBegin, readableSize);
// hasRead(returned count); on kFinishedAll take the request and parse again; on kFail stop; otherwise wait).
//
// usage: parser_harness split <shard> <nshards> <level>     level 0 = quick, 1 = thorough
//        parser_harness bytes <shard> <nshards> <maxlen>
//        parser_harness mut <shard> <nshards> <max length for 2-cut splits>
//        parser_harness one <escaped-bytes> [cut ...]        replay a single case, prints the outcome
#include "hist/hist.h"
#include <tbox/http/server/request_parser.h>
#include <tbox/http/request.h>
#include <tbox/http/url.h>
#include <tbox/util/buffer.h>
#include <cstdint>
#include <sys/time.h>
#include <map>
#include <memory>
#include <set>
#include <stdexcept>
#include <string>
#include <vector>

using namespace tbox; using namespace tbox::http; using tbox::http::server::RequestParser;

// ------------------------------------------------------------------------------------------------ helpers
static std::string esc(const std::string &s) {
  std::string o; char b[8];
  for (unsigned char c : s) {
    if (c == '\r') o += "\\r"; else if (c == '\n') o += "\\n"; else if (c == '\\') o += "\\\\"; else if (c == ' ') o += "\\s";
    else if (c < 0x20 || c >= 0x7f) { snprintf(b, sizeof b, "\\x%02x", c); o += b; } else o += (char)c;
  }
  return o;
}
static std::string unesc(const std::string &s) {
  std::string o;
  for (size_t i = 0; i < s.size(); i++) {
    if (s[i] != '\\' || i + 1 >= s.size()) { o += s[i]; continue; }
    char n = s[++i];
    if (n == 'r') o += '\r'; else if (n == 'n') o += '\n'; else if (n == 's') o += ' '; else if (n == '\\') o += '\\';
    else if (n == 'x' && i + 2 < s.size()) { o += (char)strtol(s.substr(i + 1, 2).c_str(), nullptr, 16); i += 2; }
    else o += n;
  }
  return o;
}
static std::string render(const Request &q) {      // every field of the request (method, target, version, headers, body)
  std::string o = "{" + MethodToString(q.method) + " path=" + q.url.path;
  for (auto &kv : q.url.params) o += " ;" + kv.first + "=" + kv.second;
  for (auto &kv : q.url.query) o += " ?" + kv.first + "=" + kv.second;
  if (!q.url.frag.empty()) o += " #" + q.url.frag;
  o += " " + HttpVerToString(q.http_ver);
  for (auto &kv : q.headers) o += " [" + kv.first + ": " + kv.second + "]";
  o += " body=" + q.body + "}";
  return o;
}

struct Outcome {
  std::string reqs;          // rendering of the request sequence
  int nreq = 0;
  bool fail = false, over = false, noprogress = false;
  bool stuck = false;        // parse() delivered a request while consuming nothing: onTcpReceived's loop would parse the very same bytes again, for ever
  bool under = false;        // a delivered request consumed fewer bytes than its own body + blank line: bytes it was built from are presented (and interpreted) again
  bool declared = true;      // every request delivered carries a Content-Length header equal to the length of the body delivered
  std::string exc;           // non-empty: exception class/what (+ context)
  size_t rest = 0;
  std::string str() const {
    std::string s = reqs; if (fail) s += " FAIL"; if (over) s += " OVERCONSUME"; if (noprogress) s += " NO-PROGRESS"; if (stuck) s += " REQUEST-DELIVERED-NOTHING-CONSUMED(endless loop in the server)"; if (under) s += " REQUEST-CONSUMED-LESS-THAN-ITS-BODY";
    if (!exc.empty()) s += " EXC:" + exc; s += " rest=" + std::to_string(rest); return s; }
};
// message decoration only: was a Content-Length header being processed? (private member read through a probe: a rename must not stop the build)
template <class P> static auto has_cl_header(P &p, int) -> decltype((void)p.sp_request_, true) { return p.sp_request_ && p.sp_request_->headers.count("Content-Length"); }
template <class P> static bool has_cl_header(P &, long) { return false; }
static volatile long g_parse_calls = 0; static volatile size_t g_tostring_bytes = 0;

static std::string case_text(const std::string &data, const size_t *cuts, int ncuts) {
  std::string t = "bytes=\"" + esc(data) + "\" len=" + std::to_string(data.size()) + " cuts=[";
  for (int i = 0; i < ncuts; i++) { if (i) t += ","; t += std::to_string(cuts[i]); }
  return t + "]";
}
// the case under evaluation, for the crash reporter (written straight into hx::g_cur: no allocation, no 8 KiB padding)
static const char *g_cur_mode = "";
static void set_cur(const std::string &data, const size_t *cuts, int ncuts) {
  char *w = hx::g_cur, *end = hx::g_cur + sizeof(hx::g_cur) - 64;
  for (const char *m = g_cur_mode; *m && w < end; m++) *w++ = *m;
  for (const char *m = " bytes=\""; *m; m++) *w++ = *m;
  static const char hexd[] = "0123456789abcdef";
  for (size_t i = 0; i < data.size() && w + 4 < end; i++) { unsigned char c = (unsigned char)data[i];
    if (c == '\r') { *w++ = '\\'; *w++ = 'r'; } else if (c == '\n') { *w++ = '\\'; *w++ = 'n'; } else if (c == ' ') { *w++ = '\\'; *w++ = 's'; } else if (c == '\\') { *w++ = '\\'; *w++ = '\\'; }
    else if (c < 0x20 || c >= 0x7f) { *w++ = '\\'; *w++ = 'x'; *w++ = hexd[c >> 4]; *w++ = hexd[c & 15]; } else *w++ = (char)c; }
  for (const char *m = "\" cuts=["; *m; m++) *w++ = *m;
  for (int i = 0; i < ncuts && w + 24 < hx::g_cur + sizeof(hx::g_cur); i++) { if (i) *w++ = ','; w += snprintf(w, 22, "%zu", cuts[i]); }
  *w++ = ']'; *w = 0;
}
extern "C" void __sanitizer_set_death_callback(void (*cb)(void));
extern "C" int __asan_report_present(void);

// Feed `data` cut at the given ascending offsets (each 0 < cut < size) exactly like server_imp.cpp does.
static Outcome feed(const std::string &data, const size_t *cuts, int ncuts) {
  set_cur(data, cuts, ncuts);
  Outcome o; util::Buffer buff(0); RequestParser p;
  try {
    size_t from = 0, consumed = 0;      // consumed = bytes taken since the last delivered request
    for (int s = 0; s <= ncuts && !o.fail; s++) {
      size_t to = s < ncuts ? cuts[s] : data.size();
      buff.append(data.data() + from, to - from); from = to;
      int guard = 0;
      while (buff.readableSize() > 0) {
        if (++guard > 4096) { o.noprogress = true; o.rest = buff.readableSize(); return o; }
        size_t given = buff.readableSize();
        // parse() gets an exact-size heap copy of the readable bytes: the Buffer keeps the consumed prefix and spare capacity around them, where a read
        // before the first / past the last byte given would stay inside valid heap memory and ASan would not see it
        std::unique_ptr<char[]> exact(new char[given]); memcpy(exact.get(), buff.readableBegin(), given);
        size_t r = p.parse(exact.get(), given); g_parse_calls++;
        exact.reset();
        if (r > given) { o.over = true; o.rest = given; return o; }
        buff.hasRead(r); consumed += r;
        if (p.state() == RequestParser::State::kFinishedAll) {
          Request *q = p.getRequest(); o.reqs += render(*q); o.nreq++;
          if (r == 0) { o.stuck = true; o.rest = buff.readableSize(); delete q; return o; }      // step bound of the feed loop: no progress possible from here
          if (consumed < q->body.size() + 4) o.under = true;
          consumed = 0;
          auto cl = q->headers.find("Content-Length"); if (cl == q->headers.end() || cl->second != std::to_string(q->body.size())) o.declared = false;
          g_tostring_bytes += q->toString().size();      // what the server's context log evaluates for every request (setContextLogEnable): must not crash either
          delete q; }
        else if (p.state() == RequestParser::State::kFail) { o.fail = true; break; }      // the server drops the connection here
        else break;
      }
    }
  } catch (const std::exception &e) {
    std::string w = e.what(); for (auto &c : w) if (c == ' ' || c == ':') c = '_';
    const char *cls = dynamic_cast<const std::invalid_argument *>(&e) ? "invalid_argument" : dynamic_cast<const std::out_of_range *>(&e) ? "out_of_range"
                    : dynamic_cast<const std::length_error *>(&e) ? "length_error" : dynamic_cast<const std::bad_alloc *>(&e) ? "bad_alloc" : "exception";
    o.exc = w.substr(0, 24);
    // the header being processed when it was thrown: parse() stores the header before converting Content-Length
    if (w == "stoi" && has_cl_header(p, 0)) o.exc += "-on-content-length";
    o.exc += std::string("(") + cls + ")";
  } catch (...) { o.exc = "non-std-exception"; }
  o.rest = buff.readableSize();
  return o;
}

// ------------------------------------------------------------------------------------------------ violations
static std::map<std::string, long> g_viol; static long g_viol_total = 0;
static void viol(const std::string &sig, const std::string &text) {
  long &n = g_viol[sig]; n++; g_viol_total++;
  if (n <= 3) printf("@VIOL sig=%s :: %s\n", sig.c_str(), text.c_str());
}
static bool viol_counted(const std::string &sig) {      // count only (the replay text is expensive to build): true if the text is not needed
  auto it = g_viol.find(sig); if (it == g_viol.end() || it->second < 3) return false;
  it->second++; g_viol_total++; return true;
}
static std::string exc_sig(const std::string &exc) {      // "stoi-on-content-length(invalid_argument)" -> parser-throws-stoi-on-content-length
  return "parser-throws-" + exc.substr(0, exc.find('('));
}
static std::set<std::string> g_outcomes; static std::map<std::string, long> g_outcome_n;
static void outcome(const std::string &k) { g_outcome_n[k]++; }
static void flush_outcomes(const char *mode) { for (auto &kv : g_outcome_n) printf("@OUTCOME %s: %s\n", mode, kv.first.c_str()); }
static void flush_viol_counts() { for (auto &kv : g_viol) printf("@INFO violation-count sig=%s n=%ld\n", kv.first.c_str(), kv.second); }

// ------------------------------------------------------------------------------------------------ (a) grammar streams x splits
struct GenReq { std::string text, expect, method; };
static std::vector<GenReq> grammar() {
  struct T { const char *text, *exp; };
  static const T targets[] = { {"/", "path=/"}, {"/a/b?x=1&y=2", "path=/a/b ?x=1 ?y=2"}, {"/p#f", "path=/p #f"} };
  // 0-2 headers besides Content-Length (always present), Content-Length last or first
  struct H { const char *before, *after, *exp_before_cl, *exp_after_cl; };
  static const H hdrs[] = { {"", "", "", ""},
                            {"Host: x\r\n", "", "", " [Host: x]"},
                            {"", "Host: x\r\n", "", " [Host: x]"},
                            {"Connection: close\r\nX-A: b c\r\n", "", " [Connection: close]", " [X-A: b c]"},
                            {"Accept: */*\r\n", "X-A: b c\r\n", " [Accept: */*]", " [X-A: b c]"} };
  std::vector<GenReq> v;
  for (const char *m : {"GET", "POST", "DELETE"}) for (auto &t : targets) for (const char *ver : {"HTTP/1.0", "HTTP/1.1"}) for (auto &h : hdrs) for (const char *body : {"", "1", "hello"}) {
    std::string b = body, cl = "Content-Length: " + std::to_string(b.size());
    GenReq g; g.method = m;
    g.text = std::string(m) + " " + t.text + " " + ver + "\r\n" + h.before + cl + "\r\n" + h.after + "\r\n" + b;
    g.expect = std::string("{") + m + " " + t.exp + " " + ver + h.exp_before_cl + " [" + cl + "]" + h.exp_after_cl + " body=" + b + "}";   // std::map order: Accept < Connection < Content-Length < Host < X-A
    v.push_back(g);
  }
  return v;
}

// Well-formed requests outside the generated grammar, each with a hand-written expectation: the other methods, ;params and %xx escapes in every
// part of the target, unpadded / padded header values, multi-digit Content-Length with bodies up to and across the 255/256, 1023/1024, 4096 sizes,
// bodies that contain a blank line or look like a request themselves.
static std::string pattern_body(size_t n) { std::string b; b.reserve(n); for (size_t i = 0; i < n; i++) b += "0123456789abcdef"[(i * 7 + i / 16) & 15]; return b; }
static std::vector<GenReq> extras() {
  std::vector<GenReq> v;
  auto add = [&](const std::string &method, const std::string &target, const std::string &exp_target, const std::string &ver, const std::string &hdr_lines, const std::string &exp_before_cl, const std::string &exp_after_cl, const std::string &body) {
    std::string cl = "Content-Length: " + std::to_string(body.size());
    GenReq g; g.method = method;
    g.text = method + " " + target + " " + ver + "\r\n" + hdr_lines + cl + "\r\n\r\n" + body;
    g.expect = "{" + method + " " + exp_target + " " + ver + exp_before_cl + " [" + cl + "]" + exp_after_cl + " body=" + body + "}";
    v.push_back(g); };
  add("HEAD", "/", "path=/", "HTTP/1.0", "", "", "", "");
  add("PUT", "/u", "path=/u", "HTTP/1.1", "", "", "", "hello world!");                                                   // 2-digit Content-Length
  add("TRACE", "/t", "path=/t", "HTTP/1.1", "Connection: keep-alive\r\n", " [Connection: keep-alive]", "", "");
  add("OPTIONS", "/o", "path=/o", "HTTP/1.1", "Connection: keep-alive, TE\r\n", " [Connection: keep-alive, TE]", "", "x");
  add("GET", "/a;p=1;q=2?x=1#f", "path=/a ;p=1 ;q=2 ?x=1 #f", "HTTP/1.1", "", "", "", "");
  add("GET", "/%41%20b;p%31=v%2f?k%3D=v%26&z=%7e#fr%41g", "path=/A b ;p1=v/ ?k==v& ?z=~ #frAg", "HTTP/1.1", "Host:x\r\nX-Pad:   v  \r\n", "", " [Host: x] [X-Pad: v]", "");
  add("POST", "/crlf", "path=/crlf", "HTTP/1.1", "", "", "", "a\r\n\r\nb");                                              // a blank line inside the body
  add("POST", "/nested", "path=/nested", "HTTP/1.1", "", "", "", "GET /x HTTP/1.1\r\nContent-Length: 3\r\n\r\nabc");     // a body that is itself a request
  add("POST", "/lf", "path=/lf", "HTTP/1.0", "", "", "", "\r\n");                                                        // the body is a bare CRLF
  // long heads: many headers, a header value and a target that cross the 256 / 1024 / 2048 offsets (every 1-cut split is taken, so every offset is a cut)
  for (int nh : {16, 40}) {
    std::string lines, before, after;      // std::map order: H00..H39 sort after Content-Length ("C" < "H")
    for (int h = 0; h < nh; h++) { char nm[8]; snprintf(nm, sizeof nm, "H%02d", h); std::string val = "v" + std::to_string(h) + std::string((size_t)(h % 7), 'y'); lines += std::string(nm) + ": " + val + "\r\n"; after += " [" + std::string(nm) + ": " + val + "]"; }
    add("POST", "/h" + std::to_string(nh), "path=/h" + std::to_string(nh), "HTTP/1.1", lines, "", after, "hello");
  }
  add("POST", "/longvalue", "path=/longvalue", "HTTP/1.1", "X-Long: " + pattern_body(1100) + "\r\n", "", " [X-Long: " + pattern_body(1100) + "]", "hello");
  add("GET", "/" + pattern_body(2100) + "?q=" + pattern_body(40), "path=/" + pattern_body(2100) + " ?q=" + pattern_body(40), "HTTP/1.1", "Host: x\r\n", "", " [Host: x]", "");
  for (size_t n : {(size_t)10, (size_t)99, (size_t)100, (size_t)255, (size_t)256, (size_t)300, (size_t)1023, (size_t)1024, (size_t)4096, (size_t)5000})
    add("POST", "/b" + std::to_string(n), "path=/b" + std::to_string(n), "HTTP/1.1", "Host: x\r\n", "", " [Host: x]", pattern_body(n));
  return v;
}

struct Stream { std::string data, expect; std::vector<size_t> starts; std::vector<size_t> mlen; int nreq; };
static long g_streams = 0, g_splits = 0, g_split_diff = 0, g_extras = 0;

static const char *zone_of(const Stream &st, size_t cut) {   // which part of which request a cut falls into
  size_t k = 0; while (k + 1 < st.starts.size() && st.starts[k + 1] <= cut) k++;
  size_t off = cut - st.starts[k]; std::string r = st.data.substr(st.starts[k], (k + 1 < st.starts.size() ? st.starts[k + 1] : st.data.size()) - st.starts[k]);
  if (off == 0) return "between-requests";
  if (off < st.mlen[k]) return "inside-method-token";
  size_t eol = r.find("\r\n"); if (off <= eol + 1) return off == st.mlen[k] ? "right-after-method" : off > eol ? "inside-start-line-crlf" : "inside-start-line";
  size_t eoh = r.find("\r\n\r\n"); if (off <= eoh + 3) return "inside-headers";
  return "inside-body";
}

static void check_split(const Stream &st, const Outcome &whole, const std::string &wholes, const size_t *cuts, int ncuts) {
  g_splits++;
  Outcome o = feed(st.data, cuts, ncuts);
  if (o.over) { viol("parser-returns-more-than-given", case_text(st.data, cuts, ncuts)); return; }
  if (o.noprogress) { viol("parser-feed-loop-makes-no-progress", case_text(st.data, cuts, ncuts)); return; }
  if (o.stuck) { viol("parser-delivers-request-consuming-nothing-server-loop-never-ends", case_text(st.data, cuts, ncuts) + " => " + o.str()); return; }
  if (o.under) { viol("parser-delivers-request-consuming-less-than-its-body", case_text(st.data, cuts, ncuts) + " => " + o.str()); return; }
  if (!o.exc.empty()) { viol(exc_sig(o.exc) + "-on-split-stream", case_text(st.data, cuts, ncuts) + " => " + o.str()); return; }
  if (o.reqs == whole.reqs && o.fail == whole.fail && o.rest == whole.rest) return;
  g_split_diff++;
  // attribute the difference to the cut(s) that reproduce it on their own (keeps the signature specific and the signature set small)
  bool in_method = false; std::string zones; std::set<std::string> zs, all;
  for (int i = 0; i < ncuts; i++) {
    const char *z = zone_of(st, cuts[i]); all.insert(z);
    if (ncuts > 1) { Outcome o1 = feed(st.data, &cuts[i], 1); if (o1.reqs == whole.reqs && o1.fail == whole.fail && o1.rest == whole.rest && o1.exc.empty()) continue; }
    zs.insert(z); if (!strcmp(z, "inside-method-token")) in_method = true;
  }
  if (zs.empty()) { zones = "only-in-combination:"; zs = all; }
  for (auto &z : zs) { if (zones.size() && zones.back() != ':') zones += "+"; zones += z; }
  std::string sig;
  if (o.fail && !whole.fail) sig = in_method ? "parser-split-inside-method-token-fails" : "parser-split-fails-cut-" + zones;
  else sig = "parser-split-changes-request-sequence-cut-" + zones;
  if (viol_counted(sig)) return;
  viol(sig, case_text(st.data, cuts, ncuts) + " zones=" + zones + " => split: " + o.str() + " ;; unsplit: " + wholes);
}

static void sweep_stream(const Stream &st, int maxcuts, bool uniform_all) {
  g_streams++;
  static int samples = 0;
  Outcome whole = feed(st.data, nullptr, 0); std::string wholes = whole.str();
  if (whole.reqs != st.expect || whole.fail || whole.rest != 0 || !whole.exc.empty() || whole.over)
    viol("parser-unsplit-well-formed-stream-misparsed", case_text(st.data, nullptr, 0) + " => " + wholes + " ;; expected " + st.expect);
  outcome(std::to_string(whole.nreq) + " request(s) parsed from the unsplit stream");
  size_t L = st.data.size(); size_t c[4];
  if (maxcuts == 0) { for (c[0] = 1; c[0] < L; c[0]++) if (c[0] < 200 || c[0] + 50 > L || c[0] == L / 2) check_split(st, whole, wholes, c, 1); }      // very long stream: cuts in the head, the middle, the tail
  else for (c[0] = 1; c[0] < L; c[0]++) check_split(st, whole, wholes, c, 1);                                   // every 1-cut split first (smallest replays)
  if (maxcuts >= 2) for (c[0] = 1; c[0] < L; c[0]++) for (c[1] = c[0] + 1; c[1] < L; c[1]++) check_split(st, whole, wholes, c, 2);
  if (maxcuts >= 3) for (c[0] = 1; c[0] < L; c[0]++) for (c[1] = c[0] + 1; c[1] < L; c[1]++) for (c[2] = c[1] + 1; c[2] < L; c[2]++) check_split(st, whole, wholes, c, 3);
  // uniform chunking: every chunk size k (k = 1 is the byte-by-byte feed)
  std::vector<size_t> cuts;
  for (size_t k = (maxcuts == 0 ? 64 : 1); k < L && (uniform_all || k <= 3); k++) {
    cuts.clear(); for (size_t x = k; x < L; x += k) cuts.push_back(x);
    check_split(st, whole, wholes, cuts.data(), (int)cuts.size());
  }
  if (!uniform_all) for (size_t k : {7, 64, 255, 256, 1000, 1024, 4096}) if (k < L) {
    cuts.clear(); for (size_t x = k; x < L; x += k) cuts.push_back(x);
    check_split(st, whole, wholes, cuts.data(), (int)cuts.size());
  }
  if (samples < 2 && st.nreq >= 2) { samples++; printf("@SAMPLE split: %d-request stream \"%s\" len=%zu, every split with <=%d cuts + uniform chunks => %s\n", st.nreq, esc(st.data).substr(0, 160).c_str(), L, maxcuts, wholes.substr(0, 200).c_str()); }
}

static Stream make_stream(const std::vector<GenReq> &g, const std::vector<int> &idx) {
  Stream s; s.nreq = (int)idx.size();
  for (int i : idx) { s.starts.push_back(s.data.size()); s.mlen.push_back(g[i].method.size()); s.data += g[i].text; s.expect += g[i].expect; }
  return s;
}

static int run_split(long shard, long nshards, int level, double deadline) {
  auto g = grammar(); long n = (long)g.size(); long work = 0; bool capped = false;
  auto mine = [&]() { return (work++ % nshards) == shard; };
  auto late = [&]() { if (hx::now_s() > deadline) { if (!capped) printf("@CAP split shard %ld: deadline reached after %ld streams, %ld splits\n", shard, g_streams, g_splits); capped = true; } return capped; };
  // extras (hand-written expectations): alone, and before / after a grammar request (a request boundary next to an unusual body); every 1-cut split,
  // every 2-cut split of the short ones, uniform chunks (all sizes when short, else 1,2,3,7,64,255,256,1000,1024,4096)
  {
    auto x = extras(); std::vector<GenReq> gx = g; gx.insert(gx.end(), x.begin(), x.end()); int plain = 31, closing = 200;     // two grammar requests (with / without a body)
    for (size_t e = 0; e < x.size() && !late(); e++) {
      int xi = (int)(n + e); size_t len = x[e].text.size();
      if (mine()) sweep_stream(make_stream(gx, {xi}), len <= (level ? 320u : 130u) ? 2 : 1, len <= 700);
      if (mine()) sweep_stream(make_stream(gx, {xi, plain}), len <= (level ? 200u : 70u) ? 2 : 1, len <= 400);
      if (mine()) sweep_stream(make_stream(gx, {closing, xi}), len <= (level ? 200u : 70u) ? 2 : 1, len <= 400);
      if (mine()) sweep_stream(make_stream(gx, {xi, xi}), 1, len <= 400);
    }
    // a body longer than 65535 bytes (5-digit Content-Length): cuts in the head / middle / tail, chunk sizes 64,255,256,1000,1024,4096
    { GenReq big; big.method = "POST"; std::string body = pattern_body(66000), cl = "Content-Length: 66000";
      big.text = "POST /b66000 HTTP/1.1\r\n" + cl + "\r\n\r\n" + body; big.expect = "{POST path=/b66000 HTTP/1.1 [" + cl + "] body=" + body + "}";
      gx.push_back(big); if (mine() && !late()) sweep_stream(make_stream(gx, {(int)gx.size() - 1, plain}), 0, false); x.push_back(big); }
    g_extras = (long)x.size();
  }
  // 1-request streams: the whole grammar; every split with <=2 cuts (thorough: <=3 cuts), all uniform chunk sizes
  for (long i = 0; i < n && !late(); i++) if (mine()) sweep_stream(make_stream(g, {(int)i}), level ? 3 : 2, true);
  // 2-request streams: quick = A x A for a covering subset A (stride through the grammar), thorough = (all x B) + (B x all), B covering subset
  std::vector<int> A, B, C;
  for (long i = 0; i < n; i += (level ? 7 : 23)) A.push_back((int)i);     // stride co-prime to every grammar dimension
  for (long i = 0; i < n; i += 37) B.push_back((int)i);
  for (long i = 0; i < n; i += (level ? 41 : 89)) C.push_back((int)i);
  if (!level) { for (int a : A) for (int b : A) { if (late()) break; if (mine()) sweep_stream(make_stream(g, {a, b}), 2, true); } }
  else {
    for (long a = 0; a < n; a++) for (int b : B) { if (late()) break; if (mine()) sweep_stream(make_stream(g, {(int)a, b}), 2, true); }
    for (int a : B) for (long b = 0; b < n; b++) { if (late()) break; if (mine()) sweep_stream(make_stream(g, {a, (int)b}), 2, true); }
  }
  // 3-request streams: C x C x C, every split with <=2 cuts
  for (int a : C) for (int b : C) for (int c : C) { if (late()) break; if (mine()) sweep_stream(make_stream(g, {a, b, c}), 2, level != 0); }
  printf("@INFO split shard %ld/%ld level %d: grammar=%ld requests + %ld extras, |A|=%zu |B|=%zu |C|=%zu, streams=%ld splits=%ld differing=%ld\n", shard, nshards, level, n, g_extras, A.size(), B.size(), C.size(), g_streams, g_splits, g_split_diff);
  printf("@STAT states=%ld transitions=%ld executions=%ld streams=%ld splits=%ld split_outcome_differs=%ld parse_calls=%ld violations=%ld\n", g_splits + g_streams, g_splits + g_streams, g_splits + g_streams, g_streams, g_splits, g_split_diff, g_parse_calls, g_viol_total);
  return 0;
}

// ------------------------------------------------------------------------------------------------ (b) all byte strings over the alphabet
static const char kAlpha[] = {'G', 'E', 'T', 'P', ' ', '/', ':', '\r', '\n', 'H', '1', '.', '0', 'x'};
static const char *kPrefix[] = { "", "GET /", "GET / HTTP/1.1\r\n", "GET / HTTP/1.1\r\nContent-Length: ", "GET / HTTP/1.1\r\nContent-Length:", "POST / HTTP/1.0\r\nContent-Length: 3\r\n\r\n", "GET / HTTP/1.1\r\nH" };

static long g_mut_compared = 0, g_mut_wellformed = 0;
// `whole` (may be null): the outcome of the unsplit stream when that is a sequence of completely parsed requests with declared body lengths;
// then every split has to yield the same sequence (segmentation independence beyond the generated grammar)
static void total_check(const char *mode, const std::string &data, const size_t *cuts, int ncuts, long &execs, const Outcome *whole = nullptr) {
  execs++;
  Outcome o = feed(data, cuts, ncuts);
  if (whole && ncuts > 0 && o.exc.empty() && !o.over && !o.noprogress && !o.stuck) {
    g_mut_compared++;
    if (o.reqs != whole->reqs || o.fail != whole->fail || (!o.fail && o.rest != whole->rest)) {      // after a parse failure the connection is dropped: what was left unread is no outcome
      std::string m = mode; size_t b = m.find('['), e = m.find_first_of("=+]", b == std::string::npos ? 0 : b);      // mut[content-length-value=05+valid...] -> content-length-value
      std::string what = b == std::string::npos ? m : m.substr(b + 1, e - b - 1);
      std::string sig = std::string(!whole->declared || whole->fail || !whole->nreq ? "parser-split-changes-outcome-of-hostile-length-" : o.fail && !whole->fail ? "parser-split-fails-on-accepted-request-" : "parser-split-changes-request-sequence-of-accepted-request-") + what;
      if (!viol_counted(sig)) viol(sig, std::string(mode) + " " + case_text(data, cuts, ncuts) + " => split: " + o.str() + " ;; unsplit: " + whole->str());
    }
  }
  if (o.over) viol("parser-returns-more-than-given", std::string(mode) + " " + case_text(data, cuts, ncuts));
  if (o.noprogress) viol("parser-feed-loop-makes-no-progress", std::string(mode) + " " + case_text(data, cuts, ncuts));
  if (o.stuck && !viol_counted("parser-delivers-request-consuming-nothing-server-loop-never-ends")) viol("parser-delivers-request-consuming-nothing-server-loop-never-ends", std::string(mode) + " " + case_text(data, cuts, ncuts) + " => " + o.str());
  if (o.under && !viol_counted("parser-delivers-request-consuming-less-than-its-body")) viol("parser-delivers-request-consuming-less-than-its-body", std::string(mode) + " " + case_text(data, cuts, ncuts) + " => " + o.str());
  if (!o.exc.empty()) { if (!viol_counted(exc_sig(o.exc))) viol(exc_sig(o.exc), std::string(mode) + " " + case_text(data, cuts, ncuts) + " => " + o.str()); outcome("exception " + o.exc); }
  else outcome(std::string(o.fail ? "parse-fail" : o.nreq ? "request(s)-delivered" : "waiting-for-more-bytes") + (o.nreq && o.fail ? " after a request" : ""));
}

static int run_bytes(long shard, long nshards, int maxlen, double deadline) {
  long execs = 0, distinct = 0, work = 0; bool capped = false; const int A = sizeof kAlpha; int samples = 0;
  for (int len = 0; len <= maxlen && !capped; len++) {
    long total = 1; for (int i = 0; i < len; i++) total *= A;
    for (long code = 0; code < total; code++) {
      if ((work++ % nshards) != shard) continue;
      if ((work & 0xfff) == 0 && hx::now_s() > deadline) { printf("@CAP bytes shard %ld: deadline reached at length %d, %ld inputs done\n", shard, len, distinct); capped = true; break; }
      std::string s; long c = code; for (int i = 0; i < len; i++) { s += kAlpha[c % A]; c /= A; }
      for (const char *pre : kPrefix) {
        std::string data = std::string(pre) + s; size_t pl = strlen(pre); distinct++;
        total_check("bytes", data, nullptr, 0, execs);                                   // one segment
        if (pl && len) { size_t cut = pl; total_check("bytes", data, &cut, 1, execs); }   // the valid prefix first, then the bytes
        if (samples < 2 && len == maxlen && code % 977 == 5) { samples++; printf("@SAMPLE bytes: %s\n", case_text(data, nullptr, 0).c_str()); }
      }
    }
  }
  printf("@INFO bytes shard %ld/%ld: all strings of length <=%d over 14 symbols behind %zu prefixes, inputs=%ld feeds=%ld\n", shard, nshards, maxlen, sizeof kPrefix / sizeof *kPrefix, distinct, execs);
  printf("@STAT states=%ld transitions=%ld executions=%ld byte_inputs=%ld parse_calls=%ld violations=%ld\n", distinct, execs, execs, distinct, g_parse_calls, g_viol_total);
  return 0;
}

// ------------------------------------------------------------------------------------------------ (c) single-field mutations of a valid request
struct Mut { std::string name, data; };
static std::vector<Mut> mutations() {
  std::vector<Mut> v;
  auto req = [](const std::string &method, const std::string &sp1, const std::string &target, const std::string &sp2, const std::string &ver, const std::string &eol1,
                const std::string &h1, const std::string &eol2, const std::string &clname, const std::string &clsep, const std::string &clval, const std::string &eol3,
                const std::string &blank, const std::string &body) {
    return method + sp1 + target + sp2 + ver + eol1 + h1 + eol2 + clname + clsep + clval + eol3 + blank + body; };
  const std::string M = "POST", T = "/a/b?x=1", V = "HTTP/1.1", E = "\r\n", H = "Host: x", CN = "Content-Length", CS = ": ", CV = "5", B = "hello";
  auto base = [&]() { return req(M, " ", T, " ", V, E, H, E, CN, CS, CV, E, E, B); };
  v.push_back({"unmutated", base()});
  for (const char *cl : {"abc", "", " ", "  ", "-1", "-2", "-5", "-0", "+5", "5x", "x5", "0x5", "1e3", "5 5", " 5", "5 ", "05", "\t5", "5\t", "٥", "2147483647", "2147483648", "-2147483648", "-2147483649",
                         "4294967295", "4294967296", "4294967301", "99999999999", "9223372036854775807", "18446744073709551615", "18446744073709551616", "99999999999999999999999999999999", "-", "+", ".", "0.5", "NaN", "0", "1", "4", "6"})
    v.push_back({std::string("content-length-value=") + esc(cl), req(M, " ", T, " ", V, E, H, E, CN, CS, cl, E, E, B)});
  v.push_back({"content-length-no-colon", req(M, " ", T, " ", V, E, H, E, CN, " ", CV, E, E, B)});
  v.push_back({"content-length-colon-no-space", req(M, " ", T, " ", V, E, H, E, CN, ":", CV, E, E, B)});
  v.push_back({"content-length-colon-no-value", req(M, " ", T, " ", V, E, H, E, CN, ":", "", E, E, B)});
  v.push_back({"content-length-lowercase", req(M, " ", T, " ", V, E, H, E, "content-length", CS, "x", E, E, B)});
  v.push_back({"content-length-name-padded", req(M, " ", T, " ", V, E, H, E, " Content-Length ", CS, "x", E, E, B)});
  v.push_back({"content-length-twice-second-bad", req(M, " ", T, " ", V, E, "Content-Length: 5", E, CN, CS, "zz", E, E, B)});
  v.push_back({"content-length-twice-differing", req(M, " ", T, " ", V, E, "Content-Length: 1", E, CN, CS, "5", E, E, B)});
  for (const char *h : {"Host x", "Host", ":", ": v", "Host:", "Host: ", " : ", "Host:x", "Ho st: x", "Host: x: y", "Host\t: x", "\tHost: x", " ", "  ", "\r", "\n", "\x01", "H\xc3\xa9: \xff\xfe", "Host: \x00x"})
    v.push_back({std::string("header-line=") + esc(h), req(M, " ", T, " ", V, E, h, E, CN, CS, CV, E, E, B)});
  v.push_back({"header-nul-byte", req(M, " ", T, " ", V, E, std::string("Ho\0st: x", 8), E, CN, CS, CV, E, E, B)});
  v.push_back({"header-very-long-value", req(M, " ", T, " ", V, E, "Host: " + std::string(3000, 'a'), E, CN, CS, CV, E, E, B)});
  v.push_back({"header-very-long-name", req(M, " ", T, " ", V, E, std::string(3000, 'N') + ": a", E, CN, CS, CV, E, E, B)});
  // line endings
  v.push_back({"bare-lf-everywhere", req(M, " ", T, " ", V, "\n", H, "\n", CN, CS, CV, "\n", "\n", B)});
  v.push_back({"bare-lf-start-line", req(M, " ", T, " ", V, "\n", H, E, CN, CS, CV, E, E, B)});
  v.push_back({"bare-lf-header", req(M, " ", T, " ", V, E, H, "\n", CN, CS, CV, E, E, B)});
  v.push_back({"bare-lf-content-length-line", req(M, " ", T, " ", V, E, H, E, CN, CS, CV, "\n", E, B)});
  v.push_back({"bare-lf-blank-line", req(M, " ", T, " ", V, E, H, E, CN, CS, CV, E, "\n", B)});
  v.push_back({"bare-cr-start-line", req(M, " ", T, " ", V, "\r", H, E, CN, CS, CV, E, E, B)});
  v.push_back({"bare-cr-header", req(M, " ", T, " ", V, E, H, "\r", CN, CS, CV, E, E, B)});
  v.push_back({"bare-cr-blank-line", req(M, " ", T, " ", V, E, H, E, CN, CS, CV, E, "\r", B)});
  v.push_back({"lfcr-line-ends", req(M, " ", T, " ", V, "\n\r", H, "\n\r", CN, CS, CV, "\n\r", "\n\r", B)});
  v.push_back({"crcrlf-line-ends", req(M, " ", T, " ", V, "\r\r\n", H, E, CN, CS, CV, E, E, B)});
  v.push_back({"no-blank-line", req(M, " ", T, " ", V, E, H, E, CN, CS, CV, E, "", B)});
  v.push_back({"leading-crlf", E + base()});
  v.push_back({"leading-space", " " + base()});
  v.push_back({"trailing-garbage", base() + "\x01\x02garbage"});
  v.push_back({"trailing-crlf", base() + E});
  v.push_back({"body-short", req(M, " ", T, " ", V, E, H, E, CN, CS, CV, E, E, "hell")});
  v.push_back({"body-binary", req(M, " ", T, " ", V, E, H, E, CN, CS, CV, E, E, std::string("\0\xff\r\n\0", 5))});
  // method / separators
  for (const char *m : {"", "post", "Post", "PATCH", "CONNECT", "GE", "GETT", "G ET", "\tPOST", "POST\t", "P\0ST", "HEAD", "PUT", "TRACE", "OPTIONS", "\xff\xff", "GET\r", "GET\r\n"})
    v.push_back({std::string("method=") + esc(m), req(m, " ", T, " ", V, E, H, E, CN, CS, CV, E, E, B)});
  v.push_back({"method-nul", req(std::string("P\0ST", 4), " ", T, " ", V, E, H, E, CN, CS, CV, E, E, B)});
  for (const char *sp : {"", "  ", "\t", " \t ", "   "}) {
    v.push_back({std::string("sep-after-method=") + esc(sp), req(M, sp, T, " ", V, E, H, E, CN, CS, CV, E, E, B)});
    v.push_back({std::string("sep-after-target=") + esc(sp), req(M, " ", T, sp, V, E, H, E, CN, CS, CV, E, E, B)});
  }
  // target
  for (const char *t : {"", "a", "*", "http://h/p", "//", "/%", "/%4", "/%zz", "/%41", "/%00", "/a%2", "/?", "/?a", "/?=b", "/?a=", "/?a=b=c", "/?a=b&", "/?&", "/?a=%", "/?%zz=1", "/;", "/;p", "/;p=1", "/;p=1;", "/;=1", "/;p=%z",
                        "/#", "/#%", "/#%zz", "/a?x=1#f?y=2", "/a#f?x=1", "/a;p=1?x=1#f", "/a?x=1;p=1", "/a#f;p=1", "/\xff\xfe", "/a b", "/?a=1&a=2", "/?x=1?y=2"})
    v.push_back({std::string("target=") + esc(t), req(M, " ", t, " ", V, E, H, E, CN, CS, CV, E, E, B)});
  v.push_back({"target-very-long", req(M, " ", "/" + std::string(5000, 'p'), " ", V, E, H, E, CN, CS, CV, E, E, B)});
  v.push_back({"target-nul", req(M, " ", std::string("/a\0b", 4), " ", V, E, H, E, CN, CS, CV, E, E, B)});
  // version
  for (const char *ver : {"", "HTTP", "HTTP/", "HTTP/1", "HTTP/1.", "HTTP/1.2", "HTTP/2.0", "HTTP/3.0", "http/1.1", "HTTP/1.1 ", " HTTP/1.1", "HTTP/1.1\t", "HTTP/1.1x", "HTTP/11", "FTP/1.1", "HTTP/1.1 extra", "HTTP/\xff", "H"})
    v.push_back({std::string("version=") + esc(ver), req(M, " ", T, " ", ver, E, H, E, CN, CS, CV, E, E, B)});
  v.push_back({"no-version-no-sep", req(M, " ", T, "", "", E, H, E, CN, CS, CV, E, E, B)});
  v.push_back({"only-method", "POST"});
  v.push_back({"only-method-sp", "POST "});
  v.push_back({"only-method-crlf", "POST\r\n"});
  v.push_back({"only-crlf", "\r\n"});
  v.push_back({"only-crlfcrlf", "\r\n\r\n"});
  v.push_back({"only-nul", std::string(1, '\0')});
  v.push_back({"all-ff", std::string(64, '\xff')});
  v.push_back({"spaces-only", std::string(40, ' ')});
  v.push_back({"spaces-then-crlf", std::string(40, ' ') + "\r\n"});
  // hostile numeric values: every negative length from -1 to beyond the size of the head (a wrapped sum lands on every offset inside the head, on its end, and before
  // its start), signs / zeros / blanks, and both signs around 2^31, 2^32, 2^63, 2^64
  { size_t head = req(M, " ", T, " ", V, E, H, E, CN, CS, "-00", E, E, "").size();
    for (size_t n = 1; n <= head + 4; n++) v.push_back({"content-length-negative=" + std::to_string(n), req(M, " ", T, " ", V, E, H, E, CN, CS, "-" + std::to_string(n), E, E, B)});
    for (const char *cl : {"+0", "00", "-00", "000005", "+05", "- 5", "--5", "+-5", "-+5", "5-", " -5", "-5 ", "2147483643", "2147483652", "-2147483643", "-2147483652", "4294967291", "-4294967291", "-4294967295", "-4294967296", "-4294967301",
                           "9223372036854775803", "9223372036854775813", "-9223372036854775803", "-9223372036854775808", "-9223372036854775813", "18446744073709551611", "18446744073709551621", "-18446744073709551611", "-18446744073709551615", "-18446744073709551616", "-18446744073709551621"})
      v.push_back({std::string("content-length-hostile=") + esc(cl), req(M, " ", T, " ", V, E, H, E, CN, CS, cl, E, E, B)}); }
  return v;
}

static int run_mut(long shard, long nshards, int two_cut_max, double deadline) {
  auto ms = mutations(); long execs = 0, distinct = 0, work = 0; int samples = 0;
  std::string second = "GET /next HTTP/1.1\r\nContent-Length: 0\r\n\r\n";
  for (auto &m : ms) {
    if ((work++ % nshards) != shard) continue;
    if (hx::now_s() > deadline) { printf("@CAP mut shard %ld: deadline reached after %ld inputs\n", shard, distinct); break; }
    for (int variant = 0; variant < 3; variant++) {      // alone; followed by a valid request; preceded by a valid request
      std::string data = variant == 0 ? m.data : variant == 1 ? m.data + second : second + m.data; distinct++;
      std::string mode = "mut[" + m.name + (variant == 1 ? "+valid-request-after" : variant == 2 ? "+valid-request-before" : "") + "]";
      g_cur_mode = "mut";
      total_check(mode.c_str(), data, nullptr, 0, execs);
      Outcome whole = feed(data, nullptr, 0);
      bool wf = whole.exc.empty() && !whole.fail && !whole.over && !whole.noprogress && whole.rest == 0 && whole.nreq >= 1 && whole.declared;
      // hostile Content-Length values: whatever the parser makes of them (reject, wait for ever, deliver) must not depend on the segmentation either
      bool numeric = m.name.compare(0, 21, "content-length-value=") == 0 || m.name.compare(0, 24, "content-length-negative=") == 0 || m.name.compare(0, 23, "content-length-hostile=") == 0;
      // (not "-1": stored in the size_t it IS the parser's "no Content-Length" mark, the body is then whatever the segment holds - no declared length, outside the property)
      if (m.name == "content-length-value=-1" || m.name == "content-length-negative=1") numeric = false;
      const Outcome *ref = (wf || (numeric && whole.exc.empty() && !whole.over && !whole.noprogress && !whole.stuck)) ? &whole : nullptr; if (wf) { g_mut_wellformed++; if (std::getenv("C12_MUT_LIST")) printf("@INFO accepted-with-declared-length: %s => %s\n", mode.c_str(), whole.str().substr(0, 200).c_str()); }
      size_t L = data.size();
      if (L <= 6000) {                                      // every 1-cut split (also of the 3-5 KB heads) and (short inputs) every 2-cut split
        size_t c[2];
        for (c[0] = 1; c[0] < L; c[0]++) { total_check(mode.c_str(), data, c, 1, execs, ref); if (L <= (size_t)two_cut_max) for (c[1] = c[0] + 1; c[1] < L; c[1]++) total_check(mode.c_str(), data, c, 2, execs, ref); }
      }
      for (size_t k : {1, 2, 3, 7, 1024}) { std::vector<size_t> cuts; for (size_t x = k; x < L; x += k) cuts.push_back(x); if (!cuts.empty()) total_check(mode.c_str(), data, cuts.data(), (int)cuts.size(), execs, ref); }
      if (samples < 2 && variant == 0 && (distinct % 40) == 4) { samples++; printf("@SAMPLE %s %s\n", mode.c_str(), case_text(data, nullptr, 0).substr(0, 240).c_str()); }
    }
  }
  printf("@INFO mut shard %ld/%ld: %zu single-field mutations (all shards) x 3 contexts, every 1-cut split (2-cut when <=%d bytes), uniform chunks 1/2/3/7/1024: inputs=%ld feeds=%ld; %ld inputs parsed unsplit into complete requests with declared body lengths, %ld of their splits compared with the unsplit sequence\n", shard, nshards, ms.size(), two_cut_max, distinct, execs, g_mut_wellformed, g_mut_compared);
  printf("@STAT states=%ld transitions=%ld executions=%ld mutation_inputs=%ld parse_calls=%ld violations=%ld\n", distinct, execs, execs, distinct, g_parse_calls, g_viol_total);
  return 0;
}

// ------------------------------------------------------------------------------------------------
int main(int argc, char **argv) {
  setvbuf(stdout, nullptr, _IOFBF, 1 << 16);
  std::string mode = argc > 1 ? argv[1] : "mut";
  hx::install_crash_reporter("C12-parser-crash");
  // UBSan (-fno-sanitize-recover) dies without a signal: report the case from the sanitizer death callback (ASan reports go through __asan_on_error)
  __sanitizer_set_death_callback([] { if (!__asan_report_present()) hx::emit_crash("ubsan-or-sanitizer-abort"); });
  // termination: 10 CPU-seconds without a single parse() call returning = the parser does not terminate on the current input
  signal(SIGPROF, [](int) { static long last = -1; if (g_parse_calls == last) { hx::emit_crash("parse-does-not-terminate"); _exit(1); } last = g_parse_calls; });
  { struct itimerval it; memset(&it, 0, sizeof it); it.it_value.tv_sec = it.it_interval.tv_sec = 10; setitimer(ITIMER_PROF, &it, nullptr); }
  double deadline = hx::deadline_from_env(600);
  int rc = 0;
  if (mode == "split") { g_cur_mode = "split"; rc = run_split(atol(argv[2]), atol(argv[3]), atoi(argv[4]), deadline); flush_outcomes("split"); }
  else if (mode == "bytes") { g_cur_mode = "bytes"; rc = run_bytes(atol(argv[2]), atol(argv[3]), atoi(argv[4]), deadline); flush_outcomes("bytes"); }
  else if (mode == "mut") { rc = run_mut(argc > 2 ? atol(argv[2]) : 0, argc > 3 ? atol(argv[3]) : 1, argc > 4 ? atoi(argv[4]) : 80, deadline); flush_outcomes("mut"); }
  else if (mode == "counts") { printf("nmut=%zu nextras=%zu\n", mutations().size(), extras().size() + 1); return 0; }
  else if (mode == "one") {
    std::string data = unesc(argc > 2 ? argv[2] : ""); std::vector<size_t> cuts; for (int i = 3; i < argc; i++) cuts.push_back((size_t)atol(argv[i]));
    Outcome o = feed(data, cuts.data(), (int)cuts.size()); printf("%s => %s\n", case_text(data, cuts.data(), (int)cuts.size()).c_str(), o.str().c_str());
  }
  flush_viol_counts();
  fflush(stdout);
  return rc;
}
