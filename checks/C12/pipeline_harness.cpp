// C12 (pipeline half, engine H): the real http::server::Server on a real loop, driven single-threaded over a real
// socket (unix-domain or loopback TCP). A history = client requests (kind, handler completion delay, segmentation) and
// loop passes. Every history is replayed in a forked child on a fresh loop + server + connection.
//
// usage: pipeline_harness <unix|tcp> <epoll|select> <depth> [maxreq]
//        pipeline_harness <unix|tcp> <epoll|select> replay "<history text>"
#include "hist/hist.h"
#include <tbox/network/tcp_server.cpp>          // TcpServer::Data is file-local: needed for the canonical state
#include <tbox/http/server/server.h>
#include <tbox/http/server/server_imp.h>
#include <tbox/http/server/context.h>
#include <tbox/network/buffered_fd.h>
#include <tbox/network/sockaddr.h>
#include <tbox/event/loop.h>
#include <tbox/event/common_loop.h>
#include <tbox/event/fd_event.h>
#include <arpa/inet.h>
#include <execinfo.h>
#include <netinet/in.h>
#include <netinet/tcp.h>
#include <sys/epoll.h>
#include <sys/ioctl.h>
#include <sys/select.h>
#include <sys/socket.h>
#include <sys/time.h>
#include <sys/syscall.h>
#include <sys/un.h>
#include <linux/sockios.h>

using namespace tbox; using namespace tbox::event; using namespace tbox::http; using namespace tbox::http::server;

// An idle pass must not block: the back-end always polls with a zero timeout.
extern "C" int epoll_wait(int epfd, struct epoll_event *ev, int maxev, int) { return (int)syscall(SYS_epoll_wait, epfd, ev, maxev, 0); }
extern "C" int select(int nfds, fd_set *r, fd_set *w, fd_set *e, struct timeval *) { struct timeval z = {0, 0}; return (int)syscall(SYS_select, nfds, r, w, e, &z); }

enum { REQ, PASS, RAW };                     // RAW: a malformed request (crash/hang freedom only; ends the judged part of the history)
enum { KEEP, CLOSE, HTTP10 };                 // HTTP/1.1 keep-alive | HTTP/1.1 + Connection: close | HTTP/1.0 (no Connection header)
enum { ALONE, GLUED, CUT, CUTM };             // own segment | same segment as the next request | cut into two segments in the middle (a pass in between) | cut inside the method token
enum { BAD_CONTENT_LENGTH, BAD_METHOD };
struct Op { int k, kind, delay, seg; };
static const char *kKind[] = {"keep", "close", "http10"}, *kSeg[] = {"alone", "glued", "cut", "cutm"}, *kRaw[] = {"bad-content-length", "bad-method"};
static const char *kRawText[] = {"POST /x HTTP/1.1\r\nContent-Length: abc\r\n\r\n", "BREW /x HTTP/1.1\r\nContent-Length: 0\r\n\r\n"};

static std::string g_transport = "unix", g_engine = "epoll";

static std::string req_text(int i, int kind) {
  std::string body = "b" + std::to_string(i) + "xyz";
  return "POST /r" + std::to_string(i) + (kind == HTTP10 ? " HTTP/1.0\r\n" : " HTTP/1.1\r\n") + (kind == CLOSE ? "Connection: close\r\n" : "")
         + "Content-Length: " + std::to_string(body.size()) + "\r\n\r\n" + body;
}

static std::string show_op(const Op &o);
struct Pending { int idx; int due; ContextSptr ctx; };
struct World {
  Loop *loop = nullptr; Server *srv = nullptr; int cfd = -1; std::string sock_path;
  int pass_no = 0;
  std::vector<int> segs; std::vector<int> kinds, delays;             // per request issued by the client (index = request number)
  std::vector<bool> sent;                     // the client has issued write() for all of its bytes (a refused write is the server's doing)
  std::string out;                            // client-side bytes not yet written (glued requests)
  std::vector<int> out_reqs;                  // requests contained in `out`
  std::vector<int> delivered;                 // request numbers in the order the handler saw them
  std::vector<Pending> pending;
  std::string rx; bool eof = false; size_t rx_at_eof = 0; bool wr_failed = false;
  std::string viol;
  int completed = 0; bool verbose = false; bool malformed_sent = false;

  bool setup() {
    signal(SIGPIPE, SIG_IGN);
    loop = Loop::New(g_engine); if (!loop) return false;
    srv = new Server(loop);
    network::SockAddr addr;
    if (g_transport == "unix") {
      const char *dir = getenv("C12_SOCK_DIR"); sock_path = std::string(dir ? dir : "/tmp") + "/c12-" + std::to_string(getpid()) + ".sock";
      addr = network::SockAddr(network::DomainSockPath(sock_path));
    } else addr = network::SockAddr::FromString("127.0.0.1:0");
    if (!srv->initialize(addr, 4)) return false;
    srv->use([this](ContextSptr ctx, const NextFunc &) { on_request(ctx); });
    if (!srv->start()) return false;
    if (g_transport == "unix") {
      cfd = socket(AF_UNIX, SOCK_STREAM, 0); struct sockaddr_un sa; memset(&sa, 0, sizeof sa); sa.sun_family = AF_UNIX; strncpy(sa.sun_path, sock_path.c_str(), sizeof(sa.sun_path) - 1);
      if (connect(cfd, (struct sockaddr *)&sa, sizeof sa) != 0) return false;
    } else {
      int lfd = srv->impl_->tcp_server_.d_->sp_acceptor->sock_fd_.get();
      struct sockaddr_in sa; socklen_t sl = sizeof sa; if (getsockname(lfd, (struct sockaddr *)&sa, &sl) != 0) return false;
      cfd = socket(AF_INET, SOCK_STREAM, 0); int one = 1; setsockopt(cfd, IPPROTO_TCP, TCP_NODELAY, &one, sizeof one);
      if (connect(cfd, (struct sockaddr *)&sa, sl) != 0) return false;
    }
    fcntl(cfd, F_SETFL, fcntl(cfd, F_GETFL) | O_NONBLOCK);
    for (int i = 0; i < 5 && srv->impl_->conns_.empty(); i++) raw_pass();
    return srv->impl_->conns_.size() == 1;
  }
  void teardown() {
    pending.clear();                              // late completions after the history: the server must cope (connection may be gone)
    if (cfd >= 0) close(cfd);
    for (int i = 0; i < 3; i++) raw_pass();
    srv->cleanup(); delete srv; srv = nullptr;
    loop->runNext([] {}); loop->runLoop(Loop::Mode::kOnce);
    delete loop; loop = nullptr;
  }

  void on_request(ContextSptr ctx) {
    Request &q = ctx->req();
    int i = -1; if (q.url.path.size() >= 3 && q.url.path.compare(0, 2, "/r") == 0) i = atoi(q.url.path.c_str() + 2);
    if (i < 0 || i >= (int)kinds.size()) { viol = "handler-got-a-request-the-client-never-sent path=" + q.url.path; return; }
    std::string want_body = "b" + std::to_string(i) + "xyz";
    if (q.method != Method::kPost || q.body != want_body || q.http_ver != (kinds[i] == HTTP10 ? HttpVer::k1_0 : HttpVer::k1_1)
        || (kinds[i] == CLOSE) != (q.headers.count("Connection") == 1)) { viol = "request-handed-to-handler-differs-from-request-sent r" + std::to_string(i); return; }
    for (int d : delivered) if (d == i) { viol = "request-handed-to-handler-twice r" + std::to_string(i); return; }
    if (!delivered.empty() && delivered.back() > i) { viol = "requests-handed-to-handler-out-of-order r" + std::to_string(i); return; }
    delivered.push_back(i);
    ctx->res().status_code = StatusCode::k200_OK; ctx->res().body = "r" + std::to_string(i);
    if (delays[i] > 0) pending.push_back(Pending{i, pass_no + delays[i], ctx});      // completes `delay` passes later
    else completed++;                                                                  // completes inside the request callback
  }

  void raw_pass() { loop->runNext([] {}); loop->runLoop(Loop::Mode::kOnce); }
  void pass() {
    pass_no++;
    // handlers due in this pass complete from a loop callback (after the pass' fd events), in request order
    for (auto &p : pending) if (p.due <= pass_no) { int idx = p.idx; loop->runNext([this, idx] { complete(idx); }); }
    raw_pass();
    if (g_transport == "tcp") tcp_drain();
    client_read();
  }
  void complete(int idx) {
    for (size_t i = 0; i < pending.size(); i++) if (pending[i].idx == idx) { ContextSptr c = pending[i].ctx; pending.erase(pending.begin() + i); completed++; c.reset(); return; }
  }
  // loopback TCP: wait until everything either side wrote has reached the peer's receive queue (keeps replay deterministic)
  void tcp_drain() {
    std::vector<int> fds; fds.push_back(cfd);
    srv->impl_->tcp_server_.d_->conns.foreach([&](network::TcpConnection *c) { if (c->sp_buffered_fd_) fds.push_back(c->sp_buffered_fd_->fd().get()); });
    // SIOCOUTQNSD = bytes not yet sent (unacknowledged bytes do not count: on loopback "sent" means queued at the peer, and a delayed ACK would cost 40 ms)
    for (int fd : fds) for (int spin = 0; spin < 400; spin++) { int q = 0; if (ioctl(fd, SIOCOUTQNSD, &q) != 0 || q == 0) break; usleep(50); }
  }
  void client_write(const std::string &bytes) {
    size_t off = 0;
    while (off < bytes.size()) { ssize_t n = send(cfd, bytes.data() + off, bytes.size() - off, MSG_NOSIGNAL); if (n <= 0) { wr_failed = true; return; } off += (size_t)n; }
    if (g_transport == "tcp") tcp_drain();
  }
  void client_read() {
    char b[4096];
    for (;;) { ssize_t n = recv(cfd, b, sizeof b, 0); if (n > 0) { if (eof) viol = "bytes-received-after-eof"; rx.append(b, (size_t)n); continue; }
      if (n == 0 && !eof) { eof = true; rx_at_eof = rx.size(); }
      if (n < 0 && errno == ECONNRESET && !eof) { eof = true; rx_at_eof = rx.size(); }
      break; }
    check_stream(false);
  }

  int first_closing() const { for (size_t i = 0; i < kinds.size(); i++) if (sent[i] && kinds[i] != KEEP) return (int)i; return -1; }

  // Parse the client's byte stream into responses; tags must be 0,1,2,... (one response per request, request order).
  std::vector<int> tags; size_t parsed_to = 0;
  void check_stream(bool final) {
    if (!viol.empty()) return;
    tags.clear(); size_t pos = 0; int c = first_closing();
    while (pos < rx.size()) {
      size_t he = rx.find("\r\n\r\n", pos); if (he == std::string::npos) break;
      std::string head = rx.substr(pos, he - pos);
      if (head.compare(0, 9, "HTTP/1.1 ") != 0) { viol = "client-stream-malformed-response-head"; return; }
      size_t cl = head.find("Content-Length: "); if (cl == std::string::npos) { viol = "client-stream-response-without-content-length"; return; }
      size_t n = (size_t)atoi(head.c_str() + cl + 16); if (he + 4 + n > rx.size()) break;
      std::string body = rx.substr(he + 4, n); pos = he + 4 + n;
      int t = (body.size() >= 2 && body[0] == 'r') ? atoi(body.c_str() + 1) : -1;
      if (head.compare(9, 6, "200 OK") != 0 || t < 0) { viol = "response-is-not-the-handlers-response status/body=" + head.substr(9, 12) + "/" + body; return; }
      for (int x : tags) if (x == t) { viol = "response-written-twice r" + std::to_string(t); return; }
      if (c >= 0 && t > c) { viol = "requests-after-connection-close-are-answered r" + std::to_string(t) + "-answered-after-closing-r" + std::to_string(c); return; }
      if (t != (int)tags.size()) { viol = "responses-out-of-request-order got-r" + std::to_string(t) + "-at-position-" + std::to_string(tags.size()); return; }
      tags.push_back(t);
    }
    parsed_to = pos;
    if (c >= 0 && (int)tags.size() > c && rx.size() > parsed_to) { viol = "bytes-written-after-the-response-to-the-closing-request"; return; }
    if (final && rx.size() > parsed_to) { viol = "client-stream-ends-with-a-partial-response"; return; }
  }

  void apply(const Op &o) {
    if (o.k == PASS) { pass(); return; }
    if (o.k == RAW) { out += kRawText[o.kind]; flush_out(); malformed_sent = true; pass(); return; }
    int i = (int)kinds.size(); kinds.push_back(o.kind); delays.push_back(o.delay); sent.push_back(false); segs.push_back(o.seg);
    std::string t = req_text(i, o.kind);
    if (o.seg == GLUED) { out += t; out_reqs.push_back(i); return; }
    if (o.seg == ALONE) { out += t; out_reqs.push_back(i); flush_out(); pass(); return; }
    // CUT: everything glued so far + the first half in one segment, a pass, then the second half, a pass
    size_t half = o.seg == CUTM ? 2 : t.size() / 2;
    out += t.substr(0, half); std::string first = out; out.clear(); std::vector<int> rs = out_reqs; out_reqs.clear();
    client_write(first); for (int r : rs) sent[r] = true;
    pass();
    client_write(t.substr(half)); sent[i] = true;
    pass();
  }
  void flush_out() { std::string b = out; out.clear(); std::vector<int> rs = out_reqs; out_reqs.clear(); client_write(b); for (int r : rs) sent[r] = true; }

  std::string canon() {
    std::string c; char b[256];
    Server::Impl *im = srv->impl_;
    snprintf(b, sizeof b, "conns=%zu tcp=%zu|", im->conns_.size(), im->tcp_server_.d_->conns.size()); c += b;
    for (auto *cn : im->conns_) {
      snprintf(b, sizeof b, "req=%d res=%d close=%d ps=%d cl=%zd parked=", cn->req_index, cn->res_index, cn->close_index == std::numeric_limits<int>::max() ? -1 : cn->close_index,
               (int)cn->req_parser.state_, cn->req_parser.state_ == RequestParser::State::kInit ? (ssize_t)0 : (ssize_t)cn->req_parser.content_length_); c += b;
      for (auto &kv : cn->res_buff) c += std::to_string(kv.first) + ",";
      c += "|";
    }
    im->tcp_server_.d_->conns.foreach([&](network::TcpConnection *tc) {
      network::BufferedFd *bf = tc->sp_buffered_fd_;
      if (!bf) { c += "bfd=null|"; return; }
      snprintf(b, sizeof b, "bfd st=%d rb=%zu sb=%zu wev=%d|", (int)bf->state_, bf->recv_buff_.readableSize(), bf->send_buff_.readableSize(), bf->sp_write_event_ ? (int)bf->sp_write_event_->isEnabled() : -1); c += b; });
    CommonLoop *cl = static_cast<CommonLoop *>(loop);
    snprintf(b, sizeof b, "next=%zu|", cl->run_next_func_queue_.size()); c += b;
    c += "pend="; for (auto &p : pending) c += std::to_string(p.idx) + "@" + std::to_string(p.due - pass_no) + ",";
    c += "|glued="; for (int r : out_reqs) c += std::string(kKind[kinds[r]]) + std::to_string(delays[r]) + ",";
    int fc = first_closing();
    snprintf(b, sizeof b, "|issued=%zu closing=%d delivered=%zu got=%zu eof=%d wrfail=%d bad=%d", kinds.size(), fc, delivered.size(), tags.size(), (int)eof, (int)wr_failed, (int)malformed_sent); c += b;
    return c;
  }

  // after the history: let everything complete, then the end-to-end oracle
  void settle_and_judge() {
    for (int i = 0; i < 4 || (!pending.empty() && i < 10); i++) { pass(); if (verbose) printf("settle pass %d: %s\n", i + 1, canon().c_str()); }
    if (!viol.empty()) return;
    int c = first_closing();
    if (g_transport == "tcp" && c >= 0 && !eof) { struct pollfd p = {cfd, POLLIN, 0}; poll(&p, 1, 200); client_read(); }
    check_stream(true); if (!viol.empty()) return;
    if (malformed_sent) return;      // after a malformed request only crash/hang freedom and the stream-level rules (no duplicate, order, nothing after close) are judged
    // a request that never reaches the handler (connection dropped by a parse failure, ...) is the root cause of whatever else is missing: report it first
    for (size_t i = 0; i < kinds.size(); i++) {
      if (!sent[i] || (c >= 0 && (int)i > c)) continue;
      bool got = false; for (int d : delivered) if (d == (int)i) got = true;
      if (!got) { viol = std::string(segs[i] == CUTM ? "request-cut-inside-method-token-never-handed-to-handler r" : "request-never-handed-to-handler r") + std::to_string(i) + (eof ? " (connection closed by the server)" : ""); return; }
    }
    for (int i : delivered) {
      bool answered = i < (int)tags.size();
      if (c >= 0 && i > c) { if (!answered) { viol = "requests-after-connection-close-are-handed-to-handler-not-answered r" + std::to_string(i); return; } continue; }
      if (!answered) {
        std::string sg = std::string("response-never-written-to-") + (i == c ? "closing-request" : c >= 0 ? "request-before-closing-request" : "keep-alive-request")
                       + (delays[i] ? "-handler-completes-after-callback" : "-handler-completes-in-callback");
        viol = sg + " r" + std::to_string(i) + " handler-delay=" + std::to_string(delays[i]) + (eof ? " (connection already closed by the server)" : ""); return; }
    }
    if (c >= 0 && (int)tags.size() > c && !eof) { viol = "connection-not-closed-after-the-response-to-the-closing-request"; return; }
  }
};

static std::string show_op(const Op &o) {
  if (o.k == PASS) return "pass";
  if (o.k == RAW) return std::string("raw(") + kRaw[o.kind] + ")";
  char b[64]; snprintf(b, sizeof b, "req(%s,d%d,%s)", kKind[o.kind], o.delay, kSeg[o.seg]); return b;
}
static bool parse_hist(const std::string &s, std::vector<Op> &h) {
  size_t p = 0;
  while (p < s.size()) {
    while (p < s.size() && s[p] == ' ') p++; if (p >= s.size()) break;
    size_t e = s.find(' ', p); std::string t = s.substr(p, e == std::string::npos ? std::string::npos : e - p); p = e == std::string::npos ? s.size() : e;
    if (t == "pass") { h.push_back({PASS, 0, 0, 0}); continue; }
    if (t == "raw(bad-content-length)") { h.push_back({RAW, BAD_CONTENT_LENGTH, 0, 0}); continue; }
    if (t == "raw(bad-method)") { h.push_back({RAW, BAD_METHOD, 0, 0}); continue; }
    char k[16], g[16]; int d; if (sscanf(t.c_str(), "req(%15[a-z0-9],d%d,%15[a-z])", k, &d, g) != 3) return false;
    Op o{REQ, 0, d, 0}; for (int i = 0; i < 3; i++) if (!strcmp(k, kKind[i])) o.kind = i;
    for (int i = 0; i < 4; i++) if (!strcmp(g, kSeg[i])) o.seg = i;
    h.push_back(o);
  }
  return true;
}

// a child that runs into the explorer's alarm leaves a backtrace behind (diagnosis of genuine hangs vs. an overloaded machine)
static void on_alarm(int sg) {
  const char *dir = getenv("C12_SOCK_DIR"); char path[300]; snprintf(path, sizeof path, "%s/alarm-%d.txt", dir ? dir : "/tmp", (int)getpid());
  int fd = open(path, O_WRONLY | O_CREAT | O_TRUNC, 0644);
  if (fd >= 0) { void *bt[48]; int n = backtrace(bt, 48); backtrace_symbols_fd(bt, n, fd); close(fd); }
  signal(sg, SIG_DFL); raise(sg);
}

static std::string run_history(const std::vector<Op> &h, std::string &viol, bool verbose) {
  signal(SIGALRM, on_alarm); signal(SIGPROF, on_alarm);
  // hang detection by CPU time (robust on an overloaded machine): 15 CPU-seconds for one history is a busy hang -> crash:signal27;
  // a blocked child runs into the explorer's (long) wall-clock alarm -> crash:signal14
  { struct itimerval it; memset(&it, 0, sizeof it); it.it_value.tv_sec = 15; setitimer(ITIMER_PROF, &it, nullptr); }
  World w;
  if (!w.setup()) { viol = "harness-setup-failed errno=" + std::to_string(errno); return "setup-failed"; }
  w.verbose = verbose;
  for (auto &o : h) { w.apply(o); if (verbose) printf("after %-22s %s\n", show_op(o).c_str(), w.canon().c_str()); if (!w.viol.empty()) break; }
  std::string c = w.canon();
  if (w.viol.empty()) w.settle_and_judge();
  if (verbose) {
    printf("canon: %s\nafter settling: %s\ndelivered:", c.c_str(), w.canon().c_str()); for (int d : w.delivered) printf(" r%d", d);
    printf("\nresponses received:"); for (int t : w.tags) printf(" r%d", t); printf("  eof=%d rx_bytes=%zu\nverdict: %s\n", (int)w.eof, w.rx.size(), w.viol.empty() ? "ok" : w.viol.c_str());
  }
  viol = w.viol;
  w.teardown();
  return c;
}

int main(int argc, char **argv) {
  g_transport = argc > 1 ? argv[1] : "unix"; g_engine = argc > 2 ? argv[2] : "epoll";
  if (argc > 4 && !strcmp(argv[3], "replay")) {
    std::vector<Op> h; if (!parse_hist(argv[4], h)) { fprintf(stderr, "bad history\n"); return 0; }
    std::string v; run_history(h, v, true); return 0;
  }
  size_t depth = argc > 3 ? atoi(argv[3]) : 6; int maxreq = argc > 4 ? atoi(argv[4]) : 3;
  bool keep_only = argc > 5 && !strcmp(argv[5], "keeponly");     // lane: longer pipelines of plain keep-alive requests, every completion order
  hx::Explorer<Op> ex; ex.name = g_transport + "/" + g_engine; if (argc > 5) ex.name += std::string("/") + argv[5];
  ex.deadline_s = hx::deadline_from_env(600);
  ex.fork_workers = (int)hx::env_int("VERIF_WORKERS", 4);
  ex.child_timeout_s = 120; ex.max_viol_print = 1000000;     // the per-signature limit (3) still applies
  ex.show = show_op;
  // signature = first token of the violation text; a child killed by the escaping std::stoi exception gets a readable name
  ex.sig = [](const std::string &v) {
    if (v.compare(0, 6, "crash:") == 0 && v.find("uncaught-exception") != std::string::npos && v.find("stoi") != std::string::npos) return std::string("server-terminates-on-uncaught-stoi-exception-from-content-length");
    return v.substr(0, v.find(' ')); };
  ex.menu = [&](const std::vector<Op> &h) {
    std::vector<Op> m; int nreq = 0; bool glued_open = false, bad = false;
    for (auto &o : h) { if (o.k == REQ) { nreq++; glued_open = (o.seg == GLUED); } if (o.k == RAW) { bad = true; glued_open = false; } }
    if (keep_only) { if (nreq < maxreq) for (int seg : {GLUED, ALONE}) for (int d : {0, 1, 2}) m.push_back({REQ, KEEP, d, seg}); if (!glued_open) m.push_back({PASS, 0, 0, 0}); return m; }
    if (nreq < maxreq && !bad) {
      for (int seg : {ALONE, GLUED}) for (int kind : {KEEP, CLOSE, HTTP10}) for (int d : {0, 1, 2}) m.push_back({REQ, kind, d, seg});
      for (int kind : {KEEP, CLOSE, HTTP10}) for (int d : {0, 1}) m.push_back({REQ, kind, d, CUT});
      m.push_back({REQ, KEEP, 0, CUTM});
      for (int v : {BAD_CONTENT_LENGTH, BAD_METHOD}) m.push_back({RAW, v, 0, 0});
    }
    if (!glued_open) m.push_back({PASS, 0, 0, 0});      // a pass while bytes are still held back by the client would only reorder equivalent histories
    return m; };
  ex.run = [&](const std::vector<Op> &h, std::string &viol) { return run_history(h, viol, false); };
  ex.explore(depth);
  return 0;
}
