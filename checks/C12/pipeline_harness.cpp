// C12 (pipeline half, engine H): the real http::server::Server on a real loop, driven single-threaded over a real
// socket (unix-domain or loopback TCP). A history = client requests (kind, handler completion delay, segmentation, connection,
// response size, next() deferral), client-side close + reconnect, and loop passes. Every history is replayed in a forked child on
// a fresh loop + server + connection(s).
//
// usage: pipeline_harness <unix|tcp> <epoll|select> <depth> [maxreq] [lane]        lanes: see main()
//        pipeline_harness <unix|tcp> <epoll|select> replay "<history text>" [lane]
#include "hist/hist.h"
#include <tbox/network/tcp_server.cpp>          // TcpServer::Data is file-local: needed for the canonical state
#include <tbox/http/server/server.h>
#include <tbox/http/server/server_imp.h>
#include <tbox/http/server/context.h>
#include <tbox/http/server/middleware.h>
#include <tbox/network/buffered_fd.h>
#include <tbox/network/sockaddr.h>
#include <tbox/event/loop.h>
#include <tbox/event/common_loop.h>
#include <tbox/event/fd_event.h>
#include <arpa/inet.h>
#include <execinfo.h>
#include <setjmp.h>
#include <locale>
#include <algorithm>
#include <netinet/in.h>
#include <netinet/tcp.h>
#include <sys/epoll.h>
#include <sys/ioctl.h>
#include <sys/select.h>
#include <sys/socket.h>
#include <sys/time.h>
#include <sys/syscall.h>
#include <sys/un.h>
#include <linux/sockios.h>

using namespace tbox; using namespace tbox::event; using namespace tbox::http; using namespace tbox::http::server;

// An idle pass must not block: the back-end always polls with a zero timeout.
extern "C" int epoll_wait(int epfd, struct epoll_event *ev, int maxev, int) { return (int)syscall(SYS_epoll_wait, epfd, ev, maxev, 0); }
extern "C" int select(int nfds, fd_set *r, fd_set *w, fd_set *e, struct timeval *) { struct timeval z = {0, 0}; return (int)syscall(SYS_select, nfds, r, w, e, &z); }

enum { REQ, PASS, RAW, RECONN, HCL, RESTART, ENDC };             // RAW: a malformed request (crash/hang freedom only; ends the judged part of that connection)
                                             // RECONN: the client closes its side of the connection in slot c (whatever is outstanding) and opens a new one
                                             // HCL: an otherwise valid request whose Content-Length value is hostile (negative, signed, huge, blank, ...): whatever the server makes of it
                                             //      (reject, wait for a body, hand it to the handler), the loop pass must end and the handler must not see it twice; ends the judged part
                                             // RESTART: stop()+start() (kind 0) or cleanup()+initialize()+use()+start() (kind 1) with connections open and handlers outstanding; every client
                                             //      sees its connection end and connects again; the old contexts complete later
                                             // ENDC: terminal: cleanup() with connections open and handlers outstanding, the contexts are released only afterwards
// request kinds = HTTP version x Connection header; `closing` is the reference model's reading of "asked for the connection to be closed"
enum { KEEP, CLOSE, HTTP10, KEEP11H, KEEP10H, KEEP10TE, CLOSE11TE, NKIND };
struct KindDef { const char *name, *ver, *conn; bool closing; };
static const KindDef kKindDef[NKIND] = {
  {"keep", "HTTP/1.1", nullptr, false}, {"close", "HTTP/1.1", "close", true}, {"http10", "HTTP/1.0", nullptr, true},
  {"keep11h", "HTTP/1.1", "keep-alive", false}, {"keep10h", "HTTP/1.0", "keep-alive", false}, {"keep10te", "HTTP/1.0", "keep-alive, TE", false}, {"close11te", "HTTP/1.1", "TE, close", true}};
enum { ALONE, GLUED, CUT, CUTM, CUTBL, CUTLAST, BYTES, NSEG };   // ... | cut right after the blank line (head | body) | cut before the LAST body byte | byte by byte (a pass after every byte)
//             // own segment | same segment as the next request | cut into two segments in the middle (a pass in between) | cut inside the method token
enum { BAD_CONTENT_LENGTH, BAD_METHOD };
// conn = client slot (0|1); nd = passes by which the first callback defers next() (two-callback lane); big = the handler's response does not fit the socket buffer
// rel = on entry the handler first completes every outstanding context (of any connection), then answers; cclose = the client closes right after writing the request (no pass
// in between: request and end-of-stream arrive together) and connects again; rv = response variant (0: 200 + body | 1: + Content-Type and X-Tag headers | 2: X-Tag, empty body |
// 3: the handler leaves the response untouched = 404, no body)
struct Op { int k, kind, delay, seg, conn, nd, big, rel, cclose, rv, bl; };      // bl = 1 + length of the request body (0 = the default 5-6 byte body)
static Op mkreq(int kind, int d, int seg, int conn = 0, int nd = 0, int big = 0, int rel = 0, int cclose = 0, int rv = 0) { return Op{REQ, kind, d, seg, conn, nd, big, rel, cclose, rv}; }
static const char *kSeg[] = {"alone", "glued", "cut", "cutm", "cutbl", "cutlast", "bytes"}, *kRaw[] = {"bad-content-length", "bad-method"};
static const char *kRawText[] = {"POST /x HTTP/1.1\r\nContent-Length: abc\r\n\r\n", "BREW /x HTTP/1.1\r\nContent-Length: 0\r\n\r\n"};

static jmp_buf g_bail;                    // the watchdog leaves a loop pass that never ends (forked child / replay process: nothing is cleaned up afterwards)
static std::string g_transport = "unix", g_engine = "epoll", g_lane = "";
// configuration of the closed system, chosen by the lane
static int g_nclients = 1;              // connections open from the start (lane multi: 2)
static bool g_two_callbacks = false;    // lane mw: use(callback) that defers next() + use(Middleware*) that answers
static bool g_small_sndbuf = false;     // lane big: the server side of the connection has a minimal SO_SNDBUF, so a big response is written in several partial writes
static bool g_grouping_locale = false;  // C12_GROUPING_LOCALE=1 (default off, see the note at main()): the global C++ locale groups digits, as en_US.UTF-8 does
static bool g_ctxlog = false;           // setContextLogEnable(true): Request/Respond::toString() evaluated for the log line
static const size_t kBigPad = 12000;
static void set_lane(const std::string &l) {
  g_lane = l;
  if (l == "multi") { g_nclients = 2; g_ctxlog = true; }
  if (l == "mw") { g_two_callbacks = true; g_ctxlog = true; }
  if (l == "big") { g_small_sndbuf = true; g_ctxlog = true; }
  if (l == "life" || l == "resp") g_ctxlog = true;
}

// The implementation's bookkeeping is part of the canonical state only (never of the oracle). Private fields of the http server classes are read by
// name where the name exists; a tree that renamed or replaced one still builds (the object's scalar words stand in for it), so such a change is judged
// by the oracle instead of stopping the check with a compile error.
static bool g_field_missing = false;
#define OPT_FIELD(fn, expr, dflt) \
  template <class T> static auto fn(T *p, int) -> decltype((long)(expr)) { return (long)(expr); } \
  template <class T> static long fn(T *, long) { g_field_missing = true; return dflt; }
OPT_FIELD(f_req_index, p->req_index, -9)
OPT_FIELD(f_res_index, p->res_index, -9)
OPT_FIELD(f_close_index, (p->close_index == std::numeric_limits<int>::max() ? -1 : p->close_index), -9)
OPT_FIELD(f_parked, p->res_buff.size(), -9)
OPT_FIELD(f_content_length, p->req_parser.content_length_, -9)
OPT_FIELD(f_parser_state, (int)p->req_parser.state(), -9)
OPT_FIELD(f_bfd_state, (int)p->state_, -9)
OPT_FIELD(f_bfd_rb, p->recv_buff_.readableSize(), -9)
OPT_FIELD(f_bfd_sb, (p->send_buff_.readableSize() > 0), -9)
OPT_FIELD(f_bfd_wev, (p->sp_write_event_ ? (int)p->sp_write_event_->isEnabled() : -1), -9)
OPT_FIELD(f_next_queue, p->run_next_func_queue_.size(), -9)
// the private nested type Impl::Connection, found through the type of Impl::conns_'s elements (no name of it is spelled out here)
template <class T> static auto parked_keys(T *p, int) -> decltype(p->res_buff.begin()->first, std::string());
template <class T> static std::string parked_keys(T *, long);
template <class T> static std::string raw_scalars(T *obj);
template <class I> static auto conn_fields(I *im, void *ctx, int) -> decltype((void)im->conns_.begin(), std::string()) {
  typedef typename std::decay<decltype(*im->conns_.begin())>::type ConnPtr; ConnPtr cn = static_cast<ConnPtr>(ctx);
  char b[200]; bool idle = f_parser_state(cn, 0) == (long)RequestParser::State::kInit;
  snprintf(b, sizeof b, "req=%ld res=%ld close=%ld ps=%ld cl=%ld parked=", f_req_index(cn, 0), f_res_index(cn, 0), f_close_index(cn, 0), f_parser_state(cn, 0), idle ? 0L : f_content_length(cn, 0));
  std::string c = b; c += parked_keys(cn, 0);
  if (g_field_missing) c += " raw=" + raw_scalars(cn);
  return c + " ";
}
template <class I> static std::string conn_fields(I *, void *, long) { g_field_missing = true; return "conn=? "; }
OPT_FIELD(f_conns, p->conns_.size(), -9)
template <class T> static auto parked_keys(T *p, int) -> decltype(p->res_buff.begin()->first, std::string()) { std::string s; for (auto &kv : p->res_buff) s += std::to_string(kv.first) + ","; return s; }
template <class T> static std::string parked_keys(T *, long) { g_field_missing = true; return "?"; }
template <class T> static std::string raw_scalars(T *obj) {     // small integers (and INT_MAX marks) among the object's 32-bit words; words of pointer-like 64-bit words are skipped
  std::string s; const int32_t *w = (const int32_t *)obj; size_t n = sizeof(T) / 4;
  for (size_t i = 0; i + 1 < n; i += 2) {
    if (w[i + 1] >= 0x1000 && w[i + 1] < 0x7fffffff) continue;
    for (size_t j = i; j < i + 2; j++) if ((w[j] >= -1 && w[j] < 0x1000) || w[j] == 0x7fffffff) s += std::to_string(j) + ":" + std::to_string(w[j]) + ",";
  }
  return s;
}

// hostile Content-Length values; @H = the size of the request's own head (so that a wrapped "position + length" lands exactly on the start of the request)
static const char *kHcl[] = {"-@H", "-@H-1", "-@H+1", "-@H+5", "-2", "-5", "-0", "+5", "05", "  5", "5 ", "", "-", "2147483647", "2147483648", "-2147483648", "-2147483649", "4294967295", "4294967296", "4294967301",
                             "-4294967291", "9223372036854775807", "9223372036854775808", "-9223372036854775808", "18446744073709551615", "18446744073709551616", "18446744073709551621", "-18446744073709551611", "99999999999999999999999999"};
static const int kNHcl = sizeof kHcl / sizeof *kHcl;
// the reference model's reading of a value: optional blanks around 1*DIGIT that spell the length of the body actually sent (5) = an ordinary well-formed request
static bool hcl_wellformed(int v) { std::string s = kHcl[v]; while (!s.empty() && s[0] == ' ') s.erase(0, 1); while (!s.empty() && s.back() == ' ') s.pop_back();
  if (s.empty() || s.find_first_not_of("0123456789") != std::string::npos) return false; while (s.size() > 1 && s[0] == '0') s.erase(0, 1); return s == "5"; }
static std::string req_body(int i);
static std::string hcl_text(int i, int v) {
  std::string pre = "POST /r" + std::to_string(i) + " HTTP/1.1\r\nContent-Length: ", val = kHcl[v];
  size_t at = val.find("@H");
  if (at != std::string::npos) {
    long delta = val.size() > at + 2 ? atol(val.c_str() + at + 2) : 0;
    for (long n = 1; n < 400; n++) { std::string cand = "-" + std::to_string(n + delta); if ((long)(pre.size() + cand.size() + 4) == n) { val = cand; break; } }
  }
  return pre + val + "\r\n\r\n" + req_body(i);
}

static std::vector<int> g_blen;      // per request number: chosen body length, -1 = default
static std::string req_body(int i) { std::string b = "b" + std::to_string(i) + "xyz"; return i < (int)g_blen.size() && g_blen[i] >= 0 ? b.substr(0, (size_t)g_blen[i]) : b; }
static std::string req_text(int i, int kind) {
  std::string body = req_body(i); const KindDef &kd = kKindDef[kind];
  return "POST /r" + std::to_string(i) + " " + kd.ver + "\r\n" + (kd.conn ? std::string("Connection: ") + kd.conn + "\r\n" : std::string())
         + "Content-Length: " + std::to_string(body.size()) + "\r\n\r\n" + body;
}

static std::string show_op(const Op &o);
struct Pending { int idx; int due; ContextSptr ctx; };
struct PendingNext { int idx; int due; NextFunc next; };
struct Client {                               // one connection as the client sees it
  int fd = -1; int slot = 0;
  std::vector<int> reqs;                      // request numbers issued on this connection, in order
  std::string out; std::vector<int> out_reqs; // client-side bytes not yet written (glued requests) and the requests they contain
  std::string rx; bool eof = false; bool wr_failed = false, malformed_sent = false, client_closed = false;
  std::vector<int> tags; size_t parsed_to = 0;
};
struct World;
struct FinalMw : Middleware { World *w = nullptr; void handle(ContextSptr ctx, const NextFunc &next) override; };

struct World {
  Loop *loop = nullptr; Server *srv = nullptr; std::string sock_path; struct sockaddr_in tcp_sa; socklen_t tcp_sl = 0;
  int pass_no = 0;
  std::vector<Client> cl; int cur[2] = {-1, -1}; int reconns = 0;      // every connection ever opened; the live one per client slot
  std::vector<int> hcl;                       // per request: index of its hostile Content-Length value, -1 = a valid request
  int handler_calls_in_pass = 0;              // watchdog: a pass in which the handler is entered again and again never ends
  std::vector<int> rels, rvs; int restarts = 0; bool ended = false;
  network::SockAddr addr;
  std::vector<int> segs, kinds, delays, nds, bigs, owner;             // per request issued by a client (index = request number); owner = index into cl
  std::vector<bool> sent;                     // the client has issued write() for all of its bytes (a refused write is the server's doing)
  std::vector<int> delivered;                 // request numbers in the order the (first) handler saw them
  std::vector<int> finals;                    // request numbers in the order the answering handler saw them
  std::vector<Pending> pending; std::vector<PendingNext> pnext;
  FinalMw final_mw;
  std::string viol;
  int completed = 0; bool verbose = false;

  bool connect_client(int slot) {
    Client c; c.slot = slot;
    if (g_transport == "unix") {
      c.fd = socket(AF_UNIX, SOCK_STREAM, 0); struct sockaddr_un sa; memset(&sa, 0, sizeof sa); sa.sun_family = AF_UNIX; strncpy(sa.sun_path, sock_path.c_str(), sizeof(sa.sun_path) - 1);
      if (connect(c.fd, (struct sockaddr *)&sa, sizeof sa) != 0) return false;
    } else {
      c.fd = socket(AF_INET, SOCK_STREAM, 0); int one = 1; setsockopt(c.fd, IPPROTO_TCP, TCP_NODELAY, &one, sizeof one);
      if (connect(c.fd, (struct sockaddr *)&tcp_sa, tcp_sl) != 0) return false;
    }
    fcntl(c.fd, F_SETFL, fcntl(c.fd, F_GETFL) | O_NONBLOCK);
    cur[slot] = (int)cl.size(); cl.push_back(c);
    return true;
  }
  size_t tcp_conns() { return srv->impl_->tcp_server_.d_->conns.size(); }
  void shrink_server_sndbuf() {
    srv->impl_->tcp_server_.d_->conns.foreach([&](network::TcpConnection *c) { if (c->sp_buffered_fd_) { int v = 1024; setsockopt(c->sp_buffered_fd_->fd().get(), SOL_SOCKET, SO_SNDBUF, &v, sizeof v); } });
  }
  bool init_server() {                         // initialize + use + start, as an application does (also after a cleanup())
    if (!srv->initialize(addr, 4)) return false;
    if (g_ctxlog) srv->setContextLogEnable(true);
    final_mw.w = this;
    if (g_two_callbacks) { srv->use([this](ContextSptr ctx, const NextFunc &next) { on_first(ctx, next); }); srv->use(&final_mw); }
    else srv->use([this](ContextSptr ctx, const NextFunc &) { int i = on_first(ctx, NextFunc()); if (i >= 0) on_final(ctx); });
    if (!srv->start()) return false;
    if (g_transport == "tcp") {
      int lfd = srv->impl_->tcp_server_.d_->sp_acceptor->sock_fd_.get();
      tcp_sl = sizeof tcp_sa; if (getsockname(lfd, (struct sockaddr *)&tcp_sa, &tcp_sl) != 0) return false;
    }
    return true;
  }
  bool setup() {
    signal(SIGPIPE, SIG_IGN);
    loop = Loop::New(g_engine); if (!loop) return false;
    srv = new Server(loop);
    if (g_transport == "unix") {
      const char *dir = getenv("C12_SOCK_DIR"); sock_path = std::string(dir ? dir : "/tmp") + "/c12-" + std::to_string(getpid()) + ".sock";
      addr = network::SockAddr(network::DomainSockPath(sock_path));
    } else addr = network::SockAddr::FromString("127.0.0.1:0");
    if (!init_server()) return false;
    for (int s = 0; s < g_nclients; s++) {
      if (!connect_client(s)) return false;
      for (int i = 0; i < 5 && tcp_conns() < (size_t)s + 1; i++) raw_pass();        // accepted one by one: connection s is in cabinet slot s
    }
    if (g_small_sndbuf) shrink_server_sndbuf();
    return tcp_conns() == (size_t)g_nclients;
  }
  void teardown() {
    pending.clear(); pnext.clear();               // late completions after the history: the server must cope (connection may be gone)
    for (auto &c : cl) if (c.fd >= 0) { close(c.fd); c.fd = -1; }
    for (int i = 0; i < 3; i++) raw_pass();
    srv->cleanup(); delete srv; srv = nullptr;
    loop->runNext([] {}); loop->runLoop(Loop::Mode::kOnce);
    delete loop; loop = nullptr;
  }

  std::string expect_response(int i) const {
    if (rvs[i] == 3) return "HTTP/1.1 404 Not Found\r\nContent-Length: 0\r\n\r\n";
    std::string body = rvs[i] == 2 ? std::string() : resp_body(i, bigs[i]);
    return std::string("HTTP/1.1 200 OK\r\n") + (rvs[i] == 1 ? "Content-Type: text/plain\r\n" : "") + (rvs[i] == 1 || rvs[i] == 2 ? "X-Tag: " + rn(i) + "\r\n" : std::string())
           + "Content-Length: " + std::to_string(body.size()) + "\r\n\r\n" + body;
  }
  static std::string resp_body(int i, bool big) { return "r" + std::to_string(i) + (big ? std::string(kBigPad, 'x') : std::string()); }

  // first callback of the chain = "the request is handed to a handler": identify it, compare it with what the client sent
  int on_first(ContextSptr ctx, const NextFunc &next) {
    Request &q = ctx->req();
    int i = -1; if (q.url.path.size() >= 3 && q.url.path.compare(0, 2, "/r") == 0) i = atoi(q.url.path.c_str() + 2);
    if (i < 0 || i >= (int)kinds.size()) { viol = "handler-got-a-request-the-client-never-sent path=" + q.url.path; return -1; }
    const KindDef &kd = kKindDef[kinds[i]]; auto hc = q.headers.find("Connection");
    if (++handler_calls_in_pass > 40) {      // the loop is going round inside one pass (same bytes parsed again and again): report now, with the history, instead of running into a timeout
      if (viol.empty()) viol = "server-loop-pass-never-ends-handler-invoked-again-and-again " + rn(i);
      else viol += " (and the loop pass never ends: handler entered >40 times in one pass)";
      longjmp(g_bail, 1); }
    if (hcl[i] >= 0 && !hcl_wellformed(hcl[i])) ;   // hostile length: which bytes end up as the body is the parser's business
    else if (q.method != Method::kPost || q.body != req_body(i) || q.http_ver != (!strcmp(kd.ver, "HTTP/1.0") ? HttpVer::k1_0 : HttpVer::k1_1)
        || (kd.conn ? (hc == q.headers.end() || hc->second != kd.conn) : hc != q.headers.end())) { viol = "request-handed-to-handler-differs-from-request-sent r" + std::to_string(i); return -1; }
    for (int d : delivered) if (d == i) { viol = "request-handed-to-handler-twice r" + std::to_string(i); return -1; }
    for (int d : delivered) if (owner[d] == owner[i] && d > i) { viol = "requests-handed-to-handler-out-of-order r" + std::to_string(i); return -1; }
    delivered.push_back(i);
    if (g_two_callbacks) {
      if (nds[i] == 0) next();                                                           // next() inside the first callback
      else pnext.push_back(PendingNext{i, pass_no + nds[i], next});                       // next() `nd` passes later, from a loop callback
    }
    return i;
  }
  // the answering handler (the single callback, or the Middleware object behind next())
  void on_final(ContextSptr ctx) {
    Request &q = ctx->req(); int i = atoi(q.url.path.c_str() + 2);
    if (i < 0 || i >= (int)kinds.size() || q.url.path.compare(0, 2, "/r") != 0) { viol = "handler-got-a-request-the-client-never-sent path=" + q.url.path; return; }
    for (int d : finals) if (d == i) { viol = "request-handed-to-handler-twice r" + std::to_string(i) + " (answering handler)"; return; }
    finals.push_back(i);
    if (rels[i]) {      // first complete everything outstanding - of this and of any other connection - from inside this request's handler (nested in onTcpReceived)
      std::vector<Pending> ps; ps.swap(pending); completed += (int)ps.size(); ps.clear(); }
    Respond &r = ctx->res();
    if (rvs[i] != 3) r.status_code = StatusCode::k200_OK;
    if (rvs[i] == 1) r.headers["Content-Type"] = "text/plain";
    if (rvs[i] == 1 || rvs[i] == 2) r.headers["X-Tag"] = rn(i);
    if (rvs[i] == 0 || rvs[i] == 1) r.body = resp_body(i, bigs[i]);
    if (delays[i] > 0) pending.push_back(Pending{i, pass_no + delays[i], ctx});      // completes `delay` passes later
    else completed++;                                                                  // completes inside the request callback
  }

  void raw_pass() { handler_calls_in_pass = 0; loop->runNext([] {}); loop->runLoop(Loop::Mode::kOnce); }
  void pass() {
    pass_no++;
    // deferred next() calls and handlers due in this pass run from a loop callback (after the pass' fd events), in request order
    for (auto &p : pnext) if (p.due <= pass_no) { int idx = p.idx; loop->runNext([this, idx] { call_next(idx); }); }
    for (auto &p : pending) if (p.due <= pass_no) { int idx = p.idx; loop->runNext([this, idx] { complete(idx); }); }
    raw_pass();
    if (g_transport == "tcp") tcp_drain();
    for (size_t ci = 0; ci < cl.size(); ci++) if (cl[ci].fd >= 0) client_read((int)ci);
  }
  void complete(int idx) {
    for (size_t i = 0; i < pending.size(); i++) if (pending[i].idx == idx) { ContextSptr c = pending[i].ctx; pending.erase(pending.begin() + i); completed++; c.reset(); return; }
  }
  void call_next(int idx) {
    for (size_t i = 0; i < pnext.size(); i++) if (pnext[i].idx == idx) { NextFunc f = pnext[i].next; pnext.erase(pnext.begin() + i); f(); return; }
  }
  // loopback TCP: wait until everything either side wrote has reached the peer's receive queue (keeps replay deterministic)
  void tcp_drain() {
    std::vector<int> fds; for (auto &c : cl) if (c.fd >= 0) fds.push_back(c.fd);
    srv->impl_->tcp_server_.d_->conns.foreach([&](network::TcpConnection *c) { if (c->sp_buffered_fd_) fds.push_back(c->sp_buffered_fd_->fd().get()); });
    // SIOCOUTQNSD = bytes not yet sent (unacknowledged bytes do not count: on loopback "sent" means queued at the peer, and a delayed ACK would cost 40 ms)
    for (int fd : fds) for (int spin = 0; spin < 400; spin++) { int q = 0; if (ioctl(fd, SIOCOUTQNSD, &q) != 0 || q == 0) break; usleep(50); }
  }
  void client_write(int ci, const std::string &bytes) {
    size_t off = 0; Client &c = cl[ci];
    while (off < bytes.size()) { ssize_t n = send(c.fd, bytes.data() + off, bytes.size() - off, MSG_NOSIGNAL); if (n <= 0) { c.wr_failed = true; return; } off += (size_t)n; }
    if (g_transport == "tcp") tcp_drain();
  }
  void client_read(int ci) {
    char b[16384]; Client &c = cl[ci];
    for (;;) { ssize_t n = recv(c.fd, b, sizeof b, 0); if (n > 0) { if (c.eof) viol = "bytes-received-after-eof"; c.rx.append(b, (size_t)n); continue; }
      if (n == 0 && !c.eof) c.eof = true;
      if (n < 0 && errno == ECONNRESET && !c.eof) c.eof = true;
      break; }
    check_stream(ci, false);
  }

  // position (within the connection's request sequence) of the first request that asked for the connection to be closed; -1 = none
  int first_closing(const Client &c) const { for (size_t p = 0; p < c.reqs.size(); p++) if (sent[c.reqs[p]] && kKindDef[kinds[c.reqs[p]]].closing) return (int)p; return -1; }
  static std::string rn(int i) { return "r" + std::to_string(i); }

  // Parse one connection's byte stream into responses: one response per request of THIS connection, in request order, each the handler's response.
  void check_stream(int ci, bool final) {
    if (!viol.empty()) return;
    Client &k = cl[ci];
    k.tags.clear(); size_t pos = 0; int c = first_closing(k);
    while (pos < k.rx.size()) {
      size_t he = k.rx.find("\r\n\r\n", pos); if (he == std::string::npos) break;
      std::string head = k.rx.substr(pos, he - pos);
      if (head.compare(0, 9, "HTTP/1.1 ") != 0) { viol = "client-stream-malformed-response-head"; return; }
      size_t cle = head.find("\r\nContent-Length: "); if (cle == std::string::npos) { viol = "client-stream-response-without-content-length"; return; }
      size_t ve = head.find("\r\n", cle + 18); std::string lenv = head.substr(cle + 18, ve == std::string::npos ? std::string::npos : ve - cle - 18);
      if (lenv.empty() || lenv.size() > 9 || lenv.find_first_not_of("0123456789") != std::string::npos) { viol = "client-stream-response-content-length-is-not-a-decimal-number value=" + lenv; return; }
      size_t n = (size_t)atoi(lenv.c_str()); if (he + 4 + n > k.rx.size()) break;
      std::string whole = k.rx.substr(pos, he + 4 + n - pos), body = k.rx.substr(he + 4, n); pos = he + 4 + n;
      // the whole response (status line, every header, blank line, body) is compared with a string the model builds itself. Position decides which request it has
      // to answer (an untouched 404 carries no tag); only the diagnosis of a mismatch looks for the request it would have been right for
      size_t p = k.tags.size(); int t = p < k.reqs.size() ? k.reqs[p] : -1;
      if (t < 0 || whole != expect_response(t)) {
        int j = -1;
        for (int x : k.reqs) if (j < 0 && whole == expect_response(x) && std::find(k.tags.begin(), k.tags.end(), x) == k.tags.end()) j = x;      // a later request of this connection
        for (int x : k.reqs) if (j < 0 && whole == expect_response(x)) j = x;                                                                    // one already answered
        for (int x = 0; x < (int)kinds.size() && j < 0; x++) if (whole == expect_response(x)) j = x;                                             // a request of another connection
        if (j < 0) { viol = "response-is-not-the-handlers-response" + std::string(t >= 0 ? " expected-for-" + rn(t) + "=[" + expect_response(t).substr(0, 70) + "]" : " (no request left to answer)") + " got=[" + whole.substr(0, 90) + "]" + (whole.size() > 90 ? "...(" + std::to_string(whole.size()) + " bytes)" : ""); for (auto &ch : viol) if (ch == '\r' || ch == '\n') ch = '|'; return; }
        if (owner[j] != ci) { viol = "response-written-to-another-connection " + rn(j) + "-of-connection-" + std::to_string(owner[j]) + "-received-on-connection-" + std::to_string(ci); return; }
        for (int x : k.tags) if (x == j) { viol = "response-written-twice " + rn(j); return; }
        int jp = -1; for (size_t q = 0; q < k.reqs.size(); q++) if (k.reqs[q] == j) jp = (int)q;
        if (c >= 0 && jp > c) { viol = "requests-after-connection-close-are-answered " + rn(j) + "-answered-after-closing-" + rn(k.reqs[c]); return; }
        viol = "responses-out-of-request-order got-" + rn(j) + "-at-position-" + std::to_string(p); return;
      }
      if (c >= 0 && (int)p > c) { viol = "requests-after-connection-close-are-answered " + rn(t) + "-answered-after-closing-" + rn(k.reqs[c]); return; }
      k.tags.push_back(t);
    }
    k.parsed_to = pos;
    if (c >= 0 && (int)k.tags.size() > c && k.rx.size() > k.parsed_to) { viol = "bytes-written-after-the-response-to-the-closing-request"; return; }
    if (final && k.rx.size() > k.parsed_to) { viol = "client-stream-ends-with-a-partial-response" + std::string(k.eof ? " (connection closed by the server)" : ""); return; }
  }

  void flush_out(int ci) { Client &c = cl[ci]; std::string b = c.out; c.out.clear(); std::vector<int> rs = c.out_reqs; c.out_reqs.clear(); client_write(ci, b); for (int r : rs) sent[r] = true; }
  void apply(const Op &o) {
    if (o.k == PASS) { pass(); return; }
    if (o.k == RECONN) {                       // client side closes (responses outstanding or not), then a new connection from the same client slot
      Client &old = cl[cur[o.conn]]; close(old.fd); old.fd = -1; old.client_closed = true; reconns++;
      if (!connect_client(o.conn)) { viol = "harness-reconnect-failed errno=" + std::to_string(errno); return; }
      pass(); return; }
    if (o.k == RESTART) {
      restarts++;
      if (o.kind == 0) { srv->stop(); if (!srv->start()) { viol = "harness-restart-failed (start after stop)"; return; } }
      else { srv->cleanup(); if (!init_server()) { viol = "harness-restart-failed (initialize/start after cleanup) errno=" + std::to_string(errno); return; } }
      // every client takes in what was written before the server went away (stream rules), sees its connection end, and connects again
      for (int s = 0; s < g_nclients; s++) { int oc = cur[s]; client_read(oc); close(cl[oc].fd); cl[oc].fd = -1; cl[oc].client_closed = true;
        if (!connect_client(s)) { viol = "harness-reconnect-failed errno=" + std::to_string(errno); return; } }
      pass(); return; }
    if (o.k == ENDC) {                          // the application shuts the server down while connections are open and handlers outstanding; the contexts are dropped afterwards
      ended = true; srv->cleanup();
      { std::vector<PendingNext> pn; pn.swap(pnext); for (auto &x : pn) x.next(); pn.clear(); }
      { std::vector<Pending> ps; ps.swap(pending); completed += (int)ps.size(); ps.clear(); }
      for (auto &k : cl) k.client_closed = true;      // what the clients got up to here obeys the stream rules; nothing more is owed to them
      pass(); return; }
    int ci = cur[o.conn];
    if (o.k == RAW) { cl[ci].out += kRawText[o.kind]; flush_out(ci); cl[ci].malformed_sent = true; pass(); return; }
    int i = (int)kinds.size(); bool hostile = o.k == HCL; hcl.push_back(hostile ? o.kind : -1);
    if (hostile && !hcl_wellformed(o.kind)) cl[ci].malformed_sent = true;      // a value the model reads as the plain decimal 5 makes an ordinary request: fully judged
    rels.push_back(o.rel); rvs.push_back(o.rv); g_blen.resize((size_t)i + 1, -1); g_blen[i] = o.bl - 1;
    kinds.push_back(hostile ? KEEP : o.kind); delays.push_back(o.delay); sent.push_back(false); segs.push_back(o.seg); nds.push_back(o.nd); bigs.push_back(o.big); owner.push_back(ci);
    cl[ci].reqs.push_back(i);
    std::string t = hostile ? hcl_text(i, o.kind) : req_text(i, o.kind);
    if (verbose && hostile) printf("hostile request text: %s\n", t.c_str());
    if (o.seg == GLUED) { cl[ci].out += t; cl[ci].out_reqs.push_back(i); return; }
    if (o.seg == ALONE && o.cclose) {           // request and end-of-stream reach the server in the same pass: it answers a peer that has already gone
      cl[ci].out += t; cl[ci].out_reqs.push_back(i); flush_out(ci);
      close(cl[ci].fd); cl[ci].fd = -1; cl[ci].client_closed = true; reconns++;
      if (!connect_client(o.conn)) { viol = "harness-reconnect-failed errno=" + std::to_string(errno); return; }
      pass(); return; }
    if (o.seg == ALONE) { cl[ci].out += t; cl[ci].out_reqs.push_back(i); flush_out(ci); pass(); return; }
    if (o.seg == BYTES) {                      // every byte its own segment (the bytes glued so far go with the first one)
      for (size_t x = 0; x < t.size(); x++) { cl[ci].out += t[x]; if (x + 1 == t.size()) cl[ci].out_reqs.push_back(i); flush_out(ci); pass(); if (!viol.empty()) return; }
      return; }
    // CUT*: everything glued so far + the first part in one segment, a pass, then the rest, a pass
    size_t blank = t.find("\r\n\r\n") + 4;
    size_t half = o.seg == CUTM ? 2 : o.seg == CUTBL ? blank : o.seg == CUTLAST ? t.size() - 1 : t.size() / 2;
    if (half == 0 || half >= t.size()) { cl[ci].out += t; cl[ci].out_reqs.push_back(i); flush_out(ci); pass(); return; }      // nothing to cut off (empty body): one segment
    cl[ci].out += t.substr(0, half); std::string first = cl[ci].out; cl[ci].out.clear(); std::vector<int> rs = cl[ci].out_reqs; cl[ci].out_reqs.clear();
    client_write(ci, first); for (int r : rs) sent[r] = true;
    pass();
    client_write(ci, t.substr(half)); sent[i] = true;
    pass();
  }

  std::string canon() {
    std::string c; char b[256];
    auto *im = srv->impl_;
    g_field_missing = false;
    snprintf(b, sizeof b, "conns=%ld tcp=%zu|", f_conns(im, 0), tcp_conns()); c += b;
    im->tcp_server_.d_->conns.foreach([&](network::TcpConnection *tc) {      // cabinet slot order
      void *ctx = tc->getContext();
      if (!ctx) c += "conn=null "; else c += conn_fields(im, ctx, 0);
      network::BufferedFd *bf = tc->sp_buffered_fd_;
      if (!bf) { c += "bfd=null|"; return; }
      // send buffer: empty or not (how many bytes the kernel took in one write is the environment's business)
      snprintf(b, sizeof b, "bfd st=%ld rb=%ld sb=%ld wev=%ld|", f_bfd_state(bf, 0), f_bfd_rb(bf, 0), f_bfd_sb(bf, 0), f_bfd_wev(bf, 0)); c += b; });
    snprintf(b, sizeof b, "next=%ld|", f_next_queue(static_cast<CommonLoop *>(loop), 0)); c += b;
    // outstanding handlers: when they are due and what they will write (size and flavour of the response are part of the model's future)
    c += "pend="; for (auto &p : pending) c += std::to_string(p.idx) + "@" + std::to_string(p.due - pass_no) + (bigs[p.idx] ? "B" : "") + (rvs[p.idx] ? "v" + std::to_string(rvs[p.idx]) : "") + ",";
    c += "|pnext="; for (auto &p : pnext) c += std::to_string(p.idx) + "@" + std::to_string(p.due - pass_no) + "d" + std::to_string(delays[p.idx]) + ",";
    snprintf(b, sizeof b, "|restarts=%d ended=%d", restarts, (int)ended); c += b;
    snprintf(b, sizeof b, "|issued=%zu delivered=%zu answering=%zu reconns=%d", kinds.size(), delivered.size(), finals.size(), reconns); c += b;
    for (int s = 0; s < g_nclients; s++) {
      Client &k = cl[cur[s]];
      c += "|c" + std::to_string(s) + " reqs="; for (int r : k.reqs) c += std::to_string(r) + ",";
      c += " glued="; for (int r : k.out_reqs) c += std::string(kKindDef[kinds[r]].name) + std::to_string(delays[r]) + (nds[r] ? "n" + std::to_string(nds[r]) : "") + (bigs[r] ? "B" : "") + (rels[r] ? "R" : "") + (g_blen[r] >= 0 ? "b" + std::to_string(g_blen[r]) : "") + (rvs[r] ? "v" + std::to_string(rvs[r]) : "") + ",";
      snprintf(b, sizeof b, " closing=%d got=%zu partial=%d eof=%d wrfail=%d bad=%d", first_closing(k), k.tags.size(), (int)(k.rx.size() > k.parsed_to), (int)k.eof, (int)k.wr_failed, (int)k.malformed_sent); c += b;
    }
    return c;
  }

  size_t total_rx() { size_t n = 0; for (auto &c : cl) n += c.rx.size() + (c.eof ? 1 : 0); return n; }
  // after the history: let everything complete, then the end-to-end oracle, connection by connection
  void settle_and_judge() {
    size_t last = total_rx(); int quiet = 0;
    for (int i = 0; i < 200 && (i < 4 || !pending.empty() || !pnext.empty() || quiet < 3); i++) {
      pass(); size_t n = total_rx(); quiet = n == last ? quiet + 1 : 0; last = n;
      if (verbose) printf("settle pass %d: %s\n", i + 1, canon().c_str());
      if (!viol.empty()) return;
    }
    for (size_t ci = 0; ci < cl.size() && viol.empty(); ci++) judge((int)ci);
  }
  void judge(int ci) {
    Client &k = cl[ci];
    if (k.client_closed) return;     // the client went away: whatever it had received obeyed the stream rules (checked at every read); the rest is crash/hang freedom
    int c = first_closing(k);
    if (g_transport == "tcp" && c >= 0 && !k.eof) { struct pollfd p = {k.fd, POLLIN, 0}; poll(&p, 1, 200); client_read(ci); }
    check_stream(ci, true); if (!viol.empty()) return;
    if (k.malformed_sent) return;      // after a malformed request only crash/hang freedom and the stream-level rules (no duplicate, order, nothing after close) are judged
    // a request that never reaches the handler (connection dropped by a parse failure, ...) is the root cause of whatever else is missing: report it first
    for (size_t p = 0; p < k.reqs.size(); p++) {
      int i = k.reqs[p];
      if (!sent[i] || (c >= 0 && (int)p > c)) continue;
      bool got = false; for (int d : delivered) if (d == i) got = true;
      if (!got) { viol = std::string(segs[i] == CUTM ? "request-cut-inside-method-token-never-handed-to-handler " : "request-never-handed-to-handler ") + rn(i) + " (" + kKindDef[kinds[i]].name + (p ? std::string(", after ") + kKindDef[kinds[k.reqs[p - 1]]].name : std::string()) + ")" + (k.eof ? " (connection closed by the server)" : ""); return; }
    }
    for (size_t p = 0; p < k.reqs.size(); p++) {
      int i = k.reqs[p]; bool handed = false; for (int d : delivered) if (d == i) handed = true;
      if (!handed) continue;
      bool answered = p < k.tags.size();
      if (c >= 0 && (int)p > c) { if (!answered) { viol = "requests-after-connection-close-are-handed-to-handler-not-answered " + rn(i); return; } continue; }
      if (!answered) {
        std::string sg = std::string("response-never-written-to-") + ((int)p == c ? "closing-request" : c >= 0 ? "request-before-closing-request" : "keep-alive-request")
                       + (bigs[i] ? "-big-response" : "") + (delays[i] || nds[i] ? "-handler-completes-after-callback" : "-handler-completes-in-callback");
        viol = sg + " " + rn(i) + " handler-delay=" + std::to_string(delays[i] + nds[i]) + (k.eof ? " (connection already closed by the server)" : ""); return; }
    }
    if (c >= 0 && (int)k.tags.size() > c && !k.eof) { viol = "connection-not-closed-after-the-response-to-the-closing-request"; return; }
  }
};
void FinalMw::handle(ContextSptr ctx, const NextFunc &) { w->on_final(ctx); }

static std::string show_op(const Op &o) {
  if (o.k == PASS) return "pass";
  if (o.k == RAW) return std::string("raw(") + kRaw[o.kind] + ")";
  if (o.k == RECONN) return "reconn(c" + std::to_string(o.conn) + ")";
  if (o.k == RESTART) return o.kind ? "restart(cleanup-initialize)" : "restart(stop-start)";
  if (o.k == ENDC) return "end(cleanup-with-live-connections)";
  if (o.k == HCL) return "hcl(v" + std::to_string(o.kind) + "," + kSeg[o.seg] + ")";      // value = kHcl[v], printed by the lane as @INFO and by replay
  char b[96]; int n = snprintf(b, sizeof b, "req(%s,d%d,%s", kKindDef[o.kind].name, o.delay, kSeg[o.seg]);
  if (o.conn) n += snprintf(b + n, sizeof b - n, ",c%d", o.conn);
  if (o.nd) n += snprintf(b + n, sizeof b - n, ",n%d", o.nd);
  if (o.big) n += snprintf(b + n, sizeof b - n, ",big");
  if (o.rel) n += snprintf(b + n, sizeof b - n, ",rel");
  if (o.cclose) n += snprintf(b + n, sizeof b - n, ",xclose");
  if (o.rv) n += snprintf(b + n, sizeof b - n, ",v%d", o.rv);
  if (o.bl) n += snprintf(b + n, sizeof b - n, ",b%d", o.bl - 1);
  snprintf(b + n, sizeof b - n, ")"); return b;
}
static bool parse_hist(const std::string &s, std::vector<Op> &h) {
  size_t p = 0;
  while (p < s.size()) {
    while (p < s.size() && s[p] == ' ') p++; if (p >= s.size()) break;
    size_t e = s.find(' ', p); std::string t = s.substr(p, e == std::string::npos ? std::string::npos : e - p); p = e == std::string::npos ? s.size() : e;
    if (t == "pass") { h.push_back(Op{PASS, 0, 0, 0, 0, 0, 0}); continue; }
    if (t == "raw(bad-content-length)") { h.push_back(Op{RAW, BAD_CONTENT_LENGTH, 0, 0, 0, 0, 0}); continue; }
    if (t == "raw(bad-method)") { h.push_back(Op{RAW, BAD_METHOD, 0, 0, 0, 0, 0}); continue; }
    if (t == "restart(stop-start)") { h.push_back(Op{RESTART, 0}); continue; }
    if (t == "restart(cleanup-initialize)") { h.push_back(Op{RESTART, 1}); continue; }
    if (t == "end(cleanup-with-live-connections)") { h.push_back(Op{ENDC, 0}); continue; }
    if (t.compare(0, 8, "reconn(c") == 0) { h.push_back(Op{RECONN, 0, 0, 0, atoi(t.c_str() + 8), 0, 0}); continue; }
    if (t.compare(0, 5, "hcl(v") == 0) { Op o{HCL, atoi(t.c_str() + 5), 0, t.find(",cut") != std::string::npos ? CUT : ALONE, 0, 0, 0}; if (o.kind < 0 || o.kind >= kNHcl) return false; h.push_back(o); continue; }
    if (t.compare(0, 4, "req(") != 0 || t.back() != ')') return false;
    std::vector<std::string> f; { std::string in = t.substr(4, t.size() - 5); size_t q = 0; for (;;) { size_t c = in.find(',', q); f.push_back(in.substr(q, c == std::string::npos ? std::string::npos : c - q)); if (c == std::string::npos) break; q = c + 1; } }
    if (f.size() < 3) return false;
    Op o = mkreq(-1, atoi(f[1].c_str() + 1), -1);
    for (int i = 0; i < NKIND; i++) if (f[0] == kKindDef[i].name) o.kind = i;
    for (int i = 0; i < NSEG; i++) if (f[2] == kSeg[i]) o.seg = i;
    if (o.kind < 0 || o.seg < 0) return false;
    for (size_t i = 3; i < f.size(); i++) { if (f[i] == "big") o.big = 1; else if (f[i] == "rel") o.rel = 1; else if (f[i][0] == 'b' && isdigit((unsigned char)f[i][1])) o.bl = atoi(f[i].c_str() + 1) + 1; else if (f[i] == "xclose") o.cclose = 1; else if (f[i][0] == 'v') o.rv = atoi(f[i].c_str() + 1); else if (f[i][0] == 'c') o.conn = atoi(f[i].c_str() + 1); else if (f[i][0] == 'n') o.nd = atoi(f[i].c_str() + 1); else return false; }
    h.push_back(o);
  }
  return true;
}

// a child that runs into the explorer's alarm leaves a backtrace behind (diagnosis of genuine hangs vs. an overloaded machine)
static void on_alarm(int sg) {
  const char *dir = getenv("C12_SOCK_DIR"); char path[300]; snprintf(path, sizeof path, "%s/alarm-%d.txt", dir ? dir : "/tmp", (int)getpid());
  int fd = open(path, O_WRONLY | O_CREAT | O_TRUNC, 0644);
  if (fd >= 0) { void *bt[48]; int n = backtrace(bt, 48); backtrace_symbols_fd(bt, n, fd); close(fd); }
  signal(sg, SIG_DFL); raise(sg);
}

static std::string run_history(const std::vector<Op> &h, std::string &viol, bool verbose) {
  signal(SIGALRM, on_alarm); signal(SIGPROF, on_alarm);
  // hang detection by CPU time (robust on an overloaded machine): 15 CPU-seconds for one history is a busy hang -> crash:signal27;
  // a blocked child runs into the explorer's (long) wall-clock alarm -> crash:signal14
  { struct itimerval it; memset(&it, 0, sizeof it); it.it_value.tv_sec = 15; setitimer(ITIMER_PROF, &it, nullptr); }
  World w;
  if (!w.setup()) { viol = "harness-setup-failed errno=" + std::to_string(errno); return "setup-failed"; }
  w.verbose = verbose;
  if (setjmp(g_bail)) { viol = w.viol; if (verbose) printf("verdict: %s\n", viol.c_str()); std::string *leak = new std::string("watchdog"); return *leak; }      // World is abandoned as it is
  for (auto &o : h) { w.apply(o); if (verbose) printf("after %-22s %s\n", show_op(o).c_str(), w.canon().c_str()); if (!w.viol.empty()) break; }
  std::string c = w.canon();
  if (w.viol.empty()) w.settle_and_judge();
  if (verbose) {
    printf("canon: %s\nafter settling: %s\ndelivered:", c.c_str(), w.canon().c_str()); for (int d : w.delivered) printf(" r%d", d);
    for (size_t ci = 0; ci < w.cl.size(); ci++) { Client &k = w.cl[ci]; printf("\nconnection %zu (client slot %d%s): responses received:", ci, k.slot, k.client_closed ? ", closed by the client" : ""); for (int t : k.tags) printf(" r%d", t); printf("  eof=%d rx_bytes=%zu", (int)k.eof, k.rx.size()); }
    printf("\nverdict: %s\n", w.viol.empty() ? "ok" : w.viol.c_str());
  }
  viol = w.viol;
  w.teardown();
  return c;
}

// C12_GROUPING_LOCALE=1: the process-wide C++ locale groups digits by thousands (what std::locale::global(std::locale("en_US.UTF-8")) does in an application).
// Default OFF: with it Respond::toString() (respond.cpp:37, `oss << body.length()`) writes "Content-Length: 12,006" for the big lane's responses - see the report.
struct GroupingNumpunct : std::numpunct<char> { char do_thousands_sep() const override { return ','; } std::string do_grouping() const override { return "\3"; } };
int main(int argc, char **argv) {
  if (getenv("C12_GROUPING_LOCALE") && atoi(getenv("C12_GROUPING_LOCALE"))) { g_grouping_locale = true; std::locale::global(std::locale(std::locale::classic(), new GroupingNumpunct)); }
  if (argc > 1 && !strcmp(argv[1], "counts")) { printf("nhcl=%d\n", kNHcl); return 0; }
  g_transport = argc > 1 ? argv[1] : "unix"; g_engine = argc > 2 ? argv[2] : "epoll";
  if (argc > 4 && !strcmp(argv[3], "replay")) {      // replay "<history>" [lane]
    if (argc > 5) set_lane(argv[5]);
    std::vector<Op> h; if (!parse_hist(argv[4], h)) { fprintf(stderr, "bad history\n"); return 0; }
    for (auto &o : h) if (o.conn >= g_nclients) { fprintf(stderr, "history uses client slot %d: replay it with the lane it came from (multi)\n", o.conn); return 0; }
    std::string v; run_history(h, v, true); return 0;
  }
  size_t depth = argc > 3 ? atoi(argv[3]) : 6; int maxreq = argc > 4 ? atoi(argv[4]) : 3;
  // lanes: ""       = the full single-connection alphabet (keep | close | http10; delays 0-2; alone | glued | cut | cutm; malformed requests)
  //        keeponly = longer pipelines of plain keep-alive requests, every completion order
  //        hdr      = Connection header variants (keep-alive on 1.1 and 1.0, multi-token values) next to the closing kinds
  //        big      = responses that need several partial socket writes (server-side SO_SNDBUF minimal), mixed with small ones
  //        multi    = two connections at once + the client closing a connection (work outstanding or not) and reconnecting
  //        bodycut  = body lengths 0/1/2/5 x cut after the blank line | before the last body byte | byte by byte, last on the connection or before another request
  //        hcl      = a request with a hostile Content-Length value (after 0-2 valid requests, followed by a valid one): loop pass ends, handler not entered twice
  //        resp     = response variants (headers, empty body, untouched 404 without a tag): the whole response is compared
  //        life     = stop()/start(), cleanup()/initialize()/use()/start() and a final cleanup() with connections open and handlers outstanding
  //        mw       = two callbacks: the first defers next() by 0-2 passes, the second (a Middleware object) answers
  std::string lane = argc > 5 ? argv[5] : ""; set_lane(lane);
  hx::Explorer<Op> ex; ex.name = g_transport + "/" + g_engine; if (!lane.empty()) ex.name += "/" + lane;
  ex.deadline_s = hx::deadline_from_env(600);
  ex.fork_workers = (int)hx::env_int("VERIF_WORKERS", 4);
  ex.child_timeout_s = 120; ex.max_viol_print = 1000000;     // the per-signature limit (3) still applies
  ex.show = show_op;
  // signature = first token of the violation text; a child killed by the escaping std::stoi exception gets a readable name
  ex.sig = [](const std::string &v) {
    if (v.compare(0, 6, "crash:") == 0 && v.find("uncaught-exception") != std::string::npos && v.find("stoi") != std::string::npos) return std::string("server-terminates-on-uncaught-stoi-exception-from-content-length");
    if (v.compare(0, 14, "crash:signal27") == 0) return std::string("server-busy-hang-cpu-watchdog-15s");
    return v.substr(0, v.find(' ')); };
  const Op PASSOP{PASS, 0, 0, 0, 0, 0, 0};
  ex.menu = [&](const std::vector<Op> &h) {
    std::vector<Op> m; int nreq = 0, nrec = 0; bool glued_open = false, bad = false, used1 = false;
    for (auto &o : h) { if (o.k == HCL) { nreq++; glued_open = false; } if (o.k == REQ) { nreq++; glued_open = (o.seg == GLUED); if (o.conn == 1) used1 = true; } if (o.k == RAW) { bad = true; glued_open = false; } if (o.k == RECONN || (o.k == REQ && o.cclose)) nrec++; }
    bool more = nreq < maxreq && !bad;
    if (!h.empty() && h.back().k == ENDC) return m;      // terminal
    if (lane == "keeponly") { if (more) { for (int seg : {GLUED, ALONE}) for (int d : {0, 1, 2, 3}) m.push_back(mkreq(KEEP, d, seg));
                                          for (int seg : {GLUED, ALONE}) m.push_back(mkreq(KEEP, 0, seg, 0, 0, 0, 1)); } }      // rel: completes the earlier requests' contexts from inside its own handler
    else if (lane == "resp") { if (more) { for (int kind : {KEEP, CLOSE}) for (int rv : {1, 2, 3}) for (int d : {0, 1}) m.push_back(mkreq(kind, d, ALONE, 0, 0, 0, 0, 0, rv));
                                           for (int kind : {KEEP, CLOSE}) for (int rv : {1, 2, 3}) m.push_back(mkreq(kind, 0, GLUED, 0, 0, 0, 0, 0, rv)); } }
    else if (lane == "life") {
      int nrs = 0; for (auto &o : h) if (o.k == RESTART) nrs++;
      if (more) for (int kind : {KEEP, CLOSE}) for (int d : {0, 1, 2}) m.push_back(mkreq(kind, d, ALONE));
      if (nrs < 2 && nreq > 0) for (int v : {0, 1}) m.push_back(Op{RESTART, v});
      if (nreq > 0) m.push_back(Op{ENDC, 0});
    }      // delays 0-3: 4 requests can complete fully reversed
    else if (lane == "hdr") { if (more) for (int seg : {ALONE, GLUED}) for (int kind : {KEEP11H, KEEP10H, KEEP10TE, CLOSE11TE, CLOSE}) for (int d : {0, 1}) m.push_back(mkreq(kind, d, seg)); }
    else if (lane == "big") { if (more) for (int seg : {ALONE, GLUED}) for (int kind : {KEEP, CLOSE}) for (int big : {1, 0}) for (int d : {0, 1}) m.push_back(mkreq(kind, d, seg, 0, 0, big));
                              if (nrec < 1 && nreq > 0 && !glued_open) m.push_back(Op{RECONN, 0, 0, 0, 0, 0, 0}); }      // the client goes away while the send buffer still holds (part of) a response
    else if (lane == "mw") { if (more) { for (int kind : {KEEP, CLOSE}) for (int nd : {0, 1, 2}) for (int d : {0, 1}) m.push_back(mkreq(kind, d, ALONE, 0, nd));
                                         for (int kind : {KEEP, CLOSE}) for (int nd : {0, 2}) m.push_back(mkreq(kind, 0, GLUED, 0, nd)); } }
    else if (lane == "bodycut") {
      // body lengths 0/1/2/5; the cut right after the blank line, before the last body byte, or every byte alone; as the last thing on the connection (then passes) or before another request
      if (more) for (int bl : {1, 0, 2, 5}) for (int seg : {CUTLAST, CUTBL, BYTES, ALONE}) {
        if ((bl == 0 && (seg == CUTLAST || seg == CUTBL)) || (bl > 0 && seg == ALONE) || (bl == 1 && seg == CUTBL)) continue;      // the same segmentation as another entry
        for (int d : {0, 1}) { Op o = mkreq(KEEP, d, seg); o.bl = bl + 1; m.push_back(o); }
        Op o = mkreq(CLOSE, 0, seg); o.bl = bl + 1; m.push_back(o); }
    }
    else if (lane == "hcl") {
      bool hostile_sent = false; for (auto &o : h) if (o.k == HCL) hostile_sent = true;
      if (!hostile_sent && nreq < maxreq) { for (int d : {0, 1}) m.push_back(mkreq(KEEP, d, ALONE)); for (int seg : {ALONE, CUT}) for (int v = 0; v < kNHcl; v++) m.push_back(Op{HCL, v, 0, seg, 0, 0, 0}); }
      else if (hostile_sent && nreq < maxreq && h.back().k == HCL) m.push_back(mkreq(KEEP, 0, ALONE));      // bytes that follow the hostile request
    }
    else if (lane == "multi") {
      // client slot 1 sends only after slot 0 has sent (the two slots are interchangeable until then)
      if (more) for (int conn : {0, 1}) { if (conn == 1 && nreq == 0) continue; for (int kind : {KEEP, CLOSE}) for (int d : {0, 1, 2}) m.push_back(mkreq(kind, d, ALONE, conn));
        if (nreq > 0) m.push_back(mkreq(KEEP, 0, ALONE, conn, 0, 0, 1));                                   // rel: completes the contexts of BOTH connections from inside this request's handler
        if (nrec < 2) for (int d : {0, 1}) m.push_back(mkreq(KEEP, d, ALONE, conn, 0, 0, 0, 1)); }          // xclose: request and close in one step
      if (nrec < 2 && nreq > 0) for (int conn : {0, 1}) { if (conn == 1 && !used1) continue; m.push_back(Op{RECONN, 0, 0, 0, conn, 0, 0}); }
    }
    else if (more) {
      for (int seg : {ALONE, GLUED}) for (int kind : {KEEP, CLOSE, HTTP10}) for (int d : {0, 1, 2}) m.push_back(mkreq(kind, d, seg));
      for (int kind : {KEEP, CLOSE, HTTP10}) for (int d : {0, 1}) m.push_back(mkreq(kind, d, CUT));
      m.push_back(mkreq(KEEP, 0, CUTM));
      for (int v : {BAD_CONTENT_LENGTH, BAD_METHOD}) m.push_back(Op{RAW, v, 0, 0, 0, 0, 0});
    }
    if (!glued_open) m.push_back(PASSOP);      // a pass while bytes are still held back by the client would only reorder equivalent histories
    return m; };
  ex.run = [&](const std::vector<Op> &h, std::string &viol) { return run_history(h, viol, false); };
  if (lane == "hcl") { std::string t = "@INFO " + ex.name + " hostile Content-Length values:"; for (int v = 0; v < kNHcl; v++) t += " v" + std::to_string(v) + "='" + kHcl[v] + "'"; printf("%s  (@H = size of the request's own head)\n", t.c_str()); }
  ex.explore(depth);
  return 0;
}
