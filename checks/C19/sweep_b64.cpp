// C19 sweeps: Base64 (see harness.cpp for the reading of the property and the protocol)
#include "common.h"
#include <tbox/util/base64.h>
using namespace c19;
namespace b64 = tbox::util::base64;

// ================================================================== Base64
static const char kB64[] = "ABCDEFGHIJKLMNOPQRSTUVWXYZabcdefghijklmnopqrstuvwxyz0123456789+/";
static std::string ref_b64enc(const uint8_t *p, size_t n) {           // RFC 4648 section 4, bit accumulator
  std::string o; uint32_t acc = 0; int bits = 0;
  for (size_t i = 0; i < n; i++) { acc = ((acc << 8) | p[i]) & 0xFFFFF; bits += 8; while (bits >= 6) { bits -= 6; o.push_back(kB64[(acc >> bits) & 63]); } }
  if (bits > 0) o.push_back(kB64[(acc << (6 - bits)) & 63]);
  while (o.size() % 4) o.push_back('=');
  return o;
}
static int b64val(uint8_t c) { for (int i = 0; i < 64; i++) if ((uint8_t)kB64[i] == c) return i; return -1; }
// strict validity: non-empty, multiple of 4, alphabet only, 0..2 '=' only at the very end
static bool ref_b64dec(const uint8_t *s, size_t len, std::vector<uint8_t> &out) {
  out.clear(); if (len == 0 || len % 4) return false;
  size_t pads = 0; if (s[len - 1] == '=') { pads = 1; if (s[len - 2] == '=') pads = 2; }
  uint32_t acc = 0; int bits = 0;
  for (size_t i = 0; i < len - pads; i++) { int v = b64val(s[i]); if (v < 0) return false; acc = ((acc << 6) | (uint32_t)v) & 0xFFFFF; bits += 6; if (bits >= 8) { bits -= 8; out.push_back((uint8_t)(acc >> bits)); } }
  return true;
}
static std::string b64_dec_sig(const char *api, const uint8_t *s, size_t len, long cap, size_t DL) {
  if (has_high(s, len) && (desc_has("out-of-bounds-index") || desc_has("global-buffer-overflow"))) return "base64-decode-negative-char-index";
  if (desc_has("heap-buffer-overflow:WRITE") && cap == (long)DL) return "base64-decode-writes-past-exact-output";
  return generic_san_sig(std::string("base64-") + api);
}

static void b64_roundtrip_one(const uint8_t *x, size_t n) {
  if (g_asserts_live && n == 0) return;      // base64.cpp asserts raw_data_len > 0 and base64_size > 0 in debug builds
  C.states++;
  const std::string ref = ref_b64enc(x, n); const size_t E = ref.size();
  const ShowIn si(x, n);
  C.transitions++;
  if (b64::EncodeLength(n) != E) viol("base64-EncodeLength-differs-from-rfc4648", si);
  // --- Encode into caller buffer, capacity exact / exact-1 / 0
  long caps[3] = {(long)E, (long)E - 1, 0};
  for (int ci = 0; ci < 3; ci++) { long cap = caps[ci]; if (cap < 0 || (ci == 2 && E <= 1)) continue; if (ci == 1 && cap == 0 && E != 1) continue;
    if (g_asserts_live && cap == 0) continue;
    C.transitions++;
    Ex in(x, n), out((size_t)cap);
    Guard g("base64.Encode(buf)", x, n, cap);
    size_t r = b64::Encode(in.p, n, out.c(), (size_t)cap);
    if (g.hit()) viol(generic_san_sig("base64-encode-buf") + (cap == (long)E ? "-exact-capacity" : "-short-capacity"), si + " cap=" + std::to_string(cap) + " " + Guard::desc());
    if (cap == (long)E) { if (r != E) viol("base64-encode-length-not-as-advertised", si + " ret=" + std::to_string(r) + " EncodeLength=" + std::to_string(E));
                          else if (memcmp(out.p, ref.data(), E) != 0) viol("base64-encode-content-differs-from-rfc4648", si + " got=" + std::string(out.c(), E) + " want=" + ref); }
    else if (r != 0) viol("base64-encode-short-capacity-not-refused", si + " cap=" + std::to_string(cap) + " ret=" + std::to_string(r));
  }
  // --- Encode returning std::string (pointer and vector overloads)
  { C.transitions++; Ex in(x, n); Guard g("base64.Encode(str)", x, n);
    std::string e1 = b64::Encode(in.p, n);
    if (g.hit()) viol(generic_san_sig("base64-encode-str"), si + " " + Guard::desc());
    if (e1 != ref) viol("base64-encode-content-differs-from-rfc4648", si + " api=string got=" + e1 + " want=" + ref);
    std::vector<uint8_t> v(x, x + n); Guard g2("base64.Encode(vec)", x, n);
    std::string e2 = b64::Encode(v);
    if (g2.hit()) viol(generic_san_sig("base64-encode-vec"), si + " " + Guard::desc());
    if (e2 != ref) viol("base64-encode-content-differs-from-rfc4648", si + " api=vector got=" + e2 + " want=" + ref); }
  // --- DecodeLength of the encoding (three overloads) must be n
  { C.transitions++; Ex e(ref.data(), E); Guard g("base64.DecodeLength", (const uint8_t *)ref.data(), E);
    size_t d1 = b64::DecodeLength(e.c(), E), d2 = b64::DecodeLength(ref), d3 = b64::DecodeLength(ref.c_str());
    if (g.hit()) viol(generic_san_sig("base64-DecodeLength"), si + " " + Guard::desc());
    if (d1 != n || d2 != n || d3 != n) viol("base64-DecodeLength-not-inverse-of-EncodeLength", si + " enc=" + ref + " got=" + std::to_string(d1) + "/" + std::to_string(d2) + "/" + std::to_string(d3)); }
  // --- Decode into caller buffer, capacity exact(=DecodeLength) / exact-1 / 0
  long dcaps[3] = {(long)n, (long)n - 1, 0};
  for (int ci = 0; ci < 3; ci++) { long cap = dcaps[ci]; if (cap < 0 || (ci == 2 && n <= 1)) continue;
    C.transitions++;
    Ex e(ref.data(), E), out((size_t)cap);
    Guard g("base64.Decode(buf)", (const uint8_t *)ref.data(), E, cap);
    size_t r = b64::Decode(e.c(), E, out.p, (size_t)cap);
    if (g.hit()) viol(b64_dec_sig("decode-buf", (const uint8_t *)ref.data(), E, cap, n), "enc=\"" + ref + "\" (plain " + si + ") cap=" + std::to_string(cap) + " DecodeLength=" + std::to_string(n) + " " + Guard::desc());
    if (cap == (long)n) { if (r != n) viol("base64-roundtrip-length", si + " enc=" + ref + " ret=" + std::to_string(r));
                          else if (n && memcmp(out.p, x, n) != 0) viol("base64-roundtrip-content", si + " enc=" + ref + " got=" + hexs(out.p, n)); }
    else if (r != 0) viol("base64-decode-short-capacity-not-refused", si + " enc=" + ref + " cap=" + std::to_string(cap) + " ret=" + std::to_string(r));
  }
  // --- Decode(const char* NUL-terminated) with exact capacity
  { C.transitions++; Ex z(E + 1, 0); memcpy(z.p, ref.data(), E); Ex out(n);
    Guard g("base64.Decode(cstr)", (const uint8_t *)ref.data(), E, (long)n);
    size_t r = b64::Decode(z.c(), out.p, n);
    if (g.hit()) viol(b64_dec_sig("decode-cstr", (const uint8_t *)ref.data(), E, (long)n, n), "enc=\"" + ref + "\" (plain " + si + ") cap=" + std::to_string(n) + " " + Guard::desc());
    if (r != n || (n && memcmp(out.p, x, n) != 0)) viol("base64-roundtrip-content", si + " api=cstr enc=" + ref + " ret=" + std::to_string(r)); }
  // --- Decode(std::string, vector): appends to the vector
  for (int pre = 0; pre < 2; pre++) { C.transitions++;
    std::vector<uint8_t> v; if (pre) { v.push_back(0xEE); v.push_back(0xEF); }
    Guard g("base64.Decode(vec)", (const uint8_t *)ref.data(), E);
    size_t r = b64::Decode(ref, v);
    if (g.hit()) viol(b64_dec_sig("decode-vec", (const uint8_t *)ref.data(), E, -1, n), "enc=\"" + ref + "\" (plain " + si + ") " + Guard::desc());
    size_t off = pre ? 2 : 0;
    if (r != n || v.size() != off + n || (n && memcmp(v.data() + off, x, n) != 0) || (pre && (v[0] != 0xEE || v[1] != 0xEF)))
      viol("base64-roundtrip-content", si + " api=vector prefill=" + std::to_string(off) + " enc=" + ref + " ret=" + std::to_string(r) + " got=" + hexs(v.data(), v.size())); }
  if (interesting_sample(x, n)) sample_force("base64 round trip " + si + " -> \"" + ref + "\" caps{exact,exact-1,0} all overloads");
}

static void b64_hostile_one(const uint8_t *s, size_t len) {
  if (out_of_time()) return;
  C.states++;
  std::vector<uint8_t> want; const bool valid = ref_b64dec(s, len, want);
  const ShowIn si(s, len);
  Ex in(s, len);
  size_t DL; { Guard g("base64.DecodeLength", s, len); DL = b64::DecodeLength(in.c(), len);
    if (g.hit()) viol(generic_san_sig("base64-DecodeLength"), si + " " + Guard::desc()); }
  if (DL > len / 4 * 3) viol("base64-DecodeLength-exceeds-3/4-of-input", si + " DecodeLength=" + std::to_string(DL));
  if (valid && DL != want.size()) viol("base64-DecodeLength-wrong-on-valid-input", si + " got=" + std::to_string(DL) + " want=" + std::to_string(want.size()));
  long caps[4] = {(long)DL, (long)DL - 1, 0, (long)(len / 4 * 3)};
  for (int ci = 0; ci < 4; ci++) { long cap = caps[ci]; if (cap < 0) continue; if (ci >= 2 && (cap == caps[0] || cap == caps[1])) continue; if (ci == 3 && cap == 0) continue;
    C.transitions++;
    Ex out((size_t)cap);
    Guard g("base64.Decode(buf)", s, len, cap);
    size_t r = b64::Decode(in.c(), len, out.p, (size_t)cap);
    if (g.hit()) viol(b64_dec_sig("decode-buf", s, len, cap, DL), si + " cap=" + std::to_string(cap) + " DecodeLength=" + std::to_string(DL) + " " + Guard::desc());
    if (r > (size_t)cap) viol("base64-decode-returns-more-than-capacity", si + " cap=" + std::to_string(cap) + " ret=" + std::to_string(r));
    if (valid) { if (cap >= (long)want.size()) { if (r != want.size() || (r && memcmp(out.p, want.data(), r) != 0)) viol("base64-decode-valid-input-wrong-result", si + " cap=" + std::to_string(cap) + " ret=" + std::to_string(r) + " want=" + hexs(want.data(), want.size())); }
                 else if (r != 0) viol("base64-decode-short-capacity-not-refused", si + " cap=" + std::to_string(cap) + " ret=" + std::to_string(r)); }
    else if (ci == 0) outcome(r ? "base64.Decode(buf): invalid input accepted leniently (ret>0, within capacity)" : "base64.Decode(buf): invalid input refused (ret 0)");
  }
  { C.transitions++; std::string str((const char *)s, len); std::vector<uint8_t> v;
    Guard g("base64.Decode(vec)", s, len);
    size_t r = 0; bool threw = false; try { r = b64::Decode(str, v); } catch (...) { threw = true; }
    if (g.hit()) viol(b64_dec_sig("decode-vec", s, len, -1, DL), si + " api=vector " + Guard::desc());
    if (valid && (threw || r != want.size() || v != want)) viol("base64-decode-valid-input-wrong-result", si + " api=vector ret=" + std::to_string(r));
    if (!valid) outcome(threw ? "base64.Decode(vec): invalid input -> exception" : r ? "base64.Decode(vec): invalid input accepted leniently" : "base64.Decode(vec): invalid input refused (ret 0)"); }
  if (!memchr(s, 0, len)) { C.transitions++; Ex z(len + 1, 0); if (len) memcpy(z.p, s, len); Ex out(DL);
    Guard g("base64.Decode(cstr)", s, len, (long)DL);
    size_t r = b64::Decode(z.c(), out.p, DL);
    if (g.hit()) viol(b64_dec_sig("decode-cstr", s, len, (long)DL, DL), si + " api=cstr cap=" + std::to_string(DL) + " " + Guard::desc());
    if (r > DL) viol("base64-decode-returns-more-than-capacity", si + " api=cstr cap=" + std::to_string(DL) + " ret=" + std::to_string(r));
    if (valid && (r != want.size() || (r && memcmp(out.p, want.data(), r) != 0))) viol("base64-decode-valid-input-wrong-result", si + " api=cstr ret=" + std::to_string(r)); }
}

void sweep_b64_rt() { for_enc_inputs(b64_roundtrip_one); }
// D_dec(base64) = all strings of length 0..3 over 0..255 (16 843 009), length 4 over A20 (160 000)
// [thorough: over the 64-value alphabet A64 = 16 777 216], + every truncation of the valid encodings of the patterned inputs of length 1..66 and
// every single-byte A20 substitution in encodings of <= 12 characters.
void sweep_b64_dec() {
  std::vector<uint8_t> full = alphabet("FULL");
  for (size_t len = 0; len <= 2 && !g_capped; len++) for_all_strings(full, len, g_part, g_nparts, b64_hostile_one);
  if (!g_capped) for_all_strings(full, 3, g_part, g_nparts, b64_hostile_one);
  if (!g_capped) for_all_strings(alphabet(thorough() ? "A64" : "A20"), 4, g_part, g_nparts, b64_hostile_one);
  for (size_t L = 1; L <= 66 && !g_capped; L++) { if ((int)(L % (size_t)g_nparts) != g_part) continue;
    for (int p = 0; p < kPatterns; p++) { std::vector<uint8_t> v = pattern(p, L); std::string enc = ref_b64enc(v.data(), L); for_derived(enc, b64_hostile_one);
      if (L == 5 && p == 2) sample("base64 hostile: every truncation / A20 substitution of \"" + enc + "\" and all strings of length<=4, caps{DecodeLength,-1,0,max}"); } }
}


// alignment sweep (see common.h, struct Ex): the small-length part of both Base64 sweeps at the active buffer start offsets
void align_b64() {
  for_small_inputs(40, b64_roundtrip_one);
  for_small_hostile(thorough() ? 4 : 3, b64_hostile_one);
  for (size_t L = 1; L <= 9 && !g_capped; L++) for (int p = 2; p <= 4; p += 2) { std::vector<uint8_t> v = pattern(p, L); std::string enc = ref_b64enc(v.data(), L);
    for_derived(enc, [](const uint8_t *q, size_t n) { align_case_begin(); b64_hostile_one(q, n); }); }
}
