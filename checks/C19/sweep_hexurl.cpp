// C19 sweeps: hex strings and URL percent-encoding
#include "common.h"
#include <tbox/util/string.h>
#include <tbox/http/url.h>
#include <stdexcept>
#include <clocale>
using namespace c19;

// ================================================================== hex strings
using tbox::util::string::RawDataToHexStr; using tbox::util::string::HexStrToRawData;
static std::string ref_hex(const uint8_t *p, size_t n, bool upper, const std::string &delim) {
  const char *d = upper ? "0123456789ABCDEF" : "0123456789abcdef"; std::string o;
  for (size_t i = 0; i < n; i++) { if (i) o += delim; o.push_back(d[p[i] / 16]); o.push_back(d[p[i] % 16]); } return o; }
static bool ref_unhex(const uint8_t *s, size_t len, std::vector<uint8_t> &out) {     // strict: even length, digits only
  out.clear(); if (len % 2) return false;
  for (size_t i = 0; i < len; i += 2) { int h = hexval(s[i]), l = hexval(s[i + 1]); if (h < 0 || l < 0) return false; out.push_back((uint8_t)(h * 16 + l)); } return true; }

static void hex_roundtrip_one(const uint8_t *x, size_t n) {
  C.states++; const ShowIn si(x, n);
  // delimiters: none, one character, and the multi-character forms string.h names (", " and ": "; the encoder inserts the whole
  // string, the decoder treats it as a character SET) - decode(encode(x, delim), delim) == x for each of them
  static const char *delims[5] = {"", " ", ":", ", ", ": "};
  { C.transitions++; Ex in(x, n); std::string e0, e1;               // default arguments: lower case, delimiter " " (string.h)
    { Guard g("hex.RawDataToHexStr(defaults)", x, n); e0 = RawDataToHexStr(in.p, (uint16_t)n); e1 = RawDataToHexStr(in.p, (uint16_t)n, true); C.executions++;
      if (g.hit()) viol(generic_san_sig("hex-encode"), si + " " + Guard::desc()); }
    if (e0 != ref_hex(x, n, false, " ") || e1 != ref_hex(x, n, true, " ")) viol("hex-encode-default-arguments-content", si + " got=" + e0 + " / " + e1); }
  for (int up = 0; up < 2; up++) for (int di = 0; di < 5; di++) {
    C.transitions++;
    const std::string delim = delims[di], ref = ref_hex(x, n, up, delim);
    Ex in(x, n); std::string enc;
    { Guard g("hex.RawDataToHexStr", x, n); enc = RawDataToHexStr(in.p, (uint16_t)n, up != 0, delim);
      if (g.hit()) viol(generic_san_sig("hex-encode"), si + " " + Guard::desc()); }
    size_t adv = n ? 2 * n + (n - 1) * delim.size() : 0;
    if (enc.size() != adv) viol("hex-encode-length-not-2n-plus-delimiters", si + " upper=" + std::to_string(up) + " delim='" + delim + "' got=" + std::to_string(enc.size()));
    else if (enc != ref) viol("hex-encode-content", si + " upper=" + std::to_string(up) + " delim='" + delim + "' got=" + enc + " want=" + ref);
    if (di == 0) {   // fixed-buffer decoder: converts min(capacity, n) bytes (documented by the module's tests)
      long caps[3] = {(long)n, (long)n - 1, 0};
      for (int ci = 0; ci < 3; ci++) { long cap = caps[ci]; if (cap < 0 || (ci == 2 && n <= 1)) continue;
        C.transitions++; Ex out((size_t)cap); size_t r = 0; bool threw = false;
        Guard g("hex.HexStrToRawData(buf)", (const uint8_t *)ref.data(), ref.size(), cap);
        try { r = HexStrToRawData(ref, out.p, (uint16_t)cap); } catch (...) { threw = true; }
        if (g.hit()) viol(generic_san_sig("hex-decode-buf") + (cap == (long)n ? "-exact-capacity" : "-short-capacity"), "hex=\"" + ref + "\" cap=" + std::to_string(cap) + " " + Guard::desc());
        if (threw || r != (size_t)cap || (cap && memcmp(out.p, x, (size_t)cap) != 0)) viol("hex-roundtrip-buf", si + " hex=" + ref + " cap=" + std::to_string(cap) + " ret=" + std::to_string(r) + (threw ? " threw" : ""));
      }
    }
    { C.transitions++; std::vector<uint8_t> v; v.push_back(0xEE); size_t r = 0; std::string what;
      Guard g("hex.HexStrToRawData(vec)", (const uint8_t *)ref.data(), ref.size());
      try { r = di == 0 && up ? HexStrToRawData(ref, v) /* default delimiter argument = none */ : HexStrToRawData(ref, v, delim); } catch (std::exception &e) { what = std::string("threw:") + e.what(); } catch (...) { what = "threw:?"; }
      if (g.hit()) viol(generic_san_sig("hex-decode-vec"), "hex=\"" + ref + "\" delim='" + delim + "' " + Guard::desc());
      if (!what.empty()) viol(n == 0 && di == 0 ? "hex-decode-vector-empty-string-throws" : "hex-roundtrip-vec-throws", si + " hex=\"" + ref + "\" delim='" + delim + "' " + what);
      else if (r != n || v.size() != n || (n && memcmp(v.data(), x, n) != 0)) viol("hex-roundtrip-vec", si + " hex=\"" + ref + "\" delim='" + delim + "' ret=" + std::to_string(r)); }
  }
  if (interesting_sample(x, n)) sample_force("hex round trip " + si + " upper/lower x delim{'',' ',':',', ',': '} + default arguments, buf caps{exact,exact-1,0} + vector");
}
static void hex_hostile_one(const uint8_t *s, size_t len) {
  if (out_of_time()) return;
  C.states++; std::vector<uint8_t> want; const bool valid = ref_unhex(s, len, want);
  const ShowIn si(s, len); const std::string str((const char *)s, len);
  long caps[4] = {(long)(len / 2), (long)(len / 2) - 1, 0, (long)(len / 2) + 1};
  for (int ci = 0; ci < 4; ci++) { long cap = caps[ci]; if (cap < 0 || (ci == 2 && len / 2 <= 1)) continue;
    C.transitions++; Ex out((size_t)cap); size_t r = 0; bool threw = false;
    Guard g("hex.HexStrToRawData(buf)", s, len, cap);
    try { r = HexStrToRawData(str, out.p, (uint16_t)cap); } catch (...) { threw = true; }
    if (g.hit()) viol(generic_san_sig("hex-decode-buf"), si + " cap=" + std::to_string(cap) + " " + Guard::desc());
    if (r > (size_t)cap) viol("hex-decode-returns-more-than-capacity", si + " cap=" + std::to_string(cap) + " ret=" + std::to_string(r));
    if (valid) { size_t e = std::min<size_t>((size_t)cap, want.size()); if (threw || r != e || (e && memcmp(out.p, want.data(), e) != 0)) viol("hex-decode-valid-input-wrong-result", si + " cap=" + std::to_string(cap) + " ret=" + std::to_string(r)); }
    else if (ci == 0) outcome(threw ? "hex.HexStrToRawData(buf): invalid input -> exception" : "hex.HexStrToRawData(buf): invalid input accepted leniently / partially");
  }
  for (int di = 0; di < 2; di++) { C.transitions++; std::vector<uint8_t> v; size_t r = 0; bool threw = false;
    Guard g("hex.HexStrToRawData(vec)", s, len);
    try { r = HexStrToRawData(str, v, di ? " " : ""); } catch (...) { threw = true; }
    if (g.hit()) viol(generic_san_sig("hex-decode-vec"), si + " delim=" + (di ? "' '" : "''") + " " + Guard::desc());
    if (di == 0 && valid && len > 0 && (threw || r != want.size() || v != want)) viol("hex-decode-valid-input-wrong-result", si + " api=vector ret=" + std::to_string(r));
    if (!valid && di == 0) outcome(threw ? "hex.HexStrToRawData(vec): invalid input -> exception" : "hex.HexStrToRawData(vec): invalid input accepted leniently");
  }
}
void sweep_hex_rt() {
  for_enc_inputs(hex_roundtrip_one);
  // the length parameters are uint16_t: the largest expressible sizes, and a hex string longer than the largest capacity
  if (g_part == 0 && !out_of_time()) {
    for (int p = 2; p < kPatterns; p += 3) for (size_t L : {(size_t)65534, (size_t)65535}) { std::vector<uint8_t> v = pattern(p, L); hex_roundtrip_one(v.data(), L); }
    std::vector<uint8_t> v = pattern(2, 65537); C.states++; C.transitions++; const std::string hex = ref_hex(v.data(), v.size(), false, "");
    Ex out(65535); size_t r = 0; bool threw = false; Guard g("hex.HexStrToRawData(buf)", nullptr, 0, 65535);
    try { r = HexStrToRawData(hex, out.p, (uint16_t)65535); } catch (...) { threw = true; }
    if (g.hit()) viol(generic_san_sig("hex-decode-buf") + "-short-capacity", "hex string of 131074 digits, cap=65535 " + Guard::desc());
    if (threw || r != 65535 || memcmp(out.p, v.data(), 65535) != 0) viol("hex-roundtrip-buf", "hex string of 131074 digits, cap=65535 ret=" + std::to_string(r) + (threw ? " threw" : ""));
    sample("hex round trip of 65534 / 65535 bytes (uint16_t length limit) and a 131074-digit string into capacity 65535");
  }
}
// D_dec(hex) = all strings of length 0..2 over 0..255, length 3 over A40 [thorough: all 256 values], [thorough: length 4 over A40],
// + truncations / A20 substitutions of the valid encodings (delimiter "" and " ") of patterned inputs of length 1..40
void sweep_hex_dec() {
  std::vector<uint8_t> full = alphabet("FULL");
  for (size_t len = 0; len <= 2 && !g_capped; len++) for_all_strings(full, len, g_part, g_nparts, hex_hostile_one);
  if (!g_capped) for_all_strings(alphabet(thorough() ? "FULL" : "A40"), 3, g_part, g_nparts, hex_hostile_one);
  if (thorough() && !g_capped) for_all_strings(alphabet("A40"), 4, g_part, g_nparts, hex_hostile_one);
  for (size_t L = 1; L <= 40 && !g_capped; L++) { if ((int)(L % (size_t)g_nparts) != g_part) continue;
    for (int p = 0; p < kPatterns; p++) { std::vector<uint8_t> v = pattern(p, L); for_derived(ref_hex(v.data(), L, p & 1, ""), hex_hostile_one); for_derived(ref_hex(v.data(), L, p & 1, " "), hex_hostile_one);
      if (L == 3 && p == 2) sample("hex hostile: every truncation / A20 substitution of \"" + ref_hex(v.data(), L, false, " ") + "\" and all strings of length<=3, caps{len/2,-1,0,+1} + vector"); } }
}

// ================================================================== URL percent-encoding
using tbox::http::UrlEncode; using tbox::http::UrlDecode;
static bool ref_urldec(const uint8_t *s, size_t len, std::string &out) {      // strict RFC 3986 pct-decoding
  out.clear(); for (size_t i = 0; i < len; i++) { if (s[i] != '%') { out.push_back((char)s[i]); continue; }
    if (i + 2 >= len) return false; int h = hexval(s[i + 1]), l = hexval(s[i + 2]); if (h < 0 || l < 0) return false; out.push_back((char)(h * 16 + l)); i += 2; }
  return true; }
static void url_roundtrip_one(const uint8_t *x, size_t n) {
  C.states++; const ShowIn si(x, n); const std::string xs((const char *)x, n);
  for (int pm = 0; pm < 2; pm++) { C.transitions++; std::string enc, dec, what;
    { Guard g("url.UrlEncode", x, n); enc = pm ? UrlEncode(xs, true) : UrlEncode(xs) /* default argument: path_mode = false */; if (pm == 0 && enc != UrlEncode(xs, false)) viol("url-encode-default-argument-is-not-path_mode-false", si); if (g.hit()) viol(generic_san_sig("url-encode"), si + " " + Guard::desc()); }
    size_t esc = 0; bool safe = true; for (unsigned char c : enc) { if (c == '%') esc++; if (c < 0x21 || c > 0x7e) safe = false; }
    if (!safe) viol("url-encode-emits-non-printable-or-space", si + " path_mode=" + std::to_string(pm) + " enc=hex:" + hexs(enc.data(), enc.size()));
    std::string rd; if (!ref_urldec((const uint8_t *)enc.data(), enc.size(), rd) || rd != xs) viol("url-encode-not-decodable-by-rfc3986-reference", si + " path_mode=" + std::to_string(pm) + " enc=" + enc);
    if (enc.size() != n + 2 * esc) viol("url-encode-length", si + " enc=" + enc);
    { Guard g("url.UrlDecode", (const uint8_t *)enc.data(), enc.size()); try { dec = UrlDecode(enc); } catch (std::exception &e) { what = e.what(); } catch (...) { what = "?"; }
      if (g.hit()) viol(generic_san_sig("url-decode"), "enc=\"" + enc + "\" " + Guard::desc()); }
    if (!what.empty()) viol("url-roundtrip-throws", si + " enc=" + enc + " what=" + what);
    else if (dec != xs) viol("url-roundtrip-content", si + " path_mode=" + std::to_string(pm) + " enc=" + enc + " dec=hex:" + hexs(dec.data(), dec.size()));
  }
  if (interesting_sample(x, n)) sample_force("url round trip " + si + " path_mode{0,1}");
}
static void url_hostile_one(const uint8_t *s, size_t len) {
  if (out_of_time()) return;
  C.states++; C.transitions++; std::string want; const bool valid = ref_urldec(s, len, want);
  const std::string str((const char *)s, len); std::string dec; bool threw = false;
  Guard g("url.UrlDecode", s, len);
  try { dec = UrlDecode(str); } catch (...) { threw = true; }
  if (g.hit()) viol(generic_san_sig("url-decode"), show_in(s, len) + " " + Guard::desc());
  if (dec.size() > len) viol("url-decode-output-longer-than-input", show_in(s, len));
  if (valid && (threw || dec != want)) viol("url-decode-valid-input-wrong-result", show_in(s, len) + (threw ? " threw" : " got=hex:" + hexs(dec.data(), dec.size())));
  if (!valid) outcome(threw ? "url.UrlDecode: invalid/truncated escape -> exception" : "url.UrlDecode: invalid/truncated escape accepted leniently");
}
void sweep_url_rt() {
  for_enc_inputs(url_roundtrip_one);
  // UrlEncode classifies bytes with std::isprint(), i.e. by the process locale.  All sweeps run in the "C" locale; one more pass over the small
  // domain under C.UTF-8 (when installed) must give the same answers.  (Under an ISO-8859-x LC_CTYPE the current code would emit bytes >= 0x80
  // unescaped - still an exact inverse pair, but not checked here: no such locale is installed on this image.)
  if (g_part == 0 && !out_of_time()) { const char *l = setlocale(LC_ALL, "C.UTF-8"); if (!l) l = setlocale(LC_ALL, "C.utf8");
    if (l) { g_align_note = " [LC_ALL=C.UTF-8]"; for_small_inputs(40, url_roundtrip_one); g_align_note.clear(); setlocale(LC_ALL, "C"); sample("url round trip small domain repeated under LC_ALL=C.UTF-8"); }
    else printf("@INFO url-rt: locale C.UTF-8 not available, locale pass skipped\n"); }
}
// D_dec(url) = all strings of length 0..3 over 0..255 (16 843 009), [thorough: + length 4 over A40 = 2 560 000],
// + truncations / A20 substitutions of UrlEncode-reference encodings of patterned inputs of length 1..40
void sweep_url_dec() {
  std::vector<uint8_t> full = alphabet("FULL");
  for (size_t len = 0; len <= 2 && !g_capped; len++) for_all_strings(full, len, g_part, g_nparts, url_hostile_one);
  if (!g_capped) for_all_strings(full, 3, g_part, g_nparts, url_hostile_one);
  if (thorough() && !g_capped) for_all_strings(alphabet("A40"), 4, g_part, g_nparts, url_hostile_one);
  for (size_t L = 1; L <= 40 && !g_capped; L++) { if ((int)(L % (size_t)g_nparts) != g_part) continue;
    for (int p = 0; p < kPatterns; p++) { std::vector<uint8_t> v = pattern(p, L); std::string enc;      // reference encoder: escape everything except unreserved
      for (uint8_t c : v) { if ((c >= '0' && c <= '9') || (c >= 'a' && c <= 'z') || (c >= 'A' && c <= 'Z') || c == '-' || c == '_' || c == '~') enc.push_back((char)c); else { char b[4]; snprintf(b, 4, "%%%02X", c); enc += b; } }
      for_derived(enc, url_hostile_one);
      if (L == 3 && p == 4) sample("url hostile: every truncation / A20 substitution of \"" + enc + "\" and all strings of length<=3"); } }
}


// alignment sweep: hex encoder input / fixed-buffer decoder output at the active buffer start offsets (URL coding has no raw-pointer API)
void align_hex() {
  for_small_inputs(40, hex_roundtrip_one);
  for_small_hostile(3, hex_hostile_one);
}
