// C19 sweeps: CRC-16, CRC-32, checksum-8/16, MD5, AES-128 against independent references.
//  * CRC/checksum references are bit-by-bit implementations written from the polynomial / RFC 1071 definitions
//    (no table); check.py additionally supplies zlib.crc32 / binascii.crc_hqx / a python RFC 1071 sum for every input.
//    Variant determined from crc.cpp: CRC-16 = poly 0x1021, MSB first, no reflection, no final xor, default init
//    0xFFFF (CRC-16/CCITT-FALSE; == binascii.crc_hqx(m, init)); CRC-32 = poly 0x04C11DB7 reflected (0xEDB88320),
//    register initialised with `init_seed` (default 0xFFFFFFFF), final complement (CRC-32/ISO-HDLC; == zlib.crc32(m, ~seed)).
//    checksum-16 = RFC 1071 Internet checksum over big-endian 16-bit words (odd tail byte padded with a zero low byte);
//    checksum-8 = the same one's-complement sum over 8-bit units.
//  * MD5: expected digests come from python hashlib (expect file); RFC 1321 appendix A.5 suite embedded.
//  * AES-128: reference written here from the FIPS-197 text (S-box computed from GF(2^8) inverse + affine map, flat
//    column-major state); FIPS-197 / SP 800-38A / AESAVS known answers embedded; the 16384 single-bit key x
//    single-bit block ciphertexts are also compared with check.py's pure-python AES (expect file).
#include "common.h"
#include <tbox/util/crc.h>
#include <tbox/util/checksum.h>
#include <tbox/crypto/md5.h>
#include <tbox/crypto/aes.h>
#include <fstream>
#include <sstream>
#include <unordered_map>
using namespace c19;

static std::unordered_map<std::string, std::string> g_expect;
static bool load_expect(const char *path) {
  std::ifstream f(path); if (!f) { viol("harness-expect-file-missing", path); return false; }
  std::string line; while (std::getline(f, line)) { size_t sp = line.find(' '); if (sp == std::string::npos) continue; g_expect[line.substr(0, sp)] = line.substr(sp + 1); }
  printf("@INFO expect file %s: %zu entries\n", path, g_expect.size()); return true;
}

// ================================================================== CRC / checksum
static uint16_t ref_crc16(const uint8_t *p, size_t n, uint16_t init) {     // x^16 + x^12 + x^5 + 1, message bits MSB first
  uint16_t reg = init;
  for (size_t i = 0; i < n; i++) for (int b = 7; b >= 0; b--) { unsigned in = (p[i] >> b) & 1, top = (reg >> 15) & 1; reg = (uint16_t)(reg << 1); if (in ^ top) reg ^= 0x1021; }
  return reg;
}
static uint32_t reflect32(uint32_t v) { uint32_t r = 0; for (int i = 0; i < 32; i++) if (v & (1u << i)) r |= 1u << (31 - i); return r; }
static uint32_t ref_crc32(const uint8_t *p, size_t n, uint32_t init) {     // x^32+x^26+x^23+x^22+x^16+x^12+x^11+x^10+x^8+x^7+x^5+x^4+x^2+x+1, refin, refout, final complement
  uint32_t reg = reflect32(init);                                           // cpp-tbox keeps the register in reflected orientation
  for (size_t i = 0; i < n; i++) for (int b = 0; b < 8; b++) { unsigned in = (p[i] >> b) & 1, top = (reg >> 31) & 1; reg <<= 1; if (in ^ top) reg ^= 0x04C11DB7u; }
  return ~reflect32(reg);
}
static uint8_t ref_cs8(const uint8_t *p, size_t n) { uint64_t s = 0; for (size_t i = 0; i < n; i++) s += p[i]; while (s >> 8) s = (s & 0xFF) + (s >> 8); return (uint8_t)~s; }
static uint16_t ref_cs16(const uint8_t *p, size_t n) { uint64_t s = 0; for (size_t i = 0; i < n; i += 2) s += ((uint64_t)p[i] << 8) | (i + 1 < n ? p[i + 1] : 0); while (s >> 16) s = (s & 0xFFFF) + (s >> 16); return (uint16_t)~s; }

static const uint16_t kSeed16[3] = {0xFFFF, 0x0000, 0x1D0F};
static const uint32_t kSeed32[3] = {0xFFFFFFFFu, 0x00000000u, 0x12345678u};
static void crc_one(const std::string &key, const uint8_t *x, size_t n) {
  if (out_of_time()) return;
  align_case_begin();
  C.states++; Ex in(x, n); char got[160]; unsigned v[8]; int k = 0;
  for (int s = 0; s < 3; s++) { C.transitions++; Guard g("CalcCrc16", x, n); uint16_t r = s == 0 ? tbox::util::CalcCrc16(in.p, n) : tbox::util::CalcCrc16(in.p, n, kSeed16[s]);
    if (g.hit()) viol(generic_san_sig("crc16"), show_in(x, n) + " " + Guard::desc());
    uint16_t e = ref_crc16(x, n, kSeed16[s]); v[k++] = r;
    if (r != e) { char b[96]; snprintf(b, sizeof b, " seed=0x%04x got=0x%04x want=0x%04x", kSeed16[s], r, e); viol("crc16-differs-from-bitwise-poly-0x1021-reference", show_in(x, n) + b); } }
  for (int s = 0; s < 3; s++) { C.transitions++; Guard g("CalcCrc32", x, n); uint32_t r = s == 0 ? tbox::util::CalcCrc32(in.p, n) : tbox::util::CalcCrc32(in.p, n, kSeed32[s]);
    if (g.hit()) viol(generic_san_sig("crc32"), show_in(x, n) + " " + Guard::desc());
    uint32_t e = ref_crc32(x, n, kSeed32[s]); v[k++] = r;
    if (r != e) { char b[96]; snprintf(b, sizeof b, " seed=0x%08x got=0x%08x want=0x%08x", kSeed32[s], r, e); viol("crc32-differs-from-bitwise-poly-0x04C11DB7-reference", show_in(x, n) + b); } }
  { C.transitions++; Guard g("CalcCheckSum8", x, n); uint8_t r = tbox::util::CalcCheckSum8(in.p, n); if (g.hit()) viol(generic_san_sig("checksum8"), show_in(x, n) + " " + Guard::desc());
    v[k++] = r; if (r != ref_cs8(x, n)) viol("checksum8-differs-from-ones-complement-reference", show_in(x, n) + " got=" + std::to_string(r) + " want=" + std::to_string(ref_cs8(x, n))); }
  { C.transitions++; Guard g("CalcCheckSum16", x, n); uint16_t r = tbox::util::CalcCheckSum16(in.p, n); if (g.hit()) viol(generic_san_sig("checksum16"), show_in(x, n) + " " + Guard::desc());
    v[k++] = r; if (r != ref_cs16(x, n)) viol("checksum16-differs-from-rfc1071-reference", show_in(x, n) + " got=" + std::to_string(r) + " want=" + std::to_string(ref_cs16(x, n))); }
  // chained computation over every 2-way split (each part in its own exact block): the second call is seeded with the register the
  // REFERENCE leaves after the first part (CRC-16: the result; CRC-32: its complement) and must give the reference CRC of the whole
  if (n <= 130) for (size_t a = 0; a <= n; a++) { C.transitions++; C.executions += 4; Ex p1(x, a), p2(x + a, n - a); Guard g("CalcCrc(chained)", x, n);
    const uint16_t r16a = tbox::util::CalcCrc16(p1.p, a, kSeed16[2]), r16 = tbox::util::CalcCrc16(p2.p, n - a, ref_crc16(x, a, kSeed16[2]));
    const uint32_t r32a = tbox::util::CalcCrc32(p1.p, a, kSeed32[2]), r32 = tbox::util::CalcCrc32(p2.p, n - a, ~ref_crc32(x, a, kSeed32[2]));
    if (g.hit()) viol(generic_san_sig("crc-chained"), show_in(x, n) + " split=" + std::to_string(a) + " " + Guard::desc());
    if (r16a != ref_crc16(x, a, kSeed16[2]) || r16 != ref_crc16(x, n, kSeed16[2])) viol("crc16-differs-from-bitwise-poly-0x1021-reference", show_in(x, n) + " chained, split=" + std::to_string(a));
    if (r32a != ref_crc32(x, a, kSeed32[2]) || r32 != ref_crc32(x, n, kSeed32[2])) viol("crc32-differs-from-bitwise-poly-0x04C11DB7-reference", show_in(x, n) + " chained, split=" + std::to_string(a)); }
  // self-verification laws: appending the big-endian checksum makes the total sum to zero (even-length message)
  if (n % 2 == 0 && n < 400) { std::vector<uint8_t> m(x, x + n); m.push_back((uint8_t)(v[7] >> 8)); m.push_back((uint8_t)v[7]); Ex e(m.data(), m.size()); C.executions++;
    if (tbox::util::CalcCheckSum16(e.p, m.size()) != 0) viol("checksum16-appended-checksum-does-not-verify", show_in(x, n)); }
  snprintf(got, sizeof got, "%04x %04x %04x %08x %08x %08x %02x %04x", v[0], v[1], v[2], v[3], v[4], v[5], v[6], v[7]);
  auto it = g_expect.find(key);
  if (it == g_expect.end()) viol("harness-expect-entry-missing", key);
  else if (it->second != got) viol("crc-or-checksum-differs-from-python-zlib-binascii", show_in(x, n) + " got=[" + got + "] python=[" + it->second + "] (crc16 x3 seeds, crc32 x3 seeds, cs8, cs16)");
  if (n == 2 && x[0] == 0x80 && x[1] == 0xFF) sample("crc/checksum " + show_in(x, n) + " -> " + got + " == bitwise refs == python");
}
void sweep_crc(const char *expect) {
  if (!load_expect(expect)) return;
  std::vector<uint8_t> full = alphabet("FULL");
  for (size_t len = 0; len <= 2; len++) for_all_strings(full, len, 0, 1, [](const uint8_t *p, size_t n) { crc_one("S:" + (n ? hexs(p, n) : std::string("-")), p, n); });
  size_t maxlen = thorough() ? 2000 : 300;
  for (size_t L = 3; L <= maxlen && !g_capped; L++) for (int p = 0; p < kPatterns; p++) { std::vector<uint8_t> v = pattern(p, L); crc_one("P:" + std::to_string(p) + ":" + std::to_string(L), v.data(), L); }
  sample("crc/checksum patterned lengths 3.." + std::to_string(maxlen) + " x 6 patterns, all strings of length<=2; crc seeds {default,0,other}");
  // accumulator boundaries: inputs whose 8/16-bit word sums cross 2^16 and 2^32 (a 32-bit accumulator with deferred carry folding
  // is wrong only from 131076 bytes of 0xFF on), compared with the bitwise references only
  const size_t big[] = {255, 256, 257, 258, 65534, 65535, 65536, 65537, 65538, 131070, 131072, 131074, 131076, 131078, 131080, 196610, 262144, 262146, 524290, 1048576, 1048577};
  for (size_t L : big) for (int fill = 0; fill < 3 && !g_capped; fill++) {
    if (out_of_time()) break;
    std::vector<uint8_t> v(L); for (size_t i = 0; i < L; i++) v[i] = fill == 0 ? 0xFF : fill == 1 ? (uint8_t)(0xF0 | (i & 0xF)) : (uint8_t)((i * 131 + (i >> 8) * 7) & 0xFF);
    C.states++; C.transitions += 4; Ex in(v.data(), L); char d[96]; snprintf(d, sizeof d, "big: %zu bytes, fill #%d", L, fill);
    uint16_t c16 = tbox::util::CalcCheckSum16(in.p, L), e16 = ref_cs16(v.data(), L); if (c16 != e16) viol("checksum16-differs-from-rfc1071-reference", std::string(d) + " got=" + std::to_string(c16) + " want=" + std::to_string(e16));
    uint8_t c8 = tbox::util::CalcCheckSum8(in.p, L), e8 = ref_cs8(v.data(), L); if (c8 != e8) viol("checksum8-differs-from-ones-complement-reference", std::string(d) + " got=" + std::to_string(c8) + " want=" + std::to_string(e8));
    if (tbox::util::CalcCrc16(in.p, L) != ref_crc16(v.data(), L, kSeed16[0])) viol("crc16-differs-from-bitwise-poly-0x1021-reference", d);
    if (tbox::util::CalcCrc32(in.p, L) != ref_crc32(v.data(), L, kSeed32[0])) viol("crc32-differs-from-bitwise-poly-0x04C11DB7-reference", d);
  }
  sample("crc/checksum large inputs: 21 lengths 255..1048577 around the 2^16 / 2^32 word-sum boundaries x 3 fills");
}

// ================================================================== MD5
static std::string md5_run(const uint8_t *m, size_t L, const std::vector<size_t> &cuts) {   // cuts: ascending split points in 0..L
  tbox::crypto::MD5 md5; size_t prev = 0;
  for (size_t i = 0; i <= cuts.size(); i++) { size_t end = i < cuts.size() ? cuts[i] : L; Ex part(m + prev, end - prev);   // each part in its own exactly sized block
    Guard g("MD5.update", m, L); md5.update(part.p, end - prev); if (g.hit()) viol(generic_san_sig("md5-update"), "L=" + std::to_string(L) + " part=[" + std::to_string(prev) + "," + std::to_string(end) + ") " + Guard::desc()); prev = end; }
  Ex d(16); { Guard g("MD5.finish", m, L, 16); md5.finish(d.p); if (g.hit()) viol(generic_san_sig("md5-finish"), "L=" + std::to_string(L) + " " + Guard::desc()); }
  return hexs(d.p, 16);
}
static void md5_len(size_t L, size_t all3);
static std::string cuts_str(const std::vector<size_t> &c) { std::string s; for (size_t v : c) s += (s.empty() ? "" : ",") + std::to_string(v); return s.empty() ? "none" : s; }
void sweep_md5(const char *expect) {
  if (!load_expect(expect)) return;
  static const struct { const char *m, *d; } suite[] = { {"", "d41d8cd98f00b204e9800998ecf8427e"}, {"a", "0cc175b9c0f1b6a831c399e269772661"}, {"abc", "900150983cd24fb0d6963f7d28e17f72"},
    {"message digest", "f96b697d7cb7938d525a2f31aaf161d0"}, {"abcdefghijklmnopqrstuvwxyz", "c3fcd3d76192e4007dfb496cca67e13b"},
    {"ABCDEFGHIJKLMNOPQRSTUVWXYZabcdefghijklmnopqrstuvwxyz0123456789", "d174ab98d277d9f5a5611c2c9f419d9f"},
    {"12345678901234567890123456789012345678901234567890123456789012345678901234567890", "57edf4a22be3c955ac49da2e2107b67a"} };
  for (auto &t : suite) { C.states++; C.transitions++; std::string d = md5_run((const uint8_t *)t.m, strlen(t.m), {}); if (d != t.d) viol("md5-rfc1321-test-suite-vector-wrong", std::string("msg=\"") + t.m + "\" got=" + d); }
  size_t maxL = thorough() ? 300 : 130, all3 = thorough() ? 130 : 0;
  for (size_t L = 0; L <= maxL && !g_capped; L++) { if ((int)(L % (size_t)g_nparts) != g_part) continue; md5_len(L, all3); }
}
static void md5_len(size_t L, size_t all3) {
  static const int pats[2] = {2, 5};
  static const size_t grid[] = {0, 1, 2, 3, 31, 32, 33, 55, 56, 57, 63, 64, 65, 66, 119, 120, 121, 127, 128, 129};
  {
    for (int pi = 0; pi < 2; pi++) { int p = pats[pi];
    std::vector<uint8_t> m = pattern(p, L); C.states++;
    auto it = g_expect.find("M:" + std::to_string(p) + ":" + std::to_string(L)); if (it == g_expect.end()) { viol("harness-expect-entry-missing", "M:" + std::to_string(p) + ":" + std::to_string(L)); continue; }
    const std::string want = it->second;
    auto check = [&](const std::vector<size_t> &cuts, const char *kind) { C.transitions++; align_case_begin(); std::string d = md5_run(m.data(), L, cuts);
      if (d != want) viol(std::string("md5-digest-differs-from-hashlib-") + kind, "pattern=" + std::to_string(p) + " L=" + std::to_string(L) + " cuts=" + cuts_str(cuts) + " got=" + d + " want=" + want); };
    check({}, "single-update");
    for (size_t a = 0; a <= L; a++) check({a}, "2-way-split");
    // objects copied and assigned mid-stream (forking a running hash): after part 1, B is copy-constructed from A and a USED object Cc is
    // assigned from A; all three are then fed part 2 and must give the digest of the whole message
    for (size_t a = 0; a <= L; a++) { C.transitions++; align_case_begin(); C.executions += 8;
      Ex p1(m.data(), a), p2(m.data() + a, L - a), junk(7, 0x33), da(16), dbb(16), dc(16);
      Guard g("MD5(copy/assign mid-stream)", m.data(), L);
      tbox::crypto::MD5 A; A.update(p1.p, a); tbox::crypto::MD5 B = A; tbox::crypto::MD5 Cc; Cc.update(junk.p, 7); Cc = A;
      B.update(p2.p, L - a); B.finish(dbb.p); A.update(p2.p, L - a); Cc.update(p2.p, L - a); Cc.finish(dc.p); A.finish(da.p);
      if (g.hit()) viol(generic_san_sig("md5-copy-assign"), "L=" + std::to_string(L) + " cut=" + std::to_string(a) + " " + Guard::desc());
      if (hexs(da.p, 16) != want || hexs(dbb.p, 16) != want || hexs(dc.p, 16) != want)
        viol("md5-digest-differs-from-hashlib-after-copy-or-assignment-mid-stream", "pattern=" + std::to_string(p) + " L=" + std::to_string(L) + " cut=" + std::to_string(a) + " original=" + hexs(da.p, 16) + " copy=" + hexs(dbb.p, 16) + " assigned=" + hexs(dc.p, 16) + " want=" + want); }
    if (L <= all3) { for (size_t a = 0; a <= L && !out_of_time(); a++) for (size_t b = a; b <= L; b++) check({a, b}, "3-way-split"); }
    else { std::vector<size_t> g; for (size_t v : grid) if (v <= L) g.push_back(v); if (L >= 1 && (g.empty() || g.back() < L - 1)) g.push_back(L - 1); if (g.empty() || g.back() < L) g.push_back(L);
      for (size_t i = 0; i < g.size(); i++) for (size_t j = i; j < g.size(); j++) check({g[i], g[j]}, "3-way-split"); }
    if (pi == 0) { std::vector<size_t> each; for (size_t a = 1; a < L; a++) each.push_back(a); check(each, "byte-at-a-time"); }
    if (pi == 1) {   // two live instances fed alternately (they share only the constant padding block): neither disturbs the other
      std::vector<uint8_t> m2 = pattern(2, L); auto it2 = g_expect.find("M:2:" + std::to_string(L)); const size_t a = L / 3, b = L - L / 4;
      if (it2 != g_expect.end()) { C.transitions++; C.executions += 6; tbox::crypto::MD5 A, B; Ex a1(m2.data(), a), b1(m.data(), b), a2(m2.data() + a, L - a), b2(m.data() + b, L - b), da(16), db(16);
        Guard g("MD5(two instances)", m.data(), L);
        A.update(a1.p, a); B.update(b1.p, b); A.update(a2.p, L - a); if (L & 1) { A.finish(da.p); B.update(b2.p, L - b); B.finish(db.p); } else { B.update(b2.p, L - b); B.finish(db.p); A.finish(da.p); }
        if (g.hit()) viol(generic_san_sig("md5-two-instances"), "L=" + std::to_string(L) + " " + Guard::desc());
        if (hexs(da.p, 16) != it2->second || hexs(db.p, 16) != want) viol("md5-digest-differs-from-hashlib-two-interleaved-instances", "L=" + std::to_string(L) + " A(pattern 2, cut " + std::to_string(a) + ")=" + hexs(da.p, 16) + " B(pattern 5, cut " + std::to_string(b) + ")=" + hexs(db.p, 16)); } }
    if (L == 120 && pi == 0) sample("md5 pattern=2 L=120: single, all 121 two-way splits, 3-way grid, byte-at-a-time == hashlib " + want);
  } }
}
// MD5 messages long enough for the 64-bit bit counter to carry into its high word (2^29 bytes = 2^32 bits).
//  * zeros of length 2^29+5 (calloc, never written): one update() of the whole message, 2^29 | 5, 5 | 2^29, and two halves
//    (2^28+3 | 2^28+2: the LOW word wraps on the second update, the `count_[1]++` path).  Expected digest: RFC 1321 MD5 of that
//    message = 53f83c490b7435d7e205466bfd984882 (hashlib, computed independently; check.py recomputes it in the thorough tier).
//  * thorough: a patterned 1 MiB block fed 512 times plus a patterned tail of {0,1,55,56,64} bytes, vs hashlib fed the same way.
static std::string md5_feed(const std::vector<std::pair<const uint8_t *, size_t>> &parts, const std::string &what) {
  tbox::crypto::MD5 md5;
  for (auto &pr : parts) { Guard g("MD5.update(big)", nullptr, 0); md5.update(pr.first, pr.second); if (g.hit()) viol(generic_san_sig("md5-update"), what + " " + Guard::desc()); }
  Ex d(16); { Guard g("MD5.finish(big)", nullptr, 0, 16); md5.finish(d.p); if (g.hit()) viol(generic_san_sig("md5-finish"), what + " " + Guard::desc()); }
  return hexs(d.p, 16); }
void sweep_md5big(const char *expect) {
  const size_t N = ((size_t)1 << 29) + 5; const char *want0 = "53f83c490b7435d7e205466bfd984882";
  if (thorough()) { if (!load_expect(expect)) return; auto it = g_expect.find("Z:" + std::to_string(N)); if (it == g_expect.end() || it->second != want0) { viol("harness-md5-big-expectation-disagrees-with-hashlib", it == g_expect.end() ? "missing" : it->second); return; } }
  uint8_t *z = (uint8_t *)calloc(N, 1); if (!z) { printf("@CAP md5big: cannot allocate %zu bytes\n", N); g_capped = true; return; }
  const double t0 = now_s();
  struct Split { const char *name; size_t a; bool quick; } splits[] = { {"single-update", N, true}, {"2^28+3|2^28+2", ((size_t)1 << 28) + 3, true}, {"2^29|5", (size_t)1 << 29, false}, {"5|2^29", 5, false} };
  const bool all = thorough() || (getenv("C19_MD5_BIG_ALL") && atoi(getenv("C19_MD5_BIG_ALL")) > 0);
  for (auto &sp : splits) { if (!sp.quick && !all) continue; if (now_s() > g_deadline) { g_capped = true; break; }
    C.states++; C.transitions++; const std::string what = std::string("zeros L=2^29+5 updates=") + sp.name;
    std::vector<std::pair<const uint8_t *, size_t>> parts; parts.push_back({z, sp.a}); if (sp.a < N) parts.push_back({z + sp.a, N - sp.a});
    std::string d = md5_feed(parts, what);
    if (d != want0) viol(sp.a == N ? "md5-single-update-of-2pow29-bytes-or-more-wrong-digest" : "md5-message-of-2pow29-bytes-or-more-wrong-digest", what + " got=" + d + " want=" + want0); }
  free(z);
  sample("md5 zeros L=2^29+5 (bit counter carries into the high word): single update / split updates == 53f83c490b7435d7e205466bfd984882");
  if (thorough()) { const size_t B = (size_t)1 << 20; std::vector<uint8_t> blk = pattern(2, B); static const size_t tails[] = {0, 1, 55, 56, 64};
    for (size_t t : tails) { if (now_s() > g_deadline) { g_capped = true; break; }
      C.states++; C.transitions++; std::vector<uint8_t> tail = pattern(5, t); const std::string what = "512 x 1MiB pattern-2 block + pattern-5 tail of " + std::to_string(t);
      auto it = g_expect.find("MB:" + std::to_string(t)); if (it == g_expect.end()) { viol("harness-expect-entry-missing", "MB:" + std::to_string(t)); continue; }
      std::vector<std::pair<const uint8_t *, size_t>> parts; for (int i = 0; i < 512; i++) parts.push_back({blk.data(), B}); if (t) parts.push_back({tail.data(), t});
      std::string d = md5_feed(parts, what);
      if (d != it->second) viol("md5-message-of-2pow29-bytes-or-more-wrong-digest", what + " got=" + d + " want=" + it->second); } }
  printf("@INFO md5big: %.1fs\n", now_s() - t0);
}

// ================================================================== AES-128 (reference from FIPS-197)
static uint8_t gmul(uint8_t a, uint8_t b) { uint8_t p = 0; for (int i = 0; i < 8; i++) { if (b & 1) p ^= a; bool hi = a & 0x80; a = (uint8_t)(a << 1); if (hi) a ^= 0x1B; b >>= 1; } return p; }   // GF(2^8) mod x^8+x^4+x^3+x+1
static uint8_t SB[256], ISB[256];
static void aes_ref_init() { for (int a = 0; a < 256; a++) { uint8_t inv = 0; if (a) for (int b = 1; b < 256; b++) if (gmul((uint8_t)a, (uint8_t)b) == 1) { inv = (uint8_t)b; break; }
    uint8_t s = inv; for (int k = 1; k <= 4; k++) s ^= (uint8_t)((inv << k) | (inv >> (8 - k))); s ^= 0x63; SB[a] = s; ISB[s] = (uint8_t)a; } }
static void aes_ref_expand(const uint8_t key[16], uint8_t rk[176]) {   // FIPS-197 5.2, Nk=4, Nr=10: 44 words
  memcpy(rk, key, 16); uint8_t rcon = 1;
  for (int i = 4; i < 44; i++) { uint8_t t[4]; memcpy(t, rk + 4 * (i - 1), 4);
    if (i % 4 == 0) { uint8_t t0 = t[0]; t[0] = SB[t[1]] ^ rcon; t[1] = SB[t[2]]; t[2] = SB[t[3]]; t[3] = SB[t0]; rcon = gmul(rcon, 2); }
    for (int j = 0; j < 4; j++) rk[4 * i + j] = rk[4 * (i - 4) + j] ^ t[j]; } }
static void aes_ref_cipher(const uint8_t rk[176], const uint8_t in[16], uint8_t out[16]) {   // state s[r + 4c] = in[r + 4c]
  uint8_t s[16], t[16]; for (int i = 0; i < 16; i++) s[i] = in[i] ^ rk[i];
  for (int round = 1; round <= 10; round++) {
    for (int i = 0; i < 16; i++) s[i] = SB[s[i]];
    for (int c = 0; c < 4; c++) for (int r = 0; r < 4; r++) t[r + 4 * c] = s[r + 4 * ((c + r) % 4)];            // ShiftRows
    if (round < 10) for (int c = 0; c < 4; c++) { const uint8_t *a = t + 4 * c; uint8_t *o = s + 4 * c;           // MixColumns
        o[0] = gmul(a[0], 2) ^ gmul(a[1], 3) ^ a[2] ^ a[3]; o[1] = a[0] ^ gmul(a[1], 2) ^ gmul(a[2], 3) ^ a[3];
        o[2] = a[0] ^ a[1] ^ gmul(a[2], 2) ^ gmul(a[3], 3); o[3] = gmul(a[0], 3) ^ a[1] ^ a[2] ^ gmul(a[3], 2); }
    else memcpy(s, t, 16);
    for (int i = 0; i < 16; i++) s[i] ^= rk[16 * round + i]; }
  memcpy(out, s, 16); }
static void unhex16(const char *h, uint8_t o[16]) { for (int i = 0; i < 16; i++) o[i] = (uint8_t)(hexval((uint8_t)h[2 * i]) * 16 + hexval((uint8_t)h[2 * i + 1])); }
static unsigned long long g_aes_pairs = 0;
static void aes_one(const uint8_t key[16], const uint8_t pt[16], const char *kat_ct, const std::string *py_ct, const std::string &label) {
  align_case_begin(); C.states++; g_aes_pairs++; uint8_t rk[176], want[16]; aes_ref_expand(key, rk); aes_ref_cipher(rk, pt, want);
  const std::string id = label + " key=" + hexs(key, 16) + " block=" + hexs(pt, 16);
  if (kat_ct) { uint8_t k[16]; unhex16(kat_ct, k); if (memcmp(k, want, 16) != 0) { viol("harness-aes-reference-disagrees-with-published-vector", id); return; } }
  if (py_ct && *py_ct != hexs(want, 16)) { viol("harness-aes-cpp-reference-disagrees-with-python-reference", id + " cpp=" + hexs(want, 16) + " py=" + *py_ct); return; }
  for (int via_setkey = 0; via_setkey < 2; via_setkey++) { C.transitions++;
    Ex k(key, 16), in(pt, 16), ct(16), back(16);
    Guard g("AES", key, 16, 16);
    tbox::crypto::AES aes(via_setkey ? nullptr : k.p); if (via_setkey) aes.setKey(k.p);
    aes.cipher(in.p, ct.p); C.executions++; aes.invcipher(ct.p, back.p);
    if (g.hit()) viol(generic_san_sig("aes"), id + " " + Guard::desc());
    if (memcmp(ct.p, want, 16) != 0) viol(kat_ct ? "aes-cipher-differs-from-fips197-known-answer" : "aes-cipher-differs-from-fips197-reference", id + " got=" + hexs(ct.p, 16) + " want=" + hexs(want, 16));
    if (memcmp(back.p, pt, 16) != 0) viol("aes-invcipher-of-cipher-is-not-identity", id + " got=" + hexs(back.p, 16));
    Ex dec(16); C.executions++; { Ex w(want, 16); aes.invcipher(w.p, dec.p); }                  // decrypt the REFERENCE ciphertext as well
    if (memcmp(dec.p, pt, 16) != 0) viol("aes-invcipher-differs-from-fips197-reference", id + " got=" + hexs(dec.p, 16));
  }
  // object life-cycle and aliasing: an object keyed with ANOTHER key (the previous pair's, or ~key) is re-keyed with setKey(),
  // encrypts and decrypts IN PLACE (input == output), then handles a second block (the first ciphertext) and, re-keyed back and
  // forth once more, still gives the reference answers
  { C.transitions++; static uint8_t prev[16]; static bool have_prev = false; uint8_t other[16];
    for (int i = 0; i < 16; i++) other[i] = have_prev && memcmp(prev, key, 16) != 0 ? prev[i] : (uint8_t)~key[i];
    memcpy(prev, key, 16); have_prev = true;
    uint8_t rko[176], want2[16], wanto[16]; aes_ref_cipher(rk, want, want2); aes_ref_expand(other, rko); aes_ref_cipher(rko, pt, wanto);
    Ex k(key, 16), ko(other, 16), buf(pt, 16), b2(want, 16), o3(16);
    Guard g("AES(rekey,in-place)", key, 16, 16);
    tbox::crypto::AES aes2(ko.p);                                    // a second live object holding the other key throughout
    tbox::crypto::AES aes(ko.p); aes.setKey(k.p); C.executions += 7;
    aes.cipher(buf.p, buf.p); const bool enc_ok = memcmp(buf.p, want, 16) == 0; const std::string got1 = hexs(buf.p, 16);
    aes.invcipher(buf.p, buf.p); const bool dec_ok = memcmp(buf.p, pt, 16) == 0;
    aes.cipher(b2.p, o3.p); const bool second_ok = memcmp(o3.p, want2, 16) == 0;
    tbox::crypto::AES cp(aes); tbox::crypto::AES as(ko.p);                // copy taken while the original holds `key`; the original is re-keyed afterwards
    aes.setKey(ko.p); aes.cipher(buf.p, o3.p); const bool other_ok = memcmp(o3.p, wanto, 16) == 0;
    Ex o5(16), o6(16), p5(pt, 16), c5(want, 16); cp.cipher(p5.p, o5.p); as = cp; as.invcipher(c5.p, o6.p); C.executions += 2;
    const bool copy_ok = memcmp(o5.p, want, 16) == 0 && memcmp(o6.p, pt, 16) == 0;
    aes.setKey(k.p); aes.invcipher(b2.p, o3.p); const bool back_ok = memcmp(o3.p, pt, 16) == 0;
    Ex o4(16), p4(pt, 16); aes2.cipher(p4.p, o4.p); const bool two_ok = memcmp(o4.p, wanto, 16) == 0;
    if (g.hit()) viol(generic_san_sig("aes-rekey-inplace"), id + " " + Guard::desc());
    const std::string id2 = id + " previous-key=" + hexs(other, 16);
    if (!enc_ok) viol("aes-rekeyed-object-in-place-cipher-differs-from-fips197-reference", id2 + " got=" + got1 + " want=" + hexs(want, 16));
    if (!dec_ok) viol("aes-rekeyed-object-in-place-invcipher-is-not-identity", id2 + " got=" + hexs(buf.p, 16));
    if (!second_ok) viol("aes-second-block-on-same-object-differs-from-fips197-reference", id2);
    if (!two_ok) viol("aes-second-live-object-disturbed-by-the-first", id2);
    if (!copy_ok) viol("aes-copied-or-assigned-object-differs-from-fips197-reference", id2);
    if (!other_ok || !back_ok) viol("aes-setKey-on-keyed-object-differs-from-fips197-reference", id2 + (other_ok ? " (second re-key back)" : " (re-key to previous key)"));
  }
}
void sweep_aes(const char *expect) {
  if (!load_expect(expect)) return;
  aes_ref_init();
  if (SB[0] != 0x63 || SB[1] != 0x7c || SB[0x53] != 0xed || SB[0xff] != 0x16) { viol("harness-aes-reference-sbox-wrong", "computed S-box does not match FIPS-197 figure 7"); return; }
  static const struct { const char *k, *p, *c, *src; } kat[] = {
    {"2b7e151628aed2a6abf7158809cf4f3c", "3243f6a8885a308d313198a2e0370734", "3925841d02dc09fbdc118597196a0b32", "FIPS-197 appendix B"},
    {"000102030405060708090a0b0c0d0e0f", "00112233445566778899aabbccddeeff", "69c4e0d86a7b0430d8cdb78070b4c55a", "FIPS-197 appendix C.1"},
    {"2b7e151628aed2a6abf7158809cf4f3c", "6bc1bee22e409f96e93d7e117393172a", "3ad77bb40d7a3660a89ecaf32466ef97", "SP800-38A F.1.1 #1"},
    {"2b7e151628aed2a6abf7158809cf4f3c", "ae2d8a571e03ac9c9eb76fac45af8e51", "f5d3d58503b9699de785895a96fdbaaf", "SP800-38A F.1.1 #2"},
    {"2b7e151628aed2a6abf7158809cf4f3c", "30c81c46a35ce411e5fbc1191a0a52ef", "43b1cd7f598ece23881b00e3ed030688", "SP800-38A F.1.1 #3"},
    {"2b7e151628aed2a6abf7158809cf4f3c", "f69f2445df4f9b17ad2b417be66c3710", "7b0c785e27e8ad3f8223207104725dd4", "SP800-38A F.1.1 #4"},
    {"00000000000000000000000000000000", "80000000000000000000000000000000", "3ad78e726c1ec02b7ebfe92b23d9ec34", "AESAVS VarTxt #0"},
    {"80000000000000000000000000000000", "00000000000000000000000000000000", "0edd33d3c621e546455bd8ba1418bec8", "AESAVS VarKey #0"},
    {"00000000000000000000000000000000", "f34481ec3cc627bacd5dc3fb08f273e6", "0336763e966d92595a567cc9ce537f5e", "AESAVS GFSbox #0"},
    {"10a58869d74be5a374cf867cfb473859", "00000000000000000000000000000000", "6d251e6944b051e04eaa6fb4dbf78465", "AESAVS KeySbox #0"},
    {"00000000000000000000000000000000", "00000000000000000000000000000000", "66e94bd4ef8a2c3b884cfa59ca342b2e", "all-zero"} };
  if (g_part == 0) for (auto &t : kat) { uint8_t k[16], p[16]; unhex16(t.k, k); unhex16(t.p, p); aes_one(k, p, t.c, nullptr, std::string("KAT[") + t.src + "]"); }
  sample("aes KAT FIPS-197 C.1 key=000102..0f block=00112233..ff -> 69c4e0d86a7b0430d8cdb78070b4c55a, invcipher back");
  // all single-bit keys x single-bit blocks (bit b = byte b/8, mask 0x80 >> b%8): 16384 pairs, C++ reference and python reference
  for (int kb = 0; kb < 128 && !out_of_time(); kb++) if (kb % g_nparts == g_part) for (int pb = 0; pb < 128; pb++) { uint8_t k[16] = {0}, p[16] = {0}; k[kb / 8] = (uint8_t)(0x80 >> (kb % 8)); p[pb / 8] = (uint8_t)(0x80 >> (pb % 8));
    auto it = g_expect.find("B:" + std::to_string(kb) + ":" + std::to_string(pb)); if (it == g_expect.end()) { viol("harness-expect-entry-missing", "B:" + std::to_string(kb) + ":" + std::to_string(pb)); continue; }
    aes_one(k, p, nullptr, &it->second, "bit"); }
  sample("aes all 128 single-bit keys x 128 single-bit blocks vs FIPS-197 reference (C++) and pure-python AES; invcipher(cipher(x))==x; fresh object / setKey on unkeyed object / re-keyed object working in place + second block");
  if (thorough()) {
    // single-bit keys x blocks with one byte set to each value (16 x 256), and keys with one byte set to each value x single-bit blocks
    for (int kb = 0; kb < 128 && !out_of_time(); kb++) if (kb % g_nparts == g_part) for (int pos = 0; pos < 16; pos++) for (int v = 0; v < 256; v++) { uint8_t k[16] = {0}, p[16] = {0}; k[kb / 8] = (uint8_t)(0x80 >> (kb % 8)); p[pos] = (uint8_t)v; aes_one(k, p, nullptr, nullptr, "bitkey-x-byteblock"); }
    for (int pos = 0; pos < 16 && !out_of_time(); pos++) for (int v = 0; v < 256; v++) if (v % g_nparts == g_part) for (int pb = 0; pb < 128; pb++) { uint8_t k[16] = {0}, p[16] = {0}; k[pos] = (uint8_t)v; p[pb / 8] = (uint8_t)(0x80 >> (pb % 8)); aes_one(k, p, nullptr, nullptr, "bytekey-x-bitblock"); }
    // patterned full-entropy keys/blocks
    for (int a = 0; a < 64 && !out_of_time(); a++) if (a % g_nparts == g_part) for (int b = 0; b < 64; b++) { std::vector<uint8_t> k = pattern(5, 16 + (size_t)a), p = pattern(2, 16 + (size_t)b); aes_one(k.data(), p.data(), nullptr, nullptr, "patterned"); }
  }
  printf("@INFO aes key/block pairs evaluated: %llu\n", g_aes_pairs);
}

// alignment sweep: message / key / block / digest buffers at the active start offsets.  Expect files: crc, md5, aes (comma separated).
void align_digest(const char *expect) {
  std::string list = expect; size_t st = 0; while (st <= list.size()) { size_t cm = list.find(',', st); if (cm == std::string::npos) cm = list.size(); if (cm > st && !load_expect(list.substr(st, cm - st).c_str())) return; st = cm + 1; }
  // CRC-16/32 (3 seeds + every chained 2-way split), checksum-8/16: all strings of length 0..1, length 2 over A20, lengths 3..48 x 6 patterns, 49..130 x 2 patterns
  std::vector<uint8_t> full = alphabet("FULL");
  for (size_t len = 0; len <= 1; len++) for_all_strings(full, len, 0, 1, [](const uint8_t *p, size_t n) { crc_one("S:" + (n ? hexs(p, n) : std::string("-")), p, n); });
  for_all_strings(alphabet("A20"), 2, 0, 1, [](const uint8_t *p, size_t n) { crc_one("S:" + hexs(p, n), p, n); });
  for (size_t L = 3; L <= 130 && !g_capped; L++) for (int p = (L <= 48 ? 0 : 2); p < kPatterns; p += (L <= 48 ? 1 : 3)) { std::vector<uint8_t> v = pattern(p, L); crc_one("P:" + std::to_string(p) + ":" + std::to_string(L), v.data(), L); }
  // MD5: lengths 0..70 (130 thorough) x 2 patterns x {single, every 2-way split, 3-way grid, byte-at-a-time, two instances}: every part and the digest at the offsets
  for (size_t L = 0; L <= (thorough() ? 130u : 70u) && !out_of_time(); L++) md5_len(L, 0);
  // AES: the published known answers and the 128 diagonal single-bit key/block pairs: key, input, output (and the in-place buffer) at the offsets
  aes_ref_init();
  static const char *kat[][3] = { {"2b7e151628aed2a6abf7158809cf4f3c", "3243f6a8885a308d313198a2e0370734", "3925841d02dc09fbdc118597196a0b32"}, {"000102030405060708090a0b0c0d0e0f", "00112233445566778899aabbccddeeff", "69c4e0d86a7b0430d8cdb78070b4c55a"} };
  for (auto &t : kat) { uint8_t k[16], p[16]; unhex16(t[0], k); unhex16(t[1], p); aes_one(k, p, t[2], nullptr, "KAT"); }
  for (int b = 0; b < 128 && !out_of_time(); b++) { uint8_t k[16] = {0}, p[16] = {0}; k[b / 8] = (uint8_t)(0x80 >> (b % 8)); p[(127 - b) / 8] = (uint8_t)(0x80 >> ((127 - b) % 8));
    auto it = g_expect.find("B:" + std::to_string(b) + ":" + std::to_string(127 - b)); aes_one(k, p, nullptr, it == g_expect.end() ? nullptr : &it->second, "bit"); }
}
