// C19 common layer (engine I: exhaustive input sweeps, plain nested loops).
//
// Sanitizer handling: the harness is compiled with -fsanitize-recover=address,undefined and run
// with ASAN_OPTIONS=halt_on_error=0, so a report does not kill the sweep.  The runtime calls
// __asan_on_error / __ubsan_on_report (harness.cpp) which bump g_san and keep a short
// description; every risky call is bracketed by Guard, which turns "g_san changed during this
// call" into a @VIOL line carrying the exact input.  Both runtimes report one faulting code
// location only once per process (ASan: suppress_equal_pcs, UBSan: per-location dedup), so the
// input printed is the FIRST one in enumeration order (shortest / smallest first) that reaches
// that location - i.e. the minimal failing input of the enumerated domain.
// A fatal signal / uncaught exception prints the case being evaluated and exits 1.
#pragma once
#include <cctype>
#include <chrono>
#include <csignal>
#include <cstdint>
#include <cstdio>
#include <cstdlib>
#include <cstring>
#include <exception>
#include <functional>
#include <map>
#include <string>
#include <vector>
#include <unistd.h>
#include <sanitizer/asan_interface.h>

namespace c19 {

// ---------------------------------------------------------------- sanitizer / crash hooks (defined in harness.cpp)
extern volatile int g_san;           // number of sanitizer reports so far
extern char g_san_desc[400];         // description of the latest report
extern const char *g_op;             // call being evaluated (for the fatal path)
extern const uint8_t *g_in; extern size_t g_inlen; extern long g_cap;
void install_handlers();

// ---------------------------------------------------------------- counters, violations, deadline
struct Counters { unsigned long long states = 0, transitions = 0, executions = 0, violations = 0; };
extern Counters C;
extern std::map<std::string, unsigned> g_sig_count;
extern int g_samples;
extern double g_deadline; extern bool g_capped;
extern std::string g_tier; extern int g_part, g_nparts;
extern std::map<std::string, unsigned long long> g_outcomes;
extern std::string g_align_note;
extern bool g_asserts_live;
inline bool thorough() { return g_tier == "thorough"; }
inline void outcome(const std::string &s) { g_outcomes[s]++; }

inline double now_s() { using namespace std::chrono; return duration_cast<duration<double>>(steady_clock::now().time_since_epoch()).count(); }
inline void init_deadline(double dflt) { const char *e = getenv("VERIF_DEADLINE_S"); g_deadline = now_s() + (e ? atof(e) : dflt); }
// cheap deadline poll: looks at the clock every 4096 calls
inline bool out_of_time() {
  static unsigned n = 0; if (g_capped) return true;
  if ((++n & 0xfff) == 0 && now_s() > g_deadline) g_capped = true;
  return g_capped; }

inline std::string hexs(const void *p, size_t n) { static const char *d = "0123456789abcdef"; std::string s; const uint8_t *b = (const uint8_t *)p;
  for (size_t i = 0; i < n; i++) { s.push_back(d[b[i] >> 4]); s.push_back(d[b[i] & 15]); } return s; }
inline std::string printable(const void *p, size_t n) { std::string s; const uint8_t *b = (const uint8_t *)p;
  for (size_t i = 0; i < n && i < 80; i++) s.push_back(b[i] >= 0x21 && b[i] < 0x7f ? (char)b[i] : '.'); return s; }
inline std::string show_in(const void *p, size_t n) { return "in=hex:" + hexs(p, n) + "(\"" + printable(p, n) + "\") len=" + std::to_string(n); }

// lazily formatted input description (only built when a violation / sample is printed)
struct ShowIn { const void *p; size_t n; ShowIn(const void *p_, size_t n_) : p(p_), n(n_) {} std::string str() const { return show_in(p, n); } operator std::string() const { return str(); } };
inline std::string operator+(const ShowIn &a, const std::string &b) { return a.str() + b; }
inline std::string operator+(const ShowIn &a, const char *b) { return a.str() + b; }
inline std::string operator+(const std::string &a, const ShowIn &b) { return a + b.str(); }
inline std::string operator+(const char *a, const ShowIn &b) { return a + b.str(); }

inline void viol(const std::string &sig, const std::string &repr) {
  C.violations++;
  unsigned &n = g_sig_count[sig];
  if (++n <= 3) printf("@VIOL sig=%s :: %s%s\n", sig.c_str(), repr.c_str(), g_align_note.c_str());
}
inline void sample(const std::string &s) { if (g_samples < 4) { g_samples++; printf("@SAMPLE %s\n", s.c_str()); } }
inline void sample_force(const std::string &s) { printf("@SAMPLE %s\n", s.c_str()); }

// Guard brackets ONE call into the real code.
//   Guard g("base64.Decode(buf)", in, len, cap);  <call>;  if (g.hit()) viol(classify(g.desc()), ...)
struct Guard {
  int mark;
  Guard(const char *op, const void *in, size_t len, long cap = -1) : mark(g_san) { g_op = op; g_in = (const uint8_t *)in; g_inlen = len; g_cap = cap; C.executions++; }
  bool hit() { if (g_san != mark) { mark = g_san; return true; } return false; }
  static std::string desc() { return g_san_desc; }
};
// default signature for a sanitizer hit that no sweep-specific rule names: <op>:<sanitizer-kind>
inline std::string generic_san_sig(const std::string &op) {
  std::string d = g_san_desc; size_t br = d.find(":["); if (br != std::string::npos) d = d.substr(0, br);
  return op + ":" + d; }
inline bool desc_has(const char *s) { return strstr(g_san_desc, s) != nullptr; }

inline void finish_stats(const char *name) {
  if (g_capped) printf("@CAP %s: deadline reached after states=%llu transitions=%llu\n", name, C.states, C.transitions);
  printf("@STAT states=%llu transitions=%llu executions=%llu violations=%llu\n", C.states, C.transitions, C.executions, C.violations);
  printf("@INFO %s: states(enumerated inputs)=%llu transitions(input x variant cases)=%llu executions(real-code calls)=%llu sanitizer_reports=%d\n",
         name, C.states, C.transitions, C.executions, (int)g_san);
  fflush(stdout);
}

// ---------------------------------------------------------------- exactly-sized heap blocks
// new uint8_t[off + n], used from byte `off`: the byte after the block is an ASan red zone, so a 1-byte overrun (read or
// write) is reported.  n == 0 is a valid zero-length block: any access reports.
// START ALIGNMENT: operator new[] returns 16-byte aligned memory, so with off == 0 every input/output the real code sees
// starts on an aligned address - a word-at-a-time fast path with a wrong alignment prologue would never be entered.  The
// "align" sweep therefore re-runs the small-length part of every raw-pointer sweep with off = 1..15 (g_off_base; with
// g_off_step != 0 successive buffers of one case get DIFFERENT offsets, so input and output alignments are decoupled).
// The `off` bytes in front are filled with 0xA7 and must still hold it when the block is released (write before the start).
extern unsigned g_off_base, g_off_step, g_off_cur;
extern std::string g_align_note;          // appended to every violation text while an alignment configuration is active
inline void align_case_begin() { g_off_cur = g_off_base; }
struct Ex {
  uint8_t *base, *p; size_t off, n;
  void alloc(size_t n_) { off = g_off_cur & 15; g_off_cur = (g_off_cur + g_off_step) & 15; n = n_; base = new uint8_t[off + n]; if (off) memset(base, 0xA7, off); p = base + off; }
  explicit Ex(size_t n_, int fill = 0xCC) { alloc(n_); if (n) memset(p, fill, n); }
  Ex(const void *src, size_t n_) { alloc(n_); if (n) memcpy(p, src, n); }
  ~Ex();
  Ex(const Ex &) = delete; Ex &operator=(const Ex &) = delete;
  char *c() { return (char *)p; }
};

inline Ex::~Ex() { for (size_t i = 0; i < off; i++) if (base[i] != 0xA7) { viol("write-before-the-start-of-a-buffer", std::string(g_op ? g_op : "?") + " wrote " + std::to_string(off - i) + " byte(s) before the buffer it was given"); break; } delete[] base; }

// ---------------------------------------------------------------- input domains
// 20-value boundary alphabet: NUL, SOH, TAB, SP, '%', '+', '/', '0', '9', '=', 'A', 'F', 'Z', 'a', 'f', 'z', DEL, 0x80, 0xC3, 0xFF
static const uint8_t A20[20] = {0x00, 0x01, 0x09, 0x20, 0x25, 0x2B, 0x2F, 0x30, 0x39, 0x3D, 0x41, 0x46, 0x5A, 0x61, 0x66, 0x7A, 0x7F, 0x80, 0xC3, 0xFF};
// 40-value alphabet = A20 + neighbours of every codec boundary
// 64-value alphabet = A40 + 24 interior / control / high values
static const uint8_t A64X[24] = {0x02, 0x0D, 0x1B, 0x22, 0x23, 0x26, 0x31, 0x38, 0x3F, 0x42, 0x4D, 0x59, 0x5C, 0x5F, 0x62, 0x6D, 0x79, 0x7C, 0x7D, 0x82, 0xA0, 0xE0, 0xF0, 0xFD};
static const uint8_t A40[40] = {0x00, 0x01, 0x09, 0x20, 0x25, 0x2B, 0x2F, 0x30, 0x39, 0x3D, 0x41, 0x46, 0x5A, 0x61, 0x66, 0x7A, 0x7F, 0x80, 0xC3, 0xFF,
                                0x0A, 0x1F, 0x21, 0x2A, 0x2C, 0x2E, 0x3A, 0x3C, 0x3E, 0x40, 0x47, 0x5B, 0x60, 0x67, 0x7B, 0x7E, 0x81, 0xBF, 0xFE, 0x2D};
inline std::vector<uint8_t> alphabet(const std::string &name) {
  std::vector<uint8_t> a;
  if (name == "A20") a.assign(A20, A20 + 20);
  else if (name == "A40") a.assign(A40, A40 + 40);
  else if (name == "A64") { a.assign(A40, A40 + 40); a.insert(a.end(), A64X, A64X + 24); }
  else if (name == "FULL") for (int i = 0; i < 256; i++) a.push_back((uint8_t)i);
  else { int n = atoi(name.c_str() + 1); /* "E<n>": n evenly strided values incl. 0 and 255 plus A20 */ a.assign(A20, A20 + 20);
         for (int i = 0; i < n; i++) { uint8_t v = (uint8_t)(i * 255 / (n > 1 ? n - 1 : 1)); bool have = false; for (auto x : a) have |= (x == v); if (!have) a.push_back(v); } }
  return a;
}
// patterned content for the longer lengths; the same formulas are implemented in check.py
static const int kPatterns = 6;
inline uint8_t pat_byte(int p, size_t i, size_t L) {
  switch (p) {
    case 0: return 0x00;
    case 1: return 0xFF;
    case 2: return (uint8_t)(i * 37 + L * 11 + (i >> 3));        // ramp depending on the length
    case 3: return (uint8_t)(0x80 | ((i * 7 + L) & 0x7F));        // all bytes >= 0x80
    case 4: return A20[(i * 3 + L) % 20];                         // codec boundary characters
    default: return (uint8_t)((i * i * 5 + i * 13 + L * 3) ^ (i >> 1));
  }
}
// a few fixed members of the encoder domain are shown as samples (whichever partition owns them prints them)
inline bool interesting_sample(const uint8_t *x, size_t n) { return (n == 2 && x[0] == 0xC3 && x[1] == 0xFF) || (n == 3 && x[0] == 0x2F && x[1] == 0x80 && x[2] == 0x25) || (n == 66 && x[0] == pat_byte(2, 0, 66) && x[1] == pat_byte(2, 1, 66) && x[5] == pat_byte(2, 5, 66)); }
inline std::vector<uint8_t> pattern(int p, size_t L) { std::vector<uint8_t> v(L); for (size_t i = 0; i < L; i++) v[i] = pat_byte(p, i, L); return v; }

// enumerate every string of length `len` over alphabet `a` whose FIRST symbol index i satisfies i % nparts == part
inline void for_all_strings(const std::vector<uint8_t> &a, size_t len, int part, int nparts, const std::function<void(const uint8_t *, size_t)> &f) {
  uint8_t buf[8]; size_t idx[8] = {0};
  if (len == 0) { if (part == 0) f(buf, 0); return; }
  size_t n = a.size();
  for (size_t first = (size_t)part; first < n; first += (size_t)nparts) {
    idx[0] = first; for (size_t k = 1; k < len; k++) idx[k] = 0;
    for (;;) {
      for (size_t k = 0; k < len; k++) buf[k] = a[idx[k]];
      f(buf, len);
      if (g_capped) return;
      size_t k = len; bool done = true;
      while (k-- > 1) { if (++idx[k] < n) { done = false; break; } idx[k] = 0; }
      if (done) break;
    }
  }
}

// ------------------------------------------------------------------ encoder input domain
// D_enc = all byte strings of length 0..2 over 0..255 (65 793)
//       + length 3 over A20 (8 000)            [thorough: over all 256 values, 16 777 216]
//       + lengths 4..66, 255, 256, 257 x 6 patterns   [thorough: 4..300, 65533, 65534, 65535]
inline void for_enc_inputs(const std::function<void(const uint8_t *, size_t)> &f0) {
  std::function<void(const uint8_t *, size_t)> f = [&](const uint8_t *p, size_t n) { if (!out_of_time()) f0(p, n); };
  std::vector<uint8_t> full = alphabet("FULL"), a3 = alphabet(thorough() ? "FULL" : "A20");
  for (size_t len = 0; len <= 2 && !g_capped; len++) for_all_strings(full, len, g_part, g_nparts, f);
  if (!g_capped) for_all_strings(a3, 3, g_part, g_nparts, f);
  size_t maxlen = thorough() ? 300 : 66;
  for (size_t L = 4; L <= maxlen + 3 && !g_capped; L++) { if ((int)(L % (size_t)g_nparts) != g_part) continue;
    const size_t LL = L <= maxlen ? L : thorough() ? 65535 + (L - maxlen - 1) - 2 /* 65533..65535 */ : 254 + (L - maxlen);   // quick: + 255, 256, 257 (8-bit counter boundary)
    if (LL > 60000 && now_s() > g_deadline) { g_capped = true; break; }
    for (int p = 0; p < kPatterns; p++) { std::vector<uint8_t> v = pattern(p, LL); f(v.data(), LL); } }
}
// small-length domain used by the alignment sweep: all strings of length 0..1 over 0..255, length 2..3 over A20, lengths 4..maxL x 6 patterns;
// every input starts a new case (buffer offsets restart from g_off_base)
inline void for_small_inputs(size_t maxL, const std::function<void(const uint8_t *, size_t)> &f0) {
  std::function<void(const uint8_t *, size_t)> f = [&](const uint8_t *p, size_t n) { if (!out_of_time()) { align_case_begin(); f0(p, n); } };
  std::vector<uint8_t> full = alphabet("FULL"), a20 = alphabet("A20");
  for (size_t len = 0; len <= 1 && !g_capped; len++) for_all_strings(full, len, 0, 1, f);
  for (size_t len = 2; len <= 3 && !g_capped; len++) for_all_strings(a20, len, 0, 1, f);
  for (size_t L = 4; L <= maxL && !g_capped; L++) for (int p = 0; p < kPatterns; p++) { std::vector<uint8_t> v = pattern(p, L); f(v.data(), L); }
}
inline void for_small_hostile(size_t maxlen, const std::function<void(const uint8_t *, size_t)> &f0) {   // all strings of length 0..maxlen over A20
  std::function<void(const uint8_t *, size_t)> f = [&](const uint8_t *p, size_t n) { if (!out_of_time()) { align_case_begin(); f0(p, n); } };
  std::vector<uint8_t> a20 = alphabet("A20");
  for (size_t len = 0; len <= maxlen && !g_capped; len++) for_all_strings(a20, len, 0, 1, f);
}
// hostile decoder inputs derived from valid encodings: every truncation (proper prefix) of enc, and
// (for |enc| <= 12) every single-byte substitution by an A20 value.
inline void for_derived(const std::string &enc, const std::function<void(const uint8_t *, size_t)> &f) {
  for (size_t k = 0; k < enc.size(); k++) f((const uint8_t *)enc.data(), k);
  if (enc.size() <= 12) for (size_t i = 0; i < enc.size(); i++) for (int a = 0; a < 20; a++) { std::string m = enc; if ((uint8_t)m[i] == A20[a]) continue; m[i] = (char)A20[a]; f((const uint8_t *)m.data(), m.size()); }
}
inline bool has_high(const uint8_t *s, size_t n) { for (size_t i = 0; i < n; i++) if (s[i] >= 0x80) return true; return false; }

inline int hexval(uint8_t c) { if (c >= '0' && c <= '9') return c - '0'; if (c >= 'a' && c <= 'f') return c - 'a' + 10; if (c >= 'A' && c <= 'F') return c - 'A' + 10; return -1; }

}  // namespace c19
