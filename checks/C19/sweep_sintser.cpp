// C19 sweeps: scalable integer, Serializer/Deserializer
#include "common.h"
#include <tbox/util/scalable_integer.h>
#include <tbox/util/serializer.h>
#include <memory>
using namespace c19;

// ================================================================== scalable integer
using tbox::util::DumpScalableInteger; using tbox::util::ParseScalableInteger;
// format (scalable_integer.h): n bytes, 7 payload bits each, big-endian, high bit = "more follows"; an n-byte
// encoding represents min_n + payload where min_1 = 0 and min_{n+1} = min_n + 128^n; at most 10 bytes.
static uint64_t g_min[12];
static void sint_init() { g_min[1] = 0; unsigned __int128 m = 0, p = 128; for (int n = 2; n <= 10; n++) { m += p; p *= 128; g_min[n] = (uint64_t)m; } }
static int ref_sint_len(uint64_t v) { int n = 1; while (n < 10 && v >= g_min[n + 1]) n++; return n; }
static int ref_sint_enc(uint64_t v, uint8_t out[10]) { int n = ref_sint_len(v); uint64_t s = v - g_min[n];
  for (int i = n - 1; i >= 0; i--) { out[i] = (uint8_t)((s & 0x7F) | (i == n - 1 ? 0 : 0x80)); s >>= 7; } return n; }
static std::string sint_sig(const uint8_t *s, size_t len) {
  size_t k = 0; while (k < len && (s[k] & 0x80)) k++;
  if (k >= 10 && (desc_has("out-of-bounds-index") || desc_has("global-buffer-overflow"))) return "scalable-integer-parse-reads-table[11]";
  return generic_san_sig("scalable-integer-parse"); }
static void sint_parse_one(const uint8_t *s, size_t len) {      // arbitrary decoder input in an exactly sized block
  C.states++; C.transitions++; align_case_begin();
  Ex in(s, len); uint64_t got = 0x5555AAAA5555AAAAull; size_t r;
  { Guard g("scalable.Parse", s, len, (long)len); r = ParseScalableInteger(in.p, len, got);
    if (g.hit()) viol(sint_sig(s, len), show_in(s, len) + " ret=" + std::to_string(r) + " " + Guard::desc()); }
  size_t k = 0; while (k < len && (s[k] & 0x80)) k++;             // k continuation bytes, then (maybe) a terminator
  bool complete = k < len; size_t n = k + 1;
  if (r > len) viol("scalable-integer-parse-returns-more-than-input", show_in(s, len) + " ret=" + std::to_string(r));
  if (complete && n <= 9) {                                       // strictly valid, value cannot overflow
    uint64_t pay = 0; for (size_t i = 0; i < n; i++) pay = (pay << 7) | (s[i] & 0x7F);
    if (r != n || got != g_min[n] + pay) viol("scalable-integer-parse-valid-input-wrong-result", show_in(s, len) + " ret=" + std::to_string(r) + " value=" + std::to_string(got));
  } else if (!complete) { if (r != 0) viol("scalable-integer-parse-accepts-unterminated-input", show_in(s, len) + " ret=" + std::to_string(r)); }
  else if (n == 10) outcome(r ? "scalable.Parse: 10-byte encoding accepted" : "scalable.Parse: 10-byte encoding refused");
  else outcome(r ? "scalable.Parse: >10-byte encoding accepted leniently (ret>10)" : "scalable.Parse: >10-byte encoding refused (ret 0)");
}
static void sint_body(bool small);
void sweep_sint() { sint_body(false); }
void align_sint() { sint_body(true); }
static void sint_body(bool small) {
  sint_init();
  // value domain: 0, 2^64-1, every value within +-2 of each encoding-length boundary min_n (n=2..10), 2^k-1, 2^k, 2^k+1 for k=0..63
  std::vector<uint64_t> vals; vals.push_back(0); vals.push_back(~0ull);
  for (int n = 2; n <= 10; n++) for (int d = -2; d <= 2; d++) vals.push_back(g_min[n] + (uint64_t)(int64_t)d);
  for (int k = 0; k < 64; k++) for (int d = -1; d <= 1; d++) vals.push_back((1ull << k) + (uint64_t)(int64_t)d);
  for (int d = 0; d <= 2; d++) vals.push_back(~0ull - (uint64_t)d);
  if (thorough() && !small) for (int n = 1; n <= 10; n++) for (uint64_t d = 0; d < 20000; d++) { vals.push_back(g_min[n] + d); if (n > 1) vals.push_back(g_min[n] - 1 - d); }   // +-20000 around every boundary
  for (uint64_t v : vals) {
    C.states++; uint8_t ref[10]; int n = ref_sint_enc(v, ref);
    char vs[64]; snprintf(vs, sizeof vs, "value=0x%llx(len %d)", (unsigned long long)v, n);
    for (size_t size = 0; size <= 11; size++) {
      C.transitions++; align_case_begin();
      { Ex out(size, 0xCC); size_t r; Guard g("scalable.Dump", ref, (size_t)n, (long)size); r = DumpScalableInteger(v, out.p, size);
        if (g.hit()) viol(generic_san_sig("scalable-integer-dump") + (size >= (size_t)n ? "" : "-short-buffer"), std::string(vs) + " buff_size=" + std::to_string(size) + " " + Guard::desc());
        if (size >= (size_t)n) { if (r != (size_t)n || memcmp(out.p, ref, (size_t)n) != 0) viol("scalable-integer-dump-wrong-encoding", std::string(vs) + " buff_size=" + std::to_string(size) + " ret=" + std::to_string(r) + " got=" + hexs(out.p, std::min<size_t>(size, 10)) + " want=" + hexs(ref, (size_t)n));
                                 for (size_t i = (size_t)n; i < size; i++) if (out.p[i] != 0xCC) { viol("scalable-integer-dump-writes-beyond-returned-length", std::string(vs) + " buff_size=" + std::to_string(size)); break; } }
        else if (r != 0) viol("scalable-integer-dump-short-buffer-not-refused", std::string(vs) + " buff_size=" + std::to_string(size) + " ret=" + std::to_string(r)); }
      { Ex in(size, 0xFF); memcpy(in.p, ref, std::min<size_t>(size, (size_t)n)); uint64_t got = 0; size_t r;   // the first `size` bytes of encoding+0xFF filler
        Guard g("scalable.Parse", in.p, size, (long)size); r = ParseScalableInteger(in.p, size, got);
        if (g.hit()) viol(sint_sig(in.p, size), std::string(vs) + " enc=" + hexs(in.p, size) + " buff_size=" + std::to_string(size) + " " + Guard::desc());
        if (size >= (size_t)n) { if (r != (size_t)n || got != v) viol("scalable-integer-roundtrip", std::string(vs) + " enc=" + hexs(ref, (size_t)n) + " buff_size=" + std::to_string(size) + " ret=" + std::to_string(r) + " got=" + std::to_string(got)); }
        else if (r != 0) viol("scalable-integer-parse-accepts-truncated-input", std::string(vs) + " buff_size=" + std::to_string(size) + " ret=" + std::to_string(r)); }
    }
  }
  sample("scalable integer value=0x4080 (first 3-byte value) x buff_size 0..11: dump, parse, truncations");
  // decoder inputs: every byte string of length <= 2
  std::vector<uint8_t> full = alphabet("FULL");
  for (size_t len = 0; len <= (small ? 1 : 2); len++) for_all_strings(full, len, 0, 1, sint_parse_one);
  if (small) for_all_strings(alphabet("A20"), 2, 0, 1, sint_parse_one);
  if (thorough() && !small) for_all_strings(full, 3, 0, 1, sint_parse_one);
  // all-continuation strings c^k (k = 1..12) and c^k t (k = 0..12) for c in {80,FF,81,C0}, t in {00,7F,01}
  static const uint8_t cs[4] = {0x80, 0xFF, 0x81, 0xC0}, ts[3] = {0x00, 0x7F, 0x01};
  for (size_t k = 0; k <= 12; k++) for (int ci = 0; ci < 4; ci++) {
    uint8_t b[14]; memset(b, cs[ci], sizeof b);
    if (k) sint_parse_one(b, k);
    for (int ti = 0; ti < 3; ti++) { b[k] = ts[ti]; sint_parse_one(b, k + 1); if (k == 10 && ci == 0 && ti == 0) sample("scalable parse " + show_in(b, k + 1)); b[k] = cs[ci]; } }
}

// ================================================================== Serializer / Deserializer
// Closed system: one Serializer (raw buffer of capacity {exact, exact-1, 0} or a growing vector) and one Deserializer over the
// reference bytes (size {exact, exact-1, 0}), driven by a sequence of items:
//   u8 u16 u32 u64 blob                 through three API families (append/fetch, appendPOD/fetchPOD/fetchNoCopy, operator<< >>)
//   SWITCH                              mid-stream endian change: setEndian(e) (returned old value checked) or `s << e` / `d >> e`
//   i8 i16 i32 i64 f32 f64              the signed / float / double stream operators (bit patterns compared through memcpy)
// constructed with Endian::kBig, Endian::kLittle or WITHOUT an endian argument (header: defaults to big).
// Model: a byte vector + position + current endian; a request succeeds iff pos + width <= capacity and a refused request
// changes nothing.  At every position of the Deserializer walk hostile requests are made as well: checkSize/skip/fetchNoCopy/
// fetch/fetchPOD of rest+1, rest+2, 2^63, SIZE_MAX, SIZE_MAX-pos+k (k=0..2: pos+n wraps to k-1) must be refused and leave pos alone;
// set_pos(p) for p in {0,pos,size-1,size,size+1,SIZE_MAX} succeeds iff p < size (header/impl contract), then reads come from p.
using tbox::util::Serializer; using tbox::util::Deserializer; using tbox::util::Endian;
enum { F8, F16, F32, F64, FBLOB, FSW, NF_BASE, FI8 = NF_BASE, FI16, FI32, FI64, FFLT, FDBL, NF_ALL, FPOD = NF_ALL };   // FPOD: appendPOD/fetchPOD of an arbitrary width (phase C)
static const char *kF[] = {"u8", "u16", "u32", "u64", "blob", "SWITCH", "i8", "i16", "i32", "i64", "f32", "f64", "pod"};
// the protected capacity gate, reached through a using-declaration (public C++ means; no private member of cpp-tbox is named by this check)
struct SerProbe : Serializer { using Serializer::Serializer; using Serializer::extendSize; };
static const char *kCfg[] = {"BE", "LE", "default(BE)"};
static const char *kApi[] = {"append/fetch", "POD/NoCopy", "stream<<>>"};
struct Field { int kind; uint64_t v; std::vector<uint8_t> blob;
  size_t width() const { switch (kind) { case F8: case FI8: return 1; case F16: case FI16: return 2; case F32: case FI32: case FFLT: return 4; case F64: case FI64: case FDBL: return 8; case FSW: return 0; default: return blob.size(); } } };
static void ref_put(std::vector<uint8_t> &o, const Field &f, bool big) {
  if (f.kind == FSW) return;
  if (f.kind == FPOD) { if (big) o.insert(o.end(), f.blob.rbegin(), f.blob.rend()); else o.insert(o.end(), f.blob.begin(), f.blob.end()); return; }   // header: POD bytes as in memory on little, reversed on big
  if (f.kind == FBLOB) { o.insert(o.end(), f.blob.begin(), f.blob.end()); return; }
  size_t w = f.width(); for (size_t i = 0; i < w; i++) { size_t sh = big ? (w - 1 - i) * 8 : i * 8; o.push_back((uint8_t)(f.v >> sh)); } }
static uint64_t ref_get(const uint8_t *p, size_t w, bool big) { uint64_t v = 0; for (size_t i = 0; i < w; i++) { size_t sh = big ? (w - 1 - i) * 8 : i * 8; v |= (uint64_t)p[i] << sh; } return v; }
static std::string seq_str(const std::vector<Field> &fs, int cfg, int vs, int api) {
  std::string s = std::string(kCfg[cfg]) + "["; for (auto &f : fs) { s += kF[f.kind]; if (f.kind == FBLOB || f.kind == FPOD) s += "(" + std::to_string(f.blob.size()) + ")"; s += " "; } return s + "] valueset=" + std::to_string(vs) + " api=" + kApi[api]; }
static Endian en_of(bool big) { return big ? Endian::kBig : Endian::kLittle; }
static bool g_ser_huge = false;   // C19_SER_HUGE_APPEND=1: also ask the Serializer to append blobs whose claimed length makes pos+len wrap (see the final report of the strengthening pass)

// one item on the serializer; `big` is the model's current endian (flipped by SWITCH).  Returns "accepted".
static bool ser_put(Serializer &s, const Field &f, int api, bool &big, std::string &err) {
  const size_t p0 = s.pos();
  switch (f.kind) {
    case FSW: { const Endian ne = en_of(!big);
      if (api == 2) s << ne; else { Endian old = s.setEndian(ne); if (old != en_of(big)) err = "serializer-setEndian-returns-wrong-old-value"; }
      big = !big; return true; }
    case FBLOB: { Ex b(f.blob.data(), f.blob.size()); return s.append(b.p, f.blob.size()); }
    case FPOD: { Ex b(f.blob.data(), f.blob.size()); return s.appendPOD(b.p, f.blob.size()); }
    case F8: if (api == 2) { s << (uint8_t)f.v; return s.pos() != p0; } return s.append((uint8_t)f.v);
    case F16: { uint16_t v = (uint16_t)f.v; if (api == 2) { s << v; return s.pos() != p0; } return api == 1 ? s.appendPOD(&v, 2) : s.append(v); }
    case F32: { uint32_t v = (uint32_t)f.v; if (api == 2) { s << v; return s.pos() != p0; } return api == 1 ? s.appendPOD(&v, 4) : s.append(v); }
    case F64: { uint64_t v = f.v; if (api == 2) { s << v; return s.pos() != p0; } return api == 1 ? s.appendPOD(&v, 8) : s.append(v); }
    case FI8: s << (int8_t)(uint8_t)f.v; break;
    case FI16: s << (int16_t)(uint16_t)f.v; break;
    case FI32: s << (int32_t)(uint32_t)f.v; break;
    case FI64: s << (int64_t)f.v; break;
    case FFLT: { uint32_t b = (uint32_t)f.v; float x; memcpy(&x, &b, 4); s << x; } break;
    default: { uint64_t b = f.v; double x; memcpy(&x, &b, 8); s << x; } break;
  }
  return s.pos() != p0;
}
// one item on the deserializer.  ok = accepted; got = value read (scalars) ; same = output as the model demands
static void des_get(Deserializer &d, const Field &f, int api, bool &big, const uint8_t *base, size_t pos, bool fit, bool &ok, bool &same, std::string &err) {
  const size_t p0 = d.pos(), w = f.width(); const uint64_t S = 0x5A5A5A5A5A5A5A5Aull;
  const uint64_t mask = w >= 8 ? ~0ull : ((1ull << (8 * w)) - 1);   // (scalars only)
  const uint64_t want = (fit && w <= 8 && f.kind != FBLOB && f.kind != FSW && f.kind != FPOD) ? ref_get(base + pos, w, big) : 0;   // decided by the reference bytes at the model position
  uint64_t got = 0; ok = false; same = true;
  switch (f.kind) {
    case FSW: { const Endian ne = en_of(!big);
      if (api == 2) d >> ne; else { Endian old = d.setEndian(ne); if (old != en_of(big)) err = "deserializer-setEndian-returns-wrong-old-value"; }
      big = !big; ok = true; return; }
    case FBLOB: { Ex o(w, 0x5A);
      if (api == 1) { const void *p = d.fetchNoCopy(w); ok = p != nullptr; same = !ok || p == base + pos; }
      else { ok = d.fetch(o.p, w); if (ok) same = (w == 0 || !fit || memcmp(o.p, base + pos, w) == 0); else for (size_t j = 0; j < w; j++) same &= (o.p[j] == 0x5A); }
      return; }
    case FPOD: { Ex o(w, 0x5A); ok = d.fetchPOD(o.p, w);                 // expected: the reference bytes at the model position, reversed when big
      if (ok) { for (size_t j = 0; j < w && fit; j++) same &= (o.p[j] == base[pos + (big ? w - 1 - j : j)]); } else for (size_t j = 0; j < w; j++) same &= (o.p[j] == 0x5A);
      return; }
    case F8: { uint8_t v = (uint8_t)S; if (api == 2) { d >> v; ok = d.pos() != p0; } else ok = d.fetch(v); got = v; } break;
    case F16: { uint16_t v = (uint16_t)S; if (api == 2) { d >> v; ok = d.pos() != p0; } else ok = api == 1 ? d.fetchPOD(&v, 2) : d.fetch(v); got = v; } break;
    case F32: { uint32_t v = (uint32_t)S; if (api == 2) { d >> v; ok = d.pos() != p0; } else ok = api == 1 ? d.fetchPOD(&v, 4) : d.fetch(v); got = v; } break;
    case F64: { uint64_t v = S; if (api == 2) { d >> v; ok = d.pos() != p0; } else ok = api == 1 ? d.fetchPOD(&v, 8) : d.fetch(v); got = v; } break;
    case FI8: { int8_t v = (int8_t)(uint8_t)S; d >> v; ok = d.pos() != p0; got = (uint8_t)v; } break;
    case FI16: { int16_t v = (int16_t)(uint16_t)S; d >> v; ok = d.pos() != p0; got = (uint16_t)v; } break;
    case FI32: { int32_t v = (int32_t)(uint32_t)S; d >> v; ok = d.pos() != p0; got = (uint32_t)v; } break;
    case FI64: { int64_t v = (int64_t)S; d >> v; ok = d.pos() != p0; got = (uint64_t)v; } break;
    case FFLT: { uint32_t b = (uint32_t)S; float x; memcpy(&x, &b, 4); d >> x; ok = d.pos() != p0; memcpy(&b, &x, 4); got = b; } break;
    default: { uint64_t b = S; double x; memcpy(&x, &b, 8); d >> x; ok = d.pos() != p0; memcpy(&b, &x, 8); got = b; } break;
  }
  same = ok ? (fit && got == want) : got == (S & mask);
}
// hostile size requests and set_pos at model position `pos` of a Deserializer over in[0..size).  false = a violation was reported (stop this walk)
static bool des_probe(Deserializer &d, const uint8_t *base, size_t size, size_t pos, const std::string &ss) {
  const size_t rest = size - pos; const std::string at = ss + " size=" + std::to_string(size) + " pos=" + std::to_string(pos);
  const size_t cand[] = {rest + 1, rest + 2, (size_t)1 << 63, SIZE_MAX, SIZE_MAX - pos, SIZE_MAX - pos + 1, SIZE_MAX - pos + 2};
  Guard g("Deserializer.oversize-request", base, size, (long)size);
  for (size_t n : cand) { if (n <= rest) continue;                  // (SIZE_MAX - pos + k wraps to a legal small request when pos < k)
    C.executions += 5; const std::string ns = " request=" + (n > ((size_t)1 << 62) ? "SIZE_MAX-" + std::to_string(SIZE_MAX - n) : std::to_string(n));
    const char *bad = nullptr;
    if (d.checkSize(n)) bad = "checkSize";
    else if (d.skip(n)) bad = "skip";
    else if (d.pos() != pos) bad = "skip(pos moved)";
    else if (d.fetchNoCopy(n) != nullptr) bad = "fetchNoCopy";
    else if (d.pos() != pos) bad = "fetchNoCopy(pos moved)";
    else { Ex o(1, 0x5A);                                             // only reached when checkSize refused: an accepted copy of n bytes would be fatal
      if (d.fetch(o.p, n)) bad = "fetch"; else if (d.fetchPOD(o.p, n)) bad = "fetchPOD"; else if (d.pos() != pos || o.p[0] != 0x5A) bad = "fetch(pos moved or output written)"; }
    if (g.hit()) { viol(generic_san_sig("deserializer-oversize-request"), at + ns + " " + Guard::desc()); return false; }
    if (bad) { viol(n > ((size_t)1 << 62) ? "deserializer-accepts-request-whose-end-wraps-around" : "deserializer-accepts-request-beyond-size", at + ns + " accepted by " + bad); return false; } }
  const size_t ps[] = {0, pos, size - 1, size, size + 1, SIZE_MAX}; bool moved = false; size_t cur = pos;
  for (size_t p : ps) { C.executions++; const bool want = p < size; const bool r = d.set_pos(p); const std::string pstr = " set_pos(" + (p == SIZE_MAX ? std::string("SIZE_MAX") : std::to_string(p)) + ")";
    if (r != want) { viol(want ? "deserializer-set_pos-refuses-position-inside-input" : "deserializer-set_pos-accepts-position-outside-input", at + pstr); return false; }
    if (!r) { if (d.pos() != cur) { viol("deserializer-set_pos-refused-but-moved", at + pstr); return false; } continue; }
    moved = true; uint8_t v = 0x5A; const bool pok = d.pos() == p && d.ptr() == base + p && d.checkSize(size - p) && !d.checkSize(size - p + 1);
    if (!pok || !d.fetch(v) || v != base[p] || d.pos() != p + 1) { viol("deserializer-read-after-set_pos-wrong", at + pstr + " pos()=" + std::to_string(d.pos())); return false; }
    cur = p + 1; }
  if (moved) { bool back = pos < size ? d.set_pos(pos) : (d.set_pos(0) && d.skip(size)); if (!back || d.pos() != pos) { viol("deserializer-set_pos-cannot-return", at); return false; } }   // pos == size is reachable by reading only
  else if (d.pos() != pos) { viol("deserializer-set_pos-refused-but-moved", at); return false; }
  if (g.hit()) { viol(generic_san_sig("deserializer-set_pos"), at + " " + Guard::desc()); return false; }
  return true;
}
static void ser_case(const std::vector<Field> &fs, int cfg, int vs, int api) {
  C.states++; align_case_begin();
  const bool big0 = cfg != 1;                                    // cfg 2: constructed without an endian argument = big (serializer.h)
  std::vector<uint8_t> want; { bool b = big0; for (auto &f : fs) { if (f.kind == FSW) b = !b; else ref_put(want, f, b); } }
  const size_t total = want.size();
  const std::string ss = seq_str(fs, cfg, vs, api);
  // ---- raw mode, capacity exact / exact-1 / 0; for sequences of <= 3 items (total <= 40) EVERY capacity 0..total, so that a refused item is
  //      followed by narrower ones that fit (a refusal must not be sticky and must not move the position)
  std::vector<long> caps; if (fs.size() <= 3 && total <= 40) { for (long c = (long)total; c >= 0; c--) caps.push_back(c); } else { caps.push_back((long)total); if (total >= 1) caps.push_back((long)total - 1); if (total >= 2) caps.push_back(0); }
  for (size_t ci = 0; ci < caps.size(); ci++) { long cap = caps[ci];
    C.transitions++; Ex out((size_t)cap, 0xCC);
    std::unique_ptr<SerProbe> sp(cfg == 2 ? new SerProbe(out.p, (size_t)cap) : new SerProbe(out.p, (size_t)cap, en_of(big0))); SerProbe &s = *sp;
    size_t pos = 0; std::vector<uint8_t> model; bool big = big0;   // model: an append succeeds iff pos + width <= cap, a failed append changes nothing
    for (size_t i = 0; i < fs.size(); i++) { bool fit = pos + fs[i].width() <= (size_t)cap; const bool bigv = fs[i].kind == FSW ? !big : big; std::string err;
      const std::string fstr = ss + " field#" + std::to_string(i) + " cap=" + std::to_string(cap);
      if (g_ser_huge && pos >= 1) {   // default off: the capacity gate itself (protected extendSize(); side-effect free in raw mode) asked for a length whose end wraps
        const size_t ns[3] = {SIZE_MAX, SIZE_MAX - pos + 1, SIZE_MAX - pos + 2}; bool bad = false;
        for (size_t n : ns) { C.executions++; if (s.extendSize(n)) { viol("serializer-accepts-append-whose-end-wraps-around", fstr + " pos=" + std::to_string(pos) + " len=SIZE_MAX-" + std::to_string(SIZE_MAX - n)); bad = true; break; } }
        if (bad) break; }
      Guard g("Serializer.append(raw)", want.data(), total, cap);
      bool ok = ser_put(s, fs[i], api, big, err);
      if (g.hit()) viol(generic_san_sig(std::string("serializer-append-") + kF[fs[i].kind]) + (fit ? "" : "-no-room"), fstr + " " + Guard::desc());
      if (!err.empty()) { viol(err, fstr); break; }
      if (ok != fit) { viol(std::string("serializer-append-") + (fit ? "refused-although-room" : "accepted-without-room"), fstr); break; }
      if (fit) { ref_put(model, fs[i], bigv); pos += fs[i].width(); }
      if (s.pos() != pos) { viol("serializer-pos-wrong", fstr + " pos=" + std::to_string(s.pos())); break; } }
    if (model.size() <= (size_t)cap && memcmp(out.p, model.data(), model.size()) != 0) viol(std::string("serializer-bytes-wrong-") + (big0 ? "big" : "little") + "-endian", ss + " cap=" + std::to_string(cap) + " got=" + hexs(out.p, std::min<size_t>(model.size(), 64)) + " want=" + hexs(model.data(), std::min<size_t>(model.size(), 64)));
    for (size_t i = model.size(); i < (size_t)cap; i++) if (out.p[i] != 0xCC) { viol("serializer-writes-beyond-pos", ss + " cap=" + std::to_string(cap)); break; }
  }
  // ---- vector mode: on a new empty vector, on a vector pre-filled with 1 / total / total+5 bytes of 0xEE, on an empty vector with reserve(64),
  //      and a SECOND Serializer over the vector the first one produced.  The vector is the output: once any append call was made (also one of
  //      width 0) its content is exactly the reference bytes and size() == pos(); if none was made it is untouched.
  { bool any = false; for (auto &f : fs) if (f.kind != FSW) any = true;
    const size_t pre[5] = {0, 1, total, total + 5, 0};
    for (int vm = 0; vm < 6; vm++) { C.transitions++; std::vector<uint8_t> blk; const char *vname = vm == 0 ? "empty" : vm == 4 ? "reserve(64)" : vm == 5 ? "second-serializer-over-first-result" : "prefilled";
      if (vm >= 1 && vm <= 3) blk.assign(pre[vm], 0xEE); if (vm == 4) blk.reserve(64);
      const std::vector<uint8_t> before = blk;
      for (int round = 0; round < (vm == 5 ? 2 : 1); round++) {
        std::unique_ptr<Serializer> sp(cfg == 2 ? new Serializer(blk) : new Serializer(blk, en_of(big0))); Serializer &s = *sp; bool big = big0; std::string err;
        Guard g("Serializer.append(vector)", want.data(), total);
        for (auto &f : fs) { if (!ser_put(s, f, api, big, err) && f.width() != 0) viol("serializer-vector-append-refused", ss); if (!err.empty()) { viol(err, ss + " mode=vector"); break; } }
        if (g.hit()) viol(generic_san_sig("serializer-append-vector"), ss + " vector=" + vname + " " + Guard::desc());
        const std::vector<uint8_t> &exp = any ? want : before;
        if (blk != exp || s.pos() != total) viol(vm == 0 ? std::string("serializer-bytes-wrong-") + (big0 ? "big" : "little") + "-endian" : std::string("serializer-vector-not-exactly-the-serialized-bytes"),
                                                 ss + " mode=vector(" + vname + (vm >= 1 && vm <= 3 ? " " + std::to_string(pre[vm]) : "") + ") size=" + std::to_string(blk.size()) + " pos=" + std::to_string(s.pos()) + " got=" + hexs(blk.data(), std::min<size_t>(blk.size(), 64)) + " want=" + hexs(exp.data(), std::min<size_t>(exp.size(), 64))); } } }
  // ---- Deserializer over the reference bytes, size exact / exact-1 / 0
  for (size_t ci = 0; ci < caps.size(); ci++) { long cap = caps[ci];
    C.transitions++; Ex in(want.data(), (size_t)cap);
    std::unique_ptr<Deserializer> dp(cfg == 2 ? new Deserializer(in.p, (size_t)cap) : new Deserializer(in.p, (size_t)cap, en_of(big0))); Deserializer &d = *dp;
    size_t pos = 0; bool big = big0, alive = true;
    if (d.start() != in.p || d.size() != (size_t)cap || d.pos() != 0) viol("deserializer-accessors-wrong", ss + " size=" + std::to_string(cap));
    for (size_t i = 0; i < fs.size() && alive; i++) { const Field &f = fs[i]; bool fit = pos + f.width() <= (size_t)cap; bool ok = false, same = true; std::string err;
      const std::string fstr = ss + " field#" + std::to_string(i) + " size=" + std::to_string(cap);
      if (!des_probe(d, in.p, (size_t)cap, pos, ss)) { alive = false; break; }
      const bool bigv = big;
      Guard g("Deserializer.fetch", want.data(), (size_t)cap, cap);
      des_get(d, f, api, big, in.p, pos, fit, ok, same, err);
      if (g.hit()) viol(generic_san_sig(std::string("deserializer-fetch-") + kF[f.kind]) + (fit ? "" : "-no-room"), fstr + " " + Guard::desc());
      if (!err.empty()) { viol(err, fstr); alive = false; break; }
      if (ok != fit) { viol(std::string("deserializer-fetch-") + (fit ? "refused-although-room" : "accepted-beyond-size"), fstr); alive = false; break; }
      if (!same) { viol(std::string("deserializer-value-wrong-") + (bigv ? "big" : "little") + "-endian-" + kF[f.kind], fstr + (ok ? "" : " (output modified by failed fetch)")); alive = false; break; }
      if (fit) pos += f.width();
      if (d.pos() != pos) { viol("deserializer-pos-wrong", fstr); alive = false; break; } }
    // at the end: hostile requests again, then exactly the remaining bytes can be skipped, one more cannot
    if (alive && d.pos() == pos && des_probe(d, in.p, (size_t)cap, pos, ss)) { size_t rest = (size_t)cap - pos; Guard g("Deserializer.skip", want.data(), (size_t)cap, cap);
      bool c1 = d.checkSize(rest), c2 = d.checkSize(rest + 1); bool s2 = d.skip(rest + 1); bool s1 = d.skip(rest);
      if (!c1 || c2 || s2 || !s1 || d.pos() != (size_t)cap) viol("deserializer-skip-bounds", ss + " size=" + std::to_string(cap) + " rest=" + std::to_string(rest)); }
  }
}
static Field make_field(int kind, int i, int vs) {
  Field f; f.kind = kind; const size_t w = f.width(); const uint64_t mask = w >= 8 ? ~0ull : w ? ((1ull << (8 * w)) - 1) : 0; uint8_t b = (uint8_t)(0x81 + i * 0x10);
  switch (vs) {
    case 0: f.v = 0; for (size_t j = 8 - (w ? w : 8); j < 8; j++) f.v = (f.v << 8) | (uint8_t)(b + j); break;   // distinct bytes, top bit set (negative / NaN-free patterns)
    case 1: f.v = 0; break;
    case 2: f.v = ~0ull; break;                                                       // -1, NaN with full payload
    case 3: f.v = w ? 1ull << (8 * w - 1) : 0; break;                                 // MIN, -0.0
    default: f.v = w ? (1ull << (8 * w - 1)) - 1 : 0; break; }                        // MAX, NaN 0x7FFF...
  f.v &= mask;
  if (kind == FBLOB) { size_t bl = vs == 0 ? 3 : vs == 1 ? 0 : vs == 2 ? 1 : 2; for (size_t j = 0; j < bl; j++) f.blob.push_back((uint8_t)(0xA1 + i * 0x10 + j)); }
  return f; }
// phase C ("wide") items: blobs of 255 / 256 / 257 / 300 (thorough 70000) bytes and PODs of 1 / 3 / 5 / 16 bytes, by value set 0..3
static Field make_wide(int kind, int i, int ws) {
  static const size_t pw[4] = {1, 3, 5, 16}; const size_t bw[4] = {255, 256, 257, thorough() ? (size_t)70000 : (size_t)300};
  if (kind != FBLOB && kind != FPOD) return make_field(kind, i, 0);
  Field f; f.kind = kind; f.v = 0; const size_t n = kind == FBLOB ? bw[ws] : pw[ws];
  for (size_t j = 0; j < n; j++) f.blob.push_back((uint8_t)(0xA1 + i * 0x31 + j * 7 + (j >> 8) * 13));
  return f; }
static void ser_enum(int maxfA, int maxfB, int maxfC);
void sweep_ser() { ser_enum(thorough() ? 6 : 4, thorough() ? 4 : 3, thorough() ? 4 : 3); }
void align_ser() { ser_enum(2, 2, 1); }      // alignment sweep: raw output buffer / deserializer input / blob sources at the active start offsets
static void ser_enum(int maxfA, int maxfB, int maxfC) {
  g_ser_huge = getenv("C19_SER_HUGE_APPEND") && atoi(getenv("C19_SER_HUGE_APPEND")) > 0;
  // (A) every sequence of 0..4 items over {u8,u16,u32,u64,blob,SWITCH} (1555) x construction{big,little,no endian argument} x value set{distinct bytes with
  //     high bits, all zero, all ones} x blob length{3,0,1} (by value set) x api{append/fetch, appendPOD/fetchPOD/fetchNoCopy, operator<< >>}   [thorough: 0..6 items]
  // (B) every sequence of 0..3 items over all 12 kinds that contains a signed/float/double item x construction x 5 value sets (also MIN/MAX) x stream API   [thorough: 0..4]
  long nseq = 0;
  for (int phase = 0; phase < 2; phase++) { const int nk = phase ? NF_ALL : NF_BASE, maxf = phase ? maxfB : maxfA, nvs = phase ? 5 : 3;
    for (int nf = 0; nf <= maxf; nf++) { long cnt = 1; for (int i = 0; i < nf; i++) cnt *= nk;
      for (long code = 0; code < cnt && !out_of_time(); code++) {
        bool special = false; { long c = code; for (int i = 0; i < nf; i++) { if (c % nk >= NF_BASE) special = true; c /= nk; } }
        if (phase && !special) continue;
        if ((int)(nseq++ % g_nparts) != g_part) continue;
        for (int vs = 0; vs < nvs; vs++) for (int cfg = 0; cfg < 3; cfg++) for (int api = phase ? 2 : 0; api < 3; api++) {
          std::vector<Field> fs; long c = code;
          for (int i = 0; i < nf; i++) { fs.push_back(make_field((int)(c % nk), i, vs)); c /= nk; }
          ser_case(fs, cfg, vs, api);
          if (phase == 0 && nf == 3 && code == 38 && vs == 0 && api == 0 && cfg == 0) sample("serializer " + seq_str(fs, cfg, vs, api) + " raw caps{exact,exact-1,0} + vector + deserializer sizes{exact,exact-1,0}, hostile requests + set_pos at every position");
          if (phase == 1 && nf == 3 && code == 6 + 12 * 5 + 144 * 10 && vs == 2 && cfg == 2) sample("serializer " + seq_str(fs, cfg, vs, api));
        } } } }
  // (C) wide items: every sequence of 0..maxfC items over {u8, u32, blob, SWITCH, pod} that contains a blob or pod x construction x 4 width sets
  //     (blob 255/256/257/300 [thorough 70000] bytes; appendPOD/fetchPOD of 1/3/5/16 bytes) x api{append/fetch (copying), fetchNoCopy}
  static const int kindsC[5] = {F8, F32, FBLOB, FSW, FPOD};
  for (int nf = 0; nf <= maxfC; nf++) { long cnt = 1; for (int i = 0; i < nf; i++) cnt *= 5;
    for (long code = 0; code < cnt && !out_of_time(); code++) {
      bool wide = false; { long c = code; for (int i = 0; i < nf; i++) { int k = kindsC[c % 5]; if (k == FBLOB || k == FPOD) wide = true; c /= 5; } }
      if (!wide) continue;
      if ((int)(nseq++ % g_nparts) != g_part) continue;
      for (int ws = 0; ws < 4; ws++) for (int cfg = 0; cfg < 3; cfg++) for (int api = 0; api < 2; api++) {
        std::vector<Field> fs; long c = code; for (int i = 0; i < nf; i++) { fs.push_back(make_wide(kindsC[c % 5], i, ws)); c /= 5; }
        ser_case(fs, cfg, 10 + ws, api);
        if (nf == 2 && code == 2 + 5 * 4 && ws == 1 && cfg == 0 && api == 0) sample("serializer " + seq_str(fs, cfg, 10 + ws, api) + " (wide items)");
      } } }
}
