// C19 sweeps: scalable integer, Serializer/Deserializer
#include "common.h"
#include <tbox/util/scalable_integer.h>
#include <tbox/util/serializer.h>
using namespace c19;

// ================================================================== scalable integer
using tbox::util::DumpScalableInteger; using tbox::util::ParseScalableInteger;
// format (scalable_integer.h): n bytes, 7 payload bits each, big-endian, high bit = "more follows"; an n-byte
// encoding represents min_n + payload where min_1 = 0 and min_{n+1} = min_n + 128^n; at most 10 bytes.
static uint64_t g_min[12];
static void sint_init() { g_min[1] = 0; unsigned __int128 m = 0, p = 128; for (int n = 2; n <= 10; n++) { m += p; p *= 128; g_min[n] = (uint64_t)m; } }
static int ref_sint_len(uint64_t v) { int n = 1; while (n < 10 && v >= g_min[n + 1]) n++; return n; }
static int ref_sint_enc(uint64_t v, uint8_t out[10]) { int n = ref_sint_len(v); uint64_t s = v - g_min[n];
  for (int i = n - 1; i >= 0; i--) { out[i] = (uint8_t)((s & 0x7F) | (i == n - 1 ? 0 : 0x80)); s >>= 7; } return n; }
static std::string sint_sig(const uint8_t *s, size_t len) {
  size_t k = 0; while (k < len && (s[k] & 0x80)) k++;
  if (k >= 10 && (desc_has("out-of-bounds-index") || desc_has("global-buffer-overflow"))) return "scalable-integer-parse-reads-table[11]";
  return generic_san_sig("scalable-integer-parse"); }
static void sint_parse_one(const uint8_t *s, size_t len) {      // arbitrary decoder input in an exactly sized block
  C.states++; C.transitions++;
  Ex in(s, len); uint64_t got = 0x5555AAAA5555AAAAull; size_t r;
  { Guard g("scalable.Parse", s, len, (long)len); r = ParseScalableInteger(in.p, len, got);
    if (g.hit()) viol(sint_sig(s, len), show_in(s, len) + " ret=" + std::to_string(r) + " " + Guard::desc()); }
  size_t k = 0; while (k < len && (s[k] & 0x80)) k++;             // k continuation bytes, then (maybe) a terminator
  bool complete = k < len; size_t n = k + 1;
  if (r > len) viol("scalable-integer-parse-returns-more-than-input", show_in(s, len) + " ret=" + std::to_string(r));
  if (complete && n <= 9) {                                       // strictly valid, value cannot overflow
    uint64_t pay = 0; for (size_t i = 0; i < n; i++) pay = (pay << 7) | (s[i] & 0x7F);
    if (r != n || got != g_min[n] + pay) viol("scalable-integer-parse-valid-input-wrong-result", show_in(s, len) + " ret=" + std::to_string(r) + " value=" + std::to_string(got));
  } else if (!complete) { if (r != 0) viol("scalable-integer-parse-accepts-unterminated-input", show_in(s, len) + " ret=" + std::to_string(r)); }
  else if (n == 10) outcome(r ? "scalable.Parse: 10-byte encoding accepted" : "scalable.Parse: 10-byte encoding refused");
  else outcome(r ? "scalable.Parse: >10-byte encoding accepted leniently (ret>10)" : "scalable.Parse: >10-byte encoding refused (ret 0)");
}
void sweep_sint() {
  sint_init();
  // value domain: 0, 2^64-1, every value within +-2 of each encoding-length boundary min_n (n=2..10), 2^k-1, 2^k, 2^k+1 for k=0..63
  std::vector<uint64_t> vals; vals.push_back(0); vals.push_back(~0ull);
  for (int n = 2; n <= 10; n++) for (int d = -2; d <= 2; d++) vals.push_back(g_min[n] + (uint64_t)(int64_t)d);
  for (int k = 0; k < 64; k++) for (int d = -1; d <= 1; d++) vals.push_back((1ull << k) + (uint64_t)(int64_t)d);
  for (int d = 0; d <= 2; d++) vals.push_back(~0ull - (uint64_t)d);
  if (thorough()) for (int n = 1; n <= 10; n++) for (uint64_t d = 0; d < 20000; d++) { vals.push_back(g_min[n] + d); if (n > 1) vals.push_back(g_min[n] - 1 - d); }   // +-20000 around every boundary
  for (uint64_t v : vals) {
    C.states++; uint8_t ref[10]; int n = ref_sint_enc(v, ref);
    char vs[64]; snprintf(vs, sizeof vs, "value=0x%llx(len %d)", (unsigned long long)v, n);
    for (size_t size = 0; size <= 11; size++) {
      C.transitions++;
      { Ex out(size, 0xCC); size_t r; Guard g("scalable.Dump", ref, (size_t)n, (long)size); r = DumpScalableInteger(v, out.p, size);
        if (g.hit()) viol(generic_san_sig("scalable-integer-dump") + (size >= (size_t)n ? "" : "-short-buffer"), std::string(vs) + " buff_size=" + std::to_string(size) + " " + Guard::desc());
        if (size >= (size_t)n) { if (r != (size_t)n || memcmp(out.p, ref, (size_t)n) != 0) viol("scalable-integer-dump-wrong-encoding", std::string(vs) + " buff_size=" + std::to_string(size) + " ret=" + std::to_string(r) + " got=" + hexs(out.p, std::min<size_t>(size, 10)) + " want=" + hexs(ref, (size_t)n));
                                 for (size_t i = (size_t)n; i < size; i++) if (out.p[i] != 0xCC) { viol("scalable-integer-dump-writes-beyond-returned-length", std::string(vs) + " buff_size=" + std::to_string(size)); break; } }
        else if (r != 0) viol("scalable-integer-dump-short-buffer-not-refused", std::string(vs) + " buff_size=" + std::to_string(size) + " ret=" + std::to_string(r)); }
      { Ex in(size, 0xFF); memcpy(in.p, ref, std::min<size_t>(size, (size_t)n)); uint64_t got = 0; size_t r;   // the first `size` bytes of encoding+0xFF filler
        Guard g("scalable.Parse", in.p, size, (long)size); r = ParseScalableInteger(in.p, size, got);
        if (g.hit()) viol(sint_sig(in.p, size), std::string(vs) + " enc=" + hexs(in.p, size) + " buff_size=" + std::to_string(size) + " " + Guard::desc());
        if (size >= (size_t)n) { if (r != (size_t)n || got != v) viol("scalable-integer-roundtrip", std::string(vs) + " enc=" + hexs(ref, (size_t)n) + " buff_size=" + std::to_string(size) + " ret=" + std::to_string(r) + " got=" + std::to_string(got)); }
        else if (r != 0) viol("scalable-integer-parse-accepts-truncated-input", std::string(vs) + " buff_size=" + std::to_string(size) + " ret=" + std::to_string(r)); }
    }
  }
  sample("scalable integer value=0x4080 (first 3-byte value) x buff_size 0..11: dump, parse, truncations");
  // decoder inputs: every byte string of length <= 2
  std::vector<uint8_t> full = alphabet("FULL");
  for (size_t len = 0; len <= 2; len++) for_all_strings(full, len, 0, 1, sint_parse_one);
  if (thorough()) for_all_strings(full, 3, 0, 1, sint_parse_one);
  // all-continuation strings c^k (k = 1..12) and c^k t (k = 0..12) for c in {80,FF,81,C0}, t in {00,7F,01}
  static const uint8_t cs[4] = {0x80, 0xFF, 0x81, 0xC0}, ts[3] = {0x00, 0x7F, 0x01};
  for (size_t k = 0; k <= 12; k++) for (int ci = 0; ci < 4; ci++) {
    uint8_t b[14]; memset(b, cs[ci], sizeof b);
    if (k) sint_parse_one(b, k);
    for (int ti = 0; ti < 3; ti++) { b[k] = ts[ti]; sint_parse_one(b, k + 1); if (k == 10 && ci == 0 && ti == 0) sample("scalable parse " + show_in(b, k + 1)); b[k] = cs[ci]; } }
}

// ================================================================== Serializer / Deserializer
using tbox::util::Serializer; using tbox::util::Deserializer; using tbox::util::Endian;
enum { F8, F16, F32, F64, FBLOB, NF };
static const char *kF[] = {"u8", "u16", "u32", "u64", "blob"};
struct Field { int kind; uint64_t v; std::vector<uint8_t> blob; size_t width() const { return kind == F8 ? 1 : kind == F16 ? 2 : kind == F32 ? 4 : kind == F64 ? 8 : blob.size(); } };
static void ref_put(std::vector<uint8_t> &o, const Field &f, bool big) {
  if (f.kind == FBLOB) { o.insert(o.end(), f.blob.begin(), f.blob.end()); return; }
  size_t w = f.width(); for (size_t i = 0; i < w; i++) { size_t sh = big ? (w - 1 - i) * 8 : i * 8; o.push_back((uint8_t)(f.v >> sh)); } }
static std::string seq_str(const std::vector<Field> &fs, bool big, int vs, int api) {
  std::string s = big ? "BE[" : "LE["; for (auto &f : fs) { s += kF[f.kind]; if (f.kind == FBLOB) s += "(" + std::to_string(f.blob.size()) + ")"; s += " "; } return s + "] valueset=" + std::to_string(vs) + " api=" + (api == 0 ? "append/fetch" : api == 1 ? "POD/NoCopy" : "stream<<>>"); }
static bool ser_append(Serializer &s, const Field &f, int api) {
  switch (f.kind) {
    case F8: return s.append((uint8_t)f.v);
    case F16: { uint16_t v = (uint16_t)f.v; return api == 1 ? s.appendPOD(&v, 2) : s.append(v); }
    case F32: { uint32_t v = (uint32_t)f.v; return api == 1 ? s.appendPOD(&v, 4) : s.append(v); }
    case F64: { uint64_t v = f.v; return api == 1 ? s.appendPOD(&v, 8) : s.append(v); }
    default: { Ex b(f.blob.data(), f.blob.size()); return s.append(b.p, f.blob.size()); } } }
static void ser_case(const std::vector<Field> &fs, bool big, int vs, int api) {
  C.states++;
  std::vector<uint8_t> want; for (auto &f : fs) ref_put(want, f, big);
  const size_t total = want.size(); const Endian en = big ? Endian::kBig : Endian::kLittle;
  const std::string ss = seq_str(fs, big, vs, api);
  // ---- raw mode, capacity exact / exact-1 / 0
  long caps[3] = {(long)total, (long)total - 1, 0};
  for (int ci = 0; ci < 3; ci++) { long cap = caps[ci]; if (cap < 0 || (ci == 2 && total <= 1)) continue;
    C.transitions++; Ex out((size_t)cap, 0xCC); Serializer s(out.p, (size_t)cap, en);
    size_t pos = 0; std::vector<uint8_t> model;   // model: an append succeeds iff pos + width <= cap, a failed append changes nothing
    for (size_t i = 0; i < fs.size(); i++) { bool fit = pos + fs[i].width() <= (size_t)cap;
      Guard g("Serializer.append(raw)", want.data(), total, cap);
      bool ok = ser_append(s, fs[i], api);
      if (g.hit()) viol(generic_san_sig(std::string("serializer-append-") + kF[fs[i].kind]) + (fit ? "" : "-no-room"), ss + " field#" + std::to_string(i) + " cap=" + std::to_string(cap) + " " + Guard::desc());
      if (ok != fit) { viol(std::string("serializer-append-") + (fit ? "refused-although-room" : "accepted-without-room"), ss + " field#" + std::to_string(i) + " cap=" + std::to_string(cap)); break; }
      if (fit) { ref_put(model, fs[i], big); pos += fs[i].width(); }
      if (s.pos() != pos) { viol("serializer-pos-wrong", ss + " field#" + std::to_string(i) + " cap=" + std::to_string(cap) + " pos=" + std::to_string(s.pos())); break; } }
    if (model.size() <= (size_t)cap && memcmp(out.p, model.data(), model.size()) != 0) viol(std::string("serializer-bytes-wrong-") + (big ? "big" : "little") + "-endian", ss + " cap=" + std::to_string(cap) + " got=" + hexs(out.p, model.size()) + " want=" + hexs(model.data(), model.size()));
    for (size_t i = model.size(); i < (size_t)cap; i++) if (out.p[i] != 0xCC) { viol("serializer-writes-beyond-pos", ss + " cap=" + std::to_string(cap)); break; }
  }
  // ---- vector mode (api 2: stream operators)
  { C.transitions++; std::vector<uint8_t> blk; Serializer s(blk, en);
    Guard g("Serializer.append(vector)", want.data(), total);
    for (auto &f : fs) { if (api == 2 && f.kind != FBLOB) { switch (f.kind) { case F8: s << (uint8_t)f.v; break; case F16: s << (uint16_t)f.v; break; case F32: s << (uint32_t)f.v; break; default: s << (uint64_t)f.v; } }
                         else if (!ser_append(s, f, api)) viol("serializer-vector-append-refused", ss); }
    if (g.hit()) viol(generic_san_sig("serializer-append-vector"), ss + " " + Guard::desc());
    if (blk != want || s.pos() != total) viol(std::string("serializer-bytes-wrong-") + (big ? "big" : "little") + "-endian", ss + " mode=vector got=" + hexs(blk.data(), blk.size()) + " want=" + hexs(want.data(), total)); }
  // ---- Deserializer over the reference bytes, size exact / exact-1 / 0
  for (int ci = 0; ci < 3; ci++) { long cap = caps[ci]; if (cap < 0 || (ci == 2 && total <= 1)) continue;
    C.transitions++; Ex in(want.data(), (size_t)cap); Deserializer d(in.p, (size_t)cap, en); size_t pos = 0;
    for (size_t i = 0; i < fs.size(); i++) { const Field &f = fs[i]; bool fit = pos + f.width() <= (size_t)cap; bool ok = false, same = true;
      Guard g("Deserializer.fetch", want.data(), (size_t)cap, cap);
      switch (f.kind) {
        case F8: { uint8_t v = 0x5A; if (api == 2) { d >> v; ok = d.pos() == pos + 1; } else ok = d.fetch(v); same = ok ? v == (uint8_t)f.v : v == 0x5A; } break;
        case F16: { uint16_t v = 0x5A5A; if (api == 2) { d >> v; ok = d.pos() == pos + 2; } else ok = api == 1 ? d.fetchPOD(&v, 2) : d.fetch(v); same = ok ? v == (uint16_t)f.v : v == 0x5A5A; } break;
        case F32: { uint32_t v = 0x5A5A5A5Au; if (api == 2) { d >> v; ok = d.pos() == pos + 4; } else ok = api == 1 ? d.fetchPOD(&v, 4) : d.fetch(v); same = ok ? v == (uint32_t)f.v : v == 0x5A5A5A5Au; } break;
        case F64: { uint64_t v = 0x5A5A5A5A5A5A5A5Aull; if (api == 2) { d >> v; ok = d.pos() == pos + 8; } else ok = api == 1 ? d.fetchPOD(&v, 8) : d.fetch(v); same = ok ? v == f.v : v == 0x5A5A5A5A5A5A5A5Aull; } break;
        default: { size_t w = f.blob.size(); Ex o(w, 0x5A);
          if (api == 1) { const void *p = d.fetchNoCopy(w); ok = p != nullptr; same = !ok || (p == in.p + pos && (w == 0 || memcmp(p, f.blob.data(), w) == 0)); }
          else { ok = d.fetch(o.p, w); if (ok) same = (w == 0 || memcmp(o.p, f.blob.data(), w) == 0); else for (size_t j = 0; j < w; j++) same &= (o.p[j] == 0x5A); } } }
      if (g.hit()) viol(generic_san_sig(std::string("deserializer-fetch-") + kF[f.kind]) + (fit ? "" : "-no-room"), ss + " field#" + std::to_string(i) + " size=" + std::to_string(cap) + " " + Guard::desc());
      if (ok != fit) { viol(std::string("deserializer-fetch-") + (fit ? "refused-although-room" : "accepted-beyond-size"), ss + " field#" + std::to_string(i) + " size=" + std::to_string(cap)); break; }
      if (!same) { viol(std::string("deserializer-value-wrong-") + (big ? "big" : "little") + "-endian-" + kF[f.kind], ss + " field#" + std::to_string(i) + " size=" + std::to_string(cap) + (ok ? "" : " (output modified by failed fetch)")); break; }
      if (fit) pos += f.width();
      if (d.pos() != pos) { viol("deserializer-pos-wrong", ss + " field#" + std::to_string(i) + " size=" + std::to_string(cap)); break; } }
    // skip()/checkSize() at the end: exactly the remaining bytes can be skipped, one more cannot
    if (d.pos() == pos) { size_t rest = (size_t)cap - pos; Guard g("Deserializer.skip", want.data(), (size_t)cap, cap);
      bool c1 = d.checkSize(rest), c2 = d.checkSize(rest + 1); bool s2 = d.skip(rest + 1); bool s1 = d.skip(rest);
      if (!c1 || c2 || s2 || !s1 || d.pos() != (size_t)cap) viol("deserializer-skip-bounds", ss + " size=" + std::to_string(cap) + " rest=" + std::to_string(rest)); }
  }
}
void sweep_ser() {
  // every sequence of 0..4 fields over {u8,u16,u32,u64,blob} (781) x endian{big,little} x value set{distinct bytes with high bits, all zero,
  // all ones} x blob length{3,0,1} (by value set) x api{append/fetch, appendPOD/fetchPOD/fetchNoCopy, operator<< >>}   [thorough: 0..6 fields = 19 531 sequences]
  int maxf = thorough() ? 6 : 4; long nseq = 0;
  for (int nf = 0; nf <= maxf; nf++) { long cnt = 1; for (int i = 0; i < nf; i++) cnt *= NF;
    for (long code = 0; code < cnt && !out_of_time(); code++) { if ((int)(nseq++ % g_nparts) != g_part) continue;
      for (int vs = 0; vs < 3; vs++) for (int big = 0; big < 2; big++) for (int api = 0; api < 3; api++) {
        std::vector<Field> fs; long c = code;
        for (int i = 0; i < nf; i++) { Field f; f.kind = (int)(c % NF); c /= NF; uint8_t b = (uint8_t)(0x81 + i * 0x10);
          if (vs == 0) { f.v = 0; for (int j = 0; j < 8; j++) f.v = (f.v << 8) | (uint8_t)(b + j); if (f.kind == F8) f.v &= 0xFF; if (f.kind == F16) f.v &= 0xFFFF; if (f.kind == F32) f.v &= 0xFFFFFFFFu; }
          else f.v = vs == 1 ? 0 : (f.kind == F8 ? 0xFF : f.kind == F16 ? 0xFFFF : f.kind == F32 ? 0xFFFFFFFFull : ~0ull);
          if (f.kind == FBLOB) { size_t bl = vs == 0 ? 3 : vs == 1 ? 0 : 1; for (size_t j = 0; j < bl; j++) f.blob.push_back((uint8_t)(0xA1 + i * 0x10 + j)); }
          fs.push_back(f); }
        ser_case(fs, big != 0, vs, api);
        if (nf == 3 && code == 38 && vs == 0 && api == 0) sample("serializer " + seq_str(fs, big != 0, vs, api) + " raw caps{exact,exact-1,0} + vector + deserializer sizes{exact,exact-1,0}");
      } } }
}

