"""C19: codecs are exact bounded inverses; checksums, MD5, AES match the standards (engine I, input sweeps).

Builds one ASan+UBSan harness (recover mode: a sanitizer report is turned into a @VIOL line with the input
and the sweep continues) and runs every sub-sweep in its own process(es).  This file also generates the
expected values that must come from python (zlib.crc32, binascii.crc_hqx, an RFC 1071 sum, hashlib.md5 and a
pure-python AES-128) into build/C19/*.txt, which the harness reads and compares against the real code.
"""
import binascii, hashlib, os, time, zlib
from concurrent.futures import ThreadPoolExecutor
import vf

PID = "C19"
D = os.path.dirname(os.path.abspath(__file__))
A20 = [0x00, 0x01, 0x09, 0x20, 0x25, 0x2B, 0x2F, 0x30, 0x39, 0x3D, 0x41, 0x46, 0x5A, 0x61, 0x66, 0x7A, 0x7F, 0x80, 0xC3, 0xFF]


def pattern(p, L):
    """Same formulas as pat_byte() in common.h."""
    if p == 0:
        return bytes(L)
    if p == 1:
        return b"\xff" * L
    if p == 2:
        return bytes((i * 37 + L * 11 + (i >> 3)) & 0xFF for i in range(L))
    if p == 3:
        return bytes(0x80 | ((i * 7 + L) & 0x7F) for i in range(L))
    if p == 4:
        return bytes(A20[(i * 3 + L) % 20] for i in range(L))
    return bytes(((i * i * 5 + i * 13 + L * 3) ^ (i >> 1)) & 0xFF for i in range(L))


# ---------------------------------------------------------------- CRC / checksum expectations
def cs8(m):                      # one's-complement sum of octets (RFC 1071 arithmetic on 8-bit units)
    s = sum(m)
    while s >> 8:
        s = (s & 0xFF) + (s >> 8)
    return ~s & 0xFF


def cs16(m):                     # RFC 1071 Internet checksum, big-endian words, odd byte padded on the right
    if len(m) % 2:
        m = m + b"\0"
    s = sum((m[i] << 8) | m[i + 1] for i in range(0, len(m), 2))
    while s >> 16:
        s = (s & 0xFFFF) + (s >> 16)
    return ~s & 0xFFFF


def crc_line(m):
    c16 = [binascii.crc_hqx(m, s) for s in (0xFFFF, 0x0000, 0x1D0F)]
    # CalcCrc32(m, seed) keeps `seed` as the raw register; zlib.crc32(m, v) starts from register ~v
    c32 = [zlib.crc32(m, s ^ 0xFFFFFFFF) & 0xFFFFFFFF for s in (0xFFFFFFFF, 0x00000000, 0x12345678)]
    return "%04x %04x %04x %08x %08x %08x %02x %04x" % (c16[0], c16[1], c16[2], c32[0], c32[1], c32[2], cs8(m), cs16(m))


def gen_crc(path, maxlen):
    with open(path, "w") as f:
        f.write("S:- %s\n" % crc_line(b""))
        for a in range(256):
            f.write("S:%02x %s\n" % (a, crc_line(bytes([a]))))
        for a in range(256):
            for b in range(256):
                f.write("S:%02x%02x %s\n" % (a, b, crc_line(bytes([a, b]))))
        for L in range(3, maxlen + 1):
            for p in range(6):
                f.write("P:%d:%d %s\n" % (p, L, crc_line(pattern(p, L))))


def gen_md5(path, maxlen, big):
    with open(path, "w") as f:
        for L in range(maxlen + 1):
            for p in (2, 5):
                f.write("M:%d:%d %s\n" % (p, L, hashlib.md5(pattern(p, L)).hexdigest()))
        if big:                              # messages of >= 2^29 bytes (sweep md5big): hashlib fed block by block
            zeros = bytes(1 << 20)
            h = hashlib.md5()
            for _ in range(512):
                h.update(zeros)
            h.update(bytes(5))
            f.write("Z:%d %s\n" % ((1 << 29) + 5, h.hexdigest()))
            blk = pattern(2, 1 << 20)
            base = hashlib.md5()
            for _ in range(512):
                base.update(blk)
            for t in (0, 1, 55, 56, 64):
                h = base.copy()
                h.update(pattern(5, t))
                f.write("MB:%d %s\n" % (t, h.hexdigest()))


# ---------------------------------------------------------------- pure-python AES-128 (FIPS-197), independent of aes.cpp
def _xt(a):
    a <<= 1
    return (a ^ 0x11B) & 0xFF if a & 0x100 else a


def _sbox():
    # generator walk: p runs through 3^k, q through 3^-k, so q is the inverse of p; then the affine map
    s = [0] * 256
    p = q = 1
    while True:
        p = p ^ _xt(p)                       # p *= 3
        q ^= q << 1; q ^= q << 2; q ^= q << 4; q &= 0xFF   # q /= 3
        if q & 0x80:
            q ^= 0x09
        rot = lambda v, k: ((v << k) | (v >> (8 - k))) & 0xFF
        s[p] = q ^ rot(q, 1) ^ rot(q, 2) ^ rot(q, 3) ^ rot(q, 4) ^ 0x63
        if p == 1:
            break
    s[0] = 0x63
    return s


_S = _sbox()
_M2 = [_xt(a) for a in range(256)]
_M3 = [_xt(a) ^ a for a in range(256)]
_SHIFT = [(i + 4 * (i % 4)) % 16 for i in range(16)]


def aes_expand(key):
    w = list(key)
    rcon = 1
    for i in range(4, 44):
        t = w[4 * (i - 1):4 * i]
        if i % 4 == 0:
            t = [_S[t[1]] ^ rcon, _S[t[2]], _S[t[3]], _S[t[0]]]
            rcon = _xt(rcon)
        w += [w[4 * (i - 4) + j] ^ t[j] for j in range(4)]
    return w


def aes_encrypt(w, pt):
    s = [pt[i] ^ w[i] for i in range(16)]
    for rnd in range(1, 11):
        t = [_S[s[j]] for j in _SHIFT]       # SubBytes + ShiftRows
        if rnd < 10:
            s = []
            for c in range(0, 16, 4):
                a0, a1, a2, a3 = t[c:c + 4]
                s += [_M2[a0] ^ _M3[a1] ^ a2 ^ a3, a0 ^ _M2[a1] ^ _M3[a2] ^ a3,
                      a0 ^ a1 ^ _M2[a2] ^ _M3[a3], _M3[a0] ^ a1 ^ a2 ^ _M2[a3]]
        else:
            s = t
        k = w[16 * rnd:16 * rnd + 16]
        s = [s[i] ^ k[i] for i in range(16)]
    return bytes(s)


_KAT = [("2b7e151628aed2a6abf7158809cf4f3c", "3243f6a8885a308d313198a2e0370734", "3925841d02dc09fbdc118597196a0b32"),
        ("000102030405060708090a0b0c0d0e0f", "00112233445566778899aabbccddeeff", "69c4e0d86a7b0430d8cdb78070b4c55a"),
        ("2b7e151628aed2a6abf7158809cf4f3c", "6bc1bee22e409f96e93d7e117393172a", "3ad77bb40d7a3660a89ecaf32466ef97")]


def gen_aes(path):
    for k, p, c in _KAT:                     # the python reference must itself reproduce the published answers
        if aes_encrypt(aes_expand(bytes.fromhex(k)), bytes.fromhex(p)).hex() != c:
            raise RuntimeError("pure-python AES reference fails a FIPS-197 known answer")
    if os.path.exists(path) and sum(1 for _ in open(path)) == 16384:
        return                               # static content, generated once
    with open(path + ".tmp", "w") as f:
        for kb in range(128):
            key = bytearray(16); key[kb // 8] = 0x80 >> (kb % 8)
            w = aes_expand(key)
            for pb in range(128):
                pt = bytearray(16); pt[pb // 8] = 0x80 >> (pb % 8)
                f.write("B:%d:%d %s\n" % (kb, pb, aes_encrypt(w, pt).hex()))
    os.replace(path + ".tmp", path)


# ---------------------------------------------------------------- main
def main(tier, args):
    t0 = time.time()
    bdir = os.path.join(vf.BUILD, "C19")
    os.makedirs(bdir, exist_ok=True)
    thorough = tier == "thorough"
    crc_f, md5_f, aes_f = (os.path.join(bdir, n) for n in ("expect_crc_%s.txt" % tier, "expect_md5_%s.txt" % tier, "expect_aes.txt"))
    md5_q = os.path.join(bdir, "expect_md5_quick.txt")
    if thorough:
        gen_md5(md5_q, 130, False)
    pool = ThreadPoolExecutor(4)
    gens = [pool.submit(gen_crc, crc_f, 2000 if thorough else 300), pool.submit(gen_md5, md5_f, 300 if thorough else 130, thorough),
            pool.submit(gen_aes, aes_f)]
    srcs_h = [os.path.join(D, f) for f in ("harness.cpp", "sweep_b64.cpp", "sweep_hexurl.cpp", "sweep_sintser.cpp", "sweep_digest.cpp")]
    srcs_r = vf.module_sources("util/base64.cpp", "util/string.cpp", "util/scalable_integer.cpp", "util/serializer.cpp", "http/url.cpp",
                               "util/crc.cpp", "util/checksum.cpp", "crypto/md5.cpp", "crypto/aes.cpp")
    # second executable WITHOUT NDEBUG: every TBOX_ASSERT of the nine sources is live (LogFatal + abort -> SIGABRT handler prints the case)
    dbg = pool.submit(vf.build, "C19/harness_dbg", srcs_h, srcs_r, mode="asan",
                      extra_flags=["-fsanitize-recover=address,undefined", "-D_GLIBCXX_ASSERTIONS", "-UNDEBUG"],
                      harness_flags=["-fno-sanitize=undefined"], plain_srcs=[vf.VERIF + "/engine/sched/log_stub.cpp"])
    exe = vf.build("C19/harness", [os.path.join(D, f) for f in ("harness.cpp", "sweep_b64.cpp", "sweep_hexurl.cpp", "sweep_sintser.cpp", "sweep_digest.cpp")],
                   vf.module_sources("util/base64.cpp", "util/string.cpp", "util/scalable_integer.cpp", "util/serializer.cpp", "http/url.cpp",
                                     "util/crc.cpp", "util/checksum.cpp", "crypto/md5.cpp", "crypto/aes.cpp"),
                   mode="asan",
                   extra_flags=["-fsanitize-recover=address,undefined",        # report + continue; hooks in harness.cpp record the input
                                "-D_GLIBCXX_ASSERTIONS"],                       # std::string/vector operator[], front(), back() beyond size() abort -> SIGABRT handler prints the case
                   harness_flags=["-fno-sanitize=undefined"])                  # UBSan only on the cpp-tbox sources (compile time of the harness)
    exe_dbg = dbg.result()
    for g in gens:
        g.result()
    t_build = time.time() - t0
    # (sweep, number of processes, expect file)
    if thorough:
        plan = [("b64-rt", 16, ""), ("b64-dec", 16, ""), ("hex-rt", 16, ""), ("hex-dec", 16, ""), ("url-rt", 16, ""), ("url-dec", 16, ""),
                ("sint", 1, ""), ("ser", 8, ""), ("crc", 1, crc_f), ("md5", 8, md5_f), ("md5big", 1, md5_f), ("aes", 16, aes_f), ("align", 16, ",".join((crc_f, md5_f, aes_f)))]
        deadline = 1200
    else:
        plan = [("b64-dec", 8, ""), ("url-dec", 3, ""), ("b64-rt", 1, ""), ("hex-rt", 1, ""), ("hex-dec", 2, ""), ("url-rt", 1, ""),
                ("md5big", 1, md5_f), ("align", 6, ",".join((crc_f, md5_f, aes_f))), ("sint", 1, ""), ("ser", 2, ""), ("crc", 1, crc_f), ("md5", 1, md5_f), ("aes", 2, aes_f)]
        deadline = 60
    only = getattr(args, "only", None)
    cmds = []
    for sweep, n, ef in plan:
        if only and sweep not in only.split(","):
            continue
        for part in range(n):
            cmds.append(("%s.%d" % (sweep, part), [exe, sweep, tier, str(part), str(n)] + ([ef] if ef else [])))
    for sweep, ef in (("b64-rt", ""), ("md5", md5_q)):            # asserts-live lane: quick-tier domain of the two sweeps whose sources carry asserts
        if not only or sweep in only.split(",") or "dbg" in only.split(","):
            cmds.append(("dbg-%s.0" % sweep, [exe_dbg, sweep, "quick", "0", "1"] + ([ef] if ef else [])))
    res = vf.Result()
    log = open(os.path.join(bdir, "log.txt"), "w")
    vf.run_procs(res, cmds, log=log, timeout=4 * deadline + 300, env={"VERIF_DEADLINE_S": str(deadline),
                                          "ASAN_OPTIONS": "detect_leaks=0:abort_on_error=0:halt_on_error=0",
                                          "UBSAN_OPTIONS": "print_stacktrace=1:halt_on_error=0"})
    res.infos.insert(0, "build+expectation generation %.1fs" % t_build)
    a3, a4, ml = ("all 256 values", "the 64-value alphabet A64 (16 777 216 strings)", "300, 65533-65535") if thorough else ("the 20-value boundary alphabet A20", "A20 (160 000 strings)", "66, 255-257")
    vf.finish(PID, tier, res, t0,
              rule="Engine I exhaustive sweeps on the real code under ASan+UBSan+_GLIBCXX_ASSERTIONS, outputs in new uint8_t[capacity] of exactly the advertised size. "
                   "Encoder inputs (Base64, hex, URL): all byte strings of length 0-2 over 0..255, length 3 over %s, lengths 4-%s x 6 patterns; "
                   "decode(encode(x))==x, length == EncodeLength/DecodeLength/2n(+delimiters), all overloads, capacities {exact, exact-1, 0}; Base64 and hex text compared with RFC 4648 / 2-digit references, "
                   "UrlEncode (default argument and path mode) checked for printable output, length n+2*escapes and decodability by a strict RFC 3986 pct-decoder (its choice of which characters to escape is not compared); "
                   "hex: upper/lower x delimiters {none,' ',':',', ',': '} and the default arguments, 65534/65535 bytes (uint16_t limit), a 131074-digit string into capacity 65535. "
                   "Decoder inputs: Base64 and URL all strings of length 0-3 over 0..255 (16 843 009), hex all strings of length 0-2 over 0..255 and length 3 over %s, Base64 length 4 over %s%s, every truncation of valid encodings of patterned inputs (Base64 to length 66, hex/URL to 40) and every single-byte A20 substitution in encodings of <= 12 characters; "
                   "capacities Base64 {DecodeLength, -1, 0, 3/4 of the input}, hex {len/2, -1, 0, +1} (URL returns a string): strictly valid input -> reference bytes, anything else -> no sanitizer report, result <= capacity. "
                   "Scalable integer: 0, 2^64-1, +-2 around the 9 length boundaries, 2^k-1/2^k/2^k+1 (k=0..63)%s x buffer size 0..11 (dump, parse, truncation); parser on all byte "
                   "strings of length <=2%s and c^k / c^k t for k=0..12. Serializer/Deserializer: (A) every sequence of 0-%d items over {u8,u16,u32,u64,blob,SWITCH endian mid-stream} x "
                   "constructed {big, little, without endian argument} x 3 value sets x 3 API families (append/fetch, POD/NoCopy, operator<< >>; SWITCH by setEndian with the returned old value "
                   "checked, or by << / >> Endian), (B) every sequence of 0-%d items over those plus the {i8,i16,i32,i64,float,double} stream operators (bit patterns incl. MIN, MAX, -1, NaN payloads) x 5 value sets; "
                   "(C) every sequence of 0-%d items over {u8,u32,blob,SWITCH,pod} containing a blob of 255/256/257/%d bytes or an appendPOD/fetchPOD of 1/3/5/16 bytes (reference: bytes as in memory on little, reversed on big); "
                   "each x raw capacity {exact,-1,0} - for sequences of <=3 items EVERY capacity and deserializer size 0..total (a refused item followed by narrower ones that fit) - + vector mode on {new, pre-filled with 1/total/total+5 bytes, "
                   "reserve(64), a second Serializer over the first one's result: vector == serialized bytes exactly}, deserializer size {exact,-1,0}; at EVERY deserializer position: checkSize/skip/fetchNoCopy/fetch/fetchPOD of rest+1, rest+2, 2^63, "
                   "SIZE_MAX, SIZE_MAX-pos+{0,1,2} refused with position and output unchanged, set_pos(p) for p in {0,pos,size-1,size,size+1,SIZE_MAX} succeeds iff p<size and reads continue from p. "
                   "CRC-16/32 (3 seeds), checksum-8/16: all strings of length <=2 and "
                   "lengths 3-%d x 6 patterns vs bitwise references and python zlib/binascii/RFC 1071, 21 lengths up to 1 MiB+1 x 3 fills. MD5: lengths 0-%d x 2 patterns x {single, every 2-way split, %s3-way grid, "
                   "byte-at-a-time, two instances fed alternately, objects copy-constructed and assigned (over a used object) after part 1 of every 2-way split} vs hashlib; 2^29+5 zero bytes (bit counter carries into its high word) as %s. AES-128: 11 published known answers, all 128x128 single-bit key/block pairs%s vs a FIPS-197 reference and a pure-python AES, "
                   "invcipher(cipher(x))==x, each on a fresh object, on an unkeyed object after setKey, and on an object keyed with another key then re-keyed, working in place (input==output), "
                   "a second block on the same object, re-keyed back and forth, with a second live object under the other key, and a copy / an assigned object taken before the original is re-keyed. "
                   "Asserts-live lane: a second executable of the same sources built WITHOUT NDEBUG (TBOX_ASSERT aborts) runs the quick-tier Base64 round-trip and MD5 sweeps on the inputs the asserts allow (no empty input / capacity 0 for Base64 encode). "
                   "URL round trip of the small domain repeated under LC_ALL=C.UTF-8. "
                   "Start alignment (sweep align): every buffer above starts 16-byte aligned, so the small-length part of every raw-pointer sweep (CRC/checksums: lengths 0-1 all, 2 over A20, 3-48 x 6 patterns, 3 seeds + every "
                   "chained 2-way split, lengths 49-130 x 2 patterns; MD5 lengths 0-%d with every 2-way split, a 3-way grid, byte-at-a-time, copies; AES known answers + 128 bit pairs incl. in-place; Base64/hex round trips to length 40 and hostile strings to length 3 over A20; scalable integer "
                   "values x buffer size 0..11; Serializer/Deserializer sequences of 0-2 items) is repeated with every input, output, key, blob and digest buffer starting at address mod 16 = %s inside an exact-size heap block "
                   "(all buffers at the same offset, or rotating by 3 from buffer to buffer from base %s: %d configurations; the bytes in front of a buffer must stay untouched)."
                   % (a3, ml, "all 256 values" if thorough else "the 40-value alphabet A40", a4, ", hex/URL length 4 over A40 (2 560 000)" if thorough else "",
                      ", +-20000 around every boundary" if thorough else "", " and 3" if thorough else "", 6 if thorough else 4, 4 if thorough else 3, 4 if thorough else 3, 70000 if thorough else 300,
                      2000 if thorough else 300, 300 if thorough else 130, "every 3-way split for L<=130, " if thorough else "",
                      "one update, 2^28+3|2^28+2, 2^29|5, 5|2^29, and a 1 MiB pattern block x 512 + tails {0,1,55,56,64}" if thorough else "one update and as 2^28+3|2^28+2 (low-word wrap)",
                      ", bit keys x byte blocks, byte keys x bit blocks, 4096 patterned pairs" if thorough else "", 130 if thorough else 70,
                      "1..15" if thorough else "1..9 and 15", "0..15" if thorough else "0..7", 31 if thorough else 18),
              assumptions=["both sanitizer runtimes report a faulting code location once per process; the input shown is the first one in enumeration order (shortest first) reaching it",
                           "a decoder that leniently accepts an invalid string without any memory error is not counted as a violation (shown as outcome)",
                           "for std::string-taking functions (hex, URL, Base64 string overloads) an over-read through operator[]/front/back aborts (_GLIBCXX_ASSERTIONS); one through a raw data() pointer that stays inside the string's capacity is not observable",
                           "AES cipher/invcipher with input == output is read as part of 'block encryption equals the reference' (every in-tree and conventional use allows it)",
                           "a Serializer append whose CLAIMED source length is >= SIZE_MAX-pos (no such object can exist) is outside the statement; the probe for it is off by default (C19_SER_HUGE_APPEND=1) and reaches the protected gate through a using-declaration in a subclass",
                           "vector-mode Serializer: the vector is read as THE output, so after any append its size equals pos() (what extendSize's resize does today), also when it was non-empty before",
                           "UrlEncode depends on the process locale through isprint(); checked under C and C.UTF-8 only (an ISO-8859-x LC_CTYPE would leave bytes >= 0x80 unescaped; none is installed here)",
                           "debug-build asserts forbid Base64 encode of an empty input / into capacity 0 (legitimately refused by return value in release builds); those inputs are exercised in the NDEBUG build only",
                           "a call into the real code that never returns is reported by a SIGALRM watchdog at 3 x deadline + 120 s",
                           "MD5/AES equality is decided on the enumerated messages, keys and blocks only",
                           "start offsets are varied for lengths up to 40-70 bytes only; a read BEFORE the start of an offset buffer lands in the harness's own prefix bytes and is not observable (a write is)",
                           "isprint() on a negative char (url.cpp) is not diagnosed by ASan/UBSan; glibc's table covers -128..255"])
