import os, time, vf
PID = "C18"
H = vf.VERIF + "/checks/C18/harness.cpp"

CH, MU, SEM, BC = "yield,send,recv", "yield,lock,unlock", "yield,acq,rel", "yield,bwait,bpost"
COND = "yield,cwait,cpost1,cpost2"
BCC = "yield,bwait,bpost,cwait,cpost1,cpost2"
MIX = "yield,send,recv,lock,unlock,acq,rel"
JCC3 = "yield,bwait,bpost,join+1,join+2,cancel+1,cancel+2"
JCC2 = "yield,bwait,bpost,join+1,cancel+1,createY,createW,joinc,cancelc"
JCCF = "yield,bwait,bpost,join+1,join+2,cancel+1,cancel+2,createY,createW,joinc,cancelc"
CONDX = "yield,cadd,cw,cpost1,cpost2"                 # add() and wait() as separate steps (posts between them, add() during a wait)
CONDE = "yield,cadd1,cadd2,cw,cpost1,cpost2"          # one-element and incrementally built condition sets
MU4 = "yield,critL"                                   # critL = { Mutex::Locker l(mu); yield; }: four routines contending with one-step scripts
MU4C = "yield,crit"                                   # crit = lock, yield, unlock written out
MUL = "yield,lock,unlock,critL"                       # Mutex::Locker sections mixed with bare lock / unlock
MUJC = "yield,lock,unlock,join+1,cancel+1,cancel+0"   # routine-issued join / cancel (also of itself) around mutex waiters
JCCS = "yield,createS,resumec,joinc,cancelc"          # children created suspended (run_now = false), resumed / joined / cancelled by their parent

# (tag, alphabet, routines, max script length, max main-context actions per run, param, processes[, max total steps (0 = no bound)[, flags]])
# main-context actions: resume(r) / cancel(r) / cleanup, and - when the alphabet has the consuming op (recv / acq / bwait / cwait|cw) - the
# main context also produces: channel send / semaphore release / broadcast post / condition post(1|2)   (flag "nomain" turns that off).
# The first mid-run cleanup is followed by a second session on the same Scheduler and primitives (flag "noreuse" turns that off); it comes
# in two kinds: `cleanup` (second session created in the same loop callback) and `cleanup+turn` (the loop gets a turn first).
# flag "create": the main context also creates one more routine mid-run; flag "stackdefault": routines get create()'s default 8 KiB stack.
# param: initial semaphore count; for Condition 0 = Logic::kAll, 1 = Logic::kAny
QUICK = [
    ("ch", CH, 3, 3, 1, 0, 2, 6), ("mu", MU, 3, 3, 1, 0, 2, 6), ("sem0", SEM, 3, 3, 1, 0, 2, 6), ("sem1", SEM, 3, 3, 1, 1, 2, 6), ("bc", BC, 3, 3, 1, 0, 2, 6),
    ("mu-len4", MU, 3, 4, 0, 0, 4, 8), ("ch-len4", CH, 3, 4, 0, 0, 2, 7), ("sem0-len4", SEM, 3, 4, 0, 0, 2, 7),
    ("ch-2acts", CH, 3, 2, 2, 0, 2, 4), ("mu-2acts", MU, 3, 2, 2, 0, 2, 4), ("sem-2acts", SEM, 3, 2, 2, 0, 2, 4), ("bc-2acts", BC, 3, 2, 2, 0, 2, 4),
    ("condAll", COND, 3, 2, 1, 0, 2), ("condAny", COND, 3, 2, 1, 1, 2), ("condAll-2r", COND, 2, 3, 1, 0, 2), ("condAny-2r", COND, 2, 3, 1, 1, 2),
    ("condAll-2r-2acts", COND, 2, 2, 2, 0, 1), ("condAny-2r-2acts", COND, 2, 2, 2, 1, 1),
    ("mix", MIX, 3, 2, 0, 0, 4), ("mix-1act", MIX, 3, 2, 1, 0, 1, 3), ("mix-2r", MIX, 2, 2, 1, 0, 1),
    ("jcc3", JCC3, 3, 2, 1, 0, 6, 4), ("jcc2", JCC2, 2, 2, 1, 0, 2), ("jcc2-2acts", JCC2, 2, 2, 2, 0, 4, 3),
    ("condAll-split", CONDX, 2, 3, 1, 0, 2, 5), ("condAny-split", CONDX, 2, 3, 1, 1, 2, 5), ("condAll-split-0act", CONDX, 2, 3, 0, 0, 1), ("condAny-split-0act", CONDX, 2, 3, 0, 1, 1),
    ("condAll-split-3r", CONDX, 3, 2, 1, 0, 2, 4), ("condAll-elem", CONDE, 2, 3, 0, 0, 2), ("condAny-elem", CONDE, 2, 3, 0, 1, 2), ("condAll-elem-1act", CONDE, 2, 2, 1, 0, 1),
    ("ch-3acts", CH, 3, 1, 3, 0, 4), ("sem-3acts", SEM, 3, 1, 3, 0, 4), ("mu-4r", MU4, 4, 2, 1, 0, 2), ("mu-4r-2acts", MU4, 4, 1, 2, 0, 2),
    ("mujc", MUJC, 3, 2, 1, 0, 4, 4), ("jccs", JCCS, 2, 3, 1, 0, 2, 4),
    ("mu-4r-crit", MU4C, 4, 1, 2, 0, 1), ("mu-locker", MUL, 3, 2, 1, 0, 2, 4),
    ("ch-create", CH, 2, 2, 2, 0, 2, 3, "create"), ("mix-stackdefault", MIX, 2, 2, 1, 0, 1, 0, "stackdefault"),
]
THOROUGH = [
    # the small families come first, so that a run that hits its deadline on a loaded machine has explored them
    # add() / wait() as separate steps, one-element sets
    ("condAll-split", CONDX, 2, 3, 1, 0, 8), ("condAny-split", CONDX, 2, 3, 1, 1, 8), ("condAll-split-2acts", CONDX, 2, 3, 2, 0, 16), ("condAny-split-2acts", CONDX, 2, 3, 2, 1, 16),
    ("condAll-split-3r", CONDX, 3, 2, 1, 0, 8), ("condAny-split-3r", CONDX, 3, 2, 1, 1, 8),
    ("condAll-elem", CONDE, 2, 3, 1, 0, 16), ("condAny-elem", CONDE, 2, 3, 1, 1, 16), ("condAll-elem-3r", CONDE, 3, 2, 0, 0, 4),
    # three main-context actions on small programs (queue of three waiters, then wake / cancel chains), four routines on one mutex
    ("ch-3acts", CH, 3, 2, 3, 0, 16, 4), ("sem-3acts", SEM, 3, 2, 3, 0, 16, 4), ("mu-4r", MU4, 4, 2, 1, 0, 4), ("mu-4r-2acts", MU4, 4, 2, 2, 0, 16),
    ("mu-4r-full", MU + ",crit", 4, 2, 1, 0, 16, 6),
    # routine-issued join / cancel / self-cancel around mutex waiters; children created suspended
    ("mujc", MUJC, 3, 2, 1, 0, 16), ("mujc-2acts", MUJC, 3, 2, 2, 0, 16, 4), ("jccs", JCCS, 2, 3, 1, 0, 8), ("jccs-3r", JCCS, 3, 2, 1, 0, 8, 4),
    # Mutex::Locker sections, main-context create, default stack size
    ("mu-locker", MUL, 3, 3, 1, 0, 16, 6), ("mu-4r-crit", MU4C, 4, 2, 1, 0, 4), ("ch-create", CH, 3, 2, 2, 0, 16, 4, "create"), ("sem-create", SEM, 2, 2, 2, 0, 8, 3, "create"),
    ("mix-stackdefault", MIX, 2, 2, 1, 0, 4, 0, "stackdefault"), ("jcc2-stackdefault", JCC2, 2, 2, 1, 0, 4, 0, "stackdefault"),
    # scripts of <= 4 steps: every program without main-context action; one action for programs of <= 8 (7) steps in total
    ("ch-len4", CH, 3, 4, 0, 0, 16), ("mu-len4", MU, 3, 4, 0, 0, 16), ("sem0-len4", SEM, 3, 4, 0, 0, 16), ("sem1-len4", SEM, 3, 4, 0, 1, 16), ("bc-len4", BC, 3, 4, 0, 0, 16),
    ("ch-len4-1act", CH, 3, 4, 1, 0, 32, 8), ("mu-len4-1act", MU, 3, 4, 1, 0, 32, 8), ("sem0-len4-1act", SEM, 3, 4, 1, 0, 32, 8), ("sem1-len4-1act", SEM, 3, 4, 1, 1, 16, 7), ("bc-len4-1act", BC, 3, 4, 1, 0, 16, 7),
    # scripts of <= 3 steps: every program with one action; two actions for programs of <= 6 steps in total
    ("ch", CH, 3, 3, 1, 0, 16), ("mu", MU, 3, 3, 1, 0, 16), ("sem0", SEM, 3, 3, 1, 0, 16), ("sem1", SEM, 3, 3, 1, 1, 16), ("bc", BC, 3, 3, 1, 0, 16),
    ("ch-2acts", CH, 3, 3, 2, 0, 32, 6), ("mu-2acts", MU, 3, 3, 2, 0, 32, 6), ("sem0-2acts", SEM, 3, 3, 2, 0, 32, 6), ("bc-2acts", BC, 3, 3, 2, 0, 32, 6),
    ("mu-len4-2acts", MU, 3, 4, 2, 0, 48, 6),
    ("condAll", COND, 3, 3, 1, 0, 16, 6), ("condAny", COND, 3, 3, 1, 1, 16, 6), ("condAll-2acts", COND, 3, 2, 2, 0, 8, 4), ("condAny-2acts", COND, 3, 2, 2, 1, 8, 4),
    ("bcc", BCC, 3, 2, 1, 0, 16),
    ("mix", MIX, 3, 2, 1, 0, 32), ("mix-2r", MIX, 2, 3, 1, 0, 16), ("jcc3", JCC3, 3, 2, 1, 0, 32), ("jcc3-2acts", JCC3, 3, 2, 2, 0, 8, 3),
    ("jccf", JCCF, 3, 2, 1, 0, 16, 4), ("jccf-0act", JCCF, 3, 2, 0, 0, 8, 5),
    ("jcc2", JCC2, 2, 3, 1, 0, 16, 5), ("jcc2-2acts", JCC2, 2, 2, 2, 0, 16),
]
ASAN_INFO = [("asan-ch", CH, 3, 2, 1, 0, 2, 4), ("asan-mu", MU, 3, 3, 0, 0, 2, 6), ("asan-sem", SEM, 3, 2, 1, 0, 2, 4), ("asan-bc", BC, 3, 2, 1, 0, 2, 4),
             ("asan-cond", COND, 3, 2, 0, 0, 2), ("asan-jcc2", JCC2, 2, 2, 1, 0, 2, 3), ("asan-cond-split", CONDX, 2, 2, 1, 0, 1), ("asan-jccs", JCCS, 2, 2, 1, 0, 1)]

def cmds(exe, cfgs, only):
    out = []
    for c in cfgs:
        tag, ops, nr, ln, acts, param, nproc = c[:7]
        tot = c[7] if len(c) > 7 and c[7] else nr * ln
        flags = c[8] if len(c) > 8 else "-"
        if only and tag != only:
            continue
        for p in range(nproc):
            out.append(("%s:%d/%d" % (tag, p, nproc), [exe, "enum", tag, ops, str(nr), str(ln), str(acts), str(param), str(p), str(nproc), str(tot), flags]))
    return out

def main(tier, args):
    t0 = time.time()
    srcs = vf.module_sources("event", "util/fd.cpp")
    stub = [vf.VERIF + "/engine/sched/log_stub.cpp"]
    plain = vf.build("C18/coro_plain", [H], srcs, mode="plain", plain_srcs=stub)
    asan = vf.build("C18/coro_asan", [H], srcs, mode="asan", plain_srcs=stub)
    cfgs = QUICK if tier == "quick" else THOROUGH
    t_build = time.time() - t0
    budget = float(os.environ.get("VERIF_DEADLINE_S", "85" if tier == "quick" else "1300"))
    # the budget starts when the build is done: on an overloaded machine the build alone once took longer than the budget and the run
    # explored nothing (states=0, every process capped) - quiet, but vacuous
    env = {"C18_DEADLINE_AT": "%.0f" % (time.time() + budget), "VERIF_DEADLINE_S": str(budget)}
    res = vf.Result(); log = open(vf.BUILD + "/C18/log.txt", "w")
    # verdict: plain build (reference model + invariants)
    vf.run_procs(res, cmds(plain, cfgs, args.only), env=env, log=log)
    t_plain = time.time() - t0 - t_build
    # ASan+UBSan build: information only (ASan warns about swapcontext false positives on this image)
    if not args.only:
        info = vf.Result()
        vf.run_procs(info, cmds(asan, ASAN_INFO, None), env=dict(env, C18_INFO_ONLY="1", ASAN_OPTIONS="detect_leaks=0:abort_on_error=0:detect_stack_use_after_return=0"), log=log)
        seen = sorted(set(i for i in info.infos if "asan-build-viol" in i or "child" in i))
        res.infos.append("asan-build (information only, not part of the verdict): programs=%d executions=%d; model signatures also seen there=%d; harness errors=%d"
                         % (info.stats.get("programs", 0), info.stats.get("executions", 0), len(seen), len(info.errors)))
        for i in [s for s in seen if "crash" in s or "child-exit" in s or "hang" in s][:6]:
            res.infos.append("asan-build: " + i[:300])
        for e in info.errors[:3]:
            res.infos.append("asan-build harness error (ignored for the verdict): " + e[:300])
    res.infos.append("wall: build %.1fs, plain enumeration %.1fs, asan information run %.1fs" % (t_build, t_plain, time.time() - t0 - t_build - t_plain))
    desc = "; ".join("%s{%s} nr=%d len<=%d acts<=%d param=%d" % c[:6] + (" total<=%d" % c[7] if len(c) > 7 and c[7] else "") + (" [%s]" % c[8] if len(c) > 8 else "") for c in cfgs)
    vf.finish(PID, tier, res, t0,
              rule="every program of nr (<=3, mu-4r families: 4) routines x every script of <= len ops over the family alphabet (families enumerated exhaustively: " + desc + ") "
                   "x every main-context schedule (scheduler rounds until no routine is ready, with up to `acts` actions placed before every scheduler round and at every idle point: resume(r) / cancel(r) / cleanup "
                   "(before a round always; at idle while a routine is still alive) and, in families whose alphabet has the consuming op, a channel send / semaphore release / broadcast post / condition post(1|2) issued by the main context, "
                   "in [create] families also create() of one more routine; "
                   "the first mid-run cleanup() is followed by a second session - the program's routines are created again on the same Scheduler and the same primitives, whose left-over values / units / holder the reference model carries over - "
                   "either in the same loop callback (`cleanup`) or after the loop has had a turn with nothing ready (`cleanup+turn`), and the schedule continues; "
                   "every run ends by DESTROYING the Scheduler with whatever is still alive (its destructor must do what cleanup() does), before the primitives), "
                   "each run on a fresh real epoll Loop (kForever) + fresh Scheduler + Channel/Mutex/Semaphore/Broadcast/Condition; "
                   "ops: yield, send, recv, lock, unlock, crit (= lock, yield, unlock), critL (= a real Mutex::Locker around a yield), acq, rel, bwait, bpost, cwait (= add 1, add 2, wait), cadd/cadd1/cadd2 (add only), cw (wait only), cpost1/2, join/cancel of the next routines, cancel of itself, "
                   "create of a child (ready, or suspended with run_now=false), resume/join/cancel of the child; "
                   "oracle = reference model (FIFO exactly-once, one holder, acquisitions<=releases+initial) after every pass, lost-wake-up invariants whenever ready queue is empty "
                   "(free / non-empty / positive / posted / satisfied decided by the reference model; private state read with -fno-access-control only to find the ready queue and to cross-check), "
                   "judged at every idle point, also those reached by a main-context action that woke nobody; ready routines that no scheduler round picks up within 8 loop turns are a lost wake-up; "
                   "cancel/cleanup/destruction termination with failure, failure only after cancel/cleanup for recv/lock/acquire/broadcast-wait, Condition::wait and join refuse only when the model says so "
                   "(another waiter / empty set / target already joined or finished / caller cancelled), join liveness and safety; "
                   "states = distinct canonical idle states (summed per process), executions = program x schedule runs",
              assumptions=["verdict from the plain (uninstrumented) build; the ASan/UBSan build is run on a sub-space and reported as information only (ASan + swapcontext false-positive warning on this image)",
                           "the Scheduler is given a forwarding proxy of the real Loop that only inserts the main context's step in front of each deferred Scheduler::schedule call (runLoop(kOnce) would drain all deferred calls, i.e. run the scheduler to idle, and hide every intermediate point)",
                           "routine stacks are 64 KiB instead of the 8 KiB default (stack size is not part of the property)",
                           "routines leave on any failed blocking call and release a mutex they hold on that path; Mutex::Locker itself is exercised by the critL op (a Locker has no return code, so the routine looks at isCanceled())",
                           "the common build flags carry -DNDEBUG; for the coroutine code (scheduler.cpp and the header-only primitives, compiled as part of the harness file) it is undone, so TBOX_ASSERT is active there as in the project's debug build and a failing assert is a reported crash",
                           "deferred calls that a destroyed Scheduler has left queued on the loop are dropped by the loop proxy (what happens to them is outside the property)",
                           "once a Condition wait has ended by cancel / cleanup / a foreign resume (or a wait was accepted that the model expected to be refused), later refusals of wait() are not judged for the rest of the run; a join() is judged as refused only for the first joiner of a live target",
                           "private members that only feed the state key / the ':waiter-...' suffix of a signature (waiter lists, Condition set and token, Routine state flags) are read through engine/probe.h; the oracle itself reads: the scheduler's ready queue (quiescence), "
                           "its routine cabinet (vanished / still registered), Channel::queue_, Semaphore::count_, Mutex::hold_token_ (cross-checks of the reference model)",
                           "child routines made by a `create` step run a fixed one-step script (yield or broadcast-wait; a child created suspended runs [yield]); at most 2 children per session",
                           "a routine created with run_now=false has to start only after somebody resumed or cancelled it; once that happened it must have started (and, if cancelled, terminated) by the next idle point",
                           "Condition: values {1,2}, logic kAll and kAny, one waiter at a time (documented single-waiter use); the reference set is built by add() and reduced by post() whether or not a routine is waiting yet "
                           "(a value posted between add() and wait() has happened); the lost-wake-up clause is judged only for a routine that was suspended in wait() at the moment of the post that satisfied the set; "
                           "a wait() that is refused at once (second waiter, empty set, or after a cancelled wait) is not judged and leaves the reference set unchanged",
                           "reading: failure is what the statement assigns to cancel/cleanup, so a recv / lock / acquire / broadcast-wait that reports failure to a routine nobody cancelled is reported "
                           "(the routine has lost the value / mutex / unit / broadcast it was queued for); join and Condition::wait refuse a second joiner / waiter by design and are not judged that way",
                           "second session: after the first mid-run cleanup() nothing is re-initialised - values left in the channel, semaphore units and a mutex still held by a routine that ended without unlock() stay, in the model and in the code alike",
                           "main-context resume(r) of a routine blocked in Broadcast/Condition wait is not judged (the statement only forbids lost wake-ups there); for join it is judged (join must not report success before the target finished)"])
