import time, vf
PID = "C18"
H = vf.VERIF + "/checks/C18/harness.cpp"
def main(tier, args):
    t0 = time.time()
    srcs = vf.module_sources("event", "util/fd.cpp")
    stub = [vf.VERIF + "/engine/sched/log_stub.cpp"]
    plain = vf.build("C18/coro_plain", [H], srcs, mode="plain", plain_srcs=stub)
    print(plain)
