// C18: coroutine primitives (Scheduler, Channel, Mutex, Semaphore, Broadcast, Condition) -
// exhaustive enumeration of PROGRAMS (<=4 routines x scripts over a small op alphabet) x MAIN-CONTEXT schedules (scheduler rounds with
// resume(r) / cancel(r) / cleanup and the main context's own send / release / broadcast post / condition post placed before every
// round and at idle), run on the real classes with a real event::Loop, checked against a reference model + quiescence invariants.
// Coroutine scheduling is deterministic, so scripts x main schedules is the whole space.
// The first mid-run cleanup() does not end a run: the program's routines are created again on the SAME Scheduler and primitives
// (second session; the model carries the channel contents, semaphore units and mutex holder over), then the schedule goes on. The
// second session starts either in the same loop callback (`cleanup`) or after the loop has had a turn (`cleanup+turn`).
// Every run ends with the DESTRUCTION of the Scheduler while routines may still be alive (instead of an explicit final cleanup()).
//
//   harness enum <tag> <ops,comma-separated> <NR> <maxlen> <maxacts> <param> <part> <nparts> [max total steps [flags: nomain,noreuse,create,stackdefault]]
//   harness replay "<replay text of a @VIOL line>"          (prints the trace, the idle state and the violations of that one run)
//
// Oracle = property C18 statement only:
//   * values sent on a channel are received exactly once, in FIFO order
//   * at most one mutex holder; semaphore acquisitions <= releases + initial count
//   * whenever the scheduler has no ready routine: nobody suspended on a free mutex / positive semaphore / non-empty channel /
//     broadcast posted or condition satisfied after it began waiting / join whose target finished          (no lost wake-ups)
//     - free / positive / non-empty / posted / satisfied are decided by the reference model, never by the implementation's bookkeeping;
//       a condition value posted between add() and wait() has happened (the set is reduced whether or not somebody waits yet)
//   * cancel(r) / cleanup(): every started routine returns failure from its blocking call and terminates; conversely recv / lock /
//     acquire / broadcast-wait report failure only to a routine that was cancelled or cleaned up
//   * join returns success only once its target has finished; Condition::wait / join refuse only when the model says they may
//   * ready routines are run: a scheduler round follows within a few loop turns (otherwise the wake-up / create / cancel is lost)
//   * a routine created suspended (run_now = false) need not start until somebody resumes or cancels it; after that it must
// Routines check the return code of every blocking call and leave on failure (releasing a held mutex, as Mutex::Locker would).
// Signature = <what>[:waiter-still-queued|:waiter-not-queued]:main=<kinds of main-context action needed: resume, cancel, post, reuse>:steps=<program size class>.
// A supervising parent forks the enumerating child; a run that never ends (CPU watchdog, confirmed by repeating it) or kills the
// child is reported with the run that was executing, and the enumeration continues after that program.
// The project's own debug build keeps TBOX_ASSERT (main-context-only / routine-only contracts, ~Routine's "started => dead"); the check's
// common flags carry -DNDEBUG, so the asserts are switched back on for the coroutine code that is compiled as part of THIS file
// (scheduler.cpp and the header-only primitives). An assert that fires is an abort = a reported crash of the run.
#undef NDEBUG
#include <tbox/coroutine/scheduler.cpp>   // file-local Scheduler::Data / Routine are needed for the quiescence check
#include <tbox/coroutine/channel.hpp>
#include <tbox/coroutine/mutex.hpp>
#include <tbox/coroutine/semaphore.hpp>
#include <tbox/coroutine/broadcast.hpp>
#include <tbox/coroutine/condition.hpp>
#include <tbox/event/loop.h>
#include <tbox/event/common_loop.h>

#include "probe.h"
#include <chrono>
#include <list>
#include <memory>
#include <csignal>
#include <cstdio>
#include <cstdlib>
#include <cstring>
#include <map>
#include <string>
#include <unordered_set>
#include <vector>
#include <sys/mman.h>
#include <sys/time.h>
#include <sys/wait.h>
#include <unistd.h>

using namespace tbox;
using namespace tbox::coroutine;

static double now_s() { using namespace std::chrono; return duration_cast<duration<double>>(steady_clock::now().time_since_epoch()).count(); }

// cwait = add(1), add(2), wait() in one step (the documented use); cadd / cadd1 / cadd2 = add() only (both values / one value),
// cw = wait() only - so that posts can fall between add() and wait(), add() can be called during a wait, and one-element sets exist.
// createS = create(run_now = false) (child stays suspended until somebody resumes or cancels it), resumec = resume(child) from a routine,
// cancel+0 = a routine cancels itself. crit = lock(); yield(); unlock() in one step (a critical section that is left for one round, the
// Mutex::Locker shape) - lets 4 routines contend for the mutex with one-step scripts. critL = the same critical section written with a real
// Mutex::Locker object (constructor locks, destructor unlocks; the routine looks at isCanceled() because a Locker has no return code).
enum Op { YIELD, SEND, RECV, LOCK, UNLOCK, ACQ, REL, BWAIT, BPOST, CWAIT, CPOST1, CPOST2,
          JOIN1, JOIN2, CANCEL1, CANCEL2, CREATEY, CREATEW, JOINC, CANCELC,
          CADD, CADD1, CADD2, CW, CREATES, RESUMEC, CANCEL0, CRIT, CRITL, NOPS };
static const char *kOpName[] = {"yield", "send", "recv", "lock", "unlock", "acq", "rel", "bwait", "bpost", "cwait", "cpost1", "cpost2",
                                "join+1", "join+2", "cancel+1", "cancel+2", "createY", "createW", "joinc", "cancelc",
                                "cadd", "cadd1", "cadd2", "cw", "createS", "resumec", "cancel+0", "crit", "critL"};
static int op_by_name(const std::string &s) { for (int i = 0; i < NOPS; i++) if (s == kOpName[i]) return i; return -1; }

static const int MAXNR = 4, MAXR = 12, MAXLEN = 4, MAXPASS = 40, MAXTAIL = MAXPASS + 1;   // MAXR: 2 sessions x (4 routines + 2 children)
static size_t STACK = 64 * 1024;   // stack size is not part of the property; generous so the harness body fits (flag "stackdefault": create()'s default)

struct Script { uint8_t n = 0; uint8_t op[MAXLEN] = {0, 0, 0, 0}; };
struct Prog { int nr = 0; Script s[MAXNR]; int param = 0; };
// main-context actions: besides resume / cancel / cleanup the main context also PRODUCES (all of these calls are legal outside a routine):
// channel << v, semaphore.release(), broadcast.post(), condition.post(1|2)
// cleanup+turn = cleanup(), then the loop gets a turn (every deferred call queued so far runs) BEFORE the scheduler is used again;
// plain cleanup = the second session is created in the same loop callback. create = the main context creates one more routine
// (script of routine 0) mid-run.
enum ActKind { A_PASS, A_RESUME, A_CANCEL, A_CLEANUP, A_SEND, A_REL, A_BPOST, A_CPOST1, A_CPOST2, A_CLEANUPT, A_CREATE, NACTS };
struct Act { uint8_t k, r; };

static std::string script_str(const Script &s) { std::string o = "["; for (int i = 0; i < s.n; i++) { if (i) o += ' '; o += kOpName[s.op[i]]; } return o + "]"; }
static std::string act_str(const Act &a) { char b[24]; switch (a.k) { case A_PASS: return "pass"; case A_RESUME: snprintf(b, 24, "resume(r%d)", a.r); return b; case A_CANCEL: snprintf(b, 24, "cancel(r%d)", a.r); return b;
  case A_CLEANUPT: return "cleanup+turn"; case A_CREATE: return "create";
  case A_SEND: return "send"; case A_REL: return "rel"; case A_BPOST: return "bpost"; case A_CPOST1: return "cpost1"; case A_CPOST2: return "cpost2"; default: return "cleanup"; } }
static std::string run_str(const Prog &p, const std::vector<Act> &sc) {
  std::string o = "param=" + std::to_string(p.param) + " |";
  for (int r = 0; r < p.nr; r++) o += " r" + std::to_string(r) + "=" + script_str(p.s[r]);
  o += " | main=["; for (size_t i = 0; i < sc.size(); i++) { if (i) o += ' '; o += act_str(sc[i]); } o += "] then pass-until-idle, destroy";
  return o;
}

// ---------------------------------------------------------------------------------------------
// shared memory between the supervising parent and the enumerating child (survives hang / crash of the child)
struct Shm {
  volatile long cur_prog; volatile int phase; volatile int finished; volatile int capped;
  volatile long loops, programs, executions, transitions, states, traces, qchecks, viol_runs, cancels, cleanups_mid, mainposts, sessions2, sessions2_turn, hookpoints, started, dtors_live, maincreates;
  Prog prog; int nsched; Act sched[2 * MAXTAIL + 8];   // the run being executed (formatted by the parent if the child dies)
};
static Shm *shm;
enum Phase { PH_SETUP, PH_PASS, PH_ACTION, PH_CLEANUP, PH_TEARDOWN };
static const char *kPhase[] = {"setup", "pass", "main-action", "cleanup", "teardown"};
static bool g_info_only = false;

// ---------------------------------------------------------------------------------------------
// per-run world: real objects + reference model
struct RInfo {
  RoutineToken tok; Script sc; int pc = 0; int blocked = -1; int barg = -1;
  bool created = false, started = false, finished = false, failed = false, cancel_issued = false, must_fail = false; int child = -1;
  int base = -1;            // index of routine 0 of the session this routine belongs to (-1: a child made by a create step)
  bool susp = false;        // created with run_now = false
  bool kicked = false;      // somebody resumed or cancelled it (a suspended-created routine has to start only after that)
  bool dropped = false;     // never started, removed by cleanup()
  bool csat = false;        // the condition set was satisfied while this routine was suspended in wait(): it must be resumed by the next idle point
};
struct World {
  Scheduler *sch; Channel<int> *ch; Mutex *mu; Semaphore *sem; Broadcast *bc; Condition<int> *cond;
  RInfo R[MAXR]; int nrt, NR;
  int sent, nrecv; unsigned holders; int acq, rel, init;
  bool bposted[MAXR]; int cwaiter; unsigned cpending; bool any_logic;
  unsigned mainmask; unsigned epoch; bool in_cleanup; int nchild;   // nchild: children made in the current session
  bool cstale;              // a Condition wait ended by cancel / foreign resume (or a cancelled routine called wait()): from then on refusals are not judged
  bool joined[MAXR];        // somebody has already called join() on this routine (a second joiner is refused by design)
  std::vector<std::pair<std::string, std::string>> viols; std::vector<uint32_t> trace;
};
static World g;

// kinds of main-context action that preceded a violation: resume, cancel, post (= a main-context send / release / post), reuse (= the
// scheduler and the primitives were used again after a mid-run cleanup())
static std::string mask_name(unsigned m) { static const char *n[] = {"resume", "cancel", "post", "reuse"}; std::string o;
  for (int i = 0; i < 4; i++) if (m >> i & 1) { if (!o.empty()) o += '+'; o += n[i]; } return o.empty() ? "none" : o; }
static void viol(const std::string &base) {   // base signature; the label says which kinds of main-context actions preceded it
  for (auto &v : g.viols) if (v.first == base) return;
  g.viols.push_back({base, mask_name(g.mainmask)});
}
static inline void ev(int r, int op, int v) { g.epoch++; g.trace.push_back((uint32_t)(r << 24 | op << 16 | (v & 0xffff))); }
static bool rc_blocking(int op) { return op == RECV || op == LOCK || op == ACQ || op == BWAIT || op == CWAIT || op == JOIN1; }

static void do_cancel(int t) {   // cancel issued by the main context or by a routine
  RInfo &T = g.R[t]; if (!T.created) return;
  bool live = !T.finished;
  if (live) { T.cancel_issued = true; T.kicked = true; if (T.started && rc_blocking(T.blocked)) T.must_fail = true; }
  shm->cancels++; g.epoch++;
  g.sch->cancel(T.tok);
}
static void do_resume(int t) {   // resume issued by the main context or by a routine
  RInfo &T = g.R[t]; if (!T.created) return;
  if (!T.finished) T.kicked = true;
  g.epoch++;
  g.sch->resume(T.tok);
}
// producer operations: issued by a routine step or by the main context, same reference-model bookkeeping
static int do_send() { int v = ++g.sent; (*g.ch) << v; return v; }
static void do_rel() { g.sem->release(); g.rel++; }
static void do_bpost() {
  for (int q = 0; q < g.nrt; q++) if (g.R[q].created && !g.R[q].finished && g.R[q].blocked == BWAIT) g.bposted[q] = true;
  g.bc->post();
}
// Condition reference model: cpending = values add()ed and not yet posted (kAll: a post removes its value; kAny: a post of an awaited
// value removes all), whether or not anybody is waiting yet. The condition becomes SATISFIED at the post that empties the set; the
// lost-wake-up clause is judged only for a routine that was suspended in wait() at that moment.
static void do_cpost(int v) {
  if (g.cpending & v) {
    if (g.any_logic) g.cpending = 0; else g.cpending &= ~v;
    // satisfied: that wait is over (the routine has to be resumed), and the condition is free for the next waiter from this moment
    if (!g.cpending && g.cwaiter >= 0 && g.R[g.cwaiter].blocked == CWAIT) { g.R[g.cwaiter].csat = true; g.cwaiter = -1; }
  }
  g.cond->post(v);
}

static void body(int r);
static int spawn(const Script &sc, int base, bool run_now = true) {
  int c = g.nrt++; RInfo &C = g.R[c]; C = RInfo(); C.sc = sc; C.created = true; C.base = base; C.susp = !run_now;
  C.tok = g.sch->create([c](Scheduler &) { body(c); }, run_now, "r", STACK);
  return c;
}

static void body(int r) {
  RInfo &me = g.R[r]; me.started = true; bool fail = false; bool ok; shm->started++;
  Scheduler &sch = *g.sch;
  // A blocking call reports failure to a routine that was cancelled (or cleaned up). The converse is judged for recv / lock / acquire /
  // broadcast-wait only: a routine that nobody cancelled and that leaves such a call with failure has lost the value / mutex / unit /
  // broadcast it was queued for (join and Condition::wait refuse a second joiner / waiter by design, so they are not judged here).
#define BLOCK(kind, arg, expr) do { me.blocked = (kind); me.barg = (arg); me.must_fail = false; ok = (expr); me.blocked = -1; \
    if (ok && me.must_fail) viol(std::string("cancelled-blocking-call-returned-success-") + kOpName[op]); me.must_fail = false; if (!ok) fail = true; \
    if (!ok && !me.cancel_issued && !g.in_cleanup && ((kind) == RECV || (kind) == LOCK || (kind) == ACQ || (kind) == BWAIT)) \
      viol(std::string("blocking-call-failed-although-nobody-cancelled-") + kOpName[op]); } while (0)
  for (me.pc = 0; me.pc < me.sc.n && !fail; me.pc++) {
    int op = me.sc.op[me.pc];
    switch (op) {
      case YIELD: me.blocked = YIELD; sch.yield(); me.blocked = -1; if (sch.isCanceled()) fail = true; ev(r, op, fail); break;
      case SEND: { int v = do_send(); ev(r, op, v); } break;
      case RECV: { int v = -1; BLOCK(RECV, 0, (*g.ch) >> v); ev(r, op, ok ? v : 0);
        if (ok) { g.nrecv++; if (v != g.nrecv) viol(v < g.nrecv ? "channel-value-received-twice-or-out-of-order" : v > g.sent ? "channel-value-never-sent" : "channel-value-skipped-fifo-broken"); } } break;
      case LOCK: BLOCK(LOCK, 0, g.mu->lock()); ev(r, op, ok);
        if (ok) { g.holders |= 1u << r; if (g.holders & (g.holders - 1)) viol("mutex-two-holders"); } break;
      case CRIT: BLOCK(LOCK, 0, g.mu->lock()); ev(r, LOCK, ok);
        if (ok) { g.holders |= 1u << r; if (g.holders & (g.holders - 1)) viol("mutex-two-holders");
          me.blocked = YIELD; sch.yield(); me.blocked = -1;
          if (sch.isCanceled()) fail = true;            // the failure path below releases the mutex, as Mutex::Locker would
          else { g.mu->unlock(); g.holders &= ~(1u << r); }
          ev(r, op, fail); } break;
      case CRITL: { me.blocked = LOCK; me.barg = 0; me.must_fail = false;
        { Mutex::Locker l(*g.mu); me.blocked = -1; me.must_fail = false;
          if (!sch.isCanceled()) { ev(r, LOCK, 1); g.holders |= 1u << r; if (g.holders & (g.holders - 1)) viol("mutex-two-holders");
            me.blocked = YIELD; sch.yield(); me.blocked = -1; if (sch.isCanceled()) fail = true; }
          else { ev(r, LOCK, 0); fail = true; }
        }                                               // ~Locker: unlock()
        g.holders &= ~(1u << r); ev(r, op, fail); } break;
      case UNLOCK: g.mu->unlock(); g.holders &= ~(1u << r); ev(r, op, 0); break;
      case ACQ: BLOCK(ACQ, 0, g.sem->acquire()); ev(r, op, ok);
        if (ok) { g.acq++; if (g.acq > g.rel + g.init) viol("semaphore-acquisitions-exceed-releases-plus-initial"); } break;
      case REL: do_rel(); ev(r, op, 0); break;
      case BWAIT: g.bposted[r] = false; BLOCK(BWAIT, 0, g.bc->wait()); ev(r, op, ok); break;
      case BPOST: do_bpost(); ev(r, op, 0); break;
      case CADD: case CADD1: case CADD2: { int m = op == CADD ? 3 : op == CADD1 ? 1 : 2;
        if (m & 1) g.cond->add(1); if (m & 2) g.cond->add(2); g.cpending |= m; ev(r, op, 0); } break;
      case CWAIT: case CW: {
        // one waiter at a time is the documented use; a second one, or a wait on an empty set, is refused by wait() (not judged)
        if (op == CWAIT && g.cwaiter < 0) { g.cond->add(1); g.cond->add(2); g.cpending |= 3; }
        bool mine = g.cwaiter < 0 && g.cpending != 0;
        if (mine) { g.cwaiter = r; me.csat = false; }
        unsigned e0 = g.epoch; bool gone = me.cancel_issued || g.in_cleanup;
        BLOCK(CWAIT, 0, g.cond->wait()); bool suspended = g.epoch != e0; ev(r, op, ok);
        // The model decides when a refusal is legitimate: somebody else is waiting, the set is empty, the caller is cancelled, or an
        // earlier wait ended by cancel / foreign resume (from then on nothing is judged: what such a wait leaves behind is not specified).
        if (!ok && mine && !suspended && !gone && !g.cstale) viol("condition-wait-refused-although-nobody-waits-and-the-set-is-not-empty");
        // a wait that really suspended consumes the set when it returns; a refused wait() (it came back at once) changes nothing
        if (mine) { if ((suspended && !me.csat) || gone) g.cstale = true; if (g.cwaiter == r) g.cwaiter = -1; me.csat = false; if (suspended) g.cpending = 0; }
        else if (suspended) g.cstale = true;            // accepted although the model expected a refusal: nothing more is judged about refusals
        } break;
      case CPOST1: case CPOST2: do_cpost(op == CPOST1 ? 1 : 2); ev(r, op, 0); break;
      case JOIN1: case JOIN2: case JOINC: {
        int t = op == JOINC ? me.child : (me.base >= 0 ? me.base + (r - me.base + (op == JOIN1 ? 1 : 2)) % g.NR : -1);
        if (t < 0 || t == r || !g.R[t].created) { ev(r, op, 9); break; }
        bool firstj = !g.joined[t], gone = me.cancel_issued || g.in_cleanup; g.joined[t] = true;
        BLOCK(JOIN1, t, sch.join(g.R[t].tok)); ev(r, op, ok);
        if (ok && !g.R[t].finished) viol("join-returned-success-before-target-finished");
        // join returns once its target has finished: the first joiner of a live target may come back early only when it is cancelled itself
        if (!ok && firstj && !gone && !me.cancel_issued && !g.in_cleanup && !g.R[t].finished) viol("join-refused-although-target-alive-and-nobody-joined-it"); } break;
      case CANCEL0: case CANCEL1: case CANCEL2: case CANCELC: {
        int t = op == CANCELC ? me.child : op == CANCEL0 ? r : (me.base >= 0 ? me.base + (r - me.base + (op == CANCEL1 ? 1 : 2)) % g.NR : -1);
        if (t < 0 || (t == r && op != CANCEL0) || !g.R[t].created) { ev(r, op, 9); break; }
        do_cancel(t); ev(r, op, 0); } break;
      case RESUMEC: { int t = me.child; if (t < 0 || !g.R[t].created) { ev(r, op, 9); break; } do_resume(t); ev(r, op, 0); } break;
      case CREATEY: case CREATEW: case CREATES: {
        if (g.nrt >= MAXR || g.nchild >= 2) { ev(r, op, 9); break; }
        g.nchild++;
        Script cs; cs.n = 1; cs.op[0] = op == CREATEW ? BWAIT : YIELD; me.child = spawn(cs, -1, op != CREATES); ev(r, op, me.child); } break;
    }
  }
  if (fail) { me.failed = true; if (g.holders & (1u << r)) { g.mu->unlock(); g.holders &= ~(1u << r); } }
  me.blocked = -1; me.finished = true; ev(r, 31, fail);
}

// Private members that only feed the canonical state key / the diagnostic suffix of a signature are read through probes (probe.h): if a
// refactoring renames one of them the harness still builds, the key falls back to a default and "@INFO missing-member" says so.
VF_PROBE(token_) VF_PROBE(wait_tokens_) VF_PROBE(conds_) VF_PROBE(wait_token_) VF_PROBE(is_canceled) VF_PROBE(state)
// a waiter list of any usual container type, copied through the public interface of that container
struct TokList { std::vector<RoutineToken> v; bool known = false;
  TokList() {}
  TokList(const std::deque<RoutineToken> &c) : v(c.begin(), c.end()), known(true) {}
  TokList(const std::vector<RoutineToken> &c) : v(c), known(true) {}
  TokList(const std::list<RoutineToken> &c) : v(c.begin(), c.end()), known(true) {}
  TokList(std::queue<RoutineToken> c) : known(true) { while (!c.empty()) { v.push_back(c.front()); c.pop(); } }
};
static int tok2idx(const RoutineToken &t) { for (int i = 0; i < g.nrt; i++) if (g.R[i].created && g.R[i].tok.equal(t)) return i; return -1; }
static const char *queued(const TokList &q, const RoutineToken &t) {      // diagnostic suffix only
  if (!q.known) return ":waiter-queue-unknown";
  for (auto &x : q.v) if (x.equal(t)) return ":waiter-still-queued"; return ":waiter-not-queued"; }
// "the scheduler runs out of ready routines": the ready queue of the scheduler under test (needed to set the experiment up; see also the
// stall detection in run(): ready routines that no scheduler round ever picks up are reported, whatever the queue is called)
static bool quiescent() { return g.sch->d_->ready_routines.empty(); }

static std::unordered_set<size_t> g_states, g_traces;
static bool g_reuse = true;                 // second session after the first mid-run cleanup (flag "noreuse" turns it off)
static std::vector<uint8_t> g_main_ops;     // producer actions of the main context enabled for this family

// invariants that hold at every point the main context has control
static void model_check() {
  // exactly-once: what was sent and not yet received is exactly what the channel holds, in order
  auto &cq = g.ch->queue_.c;
  if ((int)cq.size() != g.sent - g.nrecv) viol("channel-value-lost-or-duplicated");
  else { int e = g.nrecv + 1; for (int v : cq) { if (v != e) { viol("channel-queue-order-broken"); break; } e++; } }
  if (g.sem->count_ != g.init + g.rel - g.acq) viol("semaphore-count-differs-from-initial-plus-releases-minus-acquisitions");
  if (g.holders) { int h = __builtin_ctz(g.holders); if (!g.mu->hold_token_.equal(g.R[h].tok)) viol("mutex-holder-differs-from-model"); }
}

// "whenever the scheduler runs out of ready routines": no lost wake-ups
static void qcheck() {
  shm->qchecks++;
  model_check();
  std::string canon;
  for (int r = 0; r < g.nrt; r++) {
    RInfo &X = g.R[r];
    Routine *rt = g.sch->d_->routine_cabinet.at(X.tok);
    char b[64]; snprintf(b, sizeof b, "%d.%d.%d.%d%d%d%d.%d;", X.pc, X.blocked, X.barg, X.started, X.finished, X.failed, rt ? VF_GET(is_canceled, *rt, 3) : 2, rt ? VF_GET(state, *rt, 8) : 9); canon += b;
    if (X.finished) { if (rt) viol("finished-routine-still-registered"); continue; }
    if (!rt) { viol("unfinished-routine-vanished"); continue; }
    if (!X.started && X.susp && !X.kicked) continue;      // create(run_now = false): stays suspended until somebody resumes or cancels it
    if (!X.started) { viol(X.susp ? "suspended-created-routine-resumed-or-cancelled-but-never-started-although-idle" : "created-routine-never-started-although-idle"); continue; }
    if (X.cancel_issued) viol("cancelled-routine-not-terminated-when-idle");
    const char *where = "";
    switch (X.blocked) {
      case RECV: if (g.sent - g.nrecv > 0) {     /* non-empty according to the MODEL: values sent and not yet received */ where = queued(VF_GET(token_, *g.ch, TokList()), X.tok); viol(std::string("lost-wakeup-channel-nonempty-receiver-suspended") + where); } break;
      case LOCK: if (g.holders == 0) {     /* free according to the MODEL (nobody whose lock() succeeded still holds it), not according to the implementation's own bookkeeping */ where = queued(VF_GET(wait_tokens_, *g.mu, TokList()), X.tok); viol(std::string("lost-wakeup-mutex-free-waiter-suspended") + where); } break;
      case ACQ: if (g.init + g.rel - g.acq > 0) {     /* positive according to the MODEL: initial + releases - successful acquisitions */ where = queued(VF_GET(token_, *g.sem, TokList()), X.tok); viol(std::string("lost-wakeup-semaphore-positive-waiter-suspended") + where); } break;
      case BWAIT: if (g.bposted[r]) viol("lost-wakeup-broadcast-posted-waiter-suspended"); break;
      case CWAIT: if (X.csat) viol("lost-wakeup-condition-satisfied-waiter-suspended"); break;
      case JOIN1: if (g.R[X.barg].finished) viol("join-target-finished-joiner-suspended"); break;
      case YIELD: viol("yielded-routine-not-ready-when-idle"); break;
      default: viol("harness-routine-suspended-outside-blocking-call"); break;
    }
  }
  // primitive state (token queues as routine indices; x = token of a routine that no longer exists)
  auto toks = [&](const TokList &q) { if (!q.known) canon += '?'; for (auto &t : q.v) { int i = tok2idx(t); bool alive = i >= 0 && !g.R[i].finished; canon += alive ? char('0' + i) : 'x'; } canon += '|'; };
  canon += "ch" + std::to_string(g.sent - g.nrecv) + ":"; toks(VF_GET(token_, *g.ch, TokList()));
  canon += "mu" + std::to_string(g.holders) + ":"; toks(VF_GET(wait_tokens_, *g.mu, TokList()));
  canon += "se" + std::to_string(g.init + g.rel - g.acq) + ":"; toks(VF_GET(token_, *g.sem, TokList()));
  canon += "bc"; toks(VF_GET(wait_tokens_, *g.bc, TokList()));
  { RoutineToken wt = VF_GET(wait_token_, *g.cond, RoutineToken());
    canon += "co" + std::to_string(VF_SIZE(conds_, *g.cond, (size_t)99)) + "." + std::to_string(g.cpending) + (wt.isNull() ? "n" : std::to_string(tok2idx(wt))); }
  if (g_states.insert(std::hash<std::string>()(canon)).second) shm->states++;
}

struct RunOut { int tail_passes = 0; uint16_t alive_at[MAXTAIL + 1]; bool cleaned = false; std::vector<std::pair<std::string, std::string>> viols; std::string trace; std::string outcome; };

static std::string trace_str() {
  std::string o;
  for (uint32_t e : g.trace) { int r = e >> 24, op = (e >> 16) & 0xff, v = e & 0xffff; char b[48];
    if (r == 0xff) { o += "/ "; continue; }
    if (r == 0xfe) { Act a{(uint8_t)(e >> 8 & 0xff), (uint8_t)(e & 0xff)}; o += "MAIN:" + act_str(a) + " "; continue; }
    if (op == 31) snprintf(b, sizeof b, "r%d:end(%s) ", r, v ? "failed" : "ok"); else snprintf(b, sizeof b, "r%d:%s=%d ", r, kOpName[op], v); o += b; }
  return o;
}

static unsigned alive_mask() { unsigned m = 0; for (int r = 0; r < g.nrt; r++) if (g.R[r].created && !g.R[r].finished) m |= 1u << r; return m; }

// The Scheduler is given this forwarding proxy of the real loop; it only adds a main-context call in front of every deferred call the
// scheduler queues (as if the main context had queued its own deferred call just before), everything else is the real loop.
// Every way of deferring a call is wrapped (runNext / run / runInLoop), so the main context keeps its step whichever the scheduler uses.
// `alive` is cleared when the Scheduler has been destroyed: deferred calls that are still queued then belong to a dead object and are
// dropped (what a destroyed Scheduler leaves queued on its loop is outside the property).
struct TapLoop : public event::Loop {
  event::Loop *real; std::function<void()> hook; std::shared_ptr<bool> alive = std::make_shared<bool>(true);
  explicit TapLoop(event::Loop *r) : real(r) {}
  Func wrap(Func g) { std::shared_ptr<bool> a = alive; return [this, a, g] { if (!*a) return; if (hook) hook(); g(); }; }
  void runLoop(Mode m) override { real->runLoop(m); }
  void exitLoop(const std::chrono::milliseconds &w) override { real->exitLoop(w); }
  bool isInLoopThread() override { return real->isInLoopThread(); }
  bool isRunning() const override { return real->isRunning(); }
  RunId runInLoop(Func &&f, const std::string &w) override { return real->runInLoop(wrap(std::move(f)), w); }
  RunId runInLoop(const Func &f, const std::string &w) override { return real->runInLoop(wrap(f), w); }
  RunId runNext(Func &&f, const std::string &w) override { return real->runNext(wrap(std::move(f)), w); }
  RunId runNext(const Func &f, const std::string &w) override { return real->runNext(wrap(f), w); }
  RunId run(Func &&f, const std::string &w) override { return real->run(wrap(std::move(f)), w); }
  RunId run(const Func &f, const std::string &w) override { return real->run(wrap(f), w); }
  bool cancel(RunId id) override { return real->cancel(id); }
  event::FdEvent *newFdEvent(const std::string &w) override { return real->newFdEvent(w); }
  event::TimerEvent *newTimerEvent(const std::string &w) override { return real->newTimerEvent(w); }
  event::SignalEvent *newSignalEvent(const std::string &w) override { return real->newSignalEvent(w); }
  event::Stat getStat() const override { return real->getStat(); }
  void resetStat() override { real->resetStat(); }
  WaterLine &water_line() override { return real->water_line(); }
  void cleanup() override { real->cleanup(); }
};

// One real Loop and one fresh Scheduler + primitives per RUN (program x main schedule).
static event::Loop *g_loop = nullptr;
static void drop_loop() { delete g_loop; g_loop = nullptr; }

static RunOut run(const Prog &p, const std::vector<Act> &sched, bool want_text) {
  RunOut out;
  shm->phase = PH_SETUP; shm->executions++;
  if (!g_loop) { g_loop = event::Loop::New(); shm->loops++; }
  event::Loop *loop = g_loop;
  {
    TapLoop tap(loop);
    std::unique_ptr<Scheduler> schp(new Scheduler(&tap)); Scheduler &sch = *schp; Channel<int> ch(sch); Mutex mu(sch); Semaphore sem(sch, p.param); Broadcast bc(sch);
    Condition<int> cond(sch, p.param ? Condition<int>::Logic::kAny : Condition<int>::Logic::kAll);
    g.sch = &sch; g.ch = &ch; g.mu = &mu; g.sem = &sem; g.bc = &bc; g.cond = &cond;
    g.nrt = 0; g.NR = p.nr; g.sent = g.nrecv = 0; g.holders = 0; g.acq = g.rel = 0; g.init = p.param; g.any_logic = p.param != 0;
    for (int i = 0; i < MAXR; i++) { g.R[i] = RInfo(); g.bposted[i] = false; }
    g.cwaiter = -1; g.cpending = 0; g.mainmask = 0; g.epoch = 0; g.in_cleanup = false; g.nchild = 0; g.viols.clear(); g.trace.clear();
    g.cstale = false; for (int i = 0; i < MAXR; i++) g.joined[i] = false;
    int npass = 0, k = 0, sessions = 1, respawn_wait = 0, stall = 0; size_t ai = 0; bool cleaned = false, first = true, tail = false;
    auto respawn = [&] { g.nchild = 0; int base = g.nrt; for (int r = 0; r < p.nr; r++) spawn(p.s[r], base); };
    // cleanup(): every started routine must come back from its blocking call with failure and terminate. The FIRST mid-run cleanup
    // does not end the run: the same Scheduler and the same primitives (with whatever values / units / holder the first session left,
    // which the reference model carries over) are used again - the program's routines are created a second time and the schedule goes on.
    // mode: 1 = mid-run cleanup(), second session created in the same loop callback; 2 = mid-run cleanup(), second session created after
    // the loop has had a turn; 0 = end of the run: the Scheduler is DESTROYED with whatever is still alive (its destructor has to do
    // what cleanup() does), before the primitives go.
    auto cleanup = [&](int mode) {
      const bool midrun = mode != 0;
      shm->phase = PH_CLEANUP;
      unsigned must_die = 0;
      for (int r = 0; r < g.nrt; r++) { RInfo &X = g.R[r]; if (X.created && X.started && !X.finished) { must_die |= 1u << r; if (rc_blocking(X.blocked)) X.must_fail = true; } }
      g.epoch++; g.in_cleanup = true;
      if (midrun) sch.cleanup(); else { if (must_die) shm->dtors_live++; schp.reset(); *tap.alive = false; g.sch = nullptr; }
      shm->transitions++;
      g.in_cleanup = false;
      for (int r = 0; r < g.nrt; r++) {
        RInfo &X = g.R[r]; if (!X.created) continue;
        if ((must_die >> r & 1) && !X.finished) viol(midrun ? "cleanup-started-routine-not-terminated" : "scheduler-destroyed-started-routine-not-terminated");
        if (!(must_die >> r & 1) && !X.finished && X.started) viol("cleanup-routine-started-during-cleanup-left-alive");
        if (!X.finished && !X.started) X.dropped = X.finished = true;      // never started: cleanup() just removes it
      }
      if (midrun && !sch.d_->routine_cabinet.empty()) viol("cleanup-left-routines-registered");
      model_check();
      if (midrun && sessions == 1 && g_reuse && g.viols.empty() && g.nrt + p.nr <= MAXR) {
        sessions = 2; g.mainmask |= 8; shm->sessions2++;
        if (mode == 2) { respawn_wait = 3; shm->sessions2_turn++; } else respawn();
      } else cleaned = true;
    };
    // Where the main context acts. Leaving runLoop() drains all deferred calls (the scheduler runs until idle), so runLoop(kOnce) per step
    // is too coarse. Instead the loop runs in kForever mode and the main context acts from deferred calls of that loop:
    //  (1) `hook`  - immediately before every Scheduler::schedule() call that has something to run (= before every scheduler round),
    //  (2) `idle`  - a deferred call re-queued in every loop iteration, acting when no routine is ready.
    // A `pass` in a main schedule = let the next scheduler round happen.
    bool done = false;
    auto apply_actions = [&] {
      while (ai < sched.size() && sched[ai].k != A_PASS && !cleaned && !respawn_wait) {
        const Act &a = sched[ai++];
        shm->phase = PH_ACTION; shm->transitions++;
        if (a.k == A_RESUME) { g.mainmask |= 1; do_resume(a.r); }
        else if (a.k == A_CANCEL) { g.mainmask |= 2; do_cancel(a.r); }
        else if (a.k == A_CLEANUP || a.k == A_CLEANUPT) { shm->cleanups_mid++; cleanup(a.k == A_CLEANUP ? 1 : 2); }
        else if (a.k == A_CREATE) { g.mainmask |= 4; g.epoch++; shm->maincreates++; if (g.nrt < MAXR) spawn(p.s[0], -1); }
        else { g.mainmask |= 4; g.epoch++; shm->mainposts++;
          if (a.k == A_SEND) do_send(); else if (a.k == A_REL) do_rel(); else if (a.k == A_BPOST) do_bpost(); else do_cpost(a.k == A_CPOST1 ? 1 : 2); }
        g.trace.push_back(0xfe000000u | a.k << 8 | a.r);
        shm->phase = PH_PASS;
      }
    };
    auto finish = [&] { done = true; loop->exitLoop(); };
    tap.hook = [&] {
      if (done || respawn_wait || quiescent()) return;                 // a schedule() call with nothing to run is not a point
      shm->phase = PH_PASS; shm->hookpoints++; stall = 0;
      if (!first) g.trace.push_back(0xff000000u);
      first = false;
      model_check();
      if (!tail) apply_actions();
      if (cleaned) { out.alive_at[0] = 0; finish(); return; }
      if (respawn_wait) return;                        // cleanup+turn: the deferred calls queued so far run with nothing ready
      if (!tail && ai < sched.size()) { ai++; npass++; shm->transitions++; return; }   // `pass`: the round that follows
      tail = true; out.alive_at[k] = (uint16_t)alive_mask();
      if (npass >= MAXPASS) { finish(); return; }
      k++; npass++; shm->transitions++;
    };
    std::function<void()> idle = [&] {
      if (done) return;
      if (respawn_wait) { if (--respawn_wait == 0) respawn(); loop->runNext(idle); return; }   // the loop has had its turn(s): second session
      if (!quiescent()) {
        // Routines are ready but no scheduler round picks them up, loop turn after loop turn: they will never run (a wake-up, a
        // create, a cancel that made a routine ready is lost). On a working scheduler a round follows within one loop turn.
        if (++stall > 8) { viol("ready-routines-never-run-no-scheduler-round-in-8-loop-turns"); finish(); return; }
        loop->runNext(idle); return; }
      stall = 0;
      shm->phase = PH_PASS;
      if (!first) g.trace.push_back(0xff000000u);
      first = false;
      qcheck();
      for (;;) {
        size_t ai0 = ai;
        if (!tail) apply_actions();
        if (cleaned) { out.alive_at[0] = 0; finish(); return; }
        if (respawn_wait) { loop->runNext(idle); return; }
        if (!quiescent()) { loop->runNext(idle); return; }                        // an action made a routine ready: `hook` goes on
        if (ai != ai0) qcheck();                                                  // still idle after the actions (they woke nobody): judged again
        if (!tail && ai < sched.size()) { ai++; continue; }                       // a `pass` with nothing to run
        tail = true; out.alive_at[k] = (uint16_t)alive_mask(); finish(); return;
      }
    };
    loop->runNext(idle);
    for (int r = 0; r < p.nr; r++) spawn(p.s[r], 0);
    loop->runLoop(event::Loop::Mode::kForever);
    tap.hook = nullptr;
    if (!cleaned && !quiescent() && g.viols.empty()) viol("no-quiescence-within-40-passes");
    out.tail_passes = k; out.cleaned = cleaned;
    // outcome class of the idle state reached (before the final cleanup)
    { int fin = 0, fl = 0, dr = 0, ns = 0, sus[NOPS] = {0}; for (int r = 0; r < g.nrt; r++) { RInfo &X = g.R[r]; if (X.dropped) dr++; else if (X.finished) { X.failed ? fl++ : fin++; } else if (!X.started) ns++; else if (X.blocked >= 0) sus[X.blocked]++; }
      char b[96]; snprintf(b, sizeof b, "routines=%d ended-ok=%d ended-failed=%d suspended:", g.nrt, fin, fl); out.outcome = b;
      for (int o = 0; o < NOPS; o++) if (sus[o]) out.outcome += std::string(" ") + (o == JOIN1 ? "join" : kOpName[o]) + "x" + std::to_string(sus[o]);
      if (ns) out.outcome += " not-started x" + std::to_string(ns);
      if (dr) out.outcome += " removed-unstarted-by-cleanup x" + std::to_string(dr);
      if (sessions == 2) out.outcome += cleaned ? " (second session, after its mid-run cleanup)" : " (second session on the cleaned-up scheduler)";
      else if (cleaned) out.outcome += " (after mid-run cleanup)"; }
    cleanup(0);          // destroy the Scheduler (after a terminal mid-run cleanup it is empty, otherwise routines are still alive)
    shm->phase = PH_TEARDOWN;
    loop->runNext([] {}); loop->runLoop(event::Loop::Mode::kOnce);   // drain the loop (calls queued by the dead Scheduler are dropped by the proxy)
    size_t th = 1469598103934665603ull; for (uint32_t e : g.trace) { th ^= e; th *= 1099511628211ull; }
    if (g_traces.insert(th).second) shm->traces++;
    if (want_text || !g.viols.empty()) out.trace = trace_str();
    out.viols = g.viols;
  }
  drop_loop();
  return out;
}

// ---------------------------------------------------------------------------------------------
static std::map<std::string, long> g_sig_count, g_outcomes;
static std::map<std::string, std::pair<int, std::string>> g_sig_small;   // smallest example seen after the first
static const char *VIOLTAG() { return g_info_only ? "@INFO asan-build-viol" : "@VIOL"; }
static long g_samples = 0;

// A violation that the same program already shows with a shorter main schedule (an ancestor in the schedule tree) keeps the
// ancestor's label, so ":main=cancel" / ":main=resume" signatures only appear when that action is needed to provoke it.
typedef std::map<std::string, std::string> Inherited;
static void report(const Prog &p, const std::vector<Act> &sched, RunOut &o, const Inherited &inh) {
  for (auto &v : o.viols) { auto it = inh.find(v.first); if (it != inh.end()) v.second = it->second; }
  // a violation labelled with both kinds of main action: if it survives dropping the first action, only the second one is needed
  for (auto &v : o.viols) if (v.second.find('+') != std::string::npos) {
    std::vector<Act> s2; bool dropped = false; for (auto &a : sched) { if (!dropped && a.k != A_PASS) { dropped = true; continue; } s2.push_back(a); }
    RunOut o2 = run(p, s2, false);
    for (auto &w : o2.viols) if (w.first == v.first) v.second = w.second;
  }
  if (!g_outcomes.count(o.outcome)) { printf("@OUTCOME %s%s\n", o.outcome.c_str(), o.viols.empty() ? "" : " [violating]"); fflush(stdout); }
  g_outcomes[o.outcome]++;
  if (o.viols.empty()) return;
  shm->viol_runs++;
  int steps = 0; for (int r = 0; r < p.nr; r++) steps += p.s[r].n;
  int size = steps * 100 + (int)sched.size();
  for (auto &v : o.viols) {
    // the size class of the program is part of the signature: a defect that needs 5+ steps must not hide one that shows with 2
    char sz[24]; if (steps <= 4) snprintf(sz, sizeof sz, ":steps=%d", steps); else snprintf(sz, sizeof sz, ":steps>4");
    std::string s = v.first + ":main=" + v.second + sz;
    long &n = g_sig_count[s]; n++;
    std::string text = run_str(p, sched) + "  trace: " + o.trace;
    if (n == 1) { printf("%s sig=%s :: %s\n", VIOLTAG(), s.c_str(), text.c_str()); fflush(stdout); g_sig_small[s] = {size, ""}; }
    else if (size < g_sig_small[s].first) g_sig_small[s] = {size, text};
  }
}

static void explore(const Prog &p, std::vector<Act> &sched, int acts_left, const Inherited &inh) {
  bool sample = g_samples < 3 && !sched.empty() && sched.back().k != A_PASS && (shm->executions % 97) == 5;
  shm->prog = p; shm->nsched = (int)std::min<size_t>(sched.size(), sizeof shm->sched / sizeof(Act)); memcpy((void *)shm->sched, sched.data(), shm->nsched * sizeof(Act));
  RunOut o = run(p, sched, sample);
  if (sample && o.trace.size() > 90) { g_samples++; printf("@SAMPLE %s  trace: %s\n", run_str(p, sched).c_str(), o.trace.c_str()); }
  report(p, sched, o, inh);
  if (acts_left == 0 || o.cleaned) return;
  Inherited mine = inh; for (auto &v : o.viols) mine.insert(v);
  size_t base = sched.size();
  for (int k = 0; k <= o.tail_passes; k++) {
    for (int r = 0; r < MAXR; r++) if (o.alive_at[k] >> r & 1) for (int kind : {A_RESUME, A_CANCEL}) {
      sched.resize(base); for (int i = 0; i < k; i++) sched.push_back({A_PASS, 0}); sched.push_back({(uint8_t)kind, (uint8_t)r});
      explore(p, sched, acts_left - 1, mine);
    }
    if (o.alive_at[k]) for (uint8_t kind : g_main_ops) {      // the main context produces: send / release / post
      sched.resize(base); for (int i = 0; i < k; i++) sched.push_back({A_PASS, 0}); sched.push_back({kind, 0});
      explore(p, sched, acts_left - 1, mine);
    }
    // cleanup before every round AND at the idle point while something is still alive (suspended); the first cleanup of a run starts a
    // second session - at once, or (cleanup+turn) after the loop has had a turn with nothing ready
    if (k < o.tail_passes || o.alive_at[k]) {
      bool had = false; for (size_t i = 0; i < base; i++) if (sched[i].k == A_CLEANUP || sched[i].k == A_CLEANUPT) had = true;
      for (uint8_t kind : {(uint8_t)A_CLEANUP, (uint8_t)A_CLEANUPT}) {
        if (kind == A_CLEANUPT && (had || !g_reuse)) continue;
        sched.resize(base); for (int i = 0; i < k; i++) sched.push_back({A_PASS, 0}); sched.push_back({kind, 0}); explore(p, sched, acts_left - 1, mine);
      }
    }
  }
  sched.resize(base);
}

static std::vector<Script> all_scripts(const std::vector<int> &alpha, int maxlen) {
  std::vector<Script> out; out.push_back(Script());
  size_t lo = 0;
  for (int l = 1; l <= maxlen; l++) { size_t hi = out.size(); for (size_t i = lo; i < hi; i++) for (int a : alpha) { Script s = out[i]; s.op[s.n++] = (uint8_t)a; out.push_back(s); } lo = hi; }
  return out;
}

// Watchdog: a run that never ends (e.g. cleanup() spinning on a routine that does not leave) burns CPU, so the limit is on the
// CPU time of one program (robust against a stalled / oversubscribed machine); a long wall-clock alarm is the backstop for a blocked run.
static void on_alarm(int) { _exit(7); }
static void arm_watchdog() {
  struct itimerval it; it.it_interval.tv_sec = 0; it.it_interval.tv_usec = 0; it.it_value.tv_sec = 3; it.it_value.tv_usec = 0;
  setitimer(ITIMER_PROF, &it, nullptr); alarm(600);
}

static int enum_main(int argc, char **argv) {
  std::string tag = argv[2]; std::vector<int> alpha;
  { std::string s = argv[3]; size_t i = 0; while (i <= s.size()) { size_t j = s.find(',', i); if (j == std::string::npos) j = s.size(); int o = op_by_name(s.substr(i, j - i)); if (o < 0) { fprintf(stderr, "bad op %s\n", s.substr(i, j - i).c_str()); return 2; } alpha.push_back(o); i = j + 1; } }
  int NR = atoi(argv[4]), maxlen = atoi(argv[5]), maxacts = atoi(argv[6]), param = atoi(argv[7]); long part = atol(argv[8]), nparts = atol(argv[9]);
  int maxtotal = argc > 10 ? atoi(argv[10]) : NR * maxlen;   // optional bound on the total number of steps of a program
  if (maxlen > MAXLEN || NR > MAXNR || NR < 1) return 2;
  // optional flags: "nomain" = the main context does not produce, "noreuse" = a mid-run cleanup ends the run (no second session)
  std::string flags = argc > 11 ? argv[11] : "";
  g_reuse = flags.find("noreuse") == std::string::npos;
  if (flags.find("stackdefault") != std::string::npos) STACK = ROUTINE_STACK_DEFAULT_SIZE;     // create()'s default stack size
  if (flags.find("create") != std::string::npos) g_main_ops.push_back(A_CREATE);               // the main context also creates routines mid-run
  if (flags.find("nomain") == std::string::npos) {
    auto has = [&](int o) { for (int a : alpha) if (a == o) return true; return false; };
    if (has(RECV)) g_main_ops.push_back(A_SEND);
    if (has(ACQ)) g_main_ops.push_back(A_REL);
    if (has(BWAIT)) g_main_ops.push_back(A_BPOST);
    if (has(CWAIT) || has(CW)) { g_main_ops.push_back(A_CPOST1); g_main_ops.push_back(A_CPOST2); }
  }
  std::vector<Script> scripts = all_scripts(alpha, maxlen);
  long NS = (long)scripts.size(), total = 1; for (int i = 0; i < NR; i++) total *= NS;
  const char *e = getenv("VERIF_DEADLINE_S"); double deadline = now_s() + (e ? atof(e) : 600);
  if (const char *at = getenv("C18_DEADLINE_AT")) { double left = atof(at) - (double)time(nullptr); if (now_s() + left < deadline) deadline = now_s() + left; }   // absolute deadline of the whole check
  g_info_only = getenv("C18_INFO_ONLY") != nullptr;
  shm = (Shm *)mmap(nullptr, sizeof(Shm), PROT_READ | PROT_WRITE, MAP_SHARED | MAP_ANONYMOUS, -1, 0);
  memset((void *)shm, 0, sizeof *shm);
  long start = part; int restarts = 0, spurious = 0; std::map<std::string, int> crash_sigs;
  while (start < total) {
    fflush(stdout);
    shm->finished = 0;
    pid_t pid = fork();
    if (pid < 0) { perror("fork"); return 3; }
    if (pid == 0) {
      signal(SIGALRM, on_alarm); signal(SIGPROF, on_alarm);
      for (long idx = start; idx < total; idx += nparts) {
        if (now_s() > deadline) { printf("@CAP %s: deadline reached at program %ld of %ld (part %ld/%ld)\n", tag.c_str(), idx, total, part, nparts); shm->capped = 1; break; }
        shm->cur_prog = idx; arm_watchdog();
        Prog p; p.nr = NR; p.param = param; long x = idx; int tot = 0; for (int r = NR - 1; r >= 0; r--) { p.s[r] = scripts[x % NS]; x /= NS; tot += p.s[r].n; }
        if (tot > maxtotal) continue;
        std::vector<Act> sched; explore(p, sched, maxacts, Inherited()); shm->programs++;
        drop_loop();
      }
      alarm(0);
      for (auto &kv : g_sig_small) if (!kv.second.second.empty()) printf("%s sig=%s :: %s\n", VIOLTAG(), kv.first.c_str(), kv.second.second.c_str());
      for (auto &kv : g_sig_count) printf("@INFO %s part %ld/%ld: signature %s seen in %ld runs\n", tag.c_str(), part, nparts, kv.first.c_str(), kv.second);
      shm->finished = 1; fflush(stdout); _exit(0);
    }
    int st = 0; waitpid(pid, &st, 0);
    if (shm->finished || shm->capped) break;
    // the child hung (watchdog) or died: report the run it was executing, continue after that program
    char how[64];
    if (WIFEXITED(st) && WEXITSTATUS(st) == 7) {
      // confirm in a fresh child that exactly this run does not end
      int phase = shm->phase; fflush(stdout);
      pid_t c2 = fork();
      if (c2 == 0) { signal(SIGALRM, on_alarm); signal(SIGPROF, on_alarm); arm_watchdog(); Prog p = shm->prog; std::vector<Act> sc(shm->sched, shm->sched + shm->nsched); run(p, sc, false); _exit(0); }
      int st2 = 0; waitpid(c2, &st2, 0);
      if (!(WIFEXITED(st2) && WEXITSTATUS(st2) == 7)) {
        if (++spurious > 20) { printf("@CAP %s: watchdog fired 20 times on runs that complete when repeated (machine stalled?), part %ld/%ld stopped at program %ld\n", tag.c_str(), part, nparts, (long)shm->cur_prog); break; }
        printf("@INFO %s part %ld/%ld: watchdog fired in phase %s but the run completes when repeated; program %ld re-enumerated\n", tag.c_str(), part, nparts, kPhase[phase], (long)shm->cur_prog);
        start = shm->cur_prog; continue;
      }
      snprintf(how, sizeof how, "hang-in-%s", kPhase[shm->phase]);
    }
    else if (WIFSIGNALED(st)) snprintf(how, sizeof how, "crash-signal%d-in-%s", WTERMSIG(st), kPhase[shm->phase]);
    else snprintf(how, sizeof how, "child-exit%d-in-%s", WEXITSTATUS(st), kPhase[shm->phase]);
    if (++crash_sigs[how] <= 3) printf("%s sig=%s :: %s\n", VIOLTAG(), how, run_str(shm->prog, std::vector<Act>(shm->sched, shm->sched + shm->nsched)).c_str());
    start = shm->cur_prog + nparts; shm->programs++;
    if (++restarts >= 4) { printf("@CAP %s: 4 hung/crashed programs in part %ld/%ld, enumeration stopped at program %ld of %ld\n", tag.c_str(), part, nparts, start, total); break; }
  }
  // the main context's step before every scheduler round hangs on the deferred calls the Scheduler queues through the loop proxy: if
  // routines ran but that step never happened, every "before a round" point of the rule has silently disappeared
  if (shm->started > 0 && shm->hookpoints == 0) printf("@CAP %s: harness-blind - routines ran but no scheduler round was ever announced through the loop proxy (part %ld/%ld)\n", tag.c_str(), part, nparts);
  printf("@STAT loops=%ld programs=%ld executions=%ld transitions=%ld states=%ld traces=%ld quiescent_checks=%ld violating_runs=%ld cancels=%ld midrun_cleanups=%ld main_context_posts=%ld second_sessions=%ld second_sessions_after_loop_turn=%ld scheduler_rounds_announced=%ld destroyed_with_live_routines=%ld main_context_creates=%ld\n",
         shm->loops, shm->programs, shm->executions, shm->transitions, shm->states, shm->traces, shm->qchecks, shm->viol_runs, shm->cancels, shm->cleanups_mid, shm->mainposts, shm->sessions2, shm->sessions2_turn, shm->hookpoints, shm->dtors_live, shm->maincreates);
  printf("@INFO %s part %ld/%ld: scripts=%ld programs_total=%ld NR=%d maxlen=%d maxtotal=%d maxacts=%d param=%d restarts=%d\n", tag.c_str(), part, nparts, NS, total, NR, maxlen, maxtotal, maxacts, param, restarts);
  return 0;
}

// replay "param=0 | r0=[recv send] r1=[send recv] | main=[pass cancel(r1)] ..."
static int replay_main(const std::string &t) {
  Prog p; std::vector<Act> sched;
  size_t q = t.find("param="); if (q != std::string::npos) p.param = atoi(t.c_str() + q + 6);
  if (getenv("C18_NOREUSE")) g_reuse = false;
  if (getenv("C18_STACKDEFAULT")) STACK = ROUTINE_STACK_DEFAULT_SIZE;
  for (int r = 0; r < MAXNR; r++) {
    std::string key = "r" + std::to_string(r) + "=["; size_t a = t.find(key); if (a == std::string::npos) break; a += key.size(); size_t b = t.find(']', a);
    p.nr = r + 1; std::string body = t.substr(a, b - a); size_t i = 0;
    while (i < body.size()) { size_t j = body.find(' ', i); if (j == std::string::npos) j = body.size(); if (j > i) { int o = op_by_name(body.substr(i, j - i)); if (o < 0 || p.s[r].n >= MAXLEN) { fprintf(stderr, "bad op\n"); return 2; } p.s[r].op[p.s[r].n++] = (uint8_t)o; } i = j + 1; }
  }
  size_t a = t.find("main=["); if (a != std::string::npos) { a += 6; size_t b = t.find(']', a); std::string body = t.substr(a, b - a); size_t i = 0;
    while (i < body.size()) { size_t j = body.find(' ', i); if (j == std::string::npos) j = body.size(); std::string w = body.substr(i, j - i); i = j + 1; if (w.empty()) continue;
      if (w == "pass") sched.push_back({A_PASS, 0}); else if (w == "cleanup") sched.push_back({A_CLEANUP, 0});
      else if (w == "cleanup+turn") sched.push_back({A_CLEANUPT, 0}); else if (w == "create") sched.push_back({A_CREATE, 0});
      else if (w == "send") sched.push_back({A_SEND, 0}); else if (w == "rel") sched.push_back({A_REL, 0}); else if (w == "bpost") sched.push_back({A_BPOST, 0});
      else if (w == "cpost1") sched.push_back({A_CPOST1, 0}); else if (w == "cpost2") sched.push_back({A_CPOST2, 0});
      else if (w.compare(0, 8, "resume(r") == 0) sched.push_back({A_RESUME, (uint8_t)atoi(w.c_str() + 8)}); else if (w.compare(0, 8, "cancel(r") == 0) sched.push_back({A_CANCEL, (uint8_t)atoi(w.c_str() + 8)}); } }
  shm = (Shm *)mmap(nullptr, sizeof(Shm), PROT_READ | PROT_WRITE, MAP_SHARED | MAP_ANONYMOUS, -1, 0);
  signal(SIGALRM, on_alarm); signal(SIGPROF, on_alarm); arm_watchdog();
  RunOut o = run(p, sched, true);
  printf("run: %s\ntrace: %s\nidle state: %s\n", run_str(p, sched).c_str(), o.trace.c_str(), o.outcome.c_str());
  for (auto &v : o.viols) printf("violation: %s:main=%s\n", v.first.c_str(), v.second.c_str());
  if (o.viols.empty()) printf("no violation\n");
  return 0;
}

int main(int argc, char **argv) {
  setvbuf(stdout, nullptr, _IOLBF, 0);
  if (argc >= 3 && !strcmp(argv[1], "replay")) return replay_main(argv[2]);
  if (argc >= 10 && !strcmp(argv[1], "enum")) return enum_main(argc, argv);
  fprintf(stderr, "usage: %s enum <tag> <ops> <NR> <maxlen> <maxacts> <param> <part> <nparts> [maxtotal [flags]] | replay \"<text>\"\n", argv[0]);
  return 2;
}
