import os, time, vf
PID = "C02"
def main(tier, args):
    t0 = time.time()
    # eventx/timer_pool.cpp is #included by the harness (to read TimerPool::Impl's cabinet for the state key), so it is not linked separately
    srcs = vf.module_sources("event")
    stub = [vf.VERIF + "/engine/sched/log_stub.cpp"]
    exe = vf.build("C02/timers", [vf.VERIF + "/checks/C02/harness.cpp"], srcs, mode="asan", plain_srcs=stub)
    # second build as C++14: TimerPool::doAfter has a separate "#if __cplusplus >= 201402L" branch (move-captured callback)
    exe14 = vf.build("C02/timers14", [vf.VERIF + "/checks/C02/harness.cpp"], srcs, mode="asan", extra_flags=["-std=c++14"], plain_srcs=stub)
    quick = tier == "quick"
    dt, dp, dl, np = (5, 5, 240, 4) if quick else (7, 7, 1300, 8)       # dl: per-process real-time deadline (s); the harness virtualises the clock only while code under test runs, so the deadline is effective
    d_reinit = 6 if quick else 7        # configuration 3 (2 timers, every initialize() variant, one timer born uninitialised)
    d_sleep = 5 if quick else 6         # configuration 4 (exitLoop(T) + runLoop(kForever), simulated sleep)
    d_big = 4 if quick else 6           # configurations 5..10 (intervals around 2^31, 2^32, 2^33 ms and 30/60/75 days)
    # configuration 11 (an interval / exit wait in [2^31, 2^32) ms in the sleeping lane) was off until the repair in /repo: before it the epoll back-end
    # hands getWaitTime()'s int64 to epoll_wait's int, the time-out turned negative and the loop blocked for ever
    big_sleep = os.environ.get("C02_BIG_SLEEP", "1") not in ("", "0")      # on by default since the repair in /repo (epoll wait clamped to INT_MAX); C02_BIG_SLEEP=0 turns it off
    res = vf.Result(); log = open(vf.BUILD + "/C02/log.txt", "w")
    jobs = []
    for e in ("epoll", "select"):
        for cfg in (0, 1, 2, 3, 4):
            if quick and ((cfg == 1 and e != "epoll") or (cfg == 2 and e != "select")): continue      # quick: the two 4-timer configurations on one back-end each (the timer code is common to both back-ends)
            d = {0: dt, 1: dt if not quick else dt - 1, 2: dt if not quick else dt - 1, 3: d_reinit, 4: d_sleep}[cfg]      # quick: the 4-timer configurations one level shallower
            for p in range(np):
                jobs.append(("timer:%s:cfg%d:p%d" % (e, cfg, p), [exe, "timer", e, str(d), str(cfg), str(p), str(np)]))
        for cfg in (5, 6, 7, 8, 9, 10):
            jobs.append(("timer:%s:cfg%d" % (e, cfg), [exe, "timer", e, str(d_big), str(cfg)]))
        if big_sleep:
            jobs.append(("timer:%s:cfg11" % e, [exe, "timer", e, "3", "11"], {"C02_BIG_SLEEP": "1"}))
        # heap lane: every insertion order of 6 (quick) / 6,7,8 (thorough) one-shot timers x every single removal
        jobs.append(("heap:%s:n6" % e, [exe, "heap", e, "6", "0", "1"]))
        for p in range(4): jobs.append(("heap:%s:n7:p%d" % (e, p), [exe, "heap", e, "7", str(p), "4"]))
        if not quick:
            for p in range(8): jobs.append(("heap:%s:n8:p%d" % (e, p), [exe, "heap", e, "8", str(p), "8"]))
        # heap lane B: persistent timers, removal at tick k (top level / inside a callback), re-insert; epoll with de-pooled, select with pooled timer records
        pooled = "1" if e == "select" else "0"
        for p in range(4): jobs.append(("heapb:%s:n6:p%d" % (e, p), [exe, "heapb", e, "6", str(p), "4", pooled]))
        if not quick:
            for p in range(16): jobs.append(("heapb:%s:n7:p%d" % (e, p), [exe, "heapb", e, "7", str(p), "16", pooled]))
        # late lane: one pass after 1e2 / 1e3 / 1e5 ms of lateness
        jobs.append(("late:%s" % e, [exe, "late", e, pooled]))
        dpool = dp if not quick else dp - 1
        for p in range(np):
            if e == "select" or not quick: jobs.append(("pool:%s:p%d" % (e, p), [exe, "pool", e, str(dpool), "0", str(p), str(np)]))
            if e == "epoll": jobs.append(("pool14:%s:p%d" % (e, p), [exe14, "pool", e, str(dpool), "0", str(p), str(np)], {"C02_POOLED": "1"}))
    if args.only: jobs = [j for j in jobs if j[0] == args.only]
    vf.run_procs(res, jobs, env={"VERIF_DEADLINE_S": str(dl)}, log=log)
    vf.finish(PID, tier, res, t0,
              rule="BFS over all histories (depth %d; 4-timer configurations and pool one less in the quick tier, where configuration 1 runs on epoll and configuration 2 on select only) of enable/disable/destroy/reinit/advance(0,1,2,3,7 ms)+loop-pass/tick(3 ms, clock moves without a pass so the next op meets overdue timers)/tick(400 us, configuration 4) on 3-4 real TimerEvents (persistent and one-shot, intervals 1-5 ms, equal deadlines included) "
                   "with ONE callback script out of: disable-self, reenable-self, disable/destroy/enable/restart another timer, each of the last five also after a slow callback (clock +2 ms inside the pass), slow only, initialize() with unchanged parameters on itself/another timer with or without a following enable, "
                   "disable/destroy/enable/restart of a timer from the runNext callback of every pass (after the timer scan of the same iteration) - or TWO of the six plain scripts on two different timers; "
                   "configuration 3 (depth %d): 2 timers, one of them never initialised at first (enable/disable before initialize must leave it silent), initialize(same parameters | other interval | other mode) at top level and in callbacks, mode is per-run model state; "
                   "configuration 4 (depth %d, timer records pooled): 3 timers with exitLoop(T in 1,4,7 ms)+runLoop(kForever) where epoll_wait/select are interposed so that the time-out the loop asks for elapses on the virtual clock, exactly or (T=7) cut to half (early wake-up); "
                   "a -1 time-out while a timer or the exit timer is pending, a time-out longer than the time to the earliest model deadline, returning before T, or not returning, is a violation; callbacks may also call exitLoop(2 ms) once; "
                   "configurations 5-10 (depth %d, plain scripts, no pairs): a one-shot and a persistent timer with intervals 2^31+-1, 2^32+3/-1, 2^33+-1 ms, 30, 60, 75 days (+-1 ms) beside a 2 ms one-shot, advance to 2 ms before / exactly the smaller deadline (ops that would owe more than 64 callbacks are skipped); "
                   "(depth %d) doEvery/doAfter/doAt/cancel/cleanup/delete-pool (then only advance/tick)/advance/tick on the real TimerPool with callbacks that cancel themselves, an older or a newer timer, clean up, add doAfter (also after a slow callback) or doEvery, built twice: C++11 with de-pooled timer records (select; thorough: both back-ends) and C++14 (the other doAfter branch) with pooled records (epoll); "
                   "heap lane: every enable order of 6 and 7 (thorough also 8) one-shot timers with distinct deadlines x every single disable/destroy, 1 ms steps; "
                   "heap lane B: every enable order of 6 (thorough also 7) persistent timers with intervals 1..n, 1 ms steps, at tick k in 1..n one victim is disabled (and enabled again two ticks later) or destroyed, at top level or inside another timer's callback during the scan, k+n+3 passes; "
                   "late lane: every subset of {every 1, 7, 1000 ms, once after 5 ms}, enabled together or 3 ms apart, lateness 1e2/1e3/1e5 ms then ONE pass, twice: firing count == floor((now-t)/d), deadline order; "
                   "virtual clocks: monotonic in ms+us, CLOCK_REALTIME/gettimeofday = monotonic + 1.7e12 ms; both back-ends; reference = per-timer deadline model (deadline = floor-ms clock at enable + interval, += interval per firing) checked inside every callback (not early, deadline order, enabled, alive) and after every pass (nothing due at the time the pass woke up is left unfired); "
                   "state key = model + the loop's timer heap in array order + timer cabinet cell/free-list shape + each enabled timer's cabinet cell (+ TimerPool's own cabinet shape, id counter and number of cleanups), private members read through SFINAE probes (fallback: op history); ASan" % (dt, d_reinit, d_sleep, d_big, dp),
              assumptions=["timers with equal deadlines may fire in either order (DESIGN 1.7)", "clock reads are interposed at clock_gettime (libstdc++ steady_clock / system_clock) and gettimeofday",
                           "granularity is 1 ms: the loop truncates the monotonic clock to whole milliseconds, so 'not before t+d' is judged on floor(clock/1ms) - a timer enabled at x.9 ms with d=1 may fire at (x+1).0",
                           "run-for lane: the back-end sleeps what it is asked to (or half of it), a sub-millisecond select time-out counts as 1 ms, 8 consecutive zero time-outs as 1 ms; a wake-up later than requested is not modelled there (the pass lanes do that)",
                           "a timer that becomes due because a callback of the same pass was slow need not fire in that pass (due is judged against the clock at wake-up)",
                           "raw CommonLoop::addTimer with repeat >= 2 is not driven (TimerEvent only issues 0 and 1); return values of enable/disable/initialize are not judged; no op is issued from runInLoop or FdEvent callbacks (runNext covers 'after the scan, loop running')",
                           "intervals in [2^31, 2^32) ms in the SELF-SLEEPING lane (configuration 11) are explored by default since the repair in /repo (before it the epoll back-end passed a 64-bit wait to epoll_wait's int -> negative -> blocked for ever on exitLoop(2147483653)+runLoop(kForever)); C02_BIG_SLEEP=0 turns the configuration off"])
