import time, vf
PID = "C02"
def main(tier, args):
    t0 = time.time()
    exe = vf.build("C02/timers", [vf.VERIF + "/checks/C02/harness.cpp"], vf.module_sources("event", "eventx/timer_pool.cpp"), mode="asan",
                   plain_srcs=[vf.VERIF + "/engine/sched/log_stub.cpp"])
    dt, dp, dl, np = (5, 5, 80, 4) if tier == "quick" else (7, 7, 1300, 8)
    res = vf.Result(); log = open(vf.BUILD + "/C02/log.txt", "w")
    jobs = []
    for e in ("epoll", "select"):
        for cfg in (0, 1, 2):
            d = dt if (cfg == 0 or tier != "quick") else dt - 1       # quick: the 4-timer configurations one level shallower
            for p in range(np):
                jobs.append(("timer:%s:cfg%d:p%d" % (e, cfg, p), [exe, "timer", e, str(d), str(cfg), str(p), str(np)]))
        # heap lane: every insertion order of 6 (quick) / 6,7,8 (thorough) one-shot timers x every single removal
        jobs.append(("heap:%s:n6" % e, [exe, "heap", e, "6", "0", "1"]))
        for p in range(4): jobs.append(("heap:%s:n7:p%d" % (e, p), [exe, "heap", e, "7", str(p), "4"]))
        if tier != "quick":
            for p in range(8): jobs.append(("heap:%s:n8:p%d" % (e, p), [exe, "heap", e, "8", str(p), "8"]))
        for p in range(np):
            jobs.append(("pool:%s:p%d" % (e, p), [exe, "pool", e, str(dp if tier != "quick" else dp - 1), "0", str(p), str(np)]))
    if args.only: jobs = [j for j in jobs if j[0] == args.only]
    vf.run_procs(res, jobs, env={"VERIF_DEADLINE_S": str(dl)}, log=log)
    vf.finish(PID, tier, res, t0,
              rule="BFS over all histories (depth %d; 4-timer configurations and pool one less in the quick tier) of enable/disable/destroy/reinit/advance(0,1,2,3,7 ms)+loop-pass on 3-4 real TimerEvents (persistent and one-shot, intervals 1-5 ms, equal deadlines included) "
                   "with callback scripts that disable/destroy/enable/restart another timer or themselves, and (depth %d) of doEvery/doAfter/cancel/cleanup/advance on the real TimerPool with callbacks that cancel, clean up and add timers; "
                   "plus a heap lane: every enable order of 6 and 7 (thorough also 8) one-shot timers with distinct deadlines x every single disable/destroy, 1 ms steps; virtual monotonic clock; both back-ends; reference = per-timer deadline model checked inside every callback (not early, deadline order, enabled, alive) and after every pass (nothing due left unfired); ASan with the timer record pool de-pooled" % (dt, dp),
              assumptions=["timers with equal deadlines may fire in either order (DESIGN 1.7)", "clock reads are interposed at clock_gettime (libstdc++ steady_clock)"])
