// C02: TimerEvent / TimerPool on the real loop under a virtual monotonic clock (engine H).
// usage: harness timer <engine> <depth> <config> | harness pool <engine> <depth>
#include "hist/hist.h"
#include <tbox/event/loop.h>
#include <tbox/event/timer_event.h>
#include <tbox/event/common_loop.h>
#include <tbox/eventx/timer_pool.h>
#include <time.h>
#include <sys/time.h>

static long long vnow = 1000000;     // virtual milliseconds
extern "C" int clock_gettime(clockid_t, struct timespec *ts) { ts->tv_sec = vnow / 1000; ts->tv_nsec = (vnow % 1000) * 1000000; return 0; }
extern "C" int gettimeofday(struct timeval *tv, void *) { if (tv) { tv->tv_sec = vnow / 1000; tv->tv_usec = (vnow % 1000) * 1000; } return 0; }
using namespace tbox::event;

enum K { ENABLE, DISABLE, DESTROY, ADVANCE, SCRIPT, REINIT };
enum A { NONE, DIS_SELF, DIS_OTHER, DESTROY_OTHER, REENABLE_SELF, ENABLE_OTHER, RESTART_OTHER };
struct Op { int k, t, a, o; };
static const char *kN[] = {"enable", "disable", "destroy", "advance+pass", "script", "reinit"};
static const char *aN[] = {"none", "disable-self", "disable-other", "destroy-other", "reenable-self", "enable-other", "restart-other"};

static void pass(Loop *loop) { loop->runNext([] {}); loop->runLoop(Loop::Mode::kOnce); }

static int g_part = 0, g_nparts = 1;
static int timer_mode(const std::string &eng, size_t depth, int config) {
  static const int IVS[3][4] = {{2, 3, 2, 0}, {1, 5, 3, 2}, {2, 2, 2, 2}}; static const bool PER[3][4] = {{true, false, true, false}, {true, false, true, false}, {true, true, false, false}};
  static const int NTS[3] = {3, 4, 4};
  const int NT = NTS[config]; const int *IV0 = IVS[config]; const bool *PERSIST = PER[config];
  hx::Explorer<Op> ex; ex.name = "timer-" + eng + "-cfg" + std::to_string(config) + "-part" + std::to_string(g_part); ex.deadline_s = hx::deadline_from_env(600); ex.part = g_part; ex.nparts = g_nparts;
  ex.show = [](const Op &o) { char b[64]; if (o.k == SCRIPT) snprintf(b, 64, "script(t%d:%s->t%d)", o.t, aN[o.a], o.o); else if (o.k == ADVANCE) snprintf(b, 64, "advance(%d)+pass", o.a); else snprintf(b, 64, "%s(t%d)", kN[o.k], o.t); return std::string(b); };
  ex.menu = [&](const std::vector<Op> &h) {
    std::vector<Op> m;
    for (int t = 0; t < NT; t++) { m.push_back({ENABLE, t, 0, 0}); m.push_back({DISABLE, t, 0, 0}); m.push_back({DESTROY, t, 0, 0}); }
    for (int d : {0, 1, 2, 3, 7}) m.push_back({ADVANCE, 0, d, 0});
    m.push_back({REINIT, 0, 0, 0}); m.push_back({REINIT, 1, 0, 0});
    bool only_scripts = true; for (auto &o : h) if (o.k != SCRIPT) only_scripts = false;
    if (only_scripts && h.size() < 2) for (int t = 0; t < NT; t++) { m.push_back({SCRIPT, t, DIS_SELF, t}); m.push_back({SCRIPT, t, REENABLE_SELF, t});
      for (int o = 0; o < NT; o++) if (o != t) for (int a : {DIS_OTHER, DESTROY_OTHER, ENABLE_OTHER, RESTART_OTHER}) m.push_back({SCRIPT, t, a, o}); }
    return m; };
  ex.run = [&](const std::vector<Op> &h, std::string &viol) {
    vnow = 1000000; Loop *loop = Loop::New(eng); auto cl = static_cast<CommonLoop *>(loop); cl->timer_object_pool_.keep_number_ = 0;   // de-pool: ASan sees stale Timer records
    TimerEvent *tm[4]; bool alive[4]; int act[4] = {0, 0, 0, 0}, oth[4] = {0, 0, 0, 0}; int IV[4]; long fires[4] = {0, 0, 0, 0};
    struct M { bool en = false; long long dl = 0; }; M md[4]; long long last_dl = -1;
    for (int t = 0; t < NT; t++) { IV[t] = IV0[t]; tm[t] = loop->newTimerEvent("t"); tm[t]->initialize(std::chrono::milliseconds(IV[t]), PERSIST[t] ? Event::Mode::kPersist : Event::Mode::kOneshot); alive[t] = true; }
    auto m_enable = [&](int t) { if (!md[t].en) { md[t].en = true; md[t].dl = vnow + IV[t]; } };      // a (re-)enable starts a fresh full interval
    auto m_disable = [&](int t) { md[t].en = false; };
    for (int t = 0; t < NT; t++) tm[t]->setCallback([&, t] {
      if (!viol.empty()) return;
      if (!alive[t]) { viol = "callback-on-destroyed-timer"; return; }
      if (!md[t].en) { viol = "callback-on-disabled-timer"; return; }
      if (vnow < md[t].dl) { viol = "fired-early"; return; }
      for (int u = 0; u < NT; u++) if (alive[u] && md[u].en && md[u].dl < md[t].dl) { viol = "not-in-deadline-order"; return; }
      if (md[t].dl < last_dl) { viol = "deadline-order-regress"; return; } last_dl = md[t].dl; fires[t]++;
      if (PERSIST[t]) md[t].dl += IV[t]; else { md[t].en = false; if (tm[t]->isEnabled()) { viol = "oneshot-still-enabled-in-its-callback"; return; } }
      int o = oth[t];
      switch (act[t]) {
        case DIS_SELF: tm[t]->disable(); m_disable(t); break;
        case DIS_OTHER: if (alive[o]) { tm[o]->disable(); m_disable(o); } break;
        case DESTROY_OTHER: if (alive[o]) { m_disable(o); alive[o] = false; delete tm[o]; tm[o] = nullptr; } break;
        case REENABLE_SELF: tm[t]->disable(); m_disable(t); tm[t]->enable(); m_enable(t); break;
        case ENABLE_OTHER: if (alive[o]) { tm[o]->enable(); m_enable(o); } break;
        case RESTART_OTHER: if (alive[o]) { tm[o]->disable(); m_disable(o); tm[o]->enable(); m_enable(o); } break;
      } });
    for (auto &o : h) { if (!viol.empty()) break;
      switch (o.k) {
        case ENABLE: if (alive[o.t]) { tm[o.t]->enable(); m_enable(o.t); } break;
        case DISABLE: if (alive[o.t]) { tm[o.t]->disable(); m_disable(o.t); } break;
        case DESTROY: if (alive[o.t]) { m_disable(o.t); alive[o.t] = false; delete tm[o.t]; tm[o.t] = nullptr; } break;
        case REINIT: if (alive[o.t]) { IV[o.t] = IV0[o.t] + 1; tm[o.t]->initialize(std::chrono::milliseconds(IV[o.t]), PERSIST[o.t] ? Event::Mode::kPersist : Event::Mode::kOneshot); m_disable(o.t); } break;
        case ADVANCE: { vnow += o.a; last_dl = -1; pass(loop);
          for (int t = 0; t < NT; t++) if (viol.empty() && alive[t] && md[t].en && md[t].dl <= vnow) viol = "due-timer-did-not-fire";   // no period skipped, however late the loop woke
        } break;
        case SCRIPT: act[o.t] = o.a; oth[o.t] = o.o; break; }
      for (int t = 0; t < NT && viol.empty(); t++) if (alive[t] && tm[t]->isEnabled() != md[t].en) viol = "isEnabled-mismatch";
    }
    std::string c; for (int t = 0; t < NT; t++) { char b[64]; snprintf(b, 64, "%d%d:%lld:%d:%d%d|", (int)alive[t], (int)md[t].en, md[t].en ? md[t].dl - vnow : 0, IV[t], act[t], oth[t]); c += b; }
    // heap as multiset of (deadline-now, interval, repeat)
    std::vector<std::string> hp; for (auto *x : cl->timer_min_heap_) { char b[64]; snprintf(b, 64, "%lld/%llu/%llu", (long long)x->expired - vnow, (unsigned long long)x->interval, (unsigned long long)x->repeat); hp.push_back(b); }
    std::sort(hp.begin(), hp.end()); for (auto &s : hp) c += s + ","; c += "#" + std::to_string(cl->timer_cabinet_.size());
    for (int t = 0; t < NT; t++) if (alive[t]) delete tm[t];
    pass(loop); delete loop; return c; };
  ex.explore(depth); return 0;
}

// ---------------------------------------------------------------------------------------------
enum PK { P_EVERY, P_AFTER, P_CANCEL, P_ADVANCE, P_CLEANUP, P_AT };
enum PA { PA_NONE, PA_CANCEL_SELF, PA_CANCEL_OLDER, PA_CLEANUP_THEN_AFTER, PA_ADD_AFTER };
static const char *paN[] = {"none", "cancel-self", "cancel-older", "cleanup-then-doAfter", "add-doAfter"};
struct POp { int k, a, b; };
static int pool_mode(const std::string &eng, size_t depth) {
  using tbox::eventx::TimerPool;
  hx::Explorer<POp> ex; ex.name = "pool-" + eng + "-part" + std::to_string(g_part); ex.deadline_s = hx::deadline_from_env(600); ex.part = g_part; ex.nparts = g_nparts;
  ex.show = [](const POp &o) { char b[64]; switch (o.k) { case P_EVERY: snprintf(b, 64, "doEvery(%d,%s)", o.a, paN[o.b]); break; case P_AFTER: snprintf(b, 64, "doAfter(%d,%s)", o.a, paN[o.b]); break; case P_AT: snprintf(b, 64, "doAt(now+%d,%s)", o.a, paN[o.b]); break; case P_CANCEL: snprintf(b, 64, "cancel(#%d)", o.a); break; case P_ADVANCE: snprintf(b, 64, "advance(%d)+pass", o.a); break; default: snprintf(b, 64, "cleanup"); } return std::string(b); };
  ex.menu = [&](const std::vector<POp> &h) {
    std::vector<POp> m; int issued = 0; for (auto &o : h) if (o.k == P_EVERY || o.k == P_AFTER || o.k == P_AT) issued++;
    if (issued < 3) for (int iv : {1, 2}) for (int a = 0; a <= PA_ADD_AFTER; a++) { m.push_back({P_EVERY, iv, a}); m.push_back({P_AFTER, iv, a}); }
    if (issued < 3) m.push_back({P_AT, 2, PA_NONE});       // absolute wall-clock time point (the virtual clock serves every clock id)
    for (int i = 0; i < issued; i++) m.push_back({P_CANCEL, i, 0});
    for (int d : {0, 1, 2, 5}) m.push_back({P_ADVANCE, d, 0});
    m.push_back({P_CLEANUP, 0, 0}); return m; };
  ex.run = [&](const std::vector<POp> &h, std::string &viol) {
    vnow = 1000000; Loop *loop = Loop::New(eng); auto cl = static_cast<CommonLoop *>(loop); cl->timer_object_pool_.keep_number_ = 0;
    TimerPool *pool = new TimerPool(loop);
    struct T { TimerPool::TimerToken tok; bool persist; int iv; bool live; long long dl; long fires; int act; };
    std::vector<T> ts; long long last_dl = -1;
    std::function<int(bool, int, int)> add = [&](bool persist, int iv, int act) -> int {
      int idx = (int)ts.size(); ts.push_back(T{TimerPool::TimerToken(), persist, iv, true, vnow + iv, 0, act});
      auto cb = [&, idx] {
        if (!viol.empty()) return; T &x = ts[idx];
        if (!x.live) { viol = "pool-callback-after-cancel-or-cleanup"; return; }
        if (vnow < x.dl) { viol = "pool-fired-early"; return; }
        for (auto &u : ts) if (u.live && u.dl < x.dl) { viol = "pool-not-in-deadline-order"; return; }
        if (x.dl < last_dl) { viol = "pool-deadline-order-regress"; return; } last_dl = x.dl; x.fires++;
        if (x.persist) x.dl += x.iv; else x.live = false;
        switch (ts[idx].act) {
          case PA_CANCEL_SELF: { bool r = pool->cancel(ts[idx].tok); if (ts[idx].persist) { if (!r) viol = "pool-cancel-self-false"; ts[idx].live = false; } } break;
          case PA_CANCEL_OLDER: if (idx > 0) { bool was = ts[idx - 1].live; bool r = pool->cancel(ts[idx - 1].tok); if (r != was) viol = "pool-cancel-answer-disagrees-with-liveness"; ts[idx - 1].live = false; } break;
          case PA_CLEANUP_THEN_AFTER: pool->cleanup(); for (auto &u : ts) u.live = false; add(false, 1, PA_NONE); break;
          case PA_ADD_AFTER: if (ts.size() < 6) add(false, 1, PA_NONE); break;
        } };
      TimerPool::TimerToken tok = persist ? pool->doEvery(std::chrono::milliseconds(iv), cb) : pool->doAfter(std::chrono::milliseconds(iv), cb);
      ts[idx].tok = tok; if (tok.isNull()) viol = "pool-null-token"; return idx; };
    std::vector<int> top;
    for (auto &o : h) { if (!viol.empty()) break;
      switch (o.k) {
        case P_AT: { int idx = (int)ts.size(); ts.push_back(T{TimerPool::TimerToken(), false, o.a, true, vnow + o.a, 0, PA_NONE});
          auto tp = std::chrono::system_clock::now() + std::chrono::milliseconds(o.a);
          ts[idx].tok = pool->doAt(tp, [&, idx] { if (!viol.empty()) return; T &x = ts[idx]; if (!x.live) { viol = "pool-callback-after-cancel-or-cleanup"; return; } if (vnow < x.dl) { viol = "pool-fired-early"; return; } x.fires++; x.live = false; });
          if (ts[idx].tok.isNull()) viol = "pool-null-token"; top.push_back(idx); } break;
        case P_EVERY: top.push_back(add(true, o.a, o.b)); break;
        case P_AFTER: top.push_back(add(false, o.a, o.b)); break;
        case P_CANCEL: { T &x = ts[top[o.a]]; bool r = pool->cancel(x.tok); if (r != x.live) viol = "pool-cancel-answer-disagrees-with-liveness"; x.live = false; } break;
        case P_CLEANUP: pool->cleanup(); for (auto &u : ts) u.live = false; break;
        case P_ADVANCE: vnow += o.a; last_dl = -1; pass(loop);
          for (auto &u : ts) if (viol.empty() && u.live && u.dl <= vnow) viol = "pool-due-timer-did-not-fire";
          break; }
    }
    std::string c; for (auto &u : ts) { char b[64]; snprintf(b, 64, "%d%d:%lld:%d:%d|", (int)u.live, (int)u.persist, u.live ? u.dl - vnow : 0, u.iv, u.act); c += b; }
    std::vector<std::string> hp; for (auto *x : cl->timer_min_heap_) { char b[64]; snprintf(b, 64, "%lld/%llu/%llu", (long long)x->expired - vnow, (unsigned long long)x->interval, (unsigned long long)x->repeat); hp.push_back(b); }
    std::sort(hp.begin(), hp.end()); for (auto &s : hp) c += s + ","; c += "#" + std::to_string(cl->timer_cabinet_.size());
    delete pool; pass(loop); delete loop; return c; };
  ex.explore(depth); return 0;
}

// ---------------------------------------------------------------------------------------------
// heap lane (engine I): n one-shot timers with intervals 1..n ms enabled in EVERY order, one of them then disabled or destroyed,
// the clock then advanced 1 ms per pass: every remaining timer must fire exactly in the pass of its deadline, in deadline order.
static int heap_mode(const std::string &eng, int n, int part, int nparts) {
  size_t runs = 0, bad = 0; std::vector<int> perm(n); for (int i = 0; i < n; i++) perm[i] = i + 1;
  size_t pi = 0;
  do { if ((int)(pi++ % (size_t)nparts) != part) continue;
    for (int victim = 0; victim < n; victim++) for (int how = 0; how < 2; how++) {
      vnow = 1000000; Loop *loop = Loop::New(eng); auto cl = static_cast<CommonLoop *>(loop); cl->timer_object_pool_.keep_number_ = 0;
      std::vector<TimerEvent *> tm(n); std::vector<long long> fired_at(n, -1); std::string viol; long long last_dl = -1;
      for (int i = 0; i < n; i++) { tm[i] = loop->newTimerEvent("h"); tm[i]->initialize(std::chrono::milliseconds(perm[i]), Event::Mode::kOneshot);
        tm[i]->setCallback([&, i] { if (i == victim) viol = "heap-removed-timer-fired"; if (fired_at[i] >= 0) viol = "heap-oneshot-fired-twice"; fired_at[i] = vnow;
          long long dl = 1000000 + perm[i]; if (vnow < dl) viol = "heap-fired-early"; if (dl < last_dl) viol = "heap-not-in-deadline-order"; last_dl = dl; });
        tm[i]->enable(); }
      if (how == 0) tm[victim]->disable(); else { delete tm[victim]; tm[victim] = nullptr; }
      for (int t = 1; t <= n + 1 && viol.empty(); t++) { vnow = 1000000 + t; pass(loop);
        for (int i = 0; i < n; i++) if (i != victim && perm[i] <= t && fired_at[i] < 0) viol = "heap-due-timer-did-not-fire"; }
      runs++;
      if (!viol.empty() && bad++ < 3) { std::string d; for (int i = 0; i < n; i++) d += std::to_string(perm[i]) + " "; printf("@VIOL sig=%s :: %s: enable one-shot timers with intervals [%s] in this order, then %s #%d (interval %d), then advance 1 ms per pass\n", viol.c_str(), eng.c_str(), d.c_str(), how ? "destroy" : "disable", victim, perm[victim]); }
      if (runs == 1) { std::string d; for (int i = 0; i < n; i++) d += std::to_string(perm[i]) + " "; printf("@SAMPLE heap lane %s n=%d: order [%s] remove #%d\n", eng.c_str(), n, d.c_str(), victim); }
      for (auto *t : tm) delete t; pass(loop); delete loop;
    }
  } while (std::next_permutation(perm.begin(), perm.end()));
  printf("@STAT states=%zu transitions=%zu executions=%zu violations=%zu\n", runs, runs * (size_t)(n + 1), runs, bad); return 0;
}

int main(int argc, char **argv) {
  if (argc > 1 && std::string(argv[1]) == "heap") { hx::install_crash_reporter("C02-crash"); hx::set_current("heap lane"); return heap_mode(argc > 2 ? argv[2] : "epoll", argc > 3 ? atoi(argv[3]) : 6, argc > 4 ? atoi(argv[4]) : 0, argc > 5 ? atoi(argv[5]) : 1); }
  std::string mode = argc > 1 ? argv[1] : "timer", eng = argc > 2 ? argv[2] : "epoll"; size_t depth = argc > 3 ? atoi(argv[3]) : 5; int cfg = argc > 4 ? atoi(argv[4]) : 0; g_part = argc > 5 ? atoi(argv[5]) : 0; g_nparts = argc > 6 ? atoi(argv[6]) : 1;
  hx::install_crash_reporter("C02-crash");
  return mode == "pool" ? pool_mode(eng, depth) : timer_mode(eng, depth, cfg);
}
